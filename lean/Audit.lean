/-
  Audit: `lake env lean --run Audit.lean YtkProps.C05`
  Loads the compiled module, lists every theorem declared in it and prints, as JSON,
  its statement (pretty-printed), a hash of the statement and the axioms it depends on.
-/
import Lean
open Lean Meta

def allowedAxioms : List Name := [``propext, ``Classical.choice, ``Quot.sound]

unsafe def main (args : List String) : IO UInt32 := do
  let modStr := args.headD "YtkProps.C05"
  let modName := modStr.splitOn "." |>.foldl (fun n s => Name.str n s) Name.anonymous
  initSearchPath (← findSysroot)
  enableInitializersExecution
  let env ← importModules #[{ module := modName }] {} (loadExts := true)
  let some idx := env.getModuleIdx? modName
    | IO.eprintln s!"module {modStr} not found"; return 2
  let mut thms : Array Name := #[]
  for (n, ci) in env.constants.toList do
    if env.getModuleIdxFor? n == some idx then
      match ci with
      | .thmInfo _ =>
        if !n.isInternal && !(n.toString.splitOn "._").length > 1 then thms := thms.push n
      | _ => pure ()
  let sorted := thms.qsort (fun a b => a.toString < b.toString)
  let mut out : Array Json := #[]
  for n in sorted do
    let act : CoreM (Array Name × String) := do
      let axs ← Lean.collectAxioms n
      let ci ← getConstInfo n
      let fmt ← MetaM.run' (ppExpr ci.type)
      pure (axs, toString fmt)
    let ((axs, tyStr), _) ← act.toIO { fileName := "<audit>", fileMap := default, maxHeartbeats := 0 } { env := env }
    let axNames := axs.toList.map toString
    let ok := axs.all (fun a => allowedAxioms.contains a)
    out := out.push (Json.mkObj [
      ("name", .str n.toString), ("axioms", .arr (axNames.map Json.str).toArray),
      ("ok", .bool ok), ("statement_hash", .str (toString (hash tyStr))),
      ("statement", .str (if tyStr.length > 600 then (tyStr.take 600).toString ++ " …" else tyStr))])
  IO.println (Json.mkObj [("module", .str modStr), ("theorems", .arr out)]).compress
  return 0
