/-
  YtkModel.DocSetFiles — the file walkers of analytics/document_set.go at /repo HEAD (C18), namespace
  `Ytk.DocSetFiles`:

  Go                               model
  -------------------------------  ---------------------------------------------------------------
  AddDocumentFromFile              `addFromFile`        (open + decoder + FromReader = parameter `load`)
  AddDocumentsFromDirectory        `addFromDirectory`   (filepath.Glob = parameter `glob`)
  AddDocumentsFromManifest         `addFromManifest`    (k8s.ManifestFromFile = parameter over the model of
                                                         YtkModel/K8s.lean; the decoder per item = parameter)
  AddPropertiesFromManifest        `addPropertiesFromManifest` (k8s.Properties = parameter)

  Every found file / manifest item becomes ONE `DocSet.step … (.addFromReader name (some doc) opts)` of the
  existing document-set model.  The set is edited in place: the result is the set as it is when the call
  returns, together with how the call ended.

  ORDER.  AddDocumentsFromDirectory visits the files in the order filepath.Glob returns them (lexical
  within a directory) and STOPS at the first file that fails (open error, decoder error, a failing
  AddDocument under MustCreate); a nil decoder (unrecognised suffix) is called: panic.
  AddDocumentsFromManifest visits the items in the order `StringData().List()` returns them, which is
  the iteration order of a Go map — ANY order (`visit`); it IGNORES every error of
  AddDocumentFromReader (`_ =`: a decoder error and a MustCreate failure alike — the comment in the
  source only thinks of the reader) and always returns nil once the manifest was loaded; a nil
  decoder still panics.
-/
import YtkModel.DocSet
import YtkModel.K8s

namespace Ytk.DocSetFiles
open Ytk.DocSet

/-- how a call ended -/
abbrev End := Outcome Unit

/-- AddDocumentFromFile(file, dec, opts...): `load file` = FileOpener + FromReader(f, dec) — `.err` an open or
    decoder error, `.panic` a nil decoder; the document is registered under the FILE NAME -/
def addFromFile {δ : Type} (load : String → Outcome δ) (opts : List Opt) (s : State δ) (file : String) : State δ × End :=
  match load file with
  | .ok d =>
    match step s (.addFromReader file (some d) opts) with
    | (s', false) => (s', .ok ())
    | (s', true) => (s', .err)
  | .err => (s, .err)
  | .panic => (s, .panic)

/-- the loop of AddDocumentsFromDirectory: first failure stops -/
def addFiles {δ : Type} (load : String → Outcome δ) (opts : List Opt) : State δ → List String → State δ × End
  | s, [] => (s, .ok ())
  | s, f :: rest =>
    match addFromFile load opts s f with
    | (s', .ok _) => addFiles load opts s' rest
    | r => r

/-- AddDocumentsFromDirectory(pattern, decProv, opts...): `glob pattern = none` is ErrBadPattern -/
def addFromDirectory {δ : Type} (glob : String → Option (List String)) (load : String → Outcome δ) (opts : List Opt)
    (s : State δ) (pattern : String) : State δ × End :=
  match glob pattern with
  | none => (s, .err)
  | some files => addFiles load opts s files

/-- the name an item of a manifest is registered under: `fmt.Sprintf("%s/%s", manifest, item)` -/
def itemName (manifest item : String) : String := manifest ++ "/" ++ item

/-- the loop of AddDocumentsFromManifest over the items in visiting order: errors are dropped, a nil
    decoder panics (`decode item text`: decProv(item) through FromReader on the item's text) -/
def addItems {δ : Type} (decode : String → String → Outcome δ) (opts : List Opt) (manifest : String) (m : K8s.Manifest) :
    State δ → List String → State δ × End
  | s, [] => (s, .ok ())
  | s, item :: rest =>
    match K8s.strGet m item with
    | none => (s, .panic)            -- `*d.Get(item)` on a nil pointer (not reachable for items of List())
    | some text =>
      match decode item text with
      | .ok d => addItems decode opts manifest m (step s (.addFromReader (itemName manifest item) (some d) opts)).1 rest
      | .err => addItems decode opts manifest m s rest
      | .panic => (s, .panic)

/-- AddDocumentsFromManifest(manifest, decProv, opts...) when List() returns the items in the order `visit` -/
def addFromManifestIn {δ : Type} (loadManifest : String → Outcome K8s.Manifest) (decode : String → String → Outcome δ)
    (opts : List Opt) (visit : K8s.Manifest → List String) (s : State δ) (manifest : String) : State δ × End :=
  match loadManifest manifest with
  | .ok m => addItems decode opts manifest m s (visit m)
  | .err => (s, .err)
  | .panic => (s, .panic)

/-- the executable version: items in key order -/
def addFromManifest {δ : Type} (loadManifest : String → Outcome K8s.Manifest) (decode : String → String → Outcome δ)
    (opts : List Opt) (s : State δ) (manifest : String) : State δ × End :=
  addFromManifestIn loadManifest decode opts K8s.strList s manifest

/-- AddPropertiesFromManifest(manifest, opts...): `props manifest` = k8s.Properties(manifest).Document() -/
def addPropertiesFromManifest {δ : Type} (props : String → Option δ) (opts : List Opt) (s : State δ) (manifest : String) :
    State δ × End :=
  match props manifest with
  | none => (s, .err)
  | some d =>
    match step s (.add manifest d opts) with
    | (s', false) => (s', .ok ())
    | (s', true) => (s', .err)

/-- the steps a list of loaded files stands for -/
def fileOps {δ : Type} (opts : List Opt) (docs : List (String × δ)) : List (Op δ) :=
  docs.map fun p => .addFromReader p.1 (some p.2) opts

end Ytk.DocSetFiles
