/-
  YtkModel.Fluent — fluent/fluent.go (ConfigHelper) at /repo HEAD.  Namespace `Ytk.Fluent`.

  Go                                   model
  -----------------------------------  ---------------------------------------------------------
  configHelper[T]{c ContainerBuilder}  the children map of `c` (`AMap Node`)
  NewConfigHelper                      `init`
  any2dom                              `any2dom`   (yaml.v3 encode→decode into a map = parameter)
  Add(doc any)                         `add`       (`Doc`: a dom.Container, a map[string]interface{}, anything else)
  Load(file)                           `load`      (opener / filepath.Ext / text decoders = `TplFuncs.Files`)
  Save(file)                           `save`      (OpenFile and the text encoders = parameters)
  Mutate(fn)                           `mutate`    (fn = a history of builder calls, `BOp` of C03)
  Result() / dom2gen[T]                `result`    (yaml.v3 encode→decode into T = parameter)
  panicIfError                         `.panic` outcomes; a panicking call leaves the helper as it was
                                       (every panic of Add/Load/Result happens before `c.c` is assigned)

  Merging is `mergeC .meld` (C04): Add calls `c.c.Merge(dc)` without options.
-/
import YtkModel.Merge
import YtkModel.Codec
import YtkModel.Builder
import YtkModel.TplFuncs
import YtkModel.Heap

namespace Ytk.Fluent

/-- the accumulated document `c.c` -/
abbrev State := AMap Node

/-- NewConfigHelper: `b.Container()` -/
def init : State := []

/-- what can be handed to Add -/
inductive Doc (α : Type) where
  /-- `doc.(dom.Container)` holds (a ContainerBuilder is one) -/
  | dom (c : AMap Node)
  /-- a `map[string]interface{}` -/
  | map (m : List (String × Val))
  /-- anything else: goes through yaml.v3 -/
  | other (x : α)
  deriving Repr

/-- any2dom: a map is decoded directly (DefaultNodeDecoderFn); anything else is YAML-encoded and
    decoded into a map first — `viaYaml x = none` when either step fails (panicIfError) -/
def any2dom {α : Type} (viaYaml : α → Option (List (String × Val))) : Doc α → Outcome (AMap Node)
  | .dom c => .ok c
  | .map m => .ok (fromMap m)
  | .other x =>
    match viaYaml x with
    | none => .panic
    | some m => .ok (fromMap m)

/-- Add(doc): `c.c = c.c.Merge(<doc as a container>)` -/
def add {α : Type} (viaYaml : α → Option (List (String × Val))) (s : State) (d : Doc α) : Outcome State :=
  match any2dom viaYaml d with
  | .ok c => .ok (mergeC .meld s c)
  | .err => .err
  | .panic => .panic

/-- Load(file): open (panic on error), FromReader with the decoder of the suffix (a nil decoder is
    called: panic; a decoder error: panic), then Add of the container -/
def load {Γ : Type} (fl : TplFuncs.Files Γ) (s : State) (file : String) : Outcome State :=
  match TplFuncs.loadFile fl file with
  | .ok c => .ok (mergeC .meld s c)
  | .err => .panic
  | .panic => .panic

/-- Mutate(fn): `fn(c.c)`, fn being a history of builder calls on the root; the edits made before
    a panicking call stay (the builder is edited in place) -/
def mutate : State → List BOp → State × Bool
  | s, [] => (s, false)
  | s, e :: es =>
    match bstep s e with
    | .ok s' => mutate s' es
    | _ => (s, true)

/-- Result(): dom2gen[T] — YAML-encode DefaultNodeEncoderFn(c.c), decode into a `T`;
    `viaYaml v = none` when either step fails -/
def result {τ : Type} (viaYaml : List (String × Val) → Option τ) (s : State) : Outcome τ :=
  match viaYaml (asMap s) with
  | none => .panic
  | some t => .ok t

/-- what Save does to the file system -/
structure Saved where
  /-- the call panicked -/
  panicked : Bool
  /-- os.OpenFile(O_CREATE|O_TRUNC) succeeded: the file exists and was emptied -/
  opened : Bool
  /-- the value handed to the suffix's encoder -/
  written : Option (FileCodec.Fmt × List (String × Val))
  deriving Repr

/-- Save(file): DefaultFileEncoderProvider(file), OpenFile (panic on error), then the encoder on
    DefaultNodeEncoderFn(c.c) — a nil encoder (unrecognised suffix) is called AFTER the file was
    created; `encFails` = the encoder returns an error (panic).  The helper itself is unchanged. -/
def save (ext : String) (canOpen : Bool) (encFails : FileCodec.Fmt → List (String × Val) → Bool)
    (s : State) : Saved :=
  if !canOpen then ⟨true, false, none⟩
  else match FileCodec.ofSuffix ext with
    | none => ⟨true, true, none⟩
    | some fmt => ⟨encFails fmt (asMap s), true, some (fmt, asMap s)⟩

/-! ## histories -/

inductive Op (α : Type) where
  | add (d : Doc α)
  | load (file : String)
  | mutate (edits : List BOp)
  deriving Repr

/-- one call on the helper; the flag says that it panicked (after a panic of Add / Load the helper is as it was before) -/
def step {α Γ : Type} (viaYaml : α → Option (List (String × Val))) (fl : TplFuncs.Files Γ)
    (s : State) : Op α → State × Bool
  | .add d => match add viaYaml s d with | .ok s' => (s', false) | _ => (s, true)
  | .load f => match load fl s f with | .ok s' => (s', false) | _ => (s, true)
  | .mutate es => mutate s es

/-- a chain of calls, each one guarded by the caller -/
def run {α Γ : Type} (viaYaml : α → Option (List (String × Val))) (fl : TplFuncs.Files Γ)
    (s : State) (ops : List (Op α)) : State :=
  ops.foldl (fun s op => (step viaYaml fl s op).1) s

/-- the container a document becomes when Add succeeds -/
def Doc.toDom? {α : Type} (viaYaml : α → Option (List (String × Val))) (d : Doc α) : Option (AMap Node) :=
  match any2dom viaYaml d with
  | .ok c => some c
  | _ => none

/-! ## pointer level: a chain of Add calls on an explicit heap (YtkModel/Heap.lean) -/

open Ytk.Heap in
/-- `h.Add(d1)…Add(dn)` for documents that are dom containers at addresses `ds`: each call is
    `c.c = c.c.Merge(d)` — `Heap.mergeContainersF .meld` — on the heap the previous call left -/
def addAllH (f : Nat) : Heap → Addr → List Addr → Option (Heap × Addr)
  | h, acc, [] => some (h, acc)
  | h, acc, d :: ds =>
    match mergeContainersF .meld f h acc d with
    | some (h', r) => addAllH f h' r ds
    | none => none

end Ytk.Fluent
