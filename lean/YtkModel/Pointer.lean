/-
  YtkModel.Pointer — executable model of patch/path.go (JSON Pointer, RFC 6901) and of
  xform/paths.go, as the code is at /repo HEAD.

  Strings are `List Char` (Go: `[]rune(s)`; generators emit valid UTF-8 only, so runes are
  code points).  `…S` wrappers lift the functions to `String` for the document side
  (container keys are `String`s) — they are what the driver runs.

  * `ptrParse`     — ParsePath: "" ↦ empty path; no leading '/' ↦ error; otherwise the rune
                     scanner with one character of look-ahead for `~0` / `~1`; a `~` followed
                     by anything else (or by nothing) is kept literally — never an error.
  * `ptrString`    — Path.String: per token '/' then `~`↦`~0`, `/`↦`~1`.
  * `parent`, `lastSegment` — Path.Parent (nil for len ≤ 1), Path.LastSegment ("" for len 0).
  * `atoi`         — PathSegment.IsNumeric = strconv.Atoi succeeded: `[+-]?[0-9]+` within int64.
                     Note `+1`, `-0`, `01` are accepted.
  * `eval`         — Path.Eval: list branch (numeric token, 0 ≤ idx < Size) / container branch
                     (Child) / anything else stops; returns the trail and the node.
  * `getTok`       — the *reference* evaluation (RFC 6901 section 4), written independently:
                     object member by exact name, array element by canonical index.
-/
import YtkModel.Dom

namespace Ytk.Ptr

/-! ## parse / serialise -/

/-- the loop of ParsePath over the runes after the leading '/':
    `cur` is the strings.Builder `cs`, the result is `ps` with the final segment appended -/
def scan : List Char → List Char → List (List Char)
  | [], cur => [cur]
  | [c], cur =>
    -- last rune: a '~' here is "tilda is very last character"
    if c = '/' then [cur, []] else [cur ++ [c]]
  | c :: n :: r, cur =>
    if c = '~' then
      if n = '1' then scan r (cur ++ ['/'])
      else if n = '0' then scan r (cur ++ ['~'])
      else scan (n :: r) (cur ++ ['~'])
    else if c = '/' then cur :: scan (n :: r) []
    else scan (n :: r) (cur ++ [c])

/-- ParsePath; `none` = error -/
def ptrParse (s : List Char) : Option (List (List Char)) :=
  match s with
  | [] => some []
  | c :: r => if c = '/' then some (scan r []) else none

def encChar (c : Char) : List Char :=
  if c = '~' then ['~', '0'] else if c = '/' then ['~', '1'] else [c]

def encTok : List Char → List Char
  | [] => []
  | c :: cs => encChar c ++ encTok cs

/-- Path.String -/
def ptrString : List (List Char) → List Char
  | [] => []
  | t :: ts => '/' :: (encTok t ++ ptrString ts)

/-- MustParsePath: panic ↔ error -/
def mustParse (s : List Char) : Outcome (List (List Char)) :=
  match ptrParse s with
  | some p => .ok p
  | none => .panic

/-- Path.Parent -/
def parent {α : Type} (p : List α) : List α :=
  if p.length ≤ 1 then [] else p.take (p.length - 1)

/-- Path.LastSegment on character tokens -/
def lastSegmentC (p : List (List Char)) : List Char :=
  match p.getLast? with
  | some t => t
  | none => []

/-- the RFC 6901 grammar:  json-pointer = *( "/" reference-token ),
    reference-token = *( unescaped / escaped ), escaped = "~" ( "0" / "1" ),
    unescaped = any character except '/' and '~'.  `bodyOk` checks what follows the first '/'
    (further '/' simply start the next token). -/
def bodyOk : List Char → Bool
  | [] => true
  | [c] => c != '~'
  | c :: n :: r =>
    if c = '~' then (n = '0' || n = '1') && bodyOk r else bodyOk (n :: r)

def rfc6901 (s : List Char) : Bool :=
  match s with
  | [] => true
  | c :: r => c = '/' && bodyOk r

/-! ## String level -/

abbrev Path := List String

def parseS (s : String) : Option Path := (ptrParse s.toList).map (·.map String.ofList)
def stringS (p : Path) : String := String.ofList (ptrString (p.map String.toList))
def lastSegment (p : Path) : String :=
  match p.getLast? with
  | some t => t
  | none => ""

/-! ## strconv.Atoi -/

def allDigits (cs : List Char) : Bool := cs.all isDigit

def int64Lim : Nat := 9223372036854775808

/-- digits (non-empty, ASCII) to a number -/
def digitsVal (ds : List Char) : Option Nat :=
  if ds = [] then none else if allDigits ds then some (digitsToNat ds) else none

/-- strconv.Atoi: optional sign, at least one digit, result must fit int64 -/
def atoiC (cs : List Char) : Option Int :=
  match cs with
  | '-' :: ds =>
    match digitsVal ds with
    | some n => if n ≤ int64Lim then some (- (n : Int)) else none
    | none => none
  | '+' :: ds =>
    match digitsVal ds with
    | some n => if n < int64Lim then some (n : Int) else none
    | none => none
  | ds =>
    match digitsVal ds with
    | some n => if n < int64Lim then some (n : Int) else none
    | none => none

/-- PathSegment.IsNumeric -/
def atoi (t : String) : Option Int := atoiC t.toList

/-- RFC 6901 array index: `0` or a digit string without leading zero -/
def canonIdxC (cs : List Char) : Option Nat :=
  match cs with
  | [] => none
  | ['0'] => some 0
  | c :: r => if c = '0' then none else if allDigits (c :: r) then some (digitsToNat (c :: r)) else none

def canonIdx (t : String) : Option Nat := canonIdxC t.toList

/-! ## Eval -/

/-- one iteration of the loop in Path.Eval: the next `curr`, or stop -/
def step (cur : Node) (t : String) : Option Node :=
  match cur with
  | .list xs =>
    match atoi t with
    | some i => if 0 ≤ i ∧ i < (xs.length : Int) then xs[i.toNat]? else none
    | none => none
  | .cont kvs => child kvs t
  | .leaf _ => none

/-- the loop of Path.Eval: nodes appended to `res`, and the final node (`none` = nil) -/
def evalLoop (cur : Node) : Path → List Node × Option Node
  | [] => ([], some cur)
  | t :: ts =>
    match step cur t with
    | none => ([], none)
    | some n => let r := evalLoop n ts; (n :: r.1, r.2)

/-- Path.Eval: the empty path yields `([target], target)` -/
def eval (p : Path) (d : Node) : List Node × Option Node :=
  match p with
  | [] => ([d], some d)
  | _ => evalLoop d p

/-- reference evaluation, RFC 6901 section 4 -/
def getTok (d : Node) : Path → Option Node
  | [] => some d
  | t :: ts =>
    match d with
    | .cont kvs =>
      match AMap.get? kvs t with
      | some c => getTok c ts
      | none => none
    | .list xs =>
      match canonIdx t with
      | some i =>
        match xs[i]? with
        | some c => getTok c ts
        | none => none
      | none => none
    | .leaf _ => none

/-- reference trail: the nodes passed on the way, the addressed node last -/
def trailTok (d : Node) : Path → List Node
  | [] => []
  | t :: ts =>
    match getTok d [t] with
    | some c => c :: trailTok c ts
    | none => []

/-- Tokens on which evaluation is compared (DESIGN C10 domain): a token that `Atoi` accepts
    with a non-negative value is the canonical decimal of that value and fits int64
    (so `01`, `+1`, `-0` are outside; `-1`, `x`, `1x`, `` are inside), and no token ends
    in an index group `[digits]` (which `Child` would read as list access). -/
def tokOk (t : String) : Bool :=
  (match canonIdx t with
   | some n => n < int64Lim
   | none =>
     match atoi t with
     | some i => i < 0
     | none => true) && !hasIdxSuffix t

/-! ## xform/paths.go -/

/-- props.PathSegment -/
structure PropSeg where
  isNum : Bool
  index : Nat
  value : String

/-- PropPath2Pointer: components are written unescaped behind '/' and the text is parsed
    (MustParsePath cannot fail on it: it is empty or starts with '/'). -/
def propPath2Pointer (p : List PropSeg) : Outcome Path :=
  let txt := p.foldl (fun acc pc => acc ++ "/" ++ (if pc.isNum then toString pc.index else pc.value)) ""
  match parseS txt with
  | some q => .ok q
  | none => .panic

end Ytk.Ptr
