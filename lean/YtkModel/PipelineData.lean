/-
  YtkModel.PipelineData — the pipeline's data operations (C13), namespace `Ytk.PD`.

  Mirrors, at /repo HEAD:
  * pipeline/set_op.go        `setOp`      (merge / replace handlers, root and path forms)
  * pipeline/template_op.go   `templateOp` (renderer, TrimSpace and YAML parser are parameters;
                                            dom.decodeYamlNode itself is `decodeYamlNode`)
  * pipeline/patch_op.go      `patchOp`    (patch.ParsePath / patch.Do are parameters)
  * pipeline/import_op.go     `importOp`   (mode table; codecs are parameters; std base64 modelled)
  * pipeline/export_op.go     `exportOp`, `exportDecision`
  * pipeline/env_op.go        `envOp`
  * pipeline/types.go         `ValOrRef.resolve`
  * pipeline/template_engine.go  `possiblyTemplate`, `renderLenient`

  The document is the root container's children (`AMap Node`); in-place mutation returns the
  new value.  dom's Merge enters `setOp` as the parameter `mergeC` (another file models it);
  `mergeContainers` below is a local copy of the default (meld) strategy used by the driver.
-/
import YtkModel.Dom

namespace Ytk.PD

/-! ## template_engine.go: possiblyTemplate / RenderLenient -/

/-- `strings.Index(s, "ab")` for a two-character needle -/
def indexOf2 (a b : Char) : List Char → Option Nat
  | [] => none
  | [_] => none
  | x :: y :: rest =>
    if x = a ∧ y = b then some 0
    else match indexOf2 a b (y :: rest) with
      | some i => some (i + 1)
      | none => none

/-- possiblyTemplate: there is a `{{`, and a `}}` at a positive offset of the text that starts
    at the first `{{` (`closeIdx > 0`; offset 0 is impossible, the text starts with `{{`). -/
def possiblyTemplate (s : String) : Bool :=
  match indexOf2 '{' '{' s.toList with
  | none => false
  | some openIdx =>
    match indexOf2 '}' '}' (s.toList.drop openIdx) with
    | none => false
    | some closeIdx => closeIdx > 0

/-- renderLenientTemplate; `r` is `renderTemplate` (none = it returned an error) -/
def renderLenient (r : String → Option String) (s : String) : String :=
  if possiblyTemplate s then
    match r s with
    | some v => v
    | none => s
  else s

/-! ## ValOrRef -/

structure ValOrRef where
  isRef : Bool
  ref : String
  val : String
  deriving Repr, DecidableEq

/-- ValOrRef.Resolve -/
def ValOrRef.resolve (r : String → Option String) (data : AMap Node) (pv : ValOrRef) : String :=
  if pv.isRef then
    match lookup data pv.ref with
    | some (.leaf v) => renderLenient r v.text
    | _ => ""
  else renderLenient r pv.val

/-! ## dom.Merge, default options — local copy for the driver (dom/merge.go) -/

/-- hasValue: false for a leaf holding nil -/
def hasValue : Node → Bool
  | .leaf v => !(v.ty == "nil")
  | _ => true

/-- coalesce(n1, n2): the last one that has a value, else the nil leaf -/
def coalesce (n1 n2 : Node) : Node :=
  if hasValue n2 then n2 else if hasValue n1 then n1 else Node.null

mutual
/-- the three-way case split shared by mergeContainers and mergeListsMeld -/
def mergeNode (n : Node) : Node → Node
  | .cont kvs2 =>
    match n with
    | .cont kvs1 => .cont (mergeKvs kvs1 kvs2)
    | _ => coalesce n (.cont kvs2)
  | .list ys =>
    match n with
    | .list xs => .list (meldList xs ys)
    | _ => coalesce n (.list ys)
  | .leaf v => coalesce n (.leaf v)
/-- mergeContainers: start from c1's children, then visit c2's -/
def mergeKvs (acc : AMap Node) : List (String × Node) → AMap Node
  | [] => acc
  | (k, v) :: rest =>
    match AMap.get? acc k with
    | some n => mergeKvs (AMap.insert acc k (mergeNode n v)) rest
    | none => mergeKvs (AMap.insert acc k v) rest
/-- mergeListsMeld: pairwise over the common prefix, the longer list's tail after it -/
def meldList (xs : List Node) : List Node → List Node
  | [] => xs
  | y :: ys =>
    match xs with
    | [] => y :: ys
    | x :: xs' => mergeNode x y :: meldList xs' ys
end

/-- containerBuilderImpl.Merge with default options -/
def mergeContainers (c1 c2 : AMap Node) : AMap Node := mergeKvs c1 c2

/-! ## set_op.go -/

/-- what setOpMergeIfContainersReplaceOtherwise stores under a key: the merge when the existing
    child and the payload's value are both containers, else the payload's value -/
def mergeOrReplace (mergeC : AMap Node → AMap Node → AMap Node) (o : Option Node) (v : Node) : Node :=
  match o, v with
  | some (.cont oc), .cont vc => .cont (mergeC oc vc)
  | _, _ => v

/-- setOpMergeIfContainersReplaceOtherwise: `orig.AddValue(k, …)` per child of the payload -/
def setMergeRoot (mergeC : AMap Node → AMap Node → AMap Node) (orig : AMap Node) :
    List (String × Node) → AMap Node
  | [] => orig
  | (k, v) :: rest => setMergeRoot mergeC (add orig k (mergeOrReplace mergeC (child orig k) v)) rest

/-- replace handler, empty path: AddValueAt(k, v) per child of the payload -/
def setReplaceRoot (orig : AMap Node) : List (String × Node) → AMap Node
  | [] => orig
  | (k, v) :: rest => setReplaceRoot (addValueAt orig k v) rest

/-- merge handler -/
def setMerge (mergeC : AMap Node → AMap Node → AMap Node) (path : String) (orig other : AMap Node) :
    AMap Node :=
  if path ≠ "" then
    match lookup orig path with
    | some (.cont dest) => addValueAt orig path (.cont (mergeC dest other))
    | _ => addValueAt orig path (.cont other)
  else setMergeRoot mergeC orig other

/-- replace handler -/
def setReplace (path : String) (orig other : AMap Node) : AMap Node :=
  if path ≠ "" then addValueAt orig path (.cont other) else setReplaceRoot orig other

/-- SetOp.Do.  `payload = none` is `Data == nil`; `strategy = none` is the unset strategy
    (defaults to merge).  The payload is the container `FromMap(sa.Data)`.
    An error leaves the document untouched. -/
def setOp (mergeC : AMap Node → AMap Node → AMap Node) (data : AMap Node)
    (payload : Option (AMap Node)) (path : String) (strategy : Option String) : Outcome (AMap Node) :=
  match payload with
  | none => .err
  | some other =>
    let s := strategy.getD "merge"
    if s = "merge" then .ok (setMerge mergeC path data other)
    else if s = "replace" then .ok (setReplace path data other)
    else .err

/-! ## template_op.go -/

/-- a YAML node tree as `yaml.Unmarshal` into a `yaml.Node` produces it (alias-free) -/
inductive YNode where
  | scalar (v : String)
  | seq (xs : List YNode)
  | map (kvs : List (String × YNode))
  deriving Repr, Inhabited

mutual
/-- dom.decodeYamlNode: every scalar becomes a string leaf; mapping entries are added with
    AddValue in document order -/
def decodeYamlNode : YNode → Node
  | .scalar v => .leaf ⟨"string", v⟩
  | .seq xs => .list (decodeYamlSeq xs)
  | .map kvs => .cont (decodeYamlMap kvs [])
def decodeYamlSeq : List YNode → List Node
  | [] => []
  | x :: xs => decodeYamlNode x :: decodeYamlSeq xs
def decodeYamlMap : List (String × YNode) → AMap Node → AMap Node
  | [], acc => acc
  | (k, v) :: rest, acc => decodeYamlMap rest (add acc k (decodeYamlNode v))
end

/-- `if node = dom.YamlNodeDecoder()(&yn); node == nil { node = dom.LeafNode(nil) }` -/
def yamlResult : Option YNode → Node
  | some n => decodeYamlNode n
  | none => Node.null

structure TemplateSpec where
  template : String
  path : String
  parseAs : Option String
  trim : Bool
  deriving Repr

/-- TemplateOp.Do.
    * `render`  — TemplateEngine.Render (none = error; the text is then `""`)
    * `trimFn`  — strings.TrimSpace
    * `yamlParse` — yaml.Unmarshal into a yaml.Node: `none` = error, `some none` = the zero node
      (empty document, decodeYamlNode gives nil → null leaf), `some (some n)` = document with root n
    The returned flag is the error result.  Quirks mirrored: a render error is only returned
    at the very end (after storing the leaf `""`), and in yaml mode it is overwritten by the
    result of yaml.Unmarshal. -/
def templateOp (render : String → Option String) (lenient : String → String) (trimFn : String → String)
    (yamlParse : String → Option (Option YNode)) (t : TemplateSpec) (data : AMap Node) :
    AMap Node × Bool :=
  if t.template = "" then (data, true)
  else if t.path = "" then (data, true)
  else
    let rendered := render t.template
    let val0 := rendered.getD ""
    let val := if t.trim then trimFn val0 else val0
    let mode := t.parseAs.getD "none"
    if mode = "yaml" then
      match yamlParse val with
      | none => (data, true)
      | some yn => (addValueAt data (lenient t.path) (yamlResult yn), false)
    else if mode = "none" then
      (addValueAt data (lenient t.path) (.leaf ⟨"string", val⟩), rendered.isNone)
    else (data, true)

/-! ## patch_op.go -/

structure PatchSpec where
  op : String
  from_ : String
  path : String
  value : Option Node
  valueFrom : Option String

/-- what PatchOp.Do hands to patch.Do -/
structure PatchCall (P : Type) where
  op : String
  from_ : Option P
  path : P
  value : Option Node

/-- PatchOp.Do up to the call of patch.Do: `none` = an error was returned before the call -/
def patchArgs {P : Type} (parsePath : String → Option P) (lenient : String → String)
    (ps : PatchSpec) (data : AMap Node) : Option (PatchCall P) :=
  match parsePath (lenient ps.path) with
  | none => none
  | some path =>
    let value := match ps.value with
      | some v => some v
      | none => match ps.valueFrom with
        | some vf => lookup data (lenient vf)
        | none => none
    if ps.from_ ≠ "" then
      match parsePath ps.from_ with
      | none => none
      | some f => some ⟨ps.op, some f, path, value⟩
    else some ⟨ps.op, none, path, value⟩

/-- PatchOp.Do; `patchDo` is patch.Do (new document, error flag) -/
def patchOp {P : Type} (parsePath : String → Option P) (lenient : String → String)
    (patchDo : PatchCall P → AMap Node → AMap Node × Bool) (ps : PatchSpec) (data : AMap Node) :
    AMap Node × Bool :=
  match patchArgs parsePath lenient ps data with
  | none => (data, true)
  | some call => patchDo call data

/-! ## import_op.go -/

def b64Alphabet : List Char :=
  "ABCDEFGHIJKLMNOPQRSTUVWXYZabcdefghijklmnopqrstuvwxyz0123456789+/".toList

def b64Char (n : Nat) : Char := b64Alphabet.getD n '?'

/-- base64.StdEncoding.EncodeToString on a list of byte values (RFC 4648, with padding) -/
def b64Encode : List Nat → List Char
  | [] => []
  | [a] => [b64Char (a / 4), b64Char (a % 4 * 16), '=', '=']
  | [a, b] => [b64Char (a / 4), b64Char (a % 4 * 16 + b / 16), b64Char (b % 16 * 4), '=']
  | a :: b :: c :: rest =>
    b64Char (a / 4) :: b64Char (a % 4 * 16 + b / 16) :: b64Char (b % 16 * 4 + c / 64) :: b64Char (c % 64)
      :: b64Encode rest

/-- the decoders behind ParseFileMode.toValue for the structured modes
    (FromReader with the YAML / JSON / properties decoder); `none` = error -/
structure Codecs where
  yaml : List Nat → Option (AMap Node)
  json : List Nat → Option (AMap Node)
  props : List Nat → Option (AMap Node)
  /-- `string(content)` -/
  text : List Nat → String

/-- parseFile + ParseFileMode.toValue: empty mode means text -/
def toValue (cd : Codecs) (mode : String) (content : List Nat) : Option Node :=
  let mode := if mode = "" then "text" else mode
  if mode = "binary" then some (.leaf ⟨"string", String.ofList (b64Encode content)⟩)
  else if mode = "text" then some (.leaf ⟨"string", cd.text content⟩)
  else if mode = "yaml" then (cd.yaml content).map .cont
  else if mode = "json" then (cd.json content).map .cont
  else if mode = "properties" then (cd.props content).map .cont
  else none

/-- AddValueAt(k, v) per child -/
def importRoot (data : AMap Node) : List (String × Node) → AMap Node
  | [] => data
  | (k, v) :: rest => importRoot (addValueAt data k v) rest

/-- ImportOp.Do; `content = none` means the file could not be read -/
def importOp (cd : Codecs) (lenient : String → String) (content : Option (List Nat)) (mode path : String)
    (data : AMap Node) : AMap Node × Bool :=
  match content with
  | none => (data, true)
  | some bytes =>
    match toValue cd mode bytes with
    | none => (data, true)
    | some val =>
      let p := lenient path
      if p ≠ "" then (addValueAt data p val, false)
      else match val with
        | .cont kvs => (importRoot data kvs, false)
        | _ => (data, true)

/-! ## export_op.go -/

inductive Format | yaml | json | properties | text | unknown
  deriving DecidableEq, Repr

def Format.ofString (s : String) : Format :=
  if s = "yaml" then .yaml else if s = "json" then .json
  else if s = "properties" then .properties else if s = "text" then .text else .unknown

/-- what the path resolves to -/
inductive Target | absent | leaf | list | cont
  deriving DecidableEq, Repr

def Target.of : Option Node → Target
  | none => .absent
  | some (.leaf _) => .leaf
  | some (.list _) => .list
  | some (.cont _) => .cont

/-- what ExportOp.Do does -/
inductive Decision
  | errorBeforeOpen      -- unknown format: error, no file touched
  | errorAfterOpen       -- text format on a non-leaf: the file is created/truncated, then error
  | writeNode            -- the resolved container is encoded with the format's encoder
  | writeEmptyDoc        -- the documented default: an empty container is encoded
  | writeLeafText        -- `%v` of the leaf's value
  | writeEmptyText       -- the text default: the leaf `""`
  | panic
  deriving DecidableEq, Repr

/-- the decision table of ExportOp.Do (assuming the file can be opened) -/
def exportDecision (f : Format) (t : Target) : Decision :=
  match f with
  | .unknown => .errorBeforeOpen
  | .text =>
    -- d == nil → defVal (leaf ""); then d must be a leaf
    match t with
    | .absent => .writeEmptyText
    | .leaf => .writeLeafText
    | .list => .errorAfterOpen
    | .cont => .errorAfterOpen
  | _ =>
    -- d == nil || !d.IsContainer() → defVal (empty container)
    match t with
    | .cont => .writeNode
    | _ => .writeEmptyDoc

/-- what ends up in the file -/
inductive Written
  | doc (f : Format) (kvs : AMap Node)   -- encoder of format f applied to DefaultNodeEncoderFn(kvs)
  | text (s : String)
  deriving Repr

/-- ExportOp.Do: error flag, whether the file was opened (created / truncated), and what was
    handed to the encoder.  `path = none` is a nil Path (whole document); `canOpen` = OpenFile
    succeeds. -/
def exportOp (r : String → Option String) (format : String) (path : Option ValOrRef) (canOpen : Bool)
    (data : AMap Node) : Bool × Bool × Option Written :=
  let f := Format.ofString format
  let d : Option Node := match path with
    | none => some (.cont data)
    | some p => lookup data (p.resolve r data)
  match exportDecision f (Target.of d) with
  | .errorBeforeOpen => (true, false, none)
  | .panic => (true, false, none)
  | dec =>
    if !canOpen then (true, false, none)
    else match dec, d with
      | .errorAfterOpen, _ => (true, true, none)
      | .writeNode, some (.cont kvs) => (false, true, some (.doc f kvs))
      | .writeEmptyDoc, _ => (false, true, some (.doc f []))
      | .writeLeafText, some (.leaf v) => (false, true, some (.text v.text))
      | .writeEmptyText, _ => (false, true, some (.text ""))
      | _, _ => (true, true, none)

/-! ## env_op.go -/

/-- strings.SplitN(env, "=", 2) -/
def splitEnv : List Char → Option (List Char × List Char)
  | [] => none
  | c :: cs =>
    if c = '=' then some ([], cs)
    else match splitEnv cs with
      | some (a, b) => some (c :: a, b)
      | none => none

/-- EnvOp.Do over the entries of os.Environ(); an included entry without `=` would index
    `parts[1]` out of range -/
def envOp (incl excl : String → Bool) (path : String) : List String → AMap Node → Outcome (AMap Node)
  | [], data => .ok data
  | e :: rest, data =>
    match splitEnv e.toList with
    | some (n, v) =>
      let name := String.ofList n
      if incl name && !excl name then
        envOp incl excl path rest
          (addValueAt data (toPath path ("Env." ++ name)) (.leaf ⟨"string", String.ofList v⟩))
      else envOp incl excl path rest data
    | none =>
      if incl e && !excl e then .panic else envOp incl excl path rest data

end Ytk.PD
