/-
  YtkModel.Overlay — executable model of dom/overlay.go (overlayDocument), mirroring the code
  at /repo HEAD.

  State: `Overlay := List (String × AMap Node)` — the layers in CREATION order (the Go
  struct keeps `names []string` and `overlays map[string]ContainerBuilder`; both change only
  in `ensureOverlay`, so one list of pairs in `names` order carries the same information).

  * `setLayer`      — ensureOverlay + in-place mutation of that layer's builder
  * `withPath`      — ensurePath(node, pc) followed by an edit of the container reached:
                      a component without index suffix must be absent (AddContainer) or a
                      container — anything else is the failed type assertion
                      `n.(ContainerBuilder)`, i.e. a panic; a component with index groups
                      goes through ensureList (reuse a list, replace anything else, pad with
                      nilLeaf), a slot holding nilLeaf becomes a fresh container, a slot
                      holding a container is entered, any other slot is the panic again
  * `putNode`       — Put with a list or leaf value (the node itself is stored)
  * `put`           — Put: a container value is flattened (`Flatten()`) into leaf writes
                      BEFORE ensureOverlay, so a leafless container writes nothing and does
                      not create the layer
  * `addLayer`      — Add: ensureOverlay, then AddValue of every child
  * `populate`      — Populate: ensureOverlay, ensurePath over ALL components of a non-empty
                      path, then decodeContainerFn (modelled on the already decoded entries:
                      AddValue / AddContainer+fill / AddList+fill per key all overwrite the key)
  * `lookup`, `lookupAny`, `search`, `walk` (early exit), `merged`, `layers`, `layerNames`,
    `serialize`
-/
import YtkModel.Merge
import YtkModel.Equal

namespace Ytk

abbrev Overlay := List (String × AMap Node)

/-- the node found at the slot addressed by index groups `is` below `cur` once `ensureList`
    has run: existing lists are reused, anything else is a fresh list, slots are padded with
    nilLeaf — so the slot always exists (`none` only for an empty index list on an absent key) -/
def slotGet : Option Node → List Nat → Option Node
  | cur, [] => cur
  | cur, i :: is =>
    let xs := match cur with
      | some (.list xs) => xs
      | _ => []
    slotGet (padTo xs (i + 1))[i]? is

/-- ensurePath(node, pc) and then `f` applied to the container reached; the result is the
    updated children map of `node` -/
def withPath (f : AMap Node → AMap Node) : AMap Node → List String → Outcome (AMap Node)
  | kvs, [] => .ok (f kvs)
  | kvs, p :: rest =>
    match parseSeg p with
    | (_, []) =>
      match AMap.get? kvs p with
      | none => (withPath f [] rest).map fun sub => AMap.insert kvs p (.cont sub)
      | some (.cont c) => (withPath f c rest).map fun sub => AMap.insert kvs p (.cont sub)
      | some _ => .panic
    | (b, i :: is) =>
      match slotGet (AMap.get? kvs b) (i :: is) with
      | some (.cont c) =>
        (withPath f c rest).map fun sub => AMap.insert kvs b (setSlot (AMap.get? kvs b) (i :: is) (.cont sub))
      | some (.leaf s) =>
        if s == Scalar.null then
          (withPath f [] rest).map fun sub => AMap.insert kvs b (setSlot (AMap.get? kvs b) (i :: is) (.cont sub))
        else .panic
      | _ => .panic

namespace Overlay

/-- LayerNames() -/
def layerNames (s : Overlay) : List String := s.map (·.1)

/-- `m.overlays[name]` -/
def layer (s : Overlay) (l : String) : Option (AMap Node) := AMap.get? s l

/-- ensureOverlay(name) followed by replacing that layer's content -/
def setLayer : Overlay → String → AMap Node → Overlay
  | [], l, c => [(l, c)]
  | (n, d) :: rest, l, c => if l = n then (n, c) :: rest else (n, d) :: setLayer rest l c

/-- the children of layer `l` as `ensureOverlay` hands them out (empty when newly created) -/
def layerOrEmpty (s : Overlay) (l : String) : AMap Node := (layer s l).getD []

/-- Put with a value that is not a container: ensureOverlay, ensurePath over all but the last
    component, AddValue(last, value) -/
def putNode (s : Overlay) (l path : String) (v : Node) : Outcome Overlay :=
  let comps := splitPath path
  (withPath (fun c => add c (comps.getLastD "") v) (layerOrEmpty s l) comps.dropLast).map
    fun c => setLayer s l c

/-- the recursive `m.Put(overlay, ToPath(path, k), leaf)` calls for the flattened leaves -/
def putLeaves (s : Overlay) (l path : String) : List (String × Scalar) → Outcome Overlay
  | [] => .ok s
  | (k, sc) :: rest =>
    match putNode s l (toPath path k) (.leaf sc) with
    | .ok s' => putLeaves s' l path rest
    | .err => .err
    | .panic => .panic

/-- Put(overlay, path, value) -/
def put (s : Overlay) (l path : String) (v : Node) : Outcome Overlay :=
  match v with
  | .cont kvs => putLeaves s l path (flattenMap kvs)
  | _ => putNode s l path v

/-- AddValue of every entry (Add; decodeContainerFn on decoded entries) -/
def addAll (c : AMap Node) (kvs : List (String × Node)) : AMap Node :=
  kvs.foldl (fun c p => add c p.1 p.2) c

/-- Add(overlay, container) -/
def addLayer (s : Overlay) (l : String) (kvs : AMap Node) : Overlay :=
  setLayer s l (addAll (layerOrEmpty s l) kvs)

/-- Populate(overlay, path, data) with `data` already decoded -/
def populate (s : Overlay) (l path : String) (data : AMap Node) : Outcome Overlay :=
  if path = "" then .ok (setLayer s l (addAll (layerOrEmpty s l) data))
  else (withPath (fun c => addAll c data) (layerOrEmpty s l) (splitPath path)).map fun c => setLayer s l c

/-- Lookup(overlay, path) -/
def lookup (s : Overlay) (l path : String) : Option Node :=
  if (layerNames s).contains l then
    match layer s l with
    | some c => Ytk.lookup c path
    | none => none
  else none

/-- LookupAny(path): the first layer, in creation order, with a hit -/
def lookupAny (s : Overlay) (path : String) : Option Node :=
  (layerNames s).findSome? fun n => lookup s n path

/-- Search(fn): per-layer Search results in layer order (paths within a layer in key order;
    the Go order within a layer is that of a map iteration) -/
def search (f : Scalar → Bool) (s : Overlay) : List (String × String) :=
  s.flatMap fun p => (Ytk.search f p.2).map fun path => (p.1, path)

/-! ### Walk: visitor with state `σ`; `false` stops everything -/

section walk
variable {σ : Type} (fn : σ → String → String → Scalar → σ × Bool) (layer : String)

mutual
def walkNode : Node → String → σ → σ × Bool
  | .leaf v, p, st => fn st layer p v
  | .list xs, p, st => walkList xs p 0 st
  | .cont kvs, p, st => walkKvs kvs p st
def walkList : List Node → String → Nat → σ → σ × Bool
  | [], _, _, st => (st, true)
  | x :: xs, p, i, st =>
    match walkNode x (toListPath p i) st with
    | (st', true) => walkList xs p (i + 1) st'
    | (st', false) => (st', false)
def walkKvs : List (String × Node) → String → σ → σ × Bool
  | [], _, st => (st, true)
  | (k, x) :: xs, p, st =>
    match walkNode x (toPath p k) st with
    | (st', true) => walkKvs xs p st'
    | (st', false) => (st', false)
end
end walk

/-- Walk(fn) -/
def walk {σ : Type} (fn : σ → String → String → Scalar → σ × Bool) : Overlay → σ → σ × Bool
  | [], st => (st, true)
  | (n, c) :: rest, st =>
    match walkKvs fn n c "" st with
    | (st', true) => walk fn rest st'
    | (st', false) => (st', false)

/-- Merged(opts...) -/
def merged (o : ListStrategy) (s : Overlay) : AMap Node := mergeAll o (s.map (·.2))

/-- Layers(): every layer cloned -/
def layers (s : Overlay) : List (String × AMap Node) := s.map fun p => (p.1, cloneKvs p.2)

/-- Serialize(w, mappingFunc, encFn) = encFn(w, mappingFunc(m.Merged())) -/
def serialize {β : Type} (enc : AMap Node → β) (s : Overlay) : β := enc (merged .meld s)

/-! ### histories -/

inductive Op where
  | put (l path : String) (v : Node)
  | add (l : String) (c : AMap Node)
  | populate (l path : String) (data : AMap Node)
  deriving Repr, Inhabited

def step (s : Overlay) : Op → Outcome Overlay
  | .put l p v => put s l p v
  | .add l c => .ok (addLayer s l c)
  | .populate l p d => populate s l p d

/-- a history; stops at the first step that is not `ok` -/
def run (s : Overlay) : List Op → Outcome Overlay
  | [] => .ok s
  | op :: ops =>
    match step s op with
    | .ok s' => run s' ops
    | .err => .err
    | .panic => .panic

end Overlay
end Ytk
