/-
  gap7a — the composition diff.Diff → xform.DiffMod2PatchOp → patch.Do, end to end, out of the existing
  model definitions (no new behaviour is modelled here): `diffPatch L R` is the list of RFC 6902
  operation objects obtained by converting every modification of `Diff(L, R)`;
  `xform.PointerFromPropPathString` is `pointerTokens ∘ propsParsePath` (YtkModel/Addr.lean).
-/
import YtkModel.Addr
import YtkModel.Diff
import YtkModel.Patch
import YtkModel.Decisions2

namespace Ytk

/-- xform.PointerFromPropPathString -/
def pointerOfPropPath (p : String) : Ptr.Path := pointerTokens (propsParsePath p)

/-- `for _, m := range diff.Diff(L, R) { ops = append(ops, xform.DiffMod2PatchOp(m)) }` -/
def diffPatch (L R : AMap Node) : List Patch.OpObj := (diff L R).map (Xform.mod2op pointerOfPropPath)

/-- apply the converted patch to R with successive `patch.Do` calls -/
def applyDiffPatch (L R : AMap Node) : Node × List (Outcome Unit) := Patch.runPatch (diffPatch L R) (.cont R)

end Ytk
