/-
  YtkModel.OpStrings — the `String()` methods of the pipeline types (what the log listener and error
  messages print), of `dom.Coordinates` and of `diff.Modification`, at /repo HEAD.  Namespace `Ytk.OpStrings`.

  Each method is a total function of the FIELD VALUES.  Section 1 gives them over plain values
  (strings, options, lists) — these are the hand-written counterparts of the translated definitions
  `Generated.Funcs.<T>_String` (theorems `<T>_String_generated_eq_model`).  Section 2 reads the field
  values out of the generic record values `Clone.CV` of the C15 model, so that "String() of the clone"
  is `stringOf (cloneV …)`.

  How the record values carry the fields that String() reads but CloneWith only copies:
    ActionMeta (field of ActionSpec)      `.strs (some [Name, Order in decimal])`  (+ a third element: *When)
    CallOp.Args (a map)                   `.strs (some keys)`                      (String() prints len)
    EnvOp.Include / Exclude (*Regexp)     `.strPtr` of the expression's source     (nil = `none`)
    ForEachOp.Item (*ValOrRefSlice)       `.strs none` = nil, else `.strs (some [Ref0, Val0, Ref1, Val1, …])`
    ValOrRef.isRef                        `.data "true" | "false"`
  everything else as in harness/c15.go (`s` / `sp` / `ss` / `rec` / `nil` / opaque `d`).

  What `%v` does in these methods (fmt's rules, mirrored below — each was checked on the real code):
    * `ForEachOp.String` prints `*fea.Glob` and `*fea.Query`, ValOrRef VALUES: String() has a pointer
      receiver, so fmt does not call it and prints the struct `{isRef Ref Val}`;
    * `fea.Item` (*ValOrRefSlice) and ExportOp's `e.File` / `e.Path` (*ValOrRef) are pointers: String() is called;
    * `DefineOp.String` prints `d.Action`, an ActionSpec value with a VALUE receiver String(): called;
    * `ActionSpec.String` prints only the ActionMeta, never the operations or children.

  Lengths and the 5-byte cut of `LogOp.String` are counted in characters (GoPrelude's convention:
  equal to Go's bytes on ASCII text).
-/
import YtkModel.Clone
import YtkModel.Generated.CloneTable
import YtkModel.GoPrelude
import YtkModel.GoPreludeFmt

namespace Ytk.OpStrings
open Ytk.Clone

/-! ## 1. the methods over plain field values -/

def abortS (message : String) : String := "Abort[message=" ++ message ++ "]"
def extS (function : String) : String := "Ext[func=" ++ function ++ "]"
def html2domS (from_ to : String) : String := "Html2DomOp[from=" ++ from_ ++ ",to=" ++ to ++ "]"
def importS (file path mode : String) : String := "Import[file=" ++ file ++ ",path=" ++ path ++ ",mode=" ++ mode ++ "]"
/-- `Log[message(%d)=%s]` with len(Message) and strTruncIfNeeded(Message, 5) -/
def logS (message : String) : String :=
  "Log[message(" ++ toString message.toList.length ++ ")=" ++
    (if message.toList.length ≤ 5 then message else String.ofList (message.toList.take 5)) ++ "]"
def loopS : String := "Loop[]"
def patchS (op path : String) : String := "Patch[Op=" ++ op ++ ",Path=" ++ path ++ "]"
def setS (path : String) : String := "Set[Path=" ++ path ++ "]"
def templateFileS (file output : String) : String := "TemplateFile[File=" ++ file ++ ",Output=" ++ output ++ "]"
def templateS (path : String) : String := "Template[Path=" ++ path ++ "]"
/-- `Exec[Program=%s,Dir=%s,Args=%d]` with safeStrListSize(Args): nil counts 0 -/
def execS (program dir : String) (args : Option (List String)) : String :=
  "Exec[Program=" ++ program ++ ",Dir=" ++ dir ++ ",Args=" ++ toString (args.getD []).length ++ "]"
/-- `Call[Name=%s, Args=%d]` with len(Args) of the map -/
def callS (name : String) (nargs : Nat) : String := "Call[Name=" ++ name ++ ", Args=" ++ toString nargs ++ "]"
/-- `Env[Path=%s,incl=%s,excl=%s]` with safeRegexpDeref: nil prints nothing -/
def envS (path : String) (incl excl : Option String) : String :=
  "Env[Path=" ++ path ++ ",incl=" ++ incl.getD "" ++ ",excl=" ++ excl.getD "" ++ "]"

/-- `part` when `c`, else nothing: `if c { parts = append(parts, part) }` -/
def partIf (c : Bool) (part : String) : List String := if c then [part] else []

/-- `(*ValOrRef).String()`: `[Ref=…,Val=…]`, each part only when the text is not empty; isRef is not shown -/
def valOrRefS (ref val : String) : String :=
  "[" ++ ",".intercalate (partIf (ref != "") ("Ref=" ++ ref) ++ partIf (val != "") ("Val=" ++ val)) ++ "]"

/-- `%v` of a ValOrRef VALUE (no String method in its method set): `{isRef Ref Val}` -/
def valOrRefStructS (isRef ref val : String) : String := "{" ++ isRef ++ " " ++ ref ++ " " ++ val ++ "}"

/-- `(*ValOrRefSlice).String()`: the items' String() joined by "," in brackets (no nil items) -/
def valOrRefSliceS (items : List (String × String)) : String :=
  "[" ++ ",".intercalate (items.map fun p => valOrRefS p.1 p.2) ++ "]"

/-- `ActionMeta.String()`: `[name=…,order=…,when=…]` — name when not empty, order when not 0, when
    (nil = "") TRIMMED and shown when not empty afterwards -/
def actionMetaS (name : String) (order : Int) (when : Option String) : String :=
  let w := Go.trimSpace (when.getD "")
  "[" ++ ",".intercalate (partIf (name != "") ("name=" ++ name) ++ partIf (order != 0) ("order=" ++ toString order) ++
      partIf (w != "") ("when=" ++ w)) ++ "]"

/-- `ActionSpec.String()`: the meta only -/
def actionSpecS (metaText : String) : String := "ActionSpec[meta=" ++ metaText ++ "]"

/-- `DefineOp.String()` -/
def defineS (name actionSpec : String) : String := "Define[Name=" ++ name ++ ", Action=" ++ actionSpec ++ "]"

/-- `ExportOp.String()`: file when non-nil, format always, path when non-nil (file / path = the
    ValOrRef's own String()) -/
def exportS (file : Option String) (format : String) (path : Option String) : String :=
  "Export[" ++ ",".intercalate ((file.toList.map fun f => "file=" ++ f) ++ ["format=" ++ format] ++
      (path.toList.map fun p => "path=" ++ p)) ++ "]"

/-- `ForEachOp.String()`: Glob, Items, Query — each when non-nil, in THIS order (the struct declares
    Glob, Query, Item); the action and the variable are not shown -/
def forEachS (glob items query : Option String) : String :=
  "ForEach[" ++ ",".intercalate ((glob.toList.map fun g => "Glob=" ++ g) ++ (items.toList.map fun i => "Items=" ++ i) ++
      (query.toList.map fun q => "Query=" ++ q)) ++ "]"

/-- `ChildActions.String()`: the constant for the empty map, else the names joined by "," in the order
    of sortActionNames -/
def childActionsS (sortedNames : List String) : String :=
  if sortedNames.isEmpty then "ChildActions[]" else "ChildActions[names=" ++ ",".intercalate sortedNames ++ "]"

/-- `OpSpec.String()`: `Field=<op.String()>` for every non-nil operation, in the declared order -/
def opSpecS (parts : List (String × String)) : String :=
  "OpSpec[" ++ ",".intercalate (parts.map fun p => p.1 ++ "=" ++ p.2) ++ "]"

/-- `(*diff.Modification).String()`: `%v` of the value is the scalar's text (`<nil>` for a Delete) -/
def modificationS (type path valueText : String) : String :=
  "Mod[Type=" ++ type ++ ",Path=" ++ path ++ ",Value=" ++ valueText ++ "]"

/-- `strings.ReplaceAll(s, pat, rep)` for a non-empty `pat`: non-overlapping matches from the left
    (`skip` = characters of the current match still to be dropped) -/
def replaceAllC (pat rep : List Char) : Nat → List Char → List Char
  | _, [] => []
  | skip + 1, _ :: cs => replaceAllC pat rep skip cs
  | 0, c :: cs =>
    if pat.isPrefixOf (c :: cs) then rep ++ replaceAllC pat rep (pat.length - 1) cs
    else c :: replaceAllC pat rep 0 cs

/-- `dom.Coordinates.String()`: `[[layer=…,path=…],…]` + newline; the trailing `],]` is repaired by a
    ReplaceAll over the WHOLE text (so a layer name or path containing `],]` is rewritten too) -/
def coordinatesS (cs : List (String × String)) : String :=
  String.ofList (replaceAllC "],]".toList "]]".toList 0
    ("[" ++ String.join (cs.map fun c => "[" ++ ("layer=" ++ c.1 ++ ",path=" ++ c.2) ++ "],") ++ "]\n").toList)

/-! ## 2. over the record values of the clone model -/

def strF (fs : List (String × CV)) (f : String) : String :=
  match getField fs f with
  | some (.str s) => s
  | _ => ""

def strPtrF (fs : List (String × CV)) (f : String) : Option String :=
  match getField fs f with
  | some (.strPtr o) => o
  | _ => none

def strsF (fs : List (String × CV)) (f : String) : Option (List String) :=
  match getField fs f with
  | some (.strs o) => o
  | _ => none

def dataF (fs : List (String × CV)) (f : String) : String :=
  match getField fs f with
  | some (.data d) => d
  | _ => ""

/-- the fields of the record at `f` (`none`: a nil pointer, or no record there) -/
def recF (fs : List (String × CV)) (f : String) : Option (List (String × CV)) :=
  match getField fs f with
  | some (.rcd _ r) => some r
  | _ => none

/-- ActionMeta as carried by the record values: `[Name, Order]` or `[Name, Order, When]` -/
def metaOf (fs : List (String × CV)) : String × Int × Option String :=
  match strsF fs "ActionMeta" with
  | some [n, o] => (n, (Go.atoi o).1, none)
  | some [n, o, w] => (n, (Go.atoi o).1, some w)
  | _ => ("", 0, none)

def metaS (fs : List (String × CV)) : String :=
  let m := metaOf fs
  actionMetaS m.1 m.2.1 m.2.2

/-- `[Ref0, Val0, Ref1, Val1, …]` → pairs -/
def pairsOf : List String → List (String × String)
  | r :: v :: rest => (r, v) :: pairsOf rest
  | _ => []

/-- sortActionNames on (name, order): insertion sort by order, as `Pipeline.sortActs` -/
def insertByOrder (a : String × Int) : List (String × Int) → List (String × Int)
  | [] => [a]
  | b :: bs => if a.2 ≤ b.2 then a :: b :: bs else b :: insertByOrder a bs

def sortByOrder : List (String × Int) → List (String × Int)
  | [] => []
  | a :: as => insertByOrder a (sortByOrder as)

/-- name and Order of every entry of a ChildActions record -/
def childOrders : List (String × CV) → List (String × Int)
  | [] => []
  | (n, .rcd _ afs) :: rest => (n, (metaOf afs).2.1) :: childOrders rest
  | (n, _) :: rest => (n, 0) :: childOrders rest

/-- `String()` of an operation / action record of type `ty` other than OpSpec -/
def opS (ty : String) (fs : List (String × CV)) : String :=
  if ty = "AbortOp" then abortS (strF fs "Message")
  else if ty = "ActionSpec" then actionSpecS (metaS fs)
  else if ty = "CallOp" then callS (strF fs "Name") ((strsF fs "Args").getD []).length
  else if ty = "ChildActions" then childActionsS ((sortByOrder (childOrders fs)).map Prod.fst)
  else if ty = "DefineOp" then defineS (strF fs "Name") (actionSpecS (metaS ((recF fs "Action").getD [])))
  else if ty = "EnvOp" then envS (strF fs "Path") (strPtrF fs "Include") (strPtrF fs "Exclude")
  else if ty = "ExecOp" then execS (strF fs "Program") (strF fs "Dir") (strsF fs "Args")
  else if ty = "ExportOp" then
    exportS ((recF fs "File").map fun r => valOrRefS (strF r "Ref") (strF r "Val")) (strF fs "Format")
      ((recF fs "Path").map fun r => valOrRefS (strF r "Ref") (strF r "Val"))
  else if ty = "ExtOp" then extS (strF fs "Function")
  else if ty = "ForEachOp" then
    forEachS ((recF fs "Glob").map fun r => valOrRefStructS (dataF r "isRef") (strF r "Ref") (strF r "Val"))
      ((strsF fs "Item").map fun xs => valOrRefSliceS (pairsOf xs))
      ((recF fs "Query").map fun r => valOrRefStructS (dataF r "isRef") (strF r "Ref") (strF r "Val"))
  else if ty = "Html2DomOp" then html2domS (strF fs "From") (strF fs "To")
  else if ty = "ImportOp" then importS (strF fs "File") (strF fs "Path") (strF fs "Mode")
  else if ty = "LogOp" then logS (strF fs "Message")
  else if ty = "LoopOp" then loopS
  else if ty = "PatchOp" then patchS (strF fs "Op") (strF fs "Path")
  else if ty = "SetOp" then setS (strF fs "Path")
  else if ty = "TemplateFileOp" then templateFileS (strF fs "File") (strF fs "Output")
  else if ty = "TemplateOp" then templateS (strF fs "Path")
  else if ty = "ValOrRef" then valOrRefS (strF fs "Ref") (strF fs "Val")
  else ""

/-- the non-nil operations of an OpSpec record in the order `order` (the declared field order of
    OpSpec, regenerated: the names of `Generated.cloneTable`'s OpSpec row) with their String() -/
def opSpecParts (fs : List (String × CV)) : List String → List (String × String)
  | [] => []
  | n :: rest =>
    match getField fs n with
    | some (.rcd ty ofs) => (n, opS ty ofs) :: opSpecParts fs rest
    | _ => opSpecParts fs rest

/-- `String()` of any action value (`order` = OpSpec's declared field order) -/
def stringOf (order : List String) : CV → String
  | .rcd ty fs => if ty = "OpSpec" then opSpecS (opSpecParts fs order) else opS ty fs
  | _ => ""

/-- the declared field order of OpSpec, from the regenerated clone table -/
def opSpecOrder : List String :=
  match findType Generated.cloneTable "OpSpec" with
  | some t => t.fields.map (·.name)
  | none => []

/-- the fields String() of type `ty` reads (what "mentions every configured field it documents" ranges over) -/
def fieldsShown (ty : String) : List String :=
  if ty = "AbortOp" then ["Message"] else if ty = "CallOp" then ["Name"] else if ty = "DefineOp" then ["Name"]
  else if ty = "EnvOp" then ["Path", "Include", "Exclude"] else if ty = "ExecOp" then ["Program", "Dir"]
  else if ty = "ExportOp" then ["Format"] else if ty = "ExtOp" then ["Function"]
  else if ty = "Html2DomOp" then ["From", "To"] else if ty = "ImportOp" then ["File", "Path", "Mode"]
  else if ty = "PatchOp" then ["Op", "Path"] else if ty = "SetOp" then ["Path"]
  else if ty = "TemplateFileOp" then ["File", "Output"] else if ty = "TemplateOp" then ["Path"]
  else []

end Ytk.OpStrings
