/-
  YtkModel.DomPrelude — the DOM API AS THE TRANSLATED CODE SEES IT.

  The Go→Lean translator (/verif/extract/translate_dom.go → YtkModel/Generated/FuncsDom.lean)
  maps every call of a `dom.Node / Container / List / Leaf / ContainerBuilder / ListBuilder`
  method, every type assertion between them and every Go map operation to one of the
  definitions below.  They are TRUSTED: each is a one-liner over the existing hand-written (and
  harness-validated) model definitions of YtkModel/Basic.lean and Dom.lean.  Only these
  PRIMITIVES stay hand-modelled; the algorithms written on top of them (merge, diff, Equals,
  Clone …) are regenerated from the source on every run.

  Representation
  * `dom.Node` (interface)                         ↦ `Node` — NON-NIL.  A Go variable, parameter or
    result that may hold a nil interface value is `Option Node` (nil = none): locals initialised
    from `Child`, `Lookup`, `m[k]`, `var x dom.Node`, and the parameters the whitelist marks
    `Nullable`.  A method call on a nullable value goes through `nonNil` (nil receiver = panic).
    Everything else of type `dom.Node` — parameters not marked, what `Children()` / `Items()`
    hand out — is assumed non-nil: the DOM never stores a nil interface value (the hand-written
    model makes the same assumption; the translator rejects a comparison of such a value with nil).
  * `dom.Container`, `dom.ContainerBuilder`, `*containerImpl`, `*containerBuilderImpl`,
    `map[string]dom.Node`                          ↦ `Container` = the association list of children.
  * `dom.List`, `dom.ListBuilder`, `*listImpl`, `*listBuilderImpl`, `[]dom.Node` ↦ `DList` = `List Node`.
  * `dom.Leaf`                                      ↦ `Leaf` = `Scalar`;  `interface{}` (a leaf's `Value()`)
    ↦ `Scalar`, the nil interface value being `Scalar.null` (the convention of Basic.lean).
  * a Container / List / Leaf used where a `dom.Node` is expected (implicit interface conversion)
    ↦ the constructor `.cont` / `.list` / `.leaf`;  `n.(dom.Container)` ↦ `asContainer n` (panic =
    the failed type assertion).
  * builder MUTATION is a functional update: `l.Append(x)` ↦ `let l := GoDom.append l x`.  The
    translator accepts it only on LOCAL builder variables that the function itself created
    (`&listBuilderImpl{}`, `map[string]Node{}` …), so no alias can observe the difference.
  * Go map iteration (`for k, v := range c.Children()`) ↦ iteration over the association list in
    KEY ORDER.  That the results of the translated algorithms do not depend on the order is a
    separate family of theorems (`merge_deep_order_independent`, `diff_det`, `flatten_det`, …
    over the relational variants of the hand-written model).
  * pointer identity with the package-level singleton `nilLeaf` (`n == nilLeaf`) ↦ "is a leaf
    holding nil": the value model cannot tell the singleton from another nil leaf (Merge.lean says
    the same about `hasValue`).
  * `map[string]dom.Leaf` (what `Flatten` returns) ↦ `LeafMap`, `map[string]dom.ContainerBuilder` (the layers of an
    overlay document) ↦ `ContMap`: association lists like `Container`; `m[k] = v` is `AMap.insert`, `m[k]` is
    `AMap.get?` (nil = none).
  * a function-valued parameter (visitor, predicate) ↦ a Lean function into `Go.Res` (it may panic); the
    equivalence theorems quantify over it.
  * on the codec side (whitelist flag `Plain`: dom/codec.go's encoders, AsMap, AsSlice) `interface{}` ↦ `Val`,
    `[]interface{}` ↦ `List Val`, `map[string]interface{}` ↦ `List (String × Val)`; everywhere else `interface{}` is a
    leaf's value (`Scalar`).
  * `Equals` / `Clone` / `SameAs` called through the `dom.Node` interface ↦ the GENERATED method tables
    `FuncsDom.Equals` / `Clone` / `SameAs` (extract/translate_dispatch.go), proved equal to the hand-written `equals`
    / `clone` / `sameAs` in YtkProps/C05.lean; `Child`, `Lookup` called through the `dom.Container` interface stay the
    primitives `GoDom.child` / `GoDom.lookup` below — the translated `(*containerImpl).Child` / `Lookup` are proved
    equal to them in YtkProps/C02.lean.
  * TRUSTED primitives added with the second extension (each a one-liner below): `mkLeaf`, `ensureChildren`,
    `asContainer?`, `asLeaf?`, `LeafMap` / `newLeafMap` / `leafMapSet`, `ContMap` / `contMapGet`, `setItemAt`,
    `makePlainList` / `plainListSet` / `newPlainMap` / `plainMapSet`, `splitOnChar` / `stringsSplit1`,
    `stringsContains`, `hasSuffix`, `anyString?`, `reIdxSuffix` / `reIdxSuffixFind` (over the model's `stripIdx`).
    No longer only trusted: `append`, `set`, `remove` (= `listAppend`, `listSet`, `remove`) are proved equal to the
    translation of `ListBuilder.Append` / `Set` and `ContainerBuilder.Remove` in YtkProps/C03.lean.
  * `uint(i)` ↦ `i.toNat` and `int(math.Max(float64(a), float64(b)))` ↦ `max a b`: exact for
    0 ≤ i < 2^53 (GoPrelude: `int` is unbounded, wrap-around and float rounding are not modelled).
-/
import YtkModel.GoPrelude
import YtkModel.Dom
import YtkModel.Equal

namespace Ytk.GoDom
open Ytk

abbrev Container := List (String × Node)
abbrev DList := List Node
abbrev Leaf := Scalar
/-- `interface{}` holding a leaf value -/
abbrev Any := Scalar

/-! ## kinds, type assertions, nil -/

/-- `n.IsContainer()` -/
def isContainer (n : Node) : Bool := n.isCont
/-- `n.IsList()` -/
def isList (n : Node) : Bool := n.isList
/-- `n.IsLeaf()` -/
def isLeaf (n : Node) : Bool := n.isLeaf

/-- `n.(dom.Container)` / `n.(dom.ContainerBuilder)` -/
def asContainer : Node → Go.Res Container
  | .cont c => .ok c
  | _ => .panic
/-- `n.(dom.List)` / `n.(dom.ListBuilder)` -/
def asList : Node → Go.Res DList
  | .list l => .ok l
  | _ => .panic
/-- `n.(dom.Leaf)` -/
def asLeaf : Node → Go.Res Leaf
  | .leaf s => .ok s
  | _ => .panic

/-- `l, ok := n.(dom.List)` -/
def asList? : Node → Option DList
  | .list l => some l
  | _ => none
/-- `c, ok := n.(dom.Container)` -/
def asContainer? : Node → Option Container
  | .cont c => some c
  | _ => none
/-- `l, ok := n.(dom.Leaf)` -/
def asLeaf? : Node → Option Leaf
  | .leaf s => some s
  | _ => none

/-- a method call on a possibly-nil interface value: nil receiver panics -/
def nonNil {α : Type} (n : Option α) : Go.Res α := Go.deref n

/-- the package-level singleton `nilLeaf` (= `LeafNode(nil)`) -/
def nilLeaf : Leaf := Scalar.null
/-- `n == nilLeaf` (pointer identity; see the header) -/
def isNilLeaf (n : Option Node) : Bool := n == some (.leaf Scalar.null)
/-- the nil `interface{}` value -/
def anyNil : Any := Scalar.null

/-! ## reading -/

/-- `c.Children()`; also `c.children` -/
def children (c : Container) : List (String × Node) := c
/-- `len(c.Children())` / `len(c.children)` -/
def mapLen (c : Container) : Int := c.length
/-- `c.Child(name)` (nil = none) -/
def child (c : Container) (name : String) : Option Node := Ytk.child c name
/-- `c.Lookup(path)` (nil = none) -/
def lookup (c : Container) (path : String) : Option Node := Ytk.lookup c path
/-- `l.Items()` -/
def items (l : DList) : List Node := l
/-- `l.Size()` -/
def size (l : DList) : Int := l.length
/-- `l.items` of a `*listImpl` -/
def setItems (_ : DList) (xs : List Node) : DList := xs
/-- `leaf.Value()`; also `l.value` of a `*leaf` -/
def value (s : Leaf) : Any := s
/-- `&leaf{value: v}` -/
def mkLeaf (v : Any) : Leaf := v
/-- `cmp.Equal(a, b)` on two leaf values (NaN-free, −0-free scalars: DESIGN section 7, item 5) -/
def cmpEqual (a b : Any) : Bool := a == b
/-- `x.Equals(y)` as the hand-written `equals` (reference of `Equals_generated_eq_model`; the translator
    maps interface calls `v.Equals(o)` / `v.Clone()` to the GENERATED dispatchers `Equals` / `Clone` of
    Generated/FuncsDom.lean, see extract/translate_dispatch.go) -/
def equals (x : Node) (y : Option Node) : Bool :=
  match y with
  | some y => Ytk.equals x y
  | none => false
/-- `x.Clone()` as the hand-written `clone` (reference of `Clone_generated_eq_model`) -/
def clone (x : Node) : Node := Ytk.clone x

/-! ## Go maps `map[string]dom.Node` -/

/-- `map[string]Node{}`; `&containerBuilderImpl{}`; `dom.Builder().Container()` -/
def newContainer : Container := []
/-- `m[k] = v` -/
def mapSet (m : Container) (k : String) (v : Node) : Container := AMap.insert m k v
/-- `v, ok := m[k]` -/
def mapGet (m : Container) (k : String) : Option Node := AMap.get? m k
/-- `delete(m, k)` -/
def mapDelete (m : Container) (k : String) : Container := AMap.erase m k
/-- `r.children = m` -/
def setChildren (_ : Container) (m : Container) : Container := m
/-- `c.ensureChildren()` (allocates the map when it is nil: a nil map and an empty map are the same
    association list) -/
def ensureChildren (c : Container) : Container := c

/-! ## Go maps `map[string]dom.Leaf` (the result of `Flatten`) -/

/-- `map[string]dom.Leaf`: the association list, iterated in key order like every Go map here -/
abbrev LeafMap := List (String × Leaf)
/-- `make(map[string]Leaf)` -/
def newLeafMap : LeafMap := []
/-- `m[k] = leaf` -/
def leafMapSet (m : LeafMap) (k : String) (v : Leaf) : LeafMap := AMap.insert m k v

/-! ## Go maps `map[string]dom.ContainerBuilder` (the layers of an overlay document) -/

/-- `map[string]dom.ContainerBuilder`: an association list (any order; only looked up) -/
abbrev ContMap := List (String × Container)
/-- `m[k]` (nil = none) -/
def contMapGet (m : ContMap) (k : String) : Option Container := AMap.get? m k

/-! ## plain Go values on the codec side (functions with the whitelist flag `Plain`): `interface{}` ↦ `Val`,
    `[]interface{}` ↦ `List Val`, `map[string]interface{}` ↦ the association list; the conversions to `interface{}`
    are the constructors `.arr` / `.obj`, a leaf's `Value()` is `.sc` -/

/-- `make([]interface{}, n)`: n nil values -/
def makePlainList (n : Int) : List Val := List.replicate n.toNat Val.null
/-- `xs[i] = v` on a slice the function made itself: panics unless 0 ≤ i < len(xs) -/
def plainListSet (xs : List Val) (i : Int) (v : Val) : Go.Res (List Val) :=
  if 0 ≤ i ∧ i.toNat < xs.length then .ok (xs.set i.toNat v) else .panic
/-- `map[string]interface{}{}` -/
def newPlainMap : List (String × Val) := []
/-- `m[k] = v` -/
def plainMapSet (m : List (String × Val)) (k : String) (v : Val) : List (String × Val) := AMap.insert m k v

/-! ## builders (functional updates) -/

/-- `&listBuilderImpl{}`; `dom.ListNode()` -/
def newList : DList := []
/-- `l.Append(x)` -/
def append (l : DList) (x : Node) : DList := listAppend l x
/-- `l.Set(i, x)`: pads with nil leaves, then overwrites -/
def set (l : DList) (i : Nat) (x : Node) : DList := listSet l i x
/-- `c.AddValue(name, v)` / `c.add(name, v)` -/
def addValue (c : Container) (name : String) (v : Node) : Container := Ytk.add c name v
/-- `c.Remove(name)` -/
def remove (c : Container) (name : String) : Container := Ytk.remove c name
/-- `l.items[i] = x` (Go slice element assignment on the builder's own slice): panics unless i < len -/
def setItemAt (l : DList) (i : Nat) (x : Node) : Go.Res DList := if i < l.length then .ok (l.set i x) else .panic
/-- `dom.LeafNode(v)` -/
def leafNode (v : Any) : Node := .leaf v

/-- `slices.Reverse(xs)` on a local slice -/
def slicesReverse {α : Type} (xs : List α) : List α := xs.reverse

/-! ## strings -/

/-- `strings.Split(s, sep)` on characters, for a ONE-character separator: always at least one component -/
def splitOnChar (sep : Char) : List Char → List (List Char)
  | [] => [[]]
  | c :: cs =>
    match splitOnChar sep cs with
    | [] => [[c]]
    | h :: t => if c = sep then [] :: h :: t else (c :: h) :: t

/-- `strings.Split(s, sep)` for a constant one-character separator (the translator rejects any other) -/
def stringsSplit1 (s : String) (sep : Char) : List String := (splitOnChar sep s.toList).map String.ofList

/-- the package-level regexp `\[\d+]$` (listPathRe): `MatchString(s)` — the text ends with `[`, one or more ASCII
    digits, `]` (the model's `stripIdx` recognises exactly this group) -/
def reIdxSuffix (s : String) : Bool := (stripIdx s.toList).isSome
/-- `listPathRe.FindStringIndex(s)`: nil, or [start, end] of that trailing group (end = len(s), in characters) -/
def reIdxSuffixFind (s : String) : List Int :=
  match stripIdx s.toList with
  | some (p, _) => [(p.length : Int), (s.toList.length : Int)]
  | none => []

/-- `strings.Contains(s, sub)` (= `strings.Index(s, sub) >= 0`) -/
def stringsContains (s sub : String) : Bool := Go.stringsIndex s sub != -1
/-- `strings.HasSuffix(s, suf)` -/
def hasSuffix (s suf : String) : Bool := suf.toList.reverse.isPrefixOf s.toList.reverse
/-- `x, ok := v.(string)` on a leaf's value: the model's scalars carry their Go type name -/
def anyString? (v : Any) : Option String := if v.ty == "string" then some v.text else none

/-! ## numbers -/

/-- `uint(i)` -/
def uint (i : Int) : Nat := i.toNat
/-- `int(math.Max(float64(a), float64(b)))` -/
def intMax (a b : Int) : Int := max a b
/-- `int(math.Min(float64(a), float64(b)))` -/
def intMin (a b : Int) : Int := min a b

/-! ## recursion measures (fuel the translator instantiates for recursive functions) -/

def sizeN (n : Node) : Nat := n.size
def sizeC (c : Container) : Nat := Node.sizeKvs c
def sizeL (l : DList) : Nat := Node.sizeList l

end Ytk.GoDom
