/-
  YtkModel.Equal — model of Node.Equals / SameAs / Clone (dom/container.go, list.go, leaf.go).

  containerImpl.Equals: the other node is a container with the same number of children and
  every own child equals the other's `Child(name)`.
  listImpl.Equals: same length and pairwise equal.  leaf.Equals: cmp.Equal on the values
  (= equality of `Scalar`s, NaN-free).
-/
import YtkModel.Dom

namespace Ytk

mutual
def equals : Node → Node → Bool
  | .leaf a, .leaf b => a == b
  | .list xs, .list ys => xs.length == ys.length && equalsList xs ys
  | .cont xs, .cont ys => xs.length == ys.length && equalsKvs xs ys
  | _, _ => false
/-- pairwise over the common prefix (lengths are compared by the caller) -/
def equalsList : List Node → List Node → Bool
  | x :: xs, y :: ys => equals x y && equalsList xs ys
  | _, _ => true
/-- every own entry is found, equal, under its name in the other container -/
def equalsKvs : List (String × Node) → AMap Node → Bool
  | [], _ => true
  | (k, v) :: rest, ys =>
    (match child ys k with
     | some o => equals v o
     | none => false) && equalsKvs rest ys
end

/-- `x.Equals(nil)` -/
def equalsNil (_ : Node) : Bool := false

/-- SameAs: kind equality -/
def sameAs (x y : Node) : Bool := x.kind == y.kind

mutual
/-- Clone: a structurally identical fresh tree -/
def clone : Node → Node
  | .leaf v => .leaf v
  | .list xs => .list (cloneList xs)
  | .cont kvs => .cont (cloneKvs kvs)
def cloneList : List Node → List Node
  | [] => []
  | x :: xs => clone x :: cloneList xs
def cloneKvs : List (String × Node) → List (String × Node)
  | [] => []
  | (k, x) :: xs => (k, clone x) :: cloneKvs xs
end

end Ytk
