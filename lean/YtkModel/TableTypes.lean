/-
  YtkModel.TableTypes — the schema of the regenerated decision tables (extract/tables.go →
  `Generated/Tables.lean`, rewritten on every run from /repo's working tree).

  A decision table is what the Go code spells out as a `switch` over constants, a map literal
  keyed by constants, or an if / else-if chain: plain data (strings, bools), no proofs.
  Tables whose keys are pairwise distinct constants (switch cases, map keys, `x == "lit"` chains)
  are emitted SORTED BY KEY — the order of such cases has no meaning in Go, so reordering them in
  the source leaves the table unchanged.  Tables whose order is meaningful (guards evaluated one
  after the other, the kind tests of merge) keep the source order.
-/
namespace Ytk.TableT

/-- one case of a constant-keyed dispatch -/
structure Row where
  /-- the case expression as written in the source (`OpAdd`, `".yaml"`, `reflect.Map`) -/
  const : String
  /-- its value: the string the constant stands for (`"add"`), or the kind name (`"Map"`) -/
  key : String
  /-- what the branch does, classified syntactically by the extractor: a handler / codec function
      name, or a class such as `leaf:base64`, `container`, `error` -/
  target : String
  deriving DecidableEq, Repr, Inhabited

/-- one element of an ordered chain of `if <subject> == nil { return <result> }` guards;
    parameters are named by position (`arg0`, `arg0.Path`, `arg1`) so that renaming them is harmless -/
structure Guard where
  subject : String
  result : String
  deriving DecidableEq, Repr, Inhabited

/-- k8s: manifest kind ↦ (binary section key, text section key), constants resolved -/
structure KindRow where
  kind : String
  binKey : String
  textKey : String
  deriving DecidableEq, Repr, Inhabited

/-- k8s: how one of the two sections of `dataHandler` is read and written -/
structure SectionRow where
  /-- `bk` / `tk`: the dataHandler field holding the section key -/
  field : String
  loadFn : String
  /-- the load function decodes with `base64.StdEncoding.DecodeString` -/
  loadBase64 : Bool
  saveFn : String
  /-- the save function encodes with `base64.StdEncoding.EncodeToString` -/
  saveBase64 : Bool
  deriving DecidableEq, Repr, Inhabited

/-- dom/merge.go: one arm of the kind dispatch for a key / index present on both sides:
    `left` / `right` ∈ {container, list, any}, `action` ∈ {mergeContainers, listMergeFn, coalesce} -/
structure MergeCase where
  left : String
  right : String
  action : String
  deriving DecidableEq, Repr, Inhabited

/-- the target of `key` in a constant-keyed table, `dflt` when no case has that key -/
def lookupD (t : List Row) (dflt key : String) : String :=
  match t.find? (·.key == key) with
  | some r => r.target
  | none => dflt

def keys (t : List Row) : List String := t.map (·.key)

/-- (key, target) pairs: what a table decides, without the spelling of the constants -/
def pairs (t : List Row) : List (String × String) := t.map (fun r => (r.key, r.target))

end Ytk.TableT
