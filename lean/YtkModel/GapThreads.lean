/-
  YtkModel.GapThreads — C20, round 8: the link between the two halves of the model of YtkModel/Effects.lean.

  (i) `Run`: a call tree of one function, with the ROOTS (receiver / parameter / global roots of the root
  function's frame) it writes through; (ii) `Thread`: a list of read / write events on LOCATIONS.
  A goroutine of the property executes a sequence of API calls.  `Call` pairs the call tree of one call with
  the memory events the goroutine performs during it; `Covered ρ c` says the events are accounted for by the
  call tree: every WRITE event goes to a location that is reached through (`ρ`) one of the roots the call
  tree writes.  (Reads are unconstrained.)  This is what "the execution follows the extracted table" means at
  the level of memory events; it is a hypothesis of the composed theorems, not proved of the Go code.
-/
import YtkModel.Effects

namespace Ytk.Effects
open Ytk.EffectT

structure Call where
  run : Run
  evs : Thread

/-- `ρ loc` = the root of the call's frame through which location `loc` is reached -/
def Covered (ρ : Nat → Root) (c : Call) : Prop :=
  ∀ e ∈ c.evs, e.isRead = false → ρ e.loc ∈ c.run.writes

/-- the events of a goroutine that makes the calls `cs` one after the other -/
def threadOf (cs : List Call) : Thread := cs.flatMap (·.evs)

end Ytk.Effects
