/-
  YtkModel.Decisions — the DECISION TABLES of the hand-written model, as explicit data.

  The model functions (`Patch.patchDo`, `K8s.kindKeys`, `PD.toValue`, `PD.setOp`, `PD.templateOp`,
  `PD.Format.ofString`, `decodeNode`, `mergeNode`) spell their case analysis out as if-chains /
  pattern matches, mirroring the Go code.  Here the same decisions are written once more as finite
  tables plus a table-driven variant of each function (`…T`); `YtkProofs/Decisions.lean` proves
  `old = table-driven` for all inputs, so the tables below ARE the model's decision logic — the
  existing definitions (which the harness validates) are untouched.  `YtkProps/Cxx.lean` then proves by
  kernel `decide` that the tables regenerated from the Go source (`Generated/Tables.lean`) equal these.

  `FileCodec` (YtkModel/FileCodec.lean, its own file so that C16 can import it alone) has no older counterpart: the model treats the text codecs as parameters; which codec a
  file suffix selects (common.DefaultFile{Decoder,Encoder}Provider) is modelled here for the first time.
-/
import YtkModel.TableTypes
import YtkModel.FileCodec
import YtkModel.Patch
import YtkModel.K8s
import YtkModel.PipelineData
import YtkModel.Codec
import YtkModel.Merge

/-! ## patch.Do -/
namespace Ytk.Patch
open Ytk.Ptr Ytk.TableT

/-- the handler functions of patch/patch.go -/
inductive Handler | doAdd | doCopy | doMove | doRemove | doReplace | doTest
  deriving DecidableEq, Repr, Inhabited

def Handler.goName : Handler → String
  | .doAdd => "doAdd" | .doCopy => "doCopy" | .doMove => "doMove"
  | .doRemove => "doRemove" | .doReplace => "doReplace" | .doTest => "doTest"

/-- all handlers, sorted by Go name -/
def Handler.all : List Handler := [.doAdd, .doCopy, .doMove, .doRemove, .doReplace, .doTest]

/-- operation name ↦ handler (sorted by name) -/
def dispatchTable : List (String × Handler) :=
  [("add", .doAdd), ("copy", .doCopy), ("move", .doMove), ("remove", .doRemove), ("replace", .doReplace),
   ("test", .doTest)]

def handlerOf (op : String) : Option Handler := dispatchTable.lookup op

/-- what the model runs for a handler -/
def Handler.run (h : Handler) (o : OpObj) (path : Path) (root : Node) : Res :=
  match h with
  | .doAdd => Patch.doAdd o.value path root
  | .doRemove => Patch.doRemove path root
  | .doReplace => Patch.doReplace o.value path root
  | .doMove => Patch.moveOrCopy o.frm path root true
  | .doCopy => Patch.moveOrCopy o.frm path root false
  | .doTest => Patch.doTest o.value path root

/-- the handler fails first thing when `value` is missing -/
def Handler.needsValue : Handler → Bool
  | .doAdd | .doReplace | .doTest => true
  | _ => false

/-- the handler fails first thing when `from` is missing -/
def Handler.needsFrom : Handler → Bool
  | .doMove | .doCopy => true
  | _ => false

/-- the leading guards of a handler, in the vocabulary of the extractor -/
def Handler.guards (h : Handler) : List Guard :=
  (if h.needsValue then [⟨"arg0.Value", "ErrOoValueMissing"⟩] else []) ++
  (if h.needsFrom then [⟨"arg0.From", "ErrOoFromMissing"⟩] else [])

/-- what patch.Do tests before dispatching: the operation object, its path, the target.  The model
    takes a non-nil object and target (its signature) and represents a missing path as `none`. -/
def preChecks : List Guard := [⟨"arg0", "ErrNoOo"⟩, ⟨"arg0.Path", "ErrOoPathMissing"⟩, ⟨"arg1", "ErrNoTarget"⟩]

/-- `patchDo`, table-driven -/
def patchDoT (o : OpObj) (root : Node) : Res :=
  match o.path with
  | none => (root, .err)
  | some path =>
    match handlerOf o.op with
    | some h => h.run o path root
    | none => (root, .err)

end Ytk.Patch

/-! ## k8s.ManifestFromBytes -/
namespace Ytk.K8s

/-- kind ↦ (binary section key, text section key), sorted by kind -/
def kindTable : List (String × String × String) :=
  [("ConfigMap", keyBinaryData, keyData), ("Secret", keyData, keyStringData)]

/-- `kindKeys`, table-driven -/
def kindKeysT (doc : AMap Val) : Outcome (String × String) :=
  match AMap.get? doc "kind" with
  | some (.sc s) =>
    if s.ty = "string" then
      match kindTable.lookup s.text with
      | some p => .ok p
      | none => .err
    else .err
  | _ => .err

/-- the two sections of a manifest: the `bk` section goes through base64 both ways, the `tk` section
    is verbatim text (`afterLoadBinary`/`beforeSaveBinary` vs `afterLoadString`/`beforeSaveString`) -/
def sectionTable : List TableT.SectionRow :=
  [⟨"bk", "afterLoadBinary", true, "beforeSaveBinary", true⟩,
   ⟨"tk", "afterLoadString", false, "beforeSaveString", false⟩]

end Ytk.K8s

/-! ## pipeline: import / export / set / template -/
namespace Ytk.PD

/-- what ParseFileMode.toValue does with the file content -/
inductive ModeClass | leafBase64 | leafString | decodeYaml | decodeJson | decodeProps
  deriving DecidableEq, Repr, Inhabited

def ModeClass.goName : ModeClass → String
  | .leafBase64 => "leaf:base64" | .leafString => "leaf:string"
  | .decodeYaml => "decode:dom.DefaultYamlDecoder" | .decodeJson => "decode:dom.DefaultJsonDecoder"
  | .decodeProps => "decode:props.DecoderFn"

def ModeClass.apply (cd : Codecs) (content : List Nat) : ModeClass → Option Node
  | .leafBase64 => some (.leaf ⟨"string", String.ofList (b64Encode content)⟩)
  | .leafString => some (.leaf ⟨"string", cd.text content⟩)
  | .decodeYaml => (cd.yaml content).map .cont
  | .decodeJson => (cd.json content).map .cont
  | .decodeProps => (cd.props content).map .cont

/-- mode ↦ class, sorted by mode; anything else is an error -/
def modeTable : List (String × ModeClass) :=
  [("binary", .leafBase64), ("json", .decodeJson), ("properties", .decodeProps), ("text", .leafString),
   ("yaml", .decodeYaml)]

/-- parseFile: the mode used when none is given -/
def defaultMode : String := "text"

/-- `toValue`, table-driven -/
def toValueT (cd : Codecs) (mode : String) (content : List Nat) : Option Node :=
  match modeTable.lookup (if mode = "" then defaultMode else mode) with
  | some c => c.apply cd content
  | none => none

/-- output format name ↦ format, sorted; anything else is `unknown` (an error before the file is touched) -/
def formatTable : List (String × Format) :=
  [("json", .json), ("properties", .properties), ("text", .text), ("yaml", .yaml)]

def Format.ofStringT (s : String) : Format := (formatTable.lookup s).getD .unknown

/-- the encoder ExportOp.Do picks, in the vocabulary of the extractor -/
def Format.encoder : Format → String
  | .yaml => "dom.DefaultYamlEncoder" | .json => "dom.DefaultJsonEncoder" | .properties => "props.EncoderFn"
  | .text => "fmt.Fprintf:%v" | .unknown => "error"

/-- what `exportDecision` writes for an unresolved path, in the vocabulary of the extractor -/
def Decision.defaultName : Decision → String
  | .writeEmptyDoc => "container"
  | .writeEmptyText => "leaf:\"\""
  | _ => "other"

/-- what a SetOp strategy does -/
inductive SetClass | merge | replace
  deriving DecidableEq, Repr, Inhabited

def SetClass.goName : SetClass → String
  | .merge => "merge" | .replace => "replace"

def SetClass.apply (mergeC : AMap Node → AMap Node → AMap Node) (path : String) (data other : AMap Node) :
    SetClass → AMap Node
  | .merge => setMerge mergeC path data other
  | .replace => setReplace path data other

def strategyTable : List (String × SetClass) := [("merge", .merge), ("replace", .replace)]

def defaultStrategy : String := "merge"

/-- `setOp`, table-driven -/
def setOpT (mergeC : AMap Node → AMap Node → AMap Node) (data : AMap Node)
    (payload : Option (AMap Node)) (path : String) (strategy : Option String) : Outcome (AMap Node) :=
  match payload with
  | none => .err
  | some other =>
    match strategyTable.lookup (strategy.getD defaultStrategy) with
    | some c => .ok (c.apply mergeC path data other)
    | none => .err

/-- what TemplateOp.Do stores for a parseAs value -/
inductive ParseClass | leafString | yaml
  deriving DecidableEq, Repr, Inhabited

def ParseClass.goName : ParseClass → String
  | .leafString => "leaf:string" | .yaml => "yaml"

def parseAsTable : List (String × ParseClass) := [("none", .leafString), ("yaml", .yaml)]

def defaultParseAs : String := "none"

/-- `templateOp`, table-driven -/
def templateOpT (render : String → Option String) (lenient : String → String) (trimFn : String → String)
    (yamlParse : String → Option (Option YNode)) (t : TemplateSpec) (data : AMap Node) :
    AMap Node × Bool :=
  if t.template = "" then (data, true)
  else if t.path = "" then (data, true)
  else
    let rendered := render t.template
    let val0 := rendered.getD ""
    let val := if t.trim then trimFn val0 else val0
    match parseAsTable.lookup (t.parseAs.getD defaultParseAs) with
    | some .yaml =>
      match yamlParse val with
      | none => (data, true)
      | some yn => (addValueAt data (lenient t.path) (yamlResult yn), false)
    | some .leafString => (addValueAt data (lenient t.path) (.leaf ⟨"string", val⟩), rendered.isNone)
    | none => (data, true)

end Ytk.PD

/-! ## dom/codec.go and dom/merge.go: dispatch on the kind of a value / node -/
namespace Ytk

/-- the three node kinds -/
inductive Shape | container | list | leaf
  deriving DecidableEq, Repr, Inhabited

def Shape.goName : Shape → String
  | .container => "container" | .list => "list" | .leaf => "leaf"

def Node.shape : Node → Shape
  | .cont _ => .container | .list _ => .list | .leaf _ => .leaf

def Val.shape : Val → Shape
  | .obj _ => .container | .arr _ => .list | .sc _ => .leaf

/-- every `reflect.Kind` of Go (reflect/type.go), in declaration order -/
def reflectKinds : List String :=
  ["Invalid", "Bool", "Int", "Int8", "Int16", "Int32", "Int64", "Uint", "Uint8", "Uint16", "Uint32", "Uint64",
   "Uintptr", "Float32", "Float64", "Complex64", "Complex128", "Array", "Chan", "Func", "Interface", "Map",
   "Pointer", "Slice", "String", "Struct", "UnsafePointer"]

/-- the kinds of the property's generic-value domain that are not maps, slices or arrays -/
def scalarKinds : List String :=
  ["Bool", "Int", "Int8", "Int16", "Int32", "Int64", "Uint", "Uint8", "Uint16", "Uint32", "Uint64",
   "Float32", "Float64", "String"]

/-- How the generic-value domain `Val` of the model (and the wire form of the harness) represents a Go
    value of a given kind: maps are `.obj`, slices and arrays `.arr`, every other kind — and nil — a
    scalar `.sc`.  A witness of each constructor: -/
def kindSample (k : String) : Val :=
  if k = "Map" then .obj [("k", .sc ⟨"string", "v"⟩)]
  else if k = "Slice" ∨ k = "Array" then .arr [.sc ⟨"int", "1"⟩]
  else .sc ⟨k, "x"⟩

/-- the node kind the model's decoder builds for a value of Go kind `k` -/
def decodeShape (k : String) : Shape := (decodeNode (kindSample k)).shape

/-- what the merge does with a key / index present on both sides -/
inductive MergeAct | recurse | lists | coalesce
  deriving DecidableEq, Repr, Inhabited

def MergeAct.goName : MergeAct → String
  | .recurse => "mergeContainers" | .lists => "listMergeFn" | .coalesce => "coalesce"

/-- the ORDERED case table of `mergeNode`: (left kind, right kind) or `none` = any; the first
    matching arm decides -/
def mergeCases : List (Option Shape × Option Shape × MergeAct) :=
  [(some .container, some .container, .recurse), (some .list, some .list, .lists), (none, none, .coalesce)]

def shapeMatches : Option Shape → Shape → Bool
  | none, _ => true
  | some a, b => a == b

/-- first matching arm; `coalesce` if the table had no catch-all -/
def mergeDecisionIn : List (Option Shape × Option Shape × MergeAct) → Shape → Shape → MergeAct
  | [], _, _ => .coalesce
  | (l, r, a) :: rest, x, y => if shapeMatches l x && shapeMatches r y then a else mergeDecisionIn rest x y

def mergeDecision (x y : Shape) : MergeAct := mergeDecisionIn mergeCases x y

def shapeName : Option Shape → String
  | none => "any"
  | some s => s.goName

/-- `mergeCases` in the vocabulary of the extractor -/
def mergeCasesNamed : List TableT.MergeCase :=
  mergeCases.map (fun c => ⟨shapeName c.1, shapeName c.2.1, c.2.2.goName⟩)

end Ytk
