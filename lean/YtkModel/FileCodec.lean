/-
  YtkModel.FileCodec — which text codec a file suffix selects
  (common.DefaultFileDecoderProvider / DefaultFileEncoderProvider, common/common.go).

  The model treats the text codecs (yaml.v3, encoding/json, properties) as parameters; the choice of the
  codec from the file name is a finite decision, written here as a table.  `YtkProps/C01.lean` and
  `C16.lean` prove by kernel `decide` that the suffix switches regenerated from the Go source
  (`Generated/Tables.lean`) are this table.
-/
import YtkModel.TableTypes

namespace Ytk.FileCodec

/-- the three text codecs -/
inductive Fmt | yaml | json | properties
  deriving DecidableEq, Repr, Inhabited

/-- `filepath.Ext(file)` ↦ codec, sorted by suffix; anything else: no codec (nil) -/
def suffixTable : List (String × Fmt) :=
  [(".json", .json), (".properties", .properties), (".yaml", .yaml), (".yml", .yaml)]

def ofSuffix (ext : String) : Option Fmt := suffixTable.lookup ext

def Fmt.decoder : Fmt → String
  | .yaml => "dom.DefaultYamlDecoder" | .json => "dom.DefaultJsonDecoder" | .properties => "props.DecoderFn"

def Fmt.encoder : Fmt → String
  | .yaml => "dom.DefaultYamlEncoder" | .json => "dom.DefaultJsonEncoder" | .properties => "props.EncoderFn"

/-- name of the function DefaultFileDecoderProvider returns for a suffix (`nil` = unrecognised) -/
def decoderOf (ext : String) : String := ((ofSuffix ext).map Fmt.decoder).getD "nil"
def encoderOf (ext : String) : String := ((ofSuffix ext).map Fmt.encoder).getD "nil"

end Ytk.FileCodec

