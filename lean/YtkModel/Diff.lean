/-
  YtkModel.Diff — executable model of diff/diff.go and diff/apply.go at /repo HEAD,
  on top of the DOM model (Dom.lean) and `equals` (Equal.lean).

  diff.go
  * `Mod`                         — Modification{Type, Path, Value, OldValue}; a Go `nil`
                                    interface value is `Scalar.null` (Delete carries nil/nil,
                                    Add carries nil as OldValue)
  * `flatNode/flatList/flatKvs`   — flattenNode / flattenList / flattenContainer / flattenLeaf
  * `emitNode`                    — handleExisting (incl. diffList and the leaf comparison)
  * `emitLeft`, `emitRight`       — the two loops of diff(left,right,path,res)
  * `sortMods`                    — sort.SliceStable on Path with `<`: stable insertion sort
  * `diff`                        — Diff(left,right)
  * `FlatRel/EmitRel/…`           — the same traversal with every Go map ranged over in an
                                    arbitrary order (left loop entirely before right loop)
  * `overlayDocs`                 — OverlayDocs over layer maps

  apply.go
  * `parseListComp`               — utils.ParseListPathComponent (left-to-right scan)
  * `applyListWith`               — applyList (the container it returns is edited by the
                                    continuation `f`; Go edits it in place afterwards)
  * `applyAddSegs`                — the Add/Change branch of applySingle
                                    (applyListItem / applyNonListItem / AddValue)
  * `applyDelSegs`                — the Delete branch of applySingle
  * `applySingle`, `apply`        — applySingle, Apply

  The executable functions iterate containers in key order.
-/
import YtkModel.Dom
import YtkModel.Equal

namespace Ytk

inductive ModType where
  | add | change | delete
  deriving DecidableEq, Repr, Inhabited

def ModType.name : ModType → String
  | .add => "Add" | .change => "Change" | .delete => "Delete"

structure Mod where
  ty    : ModType
  path  : String
  value : Scalar
  old   : Scalar
  deriving DecidableEq, Repr, Inhabited

/-- appendMod(ModAdd, path, l.Value(), nil) -/
def Mod.mkAdd (p : String) (v : Scalar) : Mod := ⟨.add, p, v, Scalar.null⟩
/-- appendMod(ModDelete, path, nil, nil) -/
def Mod.mkDel (p : String) : Mod := ⟨.delete, p, Scalar.null, Scalar.null⟩
/-- appendMod(ModChange, path, right, left) -/
def Mod.mkChange (p : String) (right left : Scalar) : Mod := ⟨.change, p, right, left⟩

/-! ## diff.go: flatten* (emit one Add per leaf) -/

mutual
/-- flattenNode -/
def flatNode : Node → String → List Mod
  | .leaf v, p => [Mod.mkAdd p v]
  | .list xs, p => flatList xs p 0
  | .cont kvs, p => flatKvs kvs p
/-- flattenList: `fmt.Sprintf("%s[%d]", path, i)` and `utils.ToListPath(path, i)` are the same string -/
def flatList : List Node → String → Nat → List Mod
  | [], _, _ => []
  | x :: xs, p, i => flatNode x (toListPath p i) ++ flatList xs p (i + 1)
/-- flattenContainer (key order) -/
def flatKvs : List (String × Node) → String → List Mod
  | [], _ => []
  | (k, x) :: xs, p => flatNode x (toPath p k) ++ flatKvs xs p
end

/-! ## diff.go: handleExisting / diffList / diff -/

mutual
/-- handleExisting(left, right, path) -/
def emitNode : Node → Node → String → List Mod
  | .cont l, .cont r, p => emitLeft l r p ++ emitRight r l p
  | .list xs, .list ys, p =>
    -- diffList: whole-list replace when !left.Equals(right)
    if equals (.list xs) (.list ys) then [] else Mod.mkDel p :: flatList xs p 0
  | .leaf a, .leaf b, p =>
    -- cmp.Equal on the two values
    if a = b then [] else [Mod.mkChange p b a]
  -- kind mismatch: replace (del + add of the RIGHT node's leaves)
  | .leaf _, .list ys, p => Mod.mkDel p :: flatNode (.list ys) p
  | .leaf _, .cont r, p => Mod.mkDel p :: flatNode (.cont r) p
  | .list _, .leaf b, p => Mod.mkDel p :: flatNode (.leaf b) p
  | .list _, .cont r, p => Mod.mkDel p :: flatNode (.cont r) p
  | .cont _, .leaf b, p => Mod.mkDel p :: flatNode (.leaf b) p
  | .cont _, .list ys, p => Mod.mkDel p :: flatNode (.list ys) p
/-- first loop of diff(): `for k, n := range left.Children()` -/
def emitLeft : List (String × Node) → AMap Node → String → List Mod
  | [], _, _ => []
  | (k, n) :: rest, r, p =>
    (match child r k with
     | some n2 => emitNode n n2 (toPath p k)
     | none => flatNode n (toPath p k)) ++ emitLeft rest r p
/-- second loop of diff(): `for k := range right.Children()`, Delete when `left.Child(k) == nil` -/
def emitRight : List (String × Node) → AMap Node → String → List Mod
  | [], _, _ => []
  | (k, _) :: rest, l, p =>
    (match child l k with
     | some _ => []
     | none => [Mod.mkDel (toPath p k)]) ++ emitRight rest l p
end

/-- diff(left, right, "") in key order -/
def emit (l r : AMap Node) : List Mod := emitNode (.cont l) (.cont r) ""

/-! ## sortMods: sort.SliceStable by Path -/

/-- insert `m`, which preceded all of `xs` in the input, into the sorted `xs`:
    it stays in front of every element whose path is not smaller -/
def insertMod (m : Mod) : List Mod → List Mod
  | [] => [m]
  | x :: xs => if x.path < m.path then x :: insertMod m xs else m :: x :: xs

def sortMods : List Mod → List Mod
  | [] => []
  | m :: ms => insertMod m (sortMods ms)

/-- diff.Diff -/
def diff (l r : AMap Node) : List Mod := sortMods (emit l r)

/-! ## The same traversal with arbitrary map iteration order -/

mutual
inductive FlatRel : Node → String → List Mod → Prop
  | leaf (v : Scalar) (p : String) : FlatRel (.leaf v) p [Mod.mkAdd p v]
  | list {xs : List Node} {p : String} {ms : List Mod} : FlatListRel xs p 0 ms → FlatRel (.list xs) p ms
  | cont {kvs kvs' : List (String × Node)} {p : String} {ms : List Mod} :
      kvs'.Perm kvs → FlatKvsRel kvs' p ms → FlatRel (.cont kvs) p ms
inductive FlatListRel : List Node → String → Nat → List Mod → Prop
  | nil (p : String) (i : Nat) : FlatListRel [] p i []
  | cons {x : Node} {xs : List Node} {p : String} {i : Nat} {a b : List Mod} :
      FlatRel x (toListPath p i) a → FlatListRel xs p (i + 1) b → FlatListRel (x :: xs) p i (a ++ b)
inductive FlatKvsRel : List (String × Node) → String → List Mod → Prop
  | nil (p : String) : FlatKvsRel [] p []
  | cons {k : String} {x : Node} {xs : List (String × Node)} {p : String} {a b : List Mod} :
      FlatRel x (toPath p k) a → FlatKvsRel xs p b → FlatKvsRel ((k, x) :: xs) p (a ++ b)
end

mutual
/-- handleExisting / diff with free iteration orders: every `range` over a Go map (both loops of
    diff() and flattenContainer at any depth) may visit the keys in any permutation; the left loop
    runs entirely before the right loop, as in the code. -/
inductive EmitRel : Node → Node → String → List Mod → Prop
  | cont {l l' r r' : List (String × Node)} {p : String} {ms : List Mod} :
      l'.Perm l → r'.Perm r → EmitLeftRel l' r p ms →
      EmitRel (.cont l) (.cont r) p (ms ++ emitRight r' l p)
  | other {x y : Node} {p : String} : (x.isCont && y.isCont) = false → (x.isList && y.isList) = false →
      (x.isLeaf && y.isLeaf) = false → {ms : List Mod} → FlatRel y p ms →
      EmitRel x y p (Mod.mkDel p :: ms)
  | leaf (a b : Scalar) (p : String) : EmitRel (.leaf a) (.leaf b) p (emitNode (.leaf a) (.leaf b) p)
  | listEq {xs ys : List Node} (p : String) : equals (.list xs) (.list ys) = true →
      EmitRel (.list xs) (.list ys) p []
  | listNe {xs ys : List Node} {p : String} {ms : List Mod} : equals (.list xs) (.list ys) = false →
      FlatRel (.list xs) p ms → EmitRel (.list xs) (.list ys) p (Mod.mkDel p :: ms)
inductive EmitLeftRel : List (String × Node) → AMap Node → String → List Mod → Prop
  | nil (r : AMap Node) (p : String) : EmitLeftRel [] r p []
  | both {k : String} {n n2 : Node} {rest : List (String × Node)} {r : AMap Node} {p : String}
      {a b : List Mod} : child r k = some n2 → EmitRel n n2 (toPath p k) a → EmitLeftRel rest r p b →
      EmitLeftRel ((k, n) :: rest) r p (a ++ b)
  | leftOnly {k : String} {n : Node} {rest : List (String × Node)} {r : AMap Node} {p : String}
      {a b : List Mod} : child r k = none → FlatRel n (toPath p k) a → EmitLeftRel rest r p b →
      EmitLeftRel ((k, n) :: rest) r p (a ++ b)
end

/-! ## OverlayDocs -/

/-- diff.OverlayDocs on the two `Layers()` maps: for every layer name of either side the diff of
    the two layers, a missing layer being the empty container -/
def overlayDocs (l r : AMap (AMap Node)) : AMap (List Mod) :=
  let fromLeft := l.foldl (fun acc (p : String × AMap Node) =>
    AMap.insert acc p.1 (diff p.2 ((AMap.get? r p.1).getD []))) ([] : AMap (List Mod))
  r.foldl (fun acc (p : String × AMap Node) =>
    AMap.insert acc p.1 (diff ((AMap.get? l p.1).getD []) p.2)) fromLeft

/-! ## apply.go -/

def indexOfChar (c : Char) : List Char → Option Nat
  | [] => none
  | x :: xs => if x = c then some 0 else (indexOfChar c xs).map (· + 1)

/-- the regexp `.*(\[\d+])+` finds a match: some `[`, one or more digits, `]` occurs -/
def hasIdxGroup : List Char → Bool
  | [] => false
  | c :: cs =>
    (c == '[' && (match cs.span isDigit with
                  | (_ :: _, ']' :: _) => true
                  | _ => false)) || hasIdxGroup cs

/-- strconv.Atoi with the error dropped: 0 unless the text is a non-empty digit string
    (signs and overflow are outside the modelled domain) -/
def atoiOr0 (s : List Char) : Nat := if s ≠ [] ∧ s.all isDigit then digitsToNat s else 0

/-- the `for` loop of ParseListPathComponent; `none` where the Go code would panic on a
    slice bound (a `[` without a later `]`, or a `]` before the first `[`) — such components do not
    occur in flatten-style paths over path-safe keys -/
def plpcLoop : Nat → List Char → List Nat → Option (List Nat)
  | 0, _, acc => some acc
  | fuel + 1, cpath, acc =>
    match indexOfChar '[' cpath with
    | none => some acc
    | some start =>
      match indexOfChar ']' cpath with
      | none => none
      | some stop =>
        if stop < start + 1 then none
        else plpcLoop fuel (cpath.drop (stop + 1))
               (acc ++ [atoiOr0 ((cpath.drop (start + 1)).take (stop - (start + 1)))])

/-- utils.ParseListPathComponent: `none` = not a list component (`ok == false`) -/
def parseListComp (c : String) : Option (String × List Nat) :=
  let cs := c.toList
  if hasIdxGroup cs then
    match plpcLoop (cs.length + 1) cs [] with
    | some is => some (String.ofList (cs.takeWhile (· ≠ '[')), is)
    | none => none
  else none

/-- applyList(l, idxes) followed by the in-place edit `f` of the container it returns -/
def applyListWith (f : AMap Node → AMap Node) : List Node → List Nat → List Node
  | xs, [] => xs
  | xs, [i] =>
    match xs[i]? with
    | some (.cont c) => xs.set i (.cont (f c))
    | _ => listSet xs i (.cont (f []))
  | xs, i :: j :: is =>
    match xs[i]? with
    | some (.list ys) => xs.set i (.list (applyListWith f ys (j :: is)))
    | _ => listSet xs i (.list (applyListWith f [] (j :: is)))

/-- the ModAdd / ModChange branch of applySingle over the path components -/
def applyAddSegs (kvs : AMap Node) : List String → Scalar → AMap Node
  | [], _ => kvs
  | [last], v => add kvs last (.leaf v)
  | c :: c2 :: rest, v =>
    match parseListComp c with
    | some (n, idxes) =>
      -- applyListItem: reuse the list at `n`, else AddList(n)
      let xs := match child kvs n with
        | some (.list xs) => xs
        | _ => []
      add kvs n (.list (applyListWith (fun sub => applyAddSegs sub (c2 :: rest) v) xs idxes))
    | none =>
      -- applyNonListItem: reuse the container at `c`, else AddContainer(c)
      let sub := match child kvs c with
        | some (.cont sub) => sub
        | _ => []
      add kvs c (.cont (applyAddSegs sub (c2 :: rest) v))

/-- the ModDelete branch of applySingle -/
def applyDelSegs (kvs : AMap Node) : List String → AMap Node
  | [] => kvs
  | [last] => remove kvs last
  | c :: c2 :: rest =>
    match child kvs c with
    | some (.cont sub) => add kvs c (.cont (applyDelSegs sub (c2 :: rest)))
    | _ => kvs

/-- applySingle -/
def applySingle (kvs : AMap Node) (m : Mod) : AMap Node :=
  match m.ty with
  | .add | .change => applyAddSegs kvs (splitPath m.path) m.value
  | .delete => applyDelSegs kvs (splitPath m.path)

/-- diff.Apply -/
def apply (kvs : AMap Node) (mods : List Mod) : AMap Node := mods.foldl applySingle kvs

end Ytk
