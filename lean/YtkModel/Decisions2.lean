/-
  YtkModel.Decisions2 — the DECISION TABLES of the hand-written model, second batch, as explicit data
  (first batch: YtkModel/Decisions.lean).

  The model functions `emitNode` (diff.handleExisting), `applySingle`, `DocSet.addContext`,
  (in YtkModel/DecisionsDocSet.lean, its own file so that C18 can import it without the overlay model, whose
  `Ytk.Overlay` would shadow `DocSet.Overlay` there), `K8s.decodeWith / encodeWith / docSave`, `hasValue`, `coalesceList`, `firstValidListItem`,
  `Overlay.put`, `Pipeline.wrap` (exec.Execute) and `Pipeline.run (.doAct …)` (ActionSpec.Do) spell
  their case analysis and their step order out as pattern matches, mirroring the Go code.  Here the
  same decisions are written once more as finite tables — in the vocabulary of extract/tables2.go:
  canonical Go statements with the receiver printed `recv`, parameters `arg0…`, named results `res0…`,
  locals `v0…` — plus a table-driven variant of each function (`…T` / `…By`);
  `YtkProofs/Decisions2.lean` proves `old = table-driven` for ALL inputs, so the tables below ARE the
  model's decision logic and the existing definitions (which the harness validates) stay untouched.
  `YtkProps/Cxx.lean` then proves by kernel `decide` that the tables regenerated from the Go source
  (`Generated/Tables2.lean`) equal these.

  `Xform.mod2op` (xform.DiffMod2PatchOp) and `K8s.fileAfterOpenWrite` (what `os.OpenFile` flags mean for
  the file content) have no older counterpart: the harness feeds the real conversion's output to
  patch.Do and represents a file by what was last written to it; both decisions are modelled here for
  the first time.
-/
import YtkModel.TableTypes2
import YtkModel.Decisions
import YtkModel.Diff
import YtkModel.DecisionsDocSet
import YtkModel.Overlay
import YtkModel.Pipeline


/-! ## evaluating regenerated ordered chains on node kinds -/
namespace Ytk
open Ytk.TableT

def kindOfName (s : String) : Option Shape :=
  if s = "container" then some .container else if s = "list" then some .list
  else if s = "leaf" then some .leaf else none

/-- the three node kinds -/
def kindShapes : List Shape := [.container, .list, .leaf]

/-- the statements a regenerated (ordered) kind-pair chain runs for a pair of node kinds: first matching arm -/
def armStepsFor : List KindArm → Shape → Shape → List String
  | [], _, _ => ["<no arm>"]
  | c :: rest, x, y =>
    if (c.left == "any" || kindOfName c.left == some x) && (c.right == "any" || kindOfName c.right == some y)
    then c.steps else armStepsFor rest x y

/-- the kind a canonical condition on `subject` tests: `some none` = the final else -/
def condKindOf (subject c : String) : Option (Option Shape) :=
  if c = "otherwise" then some none
  else if c = subject ++ ".IsContainer()" then some (some .container)
  else if c = subject ++ ".IsList()" then some (some .list)
  else if c = subject ++ ".IsLeaf()" then some (some .leaf)
  else none

/-- the statements a regenerated (ordered) kind chain on `subject` runs for a node kind: first matching arm -/
def condStepsFor (subject : String) : List CondArm → Shape → List String
  | [], _ => ["<no arm>"]
  | a :: rest, x =>
    match condKindOf subject a.cond with
    | some k => if shapeMatches k x then a.steps else condStepsFor subject rest x
    | none => ["<condition not understood>"]

end Ytk

/-! ## diff/diff.go: handleExisting, diffList, diff, flattenLeaf, appendMod -/
namespace Ytk
open Ytk.TableT

/-- what diff.handleExisting does with a position present on both sides -/
inductive DiffAct | recurse | lists | compare | replace
  deriving DecidableEq, Repr, Inhabited

def stmtRecurse : String := "diff(arg0.(dom.Container),arg1.(dom.Container),arg2,arg3)"
def stmtDiffList : String := "diffList(arg0.(dom.List),arg1.(dom.List),arg2,arg3)"
/-- leaf / leaf: one Change carrying the RIGHT value as Value and the LEFT value as OldValue, only when
    the two values differ -/
def stmtCompare : String :=
  "if !cmp.Equal(arg0.(dom.Leaf).Value(),arg1.(dom.Leaf).Value()){appendMod(ModChange,arg2,arg1.(dom.Leaf).Value(),arg0.(dom.Leaf).Value(),arg3)}"
def stmtDelete : String := "appendMod(ModDelete,arg2,nil,nil,arg3)"
/-- kind mismatch: the leaves of the RIGHT node (arg1) -/
def stmtFlattenRight : String := "flattenNode(arg1,arg2,arg3)"

def DiffAct.steps : DiffAct → List String
  | .recurse => [stmtRecurse]
  | .lists => [stmtDiffList]
  | .compare => [stmtCompare]
  | .replace => [stmtDelete, stmtFlattenRight]

def DiffAct.all : List DiffAct := [.recurse, .lists, .compare, .replace]

/-- the decision a statement list stands for (the four lists are pairwise different) -/
def DiffAct.ofSteps (ss : List String) : Option DiffAct := DiffAct.all.find? (fun a => a.steps == ss)

/-- the ORDERED case table of `emitNode`: (left kind, right kind) or `none` = any; first match decides -/
def diffCases : List (Option Shape × Option Shape × DiffAct) :=
  [(some .container, some .container, .recurse), (some .list, some .list, .lists),
   (some .leaf, some .leaf, .compare), (none, none, .replace)]

def diffDecisionIn : List (Option Shape × Option Shape × DiffAct) → Shape → Shape → DiffAct
  | [], _, _ => .replace
  | (l, r, a) :: rest, x, y => if shapeMatches l x && shapeMatches r y then a else diffDecisionIn rest x y

def diffDecision (x y : Shape) : DiffAct := diffDecisionIn diffCases x y

/-- diffList: whole-list replace — Delete, then the leaves of the LEFT list (arg0) — when the lists differ -/
def diffListStepsM : List String :=
  ["if !arg0.Equals(arg1){appendMod(ModDelete,arg2,nil,nil,arg3);flattenList(arg0,arg2,arg3)}"]

/-- flattenLeaf: one Add carrying the leaf's value, no old value -/
def flattenLeafStepsM : List String := ["appendMod(ModAdd,arg1,arg0.Value(),nil,arg2)"]

def flattenNodeStepsM : List String :=
  ["if arg0.IsContainer(){flattenContainer(arg0.(dom.Container),arg1,arg2)}else if arg0.IsList(){flattenList(arg0.(dom.List),arg1,arg2)}else{flattenLeaf(arg0.(dom.Leaf),arg1,arg2)}"]

/-- appendMod(t, path, val, oldVal, res): the fields of the appended Modification -/
def appendModStepsM : List String := ["*arg4=append(*arg4,Modification{Type:arg0,Path:arg1,Value:arg2,OldValue:arg3})"]

/-- the two loops of diff(): a key of the left container that the right one has too goes through
    handleExisting, one that it lacks is flattened into Adds; a key of the right container that the left
    one lacks is one Delete (and nothing happens for a common key in the second loop) -/
def diffKeyCasesM : List CondArm :=
  [⟨"left:both", ["handleExisting(item,found,utils.ToPath(arg2,key),arg3)"]⟩,
   ⟨"left:leftOnly", ["flattenNode(item,utils.ToPath(arg2,key),arg3)"]⟩,
   ⟨"right:both", []⟩,
   ⟨"right:rightOnly", ["appendMod(ModDelete,utils.ToPath(arg2,key),nil,nil,arg3)"]⟩]

def ModType.all : List ModType := [.add, .change, .delete]

/-- Go constant name and value of a modification type -/
def ModType.goConst (t : ModType) : String × String := ("Mod" ++ t.name, t.name)

/-! ## diff/apply.go: applySingle -/

/-- what applySingle does for a modification type -/
inductive ApplyAct | addValue | remove
  deriving DecidableEq, Repr, Inhabited

/-- modification type ↦ action, sorted by the type's name -/
def applyTable : List (ModType × ApplyAct) := [(.add, .addValue), (.change, .addValue), (.delete, .remove)]

def ApplyAct.run (kvs : AMap Node) (m : Mod) : ApplyAct → AMap Node
  | .addValue => applyAddSegs kvs (splitPath m.path) m.value
  | .remove => applyDelSegs kvs (splitPath m.path)

/-- the action in the vocabulary of the extractor: `<parent walk>;<final statement>` -/
def ApplyAct.goName : ApplyAct → String
  | .addValue => "walkAdd;v1.AddValue(v0[len(v0)-1],dom.LeafNode(arg1.Value))"
  | .remove => "walkDelete;v1.Remove(v0[len(v0)-1])"

/-- `applySingle`, table-driven -/
def applySingleT (kvs : AMap Node) (m : Mod) : AMap Node :=
  match applyTable.lookup m.ty with
  | some a => a.run kvs m
  | none => kvs

/-- the rows of the `switch mod.Type`, as the extractor spells them -/
def applyRowsM : List Row := applyTable.map fun p => ⟨(ModType.goConst p.1).1, p.1.name, p.2.goName⟩

def ApplyAct.ofGoName (s : String) : Option ApplyAct :=
  if s = ApplyAct.addValue.goName then some .addValue
  else if s = ApplyAct.remove.goName then some .remove else none

/-- `applySingle` RUN FROM a (regenerated) case table: the row of the modification's type names the
    action; no row, or a row the model does not understand, does nothing -/
def applySingleBy (tbl : List Row) (kvs : AMap Node) (m : Mod) : AMap Node :=
  match (tbl.find? (·.key == m.ty.name)).bind (fun r => ApplyAct.ofGoName r.target) with
  | some a => a.run kvs m
  | none => kvs

/-- the path is split on "." and the walk starts at the document root -/
def applyPreludeM : List String := ["v0:=strings.Split(arg1.Path,\".\")", "v1:=arg0"]

/-- the two loops over the parent components: Add / Change create what is missing (a component with
    index groups through applyListItem, any other through applyNonListItem); Delete only descends through
    existing containers and gives up silently otherwise -/
def applyWalksM : List (String × List CondArm) :=
  [("walkAdd", [⟨"range", ["v0[0:len(v0)-1]"]⟩, ⟨"lead", ["v2,v3,v4:=utils.ParseListPathComponent(comp)"]⟩,
                ⟨"v4", ["v1=applyListItem(v1,v2,v3)"]⟩, ⟨"otherwise", ["v1=applyNonListItem(v1,comp)"]⟩]),
   ("walkDelete", [⟨"range", ["v0[0:len(v0)-1]"]⟩, ⟨"lead", ["v2:=v1.Child(comp)"]⟩, ⟨"v2==nil", ["return"]⟩,
                   ⟨"!v2.IsContainer()", ["return"]⟩, ⟨"otherwise", ["v1=v2.(dom.ContainerBuilder)"]⟩])]

def applyNonListItemStepsM : List String :=
  ["v0:=arg0.Child(arg1)",
   "if v0==nil||!v0.IsContainer(){arg0=arg0.AddContainer(arg1)}else{arg0=v0.(dom.ContainerBuilder)}",
   "return arg0"]

def applyListItemStepsM : List String :=
  ["v1:=arg0.Child(arg1)",
   "if v1==nil||!v1.IsList(){v0=arg0.AddList(arg1)}else{v0=v1.(dom.ListBuilder)}",
   "arg0=applyList(v0,arg2)",
   "return arg0"]

/-- applyNonListItem followed by the edit `f` of the container it returns -/
def applyNonListItemM (kvs : AMap Node) (c : String) (f : AMap Node → AMap Node) : AMap Node :=
  let sub := match child kvs c with
    | some (.cont sub) => sub
    | _ => []
  add kvs c (.cont (f sub))

/-- applyListItem followed by the edit `f` of the container it returns -/
def applyListItemM (kvs : AMap Node) (n : String) (idxes : List Nat) (f : AMap Node → AMap Node) : AMap Node :=
  let xs := match child kvs n with
    | some (.list xs) => xs
    | _ => []
  add kvs n (.list (applyListWith f xs idxes))

end Ytk

/-! ## xform/diff2patch.go: DiffMod2PatchOp -/
namespace Ytk.Xform
open Ytk.Ptr Ytk.Patch

/-- the patch operation a modification becomes -/
def opOfMod : ModType → String
  | .add => "add" | .delete => "remove" | .change => "replace"

/-- the Go constant holding that operation name -/
def opConstOfMod : ModType → String
  | .add => "patch.OpAdd" | .delete => "patch.OpRemove" | .change => "patch.OpReplace"

/-- whether the operation object carries the modification's value (as a leaf) -/
def carriesValue : ModType → Bool
  | .delete => false
  | _ => true

/-- xform.DiffMod2PatchOp (`ptr` = PointerFromPropPathString); `From` is never set -/
def mod2op (ptr : String → Path) (m : Mod) : OpObj :=
  ⟨opOfMod m.ty, none, some (ptr m.path), if carriesValue m.ty then some (.leaf m.value) else none⟩

/-- modification type ↦ operation, sorted by type name -/
def mod2opTableM : List (String × String) := ModType.all.map fun t => (t.name, opOfMod t)

/-- modification type ↦ fields of the operation object, sorted by field name -/
def mod2opFieldsM : List (String × List (String × String)) :=
  ModType.all.map fun t =>
    (t.name, [("Op", opConstOfMod t), ("Path", "PointerFromPropPathString(arg0.Path)")] ++
             (if carriesValue t then [("Value", "dom.LeafNode(arg0.Value)")] else []))

/-- the rows of the `switch mod.Type`, as the extractor spells them -/
def mod2opRowsM : List TableT.Row := ModType.all.map fun t => ⟨"diff.Mod" ++ t.name, t.name, opOfMod t⟩

/-- DiffMod2PatchOp RUN FROM a (regenerated) case table and field table: the case of the modification's
    type gives the operation; Path / Value are set when the field table lists them with the expressions
    the model understands; `none` = nil (no case, or the case returns nil) -/
def mod2opBy (tbl : List TableT.Row) (fields : List (String × List (String × String))) (ptr : String → Path)
    (m : Mod) : Option OpObj :=
  match tbl.find? (·.key == m.ty.name) with
  | none => none
  | some r =>
    if r.target = "nil" then none
    else
      let fs := (fields.lookup r.key).getD []
      some ⟨r.target, none,
        if fs.lookup "Path" = some "PointerFromPropPathString(arg0.Path)" then some (ptr m.path) else none,
        if fs.lookup "Value" = some "dom.LeafNode(arg0.Value)" then some (.leaf m.value) else none⟩

end Ytk.Xform

/-! ## k8s/embedded.go: Document constructors, doc.Save; os.OpenFile flags -/
namespace Ytk.K8s
open Ytk.TableT

/-- the (decoder constructor, encoder constructor) pair behind a `Mode` of the model -/
def Mode.fns : Mode → String × String
  | .text _ _ => ("DecodeEmbeddedDoc", "EncodeEmbeddedDoc")
  | .props => ("DecodeEmbeddedProps", "EncodeEmbeddedProps")

/-- the text codecs by family: decoder function, encoder function -/
def codecFamilies : List (String × String × String) :=
  [("json", "dom.DefaultJsonDecoder", "dom.DefaultJsonEncoder"), ("yaml", "dom.DefaultYamlDecoder", "dom.DefaultYamlEncoder")]

/-- the Document constructors: YamlDoc / JsonDoc open the item `arg1` of the manifest `arg0` with the
    decoder AND the encoder of one family; Properties uses the properties pair on the whole manifest -/
def docCtorTable : List CodecWiring :=
  [⟨"JsonDoc", "arg0", "DecodeEmbeddedDoc", ["arg1", "dom.DefaultJsonDecoder"], "EncodeEmbeddedDoc", ["arg1", "dom.DefaultJsonEncoder"]⟩,
   ⟨"Properties", "arg0", "DecodeEmbeddedProps", [], "EncodeEmbeddedProps", []⟩,
   ⟨"YamlDoc", "arg0", "DecodeEmbeddedDoc", ["arg1", "dom.DefaultYamlDecoder"], "EncodeEmbeddedDoc", ["arg1", "dom.DefaultYamlEncoder"]⟩]

/-- doc.Save opens read-write, creating and TRUNCATING; Create opens read-write, creating; ExportOp.Do
    opens write-only, creating and TRUNCATING -/
def openTable : List OpenCall :=
  [⟨"k8s.doc.Save", ["O_CREATE", "O_RDWR", "O_TRUNC"], 0o644⟩,
   ⟨"k8s.builderImpl.Create", ["O_CREATE", "O_RDWR"], 0o660⟩,
   ⟨"pipeline.ExportOp.Do", ["O_CREATE", "O_TRUNC", "O_WRONLY"], 0o644⟩]

def flagsOf (t : List OpenCall) (site : String) : List String := ((t.find? (·.site == site)).map (·.flags)).getD []

/-- What the flags of `os.OpenFile` mean for the content of a file that is opened, written once from
    offset 0 with `new` and closed (`old = none`: the file does not exist; result `none`: the open fails):
    without O_CREATE a missing file is an error; without a write mode nothing can be written; with
    O_TRUNC the old content is gone, without it the tail of a longer old content survives. -/
def fileAfterOpenWrite {α : Type} (flags : List String) (old : Option (List α)) (new : List α) : Option (List α) :=
  if !(flags.contains "O_RDWR" || flags.contains "O_WRONLY") then none
  else match old with
    | none => if flags.contains "O_CREATE" then some new else none
    | some o => if flags.contains "O_TRUNC" then some new else some (new ++ o.drop new.length)

/-- doc.Save: encode into the manifest, open (truncating), write the manifest, close; the first error
    is returned and nothing after it runs -/
def saveStepsM : List String :=
  ["return recv.enc(recv.m,recv.cb)",
   "v1,v0=os.OpenFile(recv.file,os.O_CREATE|os.O_RDWR|os.O_TRUNC,420);return v0",
   "_,v0=recv.m.WriteTo(v1);return v0"]
def saveLoopM : List String := ["if v0=step();v0!=nil{return v0}"]
def saveFinalM : String := "return v1.Close()"

end Ytk.K8s

/-! ## dom: hasValue, coalesce, firstValidListItem, overlayDocument.Put -/
namespace Ytk
open Ytk.TableT

/-- the guards of dom.hasValue, in order -/
def hasValueTable : List CondArm :=
  [⟨"arg0==nil", ["return false"]⟩,
   ⟨"arg0==nilLeaf", ["return false"]⟩,
   ⟨"!arg0.IsList()&&!arg0.IsContainer()&&arg0.(Leaf).Value()==nil", ["return false"]⟩,
   ⟨"otherwise", ["return true"]⟩]

/-- the guard conditions on a node of the value model: there is no nil node; the `nilLeaf` singleton
    and any other leaf holding nil are both `.leaf Scalar.null` -/
def hvCond (c : String) (n : Node) : Bool :=
  if c = "arg0==nil" then false
  else if c = "arg0==nilLeaf" then decide (n = Node.null)
  else if c = "!arg0.IsList()&&!arg0.IsContainer()&&arg0.(Leaf).Value()==nil" then
    (match n with
     | .leaf s => s == Scalar.null
     | _ => false)
  else c = "otherwise"

/-- `hasValue`, table-driven: the first guard that holds decides -/
def hasValueBy (t : List CondArm) (n : Node) : Bool :=
  match t.find? (fun a => hvCond a.cond n) with
  | some a => a.steps == ["return true"]
  | none => false

/-- coalesce: reverse the arguments, return the first with a value, else the nil leaf — so of
    `coalesce(left, right)` the RIGHT node wins unless it has no value -/
def coalesceStepsM : List String :=
  ["slices.Reverse(arg0)", "for _,v0 in arg0{if hasValue(v0){return v0}}", "return nilLeaf"]

/-- `coalesceList`, driven by the statement list -/
def coalesceListBy (spec : List String) (nodes : List Node) : Node :=
  let ns := if spec.contains "slices.Reverse(arg0)" then nodes.reverse else nodes
  let hit := if spec.contains "for _,v0 in arg0{if hasValue(v0){return v0}}" then ns.find? hasValue else none
  match hit with
  | some n => n
  | none => Node.null

/-- firstValidListItem: the lists in the order given, the first that is long enough supplies the item -/
def firstValidStepsM : List String :=
  ["for _,v0 in arg1{if v0.Size()>arg0{return v0.Items()[arg0]}}", "return nilLeaf"]

def firstValidBy (spec : List String) (i : Nat) (lists : List (List Node)) : Node :=
  let hit := if spec.contains "for _,v0 in arg1{if v0.Size()>arg0{return v0.Items()[arg0]}}"
    then lists.find? (fun l => decide (i < l.length)) else none
  match hit with
  | some l => l.getD i Node.null
  | none => Node.null

/-- where the merge calls them: always (left, right) -/
def coalesceCallsM : List String :=
  ["mergeListsMeld:coalesce(left,right)", "mergeListsMeld:firstValidListItem(idx,left,right)",
   "mergeContainers:coalesce(left,right)"]

/-- what overlayDocument.Put does with a value -/
inductive PutAct | flatten | store
  deriving DecidableEq, Repr, Inhabited

/-- a container is flattened into one Put per leaf — BEFORE the layer is touched, so a leafless container
    creates nothing; anything else (leaf, list) is stored as it is -/
def PutAct.steps : PutAct → List String
  | .flatten => ["for v0,v1 in arg2.(Container).Flatten(){recv.Put(arg0,utils.ToPath(arg1,v0),v1)}"]
  | .store => ["v2:=recv.ensureOverlay(arg0)", "v3:=recv.pathComponents(arg1)", "v2=ensurePath(v2,v3[:len(v3)-1])",
               "v2.AddValue(v3[len(v3)-1],arg2)"]

/-- the ORDERED case table of `Overlay.put` -/
def putCases : List (Option Shape × PutAct) := [(some .container, .flatten), (none, .store)]

def putDecisionIn : List (Option Shape × PutAct) → Shape → PutAct
  | [], _ => .store
  | (k, a) :: rest, x => if shapeMatches k x then a else putDecisionIn rest x

def putDecision (x : Shape) : PutAct := putDecisionIn putCases x

end Ytk

/-! ## pipeline: exec.Execute, ActionSpec.Do -/
namespace Ytk.Pipeline

/-- exec.Execute: new context, OnBefore, Do, OnAfter with Do's error, return that error -/
def executeStepsM : List String :=
  ["v0:=recv.newCtx(arg0)", "recv.l.OnBefore(v0)", "res0=arg0.Do(v0)", "recv.l.OnAfter(v0,res0)", "return res0"]

/-- `wrap` (exec.Execute), driven by the statement list: `r` is what `act.Do(ctx)` produced -/
def wrapBy (steps : List String) (l : String) (r : Res) : Res :=
  ⟨steps.flatMap (fun s =>
      if s = "recv.l.OnBefore(v0)" then [Event.before l]
      else if s = "res0=arg0.Do(v0)" then r.tr
      else if s = "recv.l.OnAfter(v0,res0)" then [Event.after l r.err]
      else []),
   r.st, if steps.contains "return res0" then r.err else none⟩

/-- ActionSpec.Do: the own operations first, then the children -/
def actionDoPhasesM : List String := ["recv.Operations", "recv.Children"]

/-- per phase: the condition (when there is one) is evaluated — an error is returned, `false` returns
    nil — then the phase is executed through the executor and its error returned -/
def actionDoPhaseStepsM : List String :=
  ["if recv.When!=nil{if v0,v1:=arg0.TemplateEngine().EvalBool(*recv.When,arg0.Snapshot());v1!=nil{return v1}else if !v0{return nil}}",
   "v2:=arg0.Executor().Execute(phase)",
   "if v2!=nil{return v2}"]

def actionDoFinalM : List String := ["return nil"]

/-- the listener label and the task of a phase -/
def phaseTask (a : Action) (ph : String) : Option (String × Task) :=
  if ph = "recv.Operations" then some ("ops", .ops (opsOf a))
  else if ph = "recv.Children" then some ("steps", .steps (sortActs a.children))
  else none

/-- ActionSpec.Do, driven by the phase list -/
def doActBy (n : Nat) (a : Action) : List String → St → Res
  | [], st => Res.ok st
  | ph :: rest, st =>
    match phaseTask a ph with
    | none => Res.ok st
    | some (l, t) =>
      guardWhen a.when_ st fun st => (wrap l (run n t st)).andThen fun st => doActBy n a rest st

end Ytk.Pipeline
