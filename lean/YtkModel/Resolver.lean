/-
  YtkModel.Resolver — model of props/resolver.go (`propImpl.resolve`, `findEndIndex`,
  `resolvePlaceholder`, `indexAfter`, `replaceAt`, `removeFromSlice`) on TOKEN LISTS.

  A configured resolver has three delimiters (builder defaults `${`, `}`, `:`).  The Go code
  works on bytes; the model works on the token list obtained by lexing the string greedily
  from the left for the delimiter triple (`lex`), and `unlex` renders tokens back.  For the
  fixed set of non-overlapping triples (no character shared between two delimiters of a
  triple) byte-level scanning and token-level scanning coincide, provided the resolved
  placeholder text is re-lexed before it is looked up (parameter `norm`, see `resolve`);
  that is validated by the harness' raw-string stream, not proved.

  Go, statement by statement                           model
  ---------------------------------------------------  -------------------------------------
  si := strings.Index(value, prefix); none → value     findPre s = none → ok s
  ei := findEndIndex(result, si) (nesting counter,     findEnd 0 afterPre
        suffix tested before prefix)
  ei == notFound → si = notFound (loop ends)           none → ok s   (unterminated: verbatim, stop)
  ph := result[si+pl:ei]; orig := ph                   ph
  slices.Contains(seen, orig) → panic(Circular …)      seen.contains ph → cycle ph
  seen = append(seen, orig)                            seen ++ [ph]
  ph = *resolve(ph, seen)                              resolve n tbl ph (seen ++ [ph])
  pv := resolvePlaceholder(ph)                         resolvePlaceholder tbl (norm ph')
  pv != nil: pv = resolve(*pv, seen);                  resolve n tbl pv (seen ++ [ph])
     result = replaceAt(result, si, ei+sl, *pv);       before ++ pv' ++ …
     si = indexAfter(result, prefix, si+len(*pv))      … resolve n tbl after …
  pv == nil: si = indexAfter(result, prefix, ei+sl)    before ++ pre :: ph ++ suf :: … after …
  seen = removeFromSlice(seen, orig)                   (seen ++ [ph]).erase ph
  (first occurrence removed; D16 fix: result kept)

  The text before the placeholder and the substituted value are never scanned again
  (`indexAfter` starts behind them), hence the loop continues on `after` only and its result
  is prepended.  Recursion is bounded by `fuel` (one unit per recursive call or loop
  continuation); `outOfFuel` is not an observable of the Go code.
-/
namespace Ytk.Resolver

inductive Tok where
  | pre | suf | sep
  | ch (c : Char)
  deriving DecidableEq, Repr, Inhabited

abbrev Toks := List Tok

/-- the lookup table (`MapLookup(map[string]string)`): association list, first match -/
abbrev Table := List (Toks × Toks)

def Table.get : Table → Toks → Option Toks
  | [], _ => none
  | (k, v) :: r, x => if x = k then some v else Table.get r x

inductive Res where
  | ok (t : Toks)
  | cycle (orig : Toks)
  | outOfFuel
  deriving DecidableEq, Repr, Inhabited

/-- `strings.Index(s, prefix)`: tokens before the first prefix, tokens after it -/
def findPre : Toks → Option (Toks × Toks)
  | [] => none
  | .pre :: r => some ([], r)
  | t :: r => (findPre r).map fun p => (t :: p.1, p.2)

/-- `findEndIndex` started right behind a prefix: the placeholder text up to the matching
    suffix and the tokens behind that suffix; `none` = notFound.  `nested` is Go's counter. -/
def findEnd : Nat → Toks → Option (Toks × Toks)
  | _, [] => none
  | 0, .suf :: r => some ([], r)
  | n + 1, .suf :: r => (findEnd n r).map fun p => (.suf :: p.1, p.2)
  | n, .pre :: r => (findEnd (n + 1) r).map fun p => (.pre :: p.1, p.2)
  | n, t :: r => (findEnd n r).map fun p => (t :: p.1, p.2)

/-- `strings.Index(ph, vs)`: key part, default part -/
def findSep : Toks → Option (Toks × Toks)
  | [] => none
  | .sep :: r => some ([], r)
  | t :: r => (findSep r).map fun p => (t :: p.1, p.2)

/-- `propImpl.resolvePlaceholder` -/
def resolvePlaceholder (tbl : Table) (ph : Toks) : Option Toks :=
  match tbl.get ph with
  | some v => some v
  | none =>
    match findSep ph with
    | none => none
    | some (k, d) =>
      match tbl.get k with
      | some v => some v
      | none => some d

def Res.prepend (p : Toks) : Res → Res
  | .ok t => .ok (p ++ t)
  | r => r

/-- `propImpl.resolve(value, lookupFn, seen)`; panic "Circular placeholder reference" = `cycle`.

    `norm` re-lexes the RESOLVED placeholder text before it is looked up: the Go code looks the
    resolved text up as a string, searches the separator in it and slices the default out of
    it, i.e. it sees the bytes, in which substituted values may have glued two halves of a
    delimiter together.  This is the only place where glued text is scanned again (the text
    before a placeholder and the substituted value are skipped by `indexAfter`).  The driver
    passes `lex d ∘ unlex d`; on token lists without partial delimiters it is the identity. -/
def resolve (norm : Toks → Toks) : Nat → Table → Toks → List Toks → Res
  | 0, _, _, _ => .outOfFuel
  | n + 1, tbl, s, seen =>
    match findPre s with
    | none => .ok s
    | some (before, afterPre) =>
      match findEnd 0 afterPre with
      | none => .ok s
      | some (ph, after) =>
        if seen.contains ph then .cycle ph
        else
          match resolve norm n tbl ph (seen ++ [ph]) with
          | .ok ph' =>
            match resolvePlaceholder tbl (norm ph') with
            | some pv =>
              match resolve norm n tbl pv (seen ++ [ph]) with
              | .ok pv' => (resolve norm n tbl after ((seen ++ [ph]).erase ph)).prepend (before ++ pv')
              | e => e
            | none =>
              (resolve norm n tbl after ((seen ++ [ph]).erase ph)).prepend (before ++ .pre :: ph ++ [.suf])
          | e => e

/-- `Resolver.Resolve(s)` -/
def resolveTop (norm : Toks → Toks) (fuel : Nat) (tbl : Table) (s : Toks) : Res :=
  resolve norm fuel tbl s []

/-! ## Lexer: strings ↔ tokens for one delimiter triple -/

structure Delims where
  pre : List Char
  suf : List Char
  sep : List Char
  deriving DecidableEq, Repr

def isPrefixOfChars : List Char → List Char → Bool
  | [], _ => true
  | _ :: _, [] => false
  | a :: as, b :: bs => a == b && isPrefixOfChars as bs

/-- greedy left-to-right lexing; `skip` = characters of the current delimiter still to drop -/
def lexAux (d : Delims) : Nat → List Char → Toks
  | _, [] => []
  | skip + 1, _ :: cs => lexAux d skip cs
  | 0, c :: cs =>
    if !d.pre.isEmpty && isPrefixOfChars d.pre (c :: cs) then .pre :: lexAux d (d.pre.length - 1) cs
    else if !d.suf.isEmpty && isPrefixOfChars d.suf (c :: cs) then .suf :: lexAux d (d.suf.length - 1) cs
    else if !d.sep.isEmpty && isPrefixOfChars d.sep (c :: cs) then .sep :: lexAux d (d.sep.length - 1) cs
    else .ch c :: lexAux d 0 cs

def lex (d : Delims) (s : List Char) : Toks := lexAux d 0 s

def unlexTok (d : Delims) : Tok → List Char
  | .pre => d.pre
  | .suf => d.suf
  | .sep => d.sep
  | .ch c => [c]

def unlex (d : Delims) : Toks → List Char
  | [] => []
  | t :: r => unlexTok d t ++ unlex d r

/-- re-lexing of a token list: what the bytes of its rendering look like to a scanner -/
def relex (d : Delims) (t : Toks) : Toks := lex d (unlex d t)

/-- delimiter-balanced: every prefix is closed inside the list (depth counter as in
    `findEndIndex`; a suffix at depth 0 is plain text) -/
def balancedAux : Nat → Toks → Bool
  | d, [] => d == 0
  | 0, .suf :: r => balancedAux 0 r
  | d + 1, .suf :: r => balancedAux d r
  | d, .pre :: r => balancedAux (d + 1) r
  | d, _ :: r => balancedAux d r

def Balanced (s : Toks) : Prop := balancedAux 0 s = true

instance (s : Toks) : Decidable (Balanced s) := inferInstanceAs (Decidable (_ = true))

end Ytk.Resolver
