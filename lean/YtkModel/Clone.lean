/-
  YtkModel.Clone — generic record model of `CloneWith` (C15).

  An operation / action value is a record: type name + field list.  `cloneV tbl render`
  interprets a clone table (the regenerated `Generated.cloneTable`, or any other): for each
  field of a record it does what the table says the Go `CloneWith` body does with that
  field.  Nothing here knows the concrete operation types — they come from the table.
-/
import YtkModel.CloneTypes

namespace Ytk.Clone
open Ytk.CloneT

/-- Field values.  `data` is opaque, copy-only content (bool, []int, map, AnyVal document,
    regexp source, …) carried as canonical text; the model never looks inside. -/
inductive CV where
  | str (s : String)
  | strPtr (s : Option String)
  | strs (xs : Option (List String))
  | data (d : String)
  | nil                                          -- nil pointer to a record
  | rcd (ty : String) (fields : List (String × CV)) -- record (struct or map type with CloneWith)
  deriving Repr, Inhabited

/-- Field description of `(ty, f)`; for map types (ChildActions) the single pseudo field `*`
    stands for every entry. -/
def findField (fs : List CloneField) (f : String) : Option CloneField :=
  match fs.find? (fun c => c.name == f) with
  | some c => some c
  | none => fs.find? (fun c => c.name == "*")

def findType (tbl : List CloneType) (ty : String) : Option CloneType :=
  tbl.find? (fun t => t.name == ty)

/-- What the table says `CloneWith` of type `ty` does with field `f`.  Unknown type or field:
    `none` (conservative). -/
def actOf (tbl : List CloneType) (ty f : String) : Act :=
  match findType tbl ty with
  | none => .none
  | some t =>
    match findField t.fields f with
    | none => .none
    | some c => c.act

/-- Rendering a text value: `RenderLenient`, `safeRenderStrPointer`, `safeRenderStrSlice`. -/
def renderV (render : String → String) : CV → CV
  | .str s => .str (render s)
  | .strPtr (some s) => .strPtr (some (render s))
  | .strs (some xs) => .strs (some (xs.map render))
  | v => v

/-- The zero value left behind when `CloneWith` does not carry a field over. -/
def zeroV : CV → CV
  | .str _ => .str ""
  | .strPtr _ => .strPtr none
  | .strs _ => .strs none
  | .data _ => .data ""
  | .nil => .nil
  | .rcd _ _ => .nil

mutual
/-- `v.CloneWith(ctx)` for a record; other values are returned as they are (a nil pointer stays nil). -/
def cloneV (tbl : List CloneType) (render : String → String) : CV → CV
  | .rcd ty fs => .rcd ty (cloneFields tbl render ty fs)
  | v => v
def cloneFields (tbl : List CloneType) (render : String → String) (ty : String) :
    List (String × CV) → List (String × CV)
  | [] => []
  | (f, v) :: rest =>
    (f, match actOf tbl ty f with
        | .copy => v
        | .copySlice => v
        | .render => renderV render v
        | .nested => cloneV tbl render v
        | .reflectAll => cloneV tbl render v
        | .mapAll => cloneV tbl render v
        | .none => zeroV v) :: cloneFields tbl render ty rest
end

/-- Every field of every type is carried over somehow. -/
def Complete (tbl : List CloneType) : Prop :=
  ∀ t ∈ tbl, ∀ f ∈ t.fields, f.act ≠ .none

instance (tbl : List CloneType) : Decidable (Complete tbl) := by
  unfold Complete; infer_instance

mutual
/-- Every record in `v` is of a type listed in the table, and each of its fields is listed. -/
def WellTyped (tbl : List CloneType) : CV → Prop
  | .rcd ty fs => (∃ t, findType tbl ty = some t ∧ WellTypedFields tbl t ty fs)
  | _ => True
def WellTypedFields (tbl : List CloneType) (t : CloneType) (ty : String) : List (String × CV) → Prop
  | [] => True
  | (f, v) :: rest => (∃ c, findField t.fields f = some c ∧ c ∈ t.fields) ∧ WellTyped tbl v ∧ WellTypedFields tbl t ty rest
end

mutual
/-- No string anywhere in `v` looks like a template (`tpl s = false` for all of them). -/
def TemplateFree (tpl : String → Bool) : CV → Prop
  | .str s => tpl s = false
  | .strPtr (some s) => tpl s = false
  | .strs (some xs) => ∀ s ∈ xs, tpl s = false
  | .rcd _ fs => TemplateFreeFields tpl fs
  | _ => True
def TemplateFreeFields (tpl : String → Bool) : List (String × CV) → Prop
  | [] => True
  | (_, v) :: rest => TemplateFree tpl v ∧ TemplateFreeFields tpl rest
end

/-- `RenderLenient` returns its input unchanged when the text does not look like a template
    (`possiblyTemplate` in template_engine.go). -/
def LenientId (render : String → String) (tpl : String → Bool) : Prop :=
  ∀ s, tpl s = false → render s = s

/-- field access -/
def getField (fs : List (String × CV)) (f : String) : Option CV :=
  match fs.find? (fun p => p.1 == f) with
  | some p => some p.2
  | none => none

end Ytk.Clone
