/-
  YtkModel.Wire — JSON encoding of documents for the line protocol between the Go
  harness and the model driver.  Not used by any theorem; trusted glue.

    leaf      {"t": <go type>, "v": <fmt.Sprint text>}
    list      [ node, ... ]
    container {"m": { key: node, ... }}
-/
import Lean.Data.Json
import YtkModel.Basic
open Lean

namespace Ytk.Wire

partial def nodeOfJson : Json → Except String Node
  | .arr xs => do
    let ys ← xs.toList.mapM nodeOfJson
    pure (.list ys)
  | j@(.obj _) => do
    match j.getObjVal? "m" with
    | .ok (.obj kvs) =>
      let ps ← kvs.toList.mapM (fun (k, v) => do let n ← nodeOfJson v; pure (k, n))
      pure (.cont (AMap.ofList ps))
    | _ =>
      let t ← (j.getObjVal? "t") >>= Json.getStr?
      let v ← (j.getObjVal? "v") >>= Json.getStr?
      pure (.leaf ⟨t, v⟩)
  | _ => throw "node: unexpected JSON"

partial def nodeToJson : Node → Json
  | .leaf s => Json.mkObj [("t", .str s.ty), ("v", .str s.text)]
  | .list xs => .arr (xs.map nodeToJson).toArray
  | .cont kvs => Json.mkObj [("m", Json.mkObj (kvs.map fun (k, v) => (k, nodeToJson v)))]

partial def valOfJson : Json → Except String Val
  | .arr xs => do
    let ys ← xs.toList.mapM valOfJson
    pure (.arr ys)
  | j@(.obj _) => do
    match j.getObjVal? "m" with
    | .ok (.obj kvs) =>
      let ps ← kvs.toList.mapM (fun (k, v) => do let n ← valOfJson v; pure (k, n))
      pure (.obj (AMap.ofList ps))
    | _ =>
      let t ← (j.getObjVal? "t") >>= Json.getStr?
      let v ← (j.getObjVal? "v") >>= Json.getStr?
      pure (.sc ⟨t, v⟩)
  | _ => throw "val: unexpected JSON"

partial def valToJson : Val → Json
  | .sc s => Json.mkObj [("t", .str s.ty), ("v", .str s.text)]
  | .arr xs => .arr (xs.map valToJson).toArray
  | .obj kvs => Json.mkObj [("m", Json.mkObj (kvs.map fun (k, v) => (k, valToJson v)))]

def optNodeToJson : Option Node → Json
  | none => .null
  | some n => nodeToJson n

def strs (xs : List String) : Json := .arr (xs.map Json.str).toArray

def getStr (j : Json) (k : String) : Except String String := (j.getObjVal? k) >>= Json.getStr?
def getNat (j : Json) (k : String) : Except String Nat := (j.getObjVal? k) >>= Json.getNat?
def getBool (j : Json) (k : String) : Except String Bool := (j.getObjVal? k) >>= Json.getBool?
def getNode (j : Json) (k : String) : Except String Node := (j.getObjVal? k) >>= nodeOfJson
def getVal (j : Json) (k : String) : Except String Val := (j.getObjVal? k) >>= valOfJson
def getArr (j : Json) (k : String) : Except String (List Json) := do
  let a ← (j.getObjVal? k) >>= Json.getArr?
  pure a.toList
def getStrs (j : Json) (k : String) : Except String (List String) := do
  let a ← getArr j k
  a.mapM Json.getStr?
def getOptStr (j : Json) (k : String) : Option String :=
  match j.getObjVal? k with
  | .ok (.str s) => some s
  | _ => none

/-- A handler takes the operation name and the argument object. -/
abbrev Handler := String → Json → Except String Json

end Ytk.Wire
