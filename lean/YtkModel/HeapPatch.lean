/-
  YtkModel.HeapPatch — heap-level (pointer / store-passing) model of patch/patch.go,
  patch/utils.go, patch/path.go (Eval) and pipeline/patch_op.go on top of YtkModel/Heap.lean,
  mirroring /repo at HEAD.  The value-level model is YtkModel/Patch.lean (`Ytk.Patch.patchDo`);
  this file has the same shape, function for function, with `setAt` replaced by an in-place
  WRITE of the one cell `Path.Eval` located.

  Sharing facts the model mirrors (what the Go code does):

    * `Path.Eval`            hands out the stored node itself (list item / `Child(name)`).
    * `doAdd`                attaches `obj.Value` — the caller's node ITSELF — to the parent:
                             `AddValue(last, value)` on a container parent (one write of that
                             container cell), `insertListItem` on a list parent.
    * `insertListItem` / `removeListItem`
                             `items := list.Items()` (a copy of the slice), `list.Clear()`
                             (`l.items = []Node{}`), then `Append` of the old item NODES themselves
                             around the index: the ONE list cell is written (several times — only
                             the final content is modelled; nobody else can observe the list in
                             between), the items are not copied.
    * `doRemove`             `Remove(last)` on a container parent, `removeListItem` on a list.
    * `doReplace`            `Set(idx, value)` on a list parent, `AddValue(last, value)` on a
                             container: the value node itself, again.
    * `moveOrCopy`, copy     `doAdd(from-node.Clone())`: every cell of the stored value is NEW.
    * `moveOrCopy`, move     `doRemove(from)` then `doAdd` of THE SAME node at `path` — nothing is
                             allocated; when that add fails the same node is added back at `from`.
    * `doTest`               `obj.Value.Equals(n)` — reads only.
    * `PatchOp.Do`           immediate value: `ps.Value.Value().Clone()` (D30 fix: before it, the
                             op's own node was attached); valueFrom: `Data().Lookup(p).Clone()`
                             (D28 fix: before it, the looked-up node itself was attached); then
                             `patch.Do`.  The `…NoClone` definitions below are the PRE-FIX shapes,
                             kept only for the negative theorems (never used by the driver).

  Member names are plain (no index group `[digits]` at the end — those make `Child`/`AddValue`
  go through the list code, covered by the value-level model).  Outcomes as in the value-level
  model: `.err` = error returned, `.panic` where the Go code would panic (and for a `Clone` / `Equals`
  that does not terminate on a cyclic graph).  Core-only: linked into the native driver.
-/
import YtkModel.Heap
import YtkModel.Patch

namespace Ytk.Heap
open Ytk.Ptr (Path atoi parent lastSegment)
open Ytk.Patch (properPrefix)

abbrev HRes := Heap × Outcome Unit

/-- one iteration of the loop in `Path.Eval` -/
def stepH (h : Heap) (cur : Addr) (t : String) : Option Addr :=
  match h.get? cur with
  | some (.list xs) =>
    match atoi t with
    | some i => if 0 ≤ i ∧ i < (xs.length : Int) then xs[i.toNat]? else none
    | none => none
  | some (.cont kvs) => AMap.get? kvs t
  | _ => none

/-- `Path.Eval(target)`: the final node (`none` = nil); the empty path is the target itself -/
def evalH (h : Heap) : Addr → Path → Option Addr
  | a, [] => some a
  | a, t :: ts =>
    match stepH h a t with
    | some c => evalH h c ts
    | none => none

def doAddH (value : Option Addr) (path : Path) (h : Heap) (root : Addr) : HRes :=
  match value with
  | none => (h, .err)
  | some v =>
    match evalH h root (parent path) with
    | none => (h, .err)
    | some par =>
      match atoi (lastSegment path), h.get? par with
      | some idx, some (.list xs) =>
        if idx < 0 ∨ (xs.length : Int) < idx then (h, .err)
        else (h.write par (.list (xs.take idx.toNat ++ v :: xs.drop idx.toNat)), .ok ())
      | _, some (.cont kvs) => (h.write par (.cont (AMap.insert kvs (lastSegment path) v)), .ok ())
      | _, _ => (h, .err)

def doRemoveH (path : Path) (h : Heap) (root : Addr) : HRes :=
  match evalH h root path with
  | none => (h, .err)
  | some _ =>
    match evalH h root (parent path) with
    | none => (h, .panic)
    | some par =>
      match atoi (lastSegment path), h.get? par with
      | some idx, some (.list xs) =>
        if idx < -1 ∨ (xs.length : Int) < idx then (h, .panic)
        else if idx = -1 then (h.write par (.list xs), .ok ())
        else (h.write par (.list (xs.take idx.toNat ++ xs.drop (idx.toNat + 1))), .ok ())
      | _, some (.cont kvs) => (h.write par (.cont (AMap.erase kvs (lastSegment path))), .ok ())
      | _, _ => (h, .panic)

def doReplaceH (value : Option Addr) (path : Path) (h : Heap) (root : Addr) : HRes :=
  match value with
  | none => (h, .err)
  | some v =>
    match evalH h root path with
    | none => (h, .err)
    | some _ =>
      match evalH h root (parent path) with
      | none => (h, .panic)
      | some par =>
        match atoi (lastSegment path), h.get? par with
        | some idx, some (.list xs) =>
          if idx < 0 then (h, .panic)
          else
            (h.write par (.list ((xs ++ List.replicate (idx.toNat + 1 - xs.length) nilAddr).set idx.toNat v)),
              .ok ())
        | _, some (.cont kvs) => (h.write par (.cont (AMap.insert kvs (lastSegment path) v)), .ok ())
        | _, _ => (h, .panic)

/-- moveOrCopy; `cl` is the Clone used by copy (`cloneF h.size` in `moveOrCopyH`) -/
def moveOrCopyWith (cl : Heap → Addr → Option (Heap × Addr)) (frm : Option Path) (path : Path)
    (h : Heap) (root : Addr) (move : Bool) : HRes :=
  match frm with
  | none => (h, .err)
  | some f =>
    match evalH h root f with
    | none => (h, .err)
    | some n =>
      if move then
        if f = path then (h, .ok ())
        else if properPrefix f path then (h, .err)
        else
          match doRemoveH f h root with
          | (h1, .panic) => (h1, .panic)
          | (h1, _) =>
            match doAddH (some n) path h1 root with
            | (h2, .ok ()) => (h2, .ok ())
            | (h2, .panic) => (h2, .panic)
            | (h2, .err) =>
              match doAddH (some n) f h2 root with
              | (h3, .panic) => (h3, .panic)
              | (h3, _) => (h3, .err)
      else
        match cl h n with
        | none => (h, .panic)
        | some (h1, c) => doAddH (some c) path h1 root

def moveOrCopyH (frm : Option Path) (path : Path) (h : Heap) (root : Addr) (move : Bool) : HRes :=
  moveOrCopyWith (fun g a => cloneF g.size g a) frm path h root move

def doTestH (value : Option Addr) (path : Path) (h : Heap) (root : Addr) : HRes :=
  match value with
  | none => (h, .err)
  | some v =>
    match evalH h root path with
    | none => (h, .err)
    | some n =>
      match abs h v, abs h n with
      | some x, some y => if equals x y then (h, .ok ()) else (h, .err)
      | _, _ => (h, .panic)

/-- `patch.OpObj` with the value as a node ADDRESS -/
structure HOpObj where
  op    : String
  frm   : Option Path
  path  : Option Path
  value : Option Addr

/-- patch.Do(obj, target) -/
def patchDoH (o : HOpObj) (h : Heap) (root : Addr) : HRes :=
  match o.path with
  | none => (h, .err)
  | some path =>
    if o.op = "add" then doAddH o.value path h root
    else if o.op = "remove" then doRemoveH path h root
    else if o.op = "replace" then doReplaceH o.value path h root
    else if o.op = "move" then moveOrCopyH o.frm path h root true
    else if o.op = "copy" then moveOrCopyH o.frm path h root false
    else if o.op = "test" then doTestH o.value path h root
    else (h, .err)

/-! ## pipeline.PatchOp -/

/-- where `PatchOp.Do` takes `oo.Value` from -/
inductive ValueSrc where
  | none                               -- neither Value nor ValueFrom
  | imm (v : Addr)                     -- `Value *AnyVal`: the node the op object holds
  | from (comps : List String)         -- `ValueFrom`: a dotted path into the data document
  deriving Repr

/-- `ctx.Data().Lookup(path)` on plain member names (`Lookup("")` is nil) -/
def lookupData (h : Heap) (root : Addr) (comps : List String) : Option Addr :=
  if comps = [] then none else lookupKeys h root comps

/-- the node PatchOp.Do would clone: the op's own value node, or the looked-up node -/
def srcNode (h : Heap) (root : Addr) : ValueSrc → Option Addr
  | .none => none
  | .imm v => some v
  | .from comps => lookupData h root comps

/-- PatchOp.Do at HEAD: `oo.Value = node.Clone()` -/
def patchOpDoH (op : String) (frm path : Option Path) (src : ValueSrc) (h : Heap) (root : Addr) : HRes :=
  match srcNode h root src with
  | none => patchDoH ⟨op, frm, path, none⟩ h root
  | some n =>
    match cloneF h.size h n with
    | none => (h, .panic)
    | some (h1, c) => patchDoH ⟨op, frm, path, some c⟩ h1 root

/-- PRE-FIX shape (before the D30 / D28 fixes): `oo.Value = node` — the op's own node, or the
    node found in the data document, is attached itself.  Only for the negative theorems. -/
def patchOpDoNoClone (op : String) (frm path : Option Path) (src : ValueSrc) (h : Heap) (root : Addr) : HRes :=
  patchDoH ⟨op, frm, path, srcNode h root src⟩ h root

/-- PRE-FIX shape of patch copy (before the D13 fix): the `from` node itself is added at `path`.
    Only for the negative theorems. -/
def copyNoClone (frm : Option Path) (path : Path) (h : Heap) (root : Addr) : HRes :=
  moveOrCopyWith (fun g a => some (g, a)) frm path h root false

/-! ### insertListItem / removeListItem statement by statement

  `items := list.Items(); list.Clear(); for … { list.Append(items[i]) }` — every statement is a
  builder call on the ONE list cell; the model of the patch operations writes the final content at
  once.  The two agree. -/

/-- `list.Append(x)` for every `x`, in order -/
def appendAllH : Heap → Addr → List Addr → Option Heap
  | h, _, [] => some h
  | h, l, x :: xs =>
    match listAppend h l x with
    | none => none
    | some h1 => appendAllH h1 l xs

/-- utils.go insertListItem, statement by statement (index in range) -/
def insertListItemStmts (h : Heap) (l : Addr) (i : Nat) (v : Addr) : Option Heap :=
  match h.get? l with
  | some (.list items) =>
    match listClear h l with
    | none => none
    | some h1 => appendAllH h1 l (items.take i ++ v :: items.drop i)
  | _ => none

/-- utils.go removeListItem, statement by statement (index in range) -/
def removeListItemStmts (h : Heap) (l : Addr) (i : Nat) : Option Heap :=
  match h.get? l with
  | some (.list items) =>
    match listClear h l with
    | none => none
    | some h1 => appendAllH h1 l (items.take i ++ items.drop (i + 1))
  | _ => none

end Ytk.Heap
