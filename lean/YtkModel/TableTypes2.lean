/-
  YtkModel.TableTypes2 — schema of the second batch of regenerated decision tables
  (extract/tables2.go → `Generated/Tables2.lean`, rewritten on every run from /repo's working tree).
  It adds to YtkModel.TableTypes (whose `Row` is reused): arms of ordered chains that carry the
  STATEMENTS they run, as canonical strings (receiver `recv`, parameters `arg0…`, named results
  `res0…`, locals `v0…` in order of definition — renaming any of them changes nothing), the wiring
  of a decoder / encoder pair, and an `os.OpenFile` call as data.
-/
import YtkModel.TableTypes

namespace Ytk.TableT

/-- one arm of an ordered kind-pair chain `if a.IsX() && b.IsY() {…} else if … else {…}`:
    `left` / `right` ∈ {container, list, leaf, any}, `steps` = the statements of the arm -/
structure KindArm where
  left : String
  right : String
  steps : List String
  deriving DecidableEq, Repr, Inhabited

/-- one arm of an ordered condition chain (if / else-if / else, or guards `if c { return … }` one after
    the other): `cond` is the canonical condition (`a || b` is split into two arms), `otherwise` for the
    final else / the final return -/
structure CondArm where
  cond : String
  steps : List String
  deriving DecidableEq, Repr, Inhabited

/-- `NewBuilder().Manifest(m).Decoder(d(args…)).Encoder(e(args…)).Open()` -/
structure CodecWiring where
  ctor : String
  manifest : String
  decFn : String
  decArgs : List String
  encFn : String
  encArgs : List String
  deriving DecidableEq, Repr, Inhabited

/-- an `os.OpenFile(name, flags, mode)` call: the `os.O_*` flag names sorted, the mode as a number -/
structure OpenCall where
  site : String
  flags : List String
  mode : Nat
  deriving DecidableEq, Repr, Inhabited

/-- the steps of the first arm whose condition is `c` -/
def armSteps (t : List CondArm) (c : String) : Option (List String) := (t.find? (·.cond == c)).map (·.steps)

def conds (t : List CondArm) : List String := t.map (·.cond)

end Ytk.TableT
