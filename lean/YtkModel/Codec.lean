/-
  YtkModel.Codec — model of dom/codec.go (plain value ⇄ DOM) and of the reader / writer
  entry points around it (FromMap, FromReader, AsMap, AsSlice, Serialize).

  decodeContainerFn walks the Go map and puts every entry with AddValue / AddContainer /
  AddList, i.e. through `add`, which gives a key ending in `[n]` the meaning of a list
  index (D26).  `decodeKvs` folds `add` over the entries in key order.
  The text codecs (yaml.v3, encoding/json) are parameters.
-/
import YtkModel.Dom

namespace Ytk

mutual
/-- DefaultNodeDecoderFn / decodeContainerFn / decodeListFn / decodeLeafFn -/
def decodeNode : Val → Node
  | .sc v => .leaf v
  | .arr xs => .list (decodeList xs)
  | .obj kvs => .cont (decodeKvs kvs [])
def decodeList : List Val → List Node
  | [] => []
  | x :: xs => decodeNode x :: decodeList xs
def decodeKvs : List (String × Val) → AMap Node → AMap Node
  | [], acc => acc
  | (k, v) :: rest, acc => decodeKvs rest (add acc k (decodeNode v))
end

mutual
/-- encodeContainerFn / encodeListFn / encodeLeafFn (AsMap, AsSlice, DefaultNodeEncoderFn) -/
def encodeNode : Node → Val
  | .leaf v => .sc v
  | .list xs => .arr (encodeList xs)
  | .cont kvs => .obj (encodeKvs kvs)
def encodeList : List Node → List Val
  | [] => []
  | x :: xs => encodeNode x :: encodeList xs
def encodeKvs : List (String × Node) → List (String × Val)
  | [] => []
  | (k, x) :: xs => (k, encodeNode x) :: encodeKvs xs
end

/-- FromMap on the entries of the root map -/
def fromMap (kvs : List (String × Val)) : AMap Node := decodeKvs kvs []

/-- AsMap -/
def asMap (kvs : AMap Node) : List (String × Val) := encodeKvs kvs

/-- FromReader with decoder `dec`: the decoder's error, or the DOM of the decoded map. -/
def fromReader {T : Type} (dec : T → Except Unit (List (String × Val))) (t : T) : Except Unit (AMap Node) :=
  match dec t with
  | .error e => .error e
  | .ok m => .ok (fromMap m)

/-- Serialize with value encoder `enc` writing to sink `w`: the encoder's result on AsMap. -/
def serialize {W R : Type} (enc : W → List (String × Val) → R) (w : W) (kvs : AMap Node) : R :=
  enc w (asMap kvs)

mutual
/-- no key anywhere ends in an index group -/
def Val.noIdxKeys : Val → Bool
  | .sc _ => true
  | .arr xs => Val.noIdxKeysList xs
  | .obj kvs => Val.noIdxKeysKvs kvs
def Val.noIdxKeysList : List Val → Bool
  | [] => true
  | x :: xs => Val.noIdxKeys x && Val.noIdxKeysList xs
def Val.noIdxKeysKvs : List (String × Val) → Bool
  | [] => true
  | (k, x) :: xs => !hasIdxSuffix k && Val.noIdxKeys x && Val.noIdxKeysKvs xs
end

mutual
/-- number of scalar positions of a plain value -/
def Val.scalarCount : Val → Nat
  | .sc _ => 1
  | .arr xs => Val.scalarCountList xs
  | .obj kvs => Val.scalarCountKvs kvs
def Val.scalarCountList : List Val → Nat
  | [] => 0
  | x :: xs => Val.scalarCount x + Val.scalarCountList xs
def Val.scalarCountKvs : List (String × Val) → Nat
  | [] => 0
  | (_, x) :: xs => Val.scalarCount x + Val.scalarCountKvs xs
end

end Ytk

namespace Ytk

/-- A decoded value that may contain maps with arbitrary scalar keys (yaml.v3 yields
    `map[interface{}]interface{}` for mappings with non-string keys). -/
inductive IVal where
  | sc  (v : Scalar)
  | arr (xs : List IVal)
  | obj (kvs : List (Scalar × IVal))
  deriving Repr, Inhabited

mutual
/-- toStringMap / toSlice of dom/codec.go: every key becomes `fmt.Sprint(key)`; the map is filled
    entry by entry (a later entry with the same text overwrites an earlier one) -/
def IVal.toVal : IVal → Val
  | .sc v => .sc v
  | .arr xs => .arr (IVal.toValList xs)
  | .obj kvs => .obj (AMap.ofList (IVal.toValKvs kvs))
def IVal.toValList : List IVal → List Val
  | [] => []
  | x :: xs => IVal.toVal x :: IVal.toValList xs
def IVal.toValKvs : List (Scalar × IVal) → List (String × Val)
  | [] => []
  | (k, x) :: xs => (k.text, IVal.toVal x) :: IVal.toValKvs xs
end

/-- FromMap / FromReader on such a value -/
def decodeI (v : IVal) : Node := decodeNode (IVal.toVal v)

mutual
def IVal.scalarCount : IVal → Nat
  | .sc _ => 1
  | .arr xs => IVal.scalarCountList xs
  | .obj kvs => IVal.scalarCountKvs kvs
def IVal.scalarCountList : List IVal → Nat
  | [] => 0
  | x :: xs => IVal.scalarCount x + IVal.scalarCountList xs
def IVal.scalarCountKvs : List (Scalar × IVal) → Nat
  | [] => 0
  | (_, x) :: xs => IVal.scalarCount x + IVal.scalarCountKvs xs
end

mutual
/-- within every map the stringified keys are pairwise distinct and none ends in an index group -/
def IVal.keysOk : IVal → Bool
  | .sc _ => true
  | .arr xs => IVal.keysOkList xs
  | .obj kvs => IVal.keysOkKvs kvs []
def IVal.keysOkList : List IVal → Bool
  | [] => true
  | x :: xs => IVal.keysOk x && IVal.keysOkList xs
def IVal.keysOkKvs : List (Scalar × IVal) → List String → Bool
  | [], _ => true
  | (k, x) :: xs, seen => !seen.contains k.text && !hasIdxSuffix k.text && IVal.keysOk x && IVal.keysOkKvs xs (k.text :: seen)
end

end Ytk
