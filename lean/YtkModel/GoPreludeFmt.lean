/-
  YtkModel.GoPreludeFmt — more Go primitives for the translated functions (namespace `Ytk.Go`, next to
  YtkModel/GoPrelude.lean; a file of its own so that parallel work on GoPrelude.lean does not collide).
  TRUSTED one-liners, as a reading of the Go standard library:

  * `strings.Join(elems, sep)`
  * `strings.TrimSpace(s)`  (leading and trailing `unicode.IsSpace` characters removed)
  * the verb `%v` of fmt.Sprintf on a plain string / int is `fmtS` / `fmtD` of GoPrelude (the translator
    rejects `%v` on any type that has a String, Error, Format or GoString method)
  * `strings.Builder.WriteByte(c)` for an ASCII byte is `String.push` (the translator's WriteRune case)
-/
import YtkModel.GoPrelude

namespace Ytk.Go

/-- `strings.Join(elems, sep)` -/
def stringsJoin (elems : List String) (sep : String) : String := sep.intercalate elems

/-- `unicode.IsSpace(c)`: '\t' '\n' '\v' '\f' '\r' ' ' U+0085 U+00A0 and the Unicode category Z -/
def isSpace (c : Char) : Bool :=
  let n := c.toNat
  (n ≥ 9 && n ≤ 13) || n == 32 || n == 0x85 || n == 0xA0 || n == 0x1680 ||
  (n ≥ 0x2000 && n ≤ 0x200A) || n == 0x2028 || n == 0x2029 || n == 0x202F || n == 0x205F || n == 0x3000

/-- `strings.TrimSpace(s)` -/
def trimSpace (s : String) : String :=
  String.ofList ((s.toList.dropWhile isSpace).reverse.dropWhile isSpace).reverse

end Ytk.Go
