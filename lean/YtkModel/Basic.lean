/-
  YtkModel.Basic — data shared by every model file.

  * `Scalar`  : an opaque typed Go scalar (Go type name, fmt.Sprint text)
  * `Val`     : a plain Go value  (map[string]any / []any / scalar)
  * `Node`    : a DOM node        (container / list / leaf)
  * `AMap`    : association lists kept strictly sorted by key — the model of Go maps
  * `Outcome` : ok / err / panic

  Core-only (no Mathlib): this file is linked into the native driver.
-/
namespace Ytk

structure Scalar where
  ty   : String
  text : String
  deriving DecidableEq, Repr, Inhabited

/-- Go's `nil` inside an `interface{}` (what `LeafNode(nil)` holds). -/
def Scalar.null : Scalar := ⟨"nil", "<nil>"⟩

def Scalar.isNull (s : Scalar) : Bool := s.ty == "nil"

inductive Val where
  | sc  (v : Scalar)
  | arr (xs : List Val)
  | obj (kvs : List (String × Val))
  deriving Repr, Inhabited

inductive Node where
  | leaf (v : Scalar)
  | list (xs : List Node)
  | cont (kvs : List (String × Node))
  deriving Repr, Inhabited

inductive Outcome (α : Type) where
  | ok (a : α)
  | err
  | panic
  deriving Repr, Inhabited, DecidableEq

namespace Outcome
def isPanic : Outcome α → Bool | .panic => true | _ => false
def isOk : Outcome α → Bool | .ok _ => true | _ => false
def map (f : α → β) : Outcome α → Outcome β
  | .ok a => .ok (f a) | .err => .err | .panic => .panic
def bind (o : Outcome α) (f : α → Outcome β) : Outcome β :=
  match o with | .ok a => f a | .err => .err | .panic => .panic
def tag : Outcome α → String | .ok _ => "ok" | .err => "err" | .panic => "panic"
instance : Monad Outcome where
  pure := .ok
  bind := bind
end Outcome

/-! ## String order facts (core has le_total / le_antisymm; trichotomy is derived) -/

theorem String.lt_trichotomy (a b : String) : a < b ∨ a = b ∨ b < a := by
  by_cases h1 : a < b
  · exact Or.inl h1
  · by_cases h2 : b < a
    · exact Or.inr (Or.inr h2)
    · exact Or.inr (Or.inl (String.le_antisymm (String.not_lt.mp h2) (String.not_lt.mp h1)))

/-! ## Association maps: lists sorted strictly by key -/

abbrev AMap (α : Type) := List (String × α)

namespace AMap
variable {α : Type}

def get? : AMap α → String → Option α
  | [], _ => none
  | (k, v) :: m, x => if x = k then some v else get? m x

def contains (m : AMap α) (x : String) : Bool := (get? m x).isSome

/-- sorted insert; an existing key is overwritten in place -/
def insert : AMap α → String → α → AMap α
  | [], x, a => [(x, a)]
  | (k, v) :: m, x, a =>
    if x < k then (x, a) :: (k, v) :: m
    else if x = k then (k, a) :: m
    else (k, v) :: insert m x a

def erase : AMap α → String → AMap α
  | [], _ => []
  | (k, v) :: m, x => if x = k then m else (k, v) :: erase m x

def keys (m : AMap α) : List String := m.map (·.1)

/-- all keys of `m` are greater than `x` -/
def AllGt (x : String) (m : AMap α) : Prop := ∀ p ∈ m, x < p.1

/-- strictly sorted by key (hence duplicate-free) -/
inductive Sorted : AMap α → Prop
  | nil : Sorted []
  | cons {k : String} {v : α} {m : AMap α} : AllGt k m → Sorted m → Sorted ((k, v) :: m)

/-- normalise an arbitrary association list: later entries win -/
def ofList (l : List (String × α)) : AMap α := l.foldl (fun m p => insert m p.1 p.2) []

theorem Sorted.tail {p : String × α} {m : AMap α} (h : Sorted (p :: m)) : Sorted m := by
  cases h; assumption

theorem Sorted.head_lt {k : String} {v : α} {m : AMap α} (h : Sorted ((k, v) :: m)) : AllGt k m := by
  cases h; assumption

theorem AllGt.trans {x y : String} {m : AMap α} (h : x < y) (hy : AllGt y m) : AllGt x m :=
  fun p hp => String.lt_trans h (hy p hp)

theorem allGt_insert {x k : String} {a : α} {m : AMap α} (hm : AllGt x m) (hk : x < k) :
    AllGt x (insert m k a) := by
  induction m with
  | nil => intro p hp; simp [insert] at hp; subst hp; exact hk
  | cons q m ih =>
    obtain ⟨k', v'⟩ := q
    intro p hp
    simp only [insert] at hp
    split at hp
    · simp only [List.mem_cons] at hp
      rcases hp with rfl | rfl | hp
      · exact hk
      · exact hm _ (List.mem_cons_self ..)
      · exact hm _ (List.mem_cons_of_mem _ hp)
    · split at hp
      · simp only [List.mem_cons] at hp
        rcases hp with rfl | hp
        · exact hm (k', v') (List.mem_cons_self ..)
        · exact hm _ (List.mem_cons_of_mem _ hp)
      · simp only [List.mem_cons] at hp
        rcases hp with rfl | hp
        · exact hm _ (List.mem_cons_self ..)
        · exact ih (fun p hp => hm p (List.mem_cons_of_mem _ hp)) p hp

theorem sorted_insert {m : AMap α} (h : Sorted m) (x : String) (a : α) : Sorted (insert m x a) := by
  induction m with
  | nil => exact .cons (fun _ hp => by cases hp) .nil
  | cons q m ih =>
    obtain ⟨k, v⟩ := q
    simp only [insert]
    split
    · rename_i hlt
      refine .cons ?_ h
      intro p hp
      simp only [List.mem_cons] at hp
      rcases hp with rfl | hp
      · exact hlt
      · exact String.lt_trans hlt (h.head_lt p hp)
    · split
      · exact .cons h.head_lt h.tail
      · rename_i h1 h2
        have hk : k < x := by
          rcases String.lt_trichotomy x k with h | h | h
          · exact absurd h h1
          · exact absurd h h2
          · exact h
        exact .cons (allGt_insert h.head_lt hk) (ih h.tail)

theorem sorted_erase {m : AMap α} (h : Sorted m) (x : String) : Sorted (erase m x) := by
  induction m with
  | nil => exact .nil
  | cons q m ih =>
    obtain ⟨k, v⟩ := q
    simp only [erase]
    split
    · exact h.tail
    · refine .cons ?_ (ih h.tail)
      intro p hp
      have : ∀ (m : AMap α), p ∈ erase m x → p ∈ m := by
        intro m
        induction m with
        | nil => simp [erase]
        | cons q m ih =>
          obtain ⟨k', v'⟩ := q
          simp only [erase]
          split
          · exact fun h => List.mem_cons_of_mem _ h
          · intro h
            simp only [List.mem_cons] at h ⊢
            rcases h with h | h
            · exact Or.inl h
            · exact Or.inr (ih h)
      exact h.head_lt p (this m hp)

theorem sorted_ofList (l : List (String × α)) : Sorted (ofList l) := by
  unfold ofList
  suffices ∀ (m : AMap α), Sorted m → Sorted (l.foldl (fun m p => insert m p.1 p.2) m) from this [] .nil
  induction l with
  | nil => intro m h; exact h
  | cons p l ih => intro m h; exact ih _ (sorted_insert h _ _)

@[simp] theorem get?_nil (x : String) : get? ([] : AMap α) x = none := rfl

theorem get?_of_allGt {x : String} {m : AMap α} (h : AllGt x m) : get? m x = none := by
  induction m with
  | nil => rfl
  | cons q m ih =>
    obtain ⟨k, v⟩ := q
    simp only [get?]
    have hlt : x < k := h (k, v) (List.mem_cons_self ..)
    rw [if_neg (String.ne_of_lt hlt)]
    exact ih (fun p hp => h p (List.mem_cons_of_mem _ hp))

theorem get?_insert_self (m : AMap α) (x : String) (a : α) : get? (insert m x a) x = some a := by
  induction m with
  | nil => simp [insert, get?]
  | cons q m ih =>
    obtain ⟨k, v⟩ := q
    simp only [insert]
    split
    · simp [get?]
    · split
      · rename_i h; simp [get?, h]
      · rename_i h1 h2; simp [get?, h2, ih]

theorem get?_insert_ne (m : AMap α) {x y : String} (a : α) (h : y ≠ x) :
    get? (insert m x a) y = get? m y := by
  induction m with
  | nil => simp [insert, get?, h]
  | cons q m ih =>
    obtain ⟨k, v⟩ := q
    simp only [insert]
    split
    · simp [get?, h]
    · split
      · rename_i h2; subst h2; simp [get?, h]
      · simp only [get?]; split
        · rfl
        · exact ih

theorem get?_erase_self {m : AMap α} (hs : Sorted m) (x : String) : get? (erase m x) x = none := by
  induction m with
  | nil => rfl
  | cons q m ih =>
    obtain ⟨k, v⟩ := q
    simp only [erase]
    split
    · rename_i h; subst h; exact get?_of_allGt hs.head_lt
    · rename_i h; simp only [get?, if_neg h]; exact ih hs.tail

theorem get?_erase_ne (m : AMap α) {x y : String} (h : y ≠ x) : get? (erase m x) y = get? m y := by
  induction m with
  | nil => rfl
  | cons q m ih =>
    obtain ⟨k, v⟩ := q
    simp only [erase]
    split
    · rename_i h2; subst h2; simp [get?, h]
    · simp only [get?]; split
      · rfl
      · exact ih

theorem erase_of_get?_none {m : AMap α} {x : String} (h : get? m x = none) : erase m x = m := by
  induction m with
  | nil => rfl
  | cons q m ih =>
    obtain ⟨k, v⟩ := q
    simp only [get?] at h
    split at h
    · cases h
    · rename_i hne; simp only [erase, if_neg hne]; rw [ih h]

/-- Sorted maps are determined by their lookups (extensionality). -/
theorem ext_of_sorted {m₁ m₂ : AMap α} (h₁ : Sorted m₁) (h₂ : Sorted m₂)
    (h : ∀ x, get? m₁ x = get? m₂ x) : m₁ = m₂ := by
  induction m₁ generalizing m₂ with
  | nil =>
    cases m₂ with
    | nil => rfl
    | cons q m₂ =>
      obtain ⟨k, v⟩ := q
      have := h k; simp [get?] at this
  | cons q m₁ ih =>
    obtain ⟨k, v⟩ := q
    cases m₂ with
    | nil => have := h k; simp [get?] at this
    | cons q₂ m₂ =>
      obtain ⟨k₂, v₂⟩ := q₂
      have hk : k = k₂ := by
        rcases String.lt_trichotomy k k₂ with hlt | heq | hgt
        · have := h k
          simp only [get?, if_true] at this
          rw [if_neg (String.ne_of_lt hlt)] at this
          rw [get?_of_allGt (AllGt.trans hlt h₂.head_lt)] at this
          cases this
        · exact heq
        · have := h k₂
          simp only [get?, if_true] at this
          rw [if_neg (String.ne_of_lt hgt)] at this
          rw [get?_of_allGt (AllGt.trans hgt h₁.head_lt)] at this
          cases this
      subst hk
      have hv : v = v₂ := by
        have := h k; simp [get?] at this; exact this
      subst hv
      congr 1
      apply ih h₁.tail h₂.tail
      intro x
      by_cases hx : x = k
      · subst hx
        rw [get?_of_allGt h₁.head_lt, get?_of_allGt h₂.head_lt]
      · have := h x
        simpa [get?, hx] using this

theorem mem_of_get? {m : AMap α} {x : String} {a : α} (h : get? m x = some a) : (x, a) ∈ m := by
  induction m with
  | nil => cases h
  | cons q m ih =>
    obtain ⟨k, v⟩ := q
    simp only [get?] at h
    split at h
    · rename_i hx; cases h; subst hx; exact List.mem_cons_self ..
    · exact List.mem_cons_of_mem _ (ih h)

theorem get?_of_mem {m : AMap α} (hs : Sorted m) {x : String} {a : α} (h : (x, a) ∈ m) :
    get? m x = some a := by
  induction m with
  | nil => cases h
  | cons q m ih =>
    obtain ⟨k, v⟩ := q
    simp only [List.mem_cons] at h
    rcases h with h | h
    · cases h; simp [get?]
    · have hlt : k < x := hs.head_lt _ h
      simp only [get?]
      rw [if_neg (fun e => String.ne_of_lt hlt e.symm)]
      exact ih hs.tail h

end AMap

/-! ## Structural helpers on Node / Val (mutual structural recursion over the nested lists) -/

mutual
def Node.beq : Node → Node → Bool
  | .leaf a, .leaf b => a == b
  | .list xs, .list ys => Node.beqList xs ys
  | .cont xs, .cont ys => Node.beqKvs xs ys
  | _, _ => false
def Node.beqList : List Node → List Node → Bool
  | [], [] => true
  | x :: xs, y :: ys => Node.beq x y && Node.beqList xs ys
  | _, _ => false
def Node.beqKvs : List (String × Node) → List (String × Node) → Bool
  | [], [] => true
  | (k, x) :: xs, (k', y) :: ys => k == k' && Node.beq x y && Node.beqKvs xs ys
  | _, _ => false
end

mutual
theorem Node.beq_iff : ∀ (a b : Node), Node.beq a b = true ↔ a = b
  | .leaf a, .leaf b => by simp [Node.beq]
  | .leaf _, .list _ => by simp [Node.beq]
  | .leaf _, .cont _ => by simp [Node.beq]
  | .list _, .leaf _ => by simp [Node.beq]
  | .list xs, .list ys => by simp [Node.beq, Node.beqList_iff xs ys]
  | .list _, .cont _ => by simp [Node.beq]
  | .cont _, .leaf _ => by simp [Node.beq]
  | .cont _, .list _ => by simp [Node.beq]
  | .cont xs, .cont ys => by simp [Node.beq, Node.beqKvs_iff xs ys]
theorem Node.beqList_iff : ∀ (a b : List Node), Node.beqList a b = true ↔ a = b
  | [], [] => by simp [Node.beqList]
  | [], _ :: _ => by simp [Node.beqList]
  | _ :: _, [] => by simp [Node.beqList]
  | x :: xs, y :: ys => by simp [Node.beqList, Node.beq_iff x y, Node.beqList_iff xs ys]
theorem Node.beqKvs_iff : ∀ (a b : List (String × Node)), Node.beqKvs a b = true ↔ a = b
  | [], [] => by simp [Node.beqKvs]
  | [], _ :: _ => by simp [Node.beqKvs]
  | _ :: _, [] => by simp [Node.beqKvs]
  | (k, x) :: xs, (k', y) :: ys => by
    simp [Node.beqKvs, Node.beq_iff x y, Node.beqKvs_iff xs ys, and_assoc]
end

instance : DecidableEq Node := fun a b =>
  if h : Node.beq a b = true then isTrue ((Node.beq_iff a b).mp h)
  else isFalse (fun e => h ((Node.beq_iff a b).mpr e))

instance : BEq Node := ⟨Node.beq⟩

mutual
def Val.beq : Val → Val → Bool
  | .sc a, .sc b => a == b
  | .arr xs, .arr ys => Val.beqList xs ys
  | .obj xs, .obj ys => Val.beqKvs xs ys
  | _, _ => false
def Val.beqList : List Val → List Val → Bool
  | [], [] => true
  | x :: xs, y :: ys => Val.beq x y && Val.beqList xs ys
  | _, _ => false
def Val.beqKvs : List (String × Val) → List (String × Val) → Bool
  | [], [] => true
  | (k, x) :: xs, (k', y) :: ys => k == k' && Val.beq x y && Val.beqKvs xs ys
  | _, _ => false
end

mutual
theorem Val.beq_iff : ∀ (a b : Val), Val.beq a b = true ↔ a = b
  | .sc a, .sc b => by simp [Val.beq]
  | .sc _, .arr _ => by simp [Val.beq]
  | .sc _, .obj _ => by simp [Val.beq]
  | .arr _, .sc _ => by simp [Val.beq]
  | .arr xs, .arr ys => by simp [Val.beq, Val.beqList_iff xs ys]
  | .arr _, .obj _ => by simp [Val.beq]
  | .obj _, .sc _ => by simp [Val.beq]
  | .obj _, .arr _ => by simp [Val.beq]
  | .obj xs, .obj ys => by simp [Val.beq, Val.beqKvs_iff xs ys]
theorem Val.beqList_iff : ∀ (a b : List Val), Val.beqList a b = true ↔ a = b
  | [], [] => by simp [Val.beqList]
  | [], _ :: _ => by simp [Val.beqList]
  | _ :: _, [] => by simp [Val.beqList]
  | x :: xs, y :: ys => by simp [Val.beqList, Val.beq_iff x y, Val.beqList_iff xs ys]
theorem Val.beqKvs_iff : ∀ (a b : List (String × Val)), Val.beqKvs a b = true ↔ a = b
  | [], [] => by simp [Val.beqKvs]
  | [], _ :: _ => by simp [Val.beqKvs]
  | _ :: _, [] => by simp [Val.beqKvs]
  | (k, x) :: xs, (k', y) :: ys => by
    simp [Val.beqKvs, Val.beq_iff x y, Val.beqKvs_iff xs ys, and_assoc]
end

instance : DecidableEq Val := fun a b =>
  if h : Val.beq a b = true then isTrue ((Val.beq_iff a b).mp h)
  else isFalse (fun e => h ((Val.beq_iff a b).mpr e))

instance : BEq Val := ⟨Val.beq⟩

namespace Node

def isLeaf : Node → Bool | .leaf _ => true | _ => false
def isList : Node → Bool | .list _ => true | _ => false
def isCont : Node → Bool | .cont _ => true | _ => false

/-- kind tag, as a small enum -/
inductive Kind | leaf | list | cont deriving DecidableEq, Repr
def kind : Node → Kind | .leaf _ => .leaf | .list _ => .list | .cont _ => .cont

def null : Node := .leaf Scalar.null
def empty : Node := .cont []

/-- every container in the tree has strictly sorted (hence unique) keys -/
inductive WF : Node → Prop
  | leaf (v : Scalar) : WF (.leaf v)
  | list {xs : List Node} : (∀ x ∈ xs, WF x) → WF (.list xs)
  | cont {kvs : List (String × Node)} : AMap.Sorted kvs → (∀ p ∈ kvs, WF p.2) → WF (.cont kvs)

mutual
def size : Node → Nat
  | .leaf _ => 1
  | .list xs => 1 + sizeList xs
  | .cont kvs => 1 + sizeKvs kvs
def sizeList : List Node → Nat
  | [] => 0
  | x :: xs => size x + sizeList xs
def sizeKvs : List (String × Node) → Nat
  | [] => 0
  | (_, x) :: xs => size x + sizeKvs xs
end

mutual
/-- number of scalar positions (leaves, including nulls) -/
def scalarCount : Node → Nat
  | .leaf _ => 1
  | .list xs => scalarCountList xs
  | .cont kvs => scalarCountKvs kvs
def scalarCountList : List Node → Nat
  | [] => 0
  | x :: xs => scalarCount x + scalarCountList xs
def scalarCountKvs : List (String × Node) → Nat
  | [] => 0
  | (_, x) :: xs => scalarCount x + scalarCountKvs xs
end

theorem WF.of_cont_get {kvs : List (String × Node)} (h : WF (.cont kvs)) {k : String} {n : Node}
    (hg : AMap.get? kvs k = some n) : WF n := by
  cases h with
  | cont _ hall => exact hall _ (AMap.mem_of_get? hg)

theorem WF.sorted {kvs : List (String × Node)} (h : WF (.cont kvs)) : AMap.Sorted kvs := by
  cases h; assumption

theorem WF.of_list_mem {xs : List Node} (h : WF (.list xs)) {x : Node} (hx : x ∈ xs) : WF x := by
  cases h with
  | list hall => exact hall x hx

end Node

namespace Val

inductive WF : Val → Prop
  | sc (v : Scalar) : WF (.sc v)
  | arr {xs : List Val} : (∀ x ∈ xs, WF x) → WF (.arr xs)
  | obj {kvs : List (String × Val)} : AMap.Sorted kvs → (∀ p ∈ kvs, WF p.2) → WF (.obj kvs)

def null : Val := .sc Scalar.null

end Val

end Ytk
