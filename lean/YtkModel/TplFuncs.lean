/-
  YtkModel.TplFuncs — the functions the pipeline adds to text/template
  (pipeline/template_engine_funcs.go + the FuncMap of pipeline/template_engine.go), at /repo HEAD.
  Namespace `Ytk.TplFuncs`.

  Go (template name)                  model
  ----------------------------------  ------------------------------------------------------------
  isEmptyFunc        (isEmpty)        `isEmpty : Option Val → Bool`     (`none` = Go's untyped nil)
  unflattenFunc      (unflatten)      `unflattenFn := Props.unflatten`  (the C16 model of utils.Unflatten)
  toYamlFunc         (toYaml)         `toYaml enc v`                    (encoder = parameter; TrimSuffix "\n" modelled)
  fileExistsFunc     (fileExists)     `fileExists os f`                 (os.Stat = parameter)
  isDirFunc          (isDir)          `isDir os p`
  globFunc           (glob)           `glob os p`                       (filepath.Glob = parameter)
  fileGlobFunc       (fileGlob)       `fileGlob os p`
  mergeFilesFunc     (mergeFiles)     `mergeFiles fl files`             (document set + overlay + Merged(append): the
                                                                         C18 / C06 / C04 models; opener, filepath.Ext and
                                                                         the text decoders are parameters)
  dom2str / dom2yamlFunc / dom2jsonFunc / dom2propertiesFunc
                     (dom2yaml …)     `dom2str enc c`, `dom2yaml/dom2json/dom2properties encs c`
                                                                        (Serialize of C01; encoders = parameters)
  domDiffFunc        (domdiff)        `domDiff l r`                     (the C07 model of diff.Diff)
  urlParseQuery      (urlParseQuery)  `urlParseQuery parse q`           (net/url = parameter)
  tplFunc            (tpl)            `tpl engine t data`               (text/template parse+execute = parameter)

  The last section gives the value of ONE template action calling these functions (`Call`, `render`)
  and what TemplateOp stores for it (`templateOpCall`, on top of `PD.templateOp`).
-/
import YtkModel.Props
import YtkModel.Codec
import YtkModel.Merge
import YtkModel.Overlay
import YtkModel.DocSet
import YtkModel.Diff
import YtkModel.FileCodec
import YtkModel.PipelineData

namespace Ytk.TplFuncs

/-! ## isEmpty -/

/-- isEmptyFunc(v interface{}): `v == nil` → true; `v.(string)` succeeds and is `""` → true; else false.
    `none` is the untyped nil a missing map key becomes when text/template binds it to an
    `interface{}` parameter; a stored nil is the scalar of type `nil`. -/
def isEmpty : Option Val → Bool
  | none => true
  | some (.sc s) => s.ty == "nil" || (s.ty == "string" && s.text == "")
  | some (.arr _) => false
  | some (.obj _) => false

/-! ## unflatten -/

/-- unflattenFunc: utils.Unflatten (a nil map — the zero value text/template passes for a missing
    key — ranges like the empty map) -/
def unflattenFn (m : AMap Val) : AMap Val := Props.unflatten m

/-! ## toYaml -/

/-- strings.TrimSuffix(s, "\n") -/
def trimSuffixNl (s : String) : String :=
  match s.toList.reverse with
  | '\n' :: r => String.ofList r.reverse
  | _ => s

/-- toYamlFunc: `enc` is utils.NewYamlEncoder(&buf).Encode (text written, error flag); the text with
    ONE trailing newline removed is returned together with the error -/
def toYaml {α : Type} (enc : α → String × Bool) (v : α) : String × Bool :=
  let r := enc v
  (trimSuffixNl r.1, r.2)

/-! ## fileExists / isDir / glob / fileGlob -/

/-- the OS calls behind the file functions -/
structure OS where
  /-- os.Stat: `none` = an error (of any kind), `some d` = a FileInfo with `IsDir() = d` -/
  stat : String → Option Bool
  /-- filepath.Glob: `none` = ErrBadPattern -/
  glob : String → Option (List String)

/-- fileExistsFunc: any error of os.Stat means "does not exist" -/
def fileExists (os : OS) (f : String) : Bool :=
  match os.stat f with
  | none => false
  | some _ => true

/-- isDirFunc: any error of os.Stat means false -/
def isDir (os : OS) (p : String) : Bool :=
  match os.stat p with
  | none => false
  | some d => d

/-- globFunc -/
def glob (os : OS) (pattern : String) : Option (List String) := os.glob pattern

/-- fileGlobFunc -/
def fileGlob (os : OS) (pattern : String) : Option (List String) := os.glob pattern

/-! ## mergeFiles -/

/-- the file system and the text decoders as mergeFilesFunc / ConfigHelper.Load see them; `Γ` is
    whatever a stream's content is -/
structure Files (Γ : Type) where
  /-- filepath.Ext(file) -/
  ext : String → String
  /-- utils.FileOpener(file): `none` = error -/
  open_ : String → Option Γ
  /-- the decoder chosen for the suffix, decoding into a `map[string]interface{}`: `none` = error -/
  decode : FileCodec.Fmt → Γ → Option (List (String × Val))

/-- AddDocumentFromFile(f, DefaultFileDecoderProvider(f)) up to the document handed to AddDocument:
    the open error comes first; an unrecognised suffix gives a nil DecoderFunc, which FromReader
    calls (nil function call: panic); a decoder error is returned; otherwise FromMap. -/
def loadFile {Γ : Type} (fl : Files Γ) (f : String) : Outcome (AMap Node) :=
  match fl.open_ f with
  | none => .err
  | some c =>
    match FileCodec.ofSuffix (fl.ext f) with
    | none => .panic
    | some fmt =>
      match fl.decode fmt c with
      | none => .err
      | some m => .ok (fromMap m)

/-- the loop of mergeFilesFunc over the document set: the first file that fails ends it -/
def addFiles {Γ : Type} (fl : Files Γ) : DocSet.State Node → List String → Outcome (DocSet.State Node)
  | s, [] => .ok s
  | s, f :: rest =>
    match loadFile fl f with
    | .ok d =>
      match DocSet.step s (.addFromReader f (some (.cont d)) []) with
      | (s', false) => addFiles fl s' rest
      | (_, true) => .err
    | .err => .err
    | .panic => .panic

/-- one `o.Add(name, doc)` of `filtered` -/
def overlayAdd (s : Ytk.Overlay) (p : String × Node) : Ytk.Overlay :=
  match p.2 with
  | .cont kvs => Overlay.addLayer s p.1 kvs
  | _ => s

/-- the overlay document built by `filtered`: `o.Add(name, doc)` per entry, in order -/
def overlayOf (ov : DocSet.Overlay Node) : Ytk.Overlay := ov.foldl overlayAdd []

/-- mergeFilesFunc(files): NewDocumentSet, AddDocumentFromFile per file (name = the file name),
    AsOne().Merged(ListsMergeAppend()) -/
def mergeFiles {Γ : Type} (fl : Files Γ) (files : List String) : Outcome (AMap Node) :=
  match addFiles fl DocSet.init files with
  | .ok s =>
    match DocSet.asOne s with
    | .ok ov => .ok (Overlay.merged .append (overlayOf ov))
    | .err => .err
    | .panic => .panic
  | .err => .err
  | .panic => .panic

/-! ## dom2yaml / dom2json / dom2properties -/

/-- an encoder writing into a strings.Builder: the text written and whether an error is returned -/
abbrev Enc := List (String × Val) → String × Bool

/-- dom2str(c, encFn): c.Serialize(&buf, DefaultNodeEncoderFn, encFn); (buf.String(), err) -/
def dom2str (enc : Enc) (c : AMap Node) : String × Bool := serialize (fun (_ : Unit) v => enc v) () c

structure Encoders where
  yaml : Enc
  json : Enc
  props : Enc

def dom2yaml (e : Encoders) (c : AMap Node) : String × Bool := dom2str e.yaml c
def dom2json (e : Encoders) (c : AMap Node) : String × Bool := dom2str e.json c
def dom2properties (e : Encoders) (c : AMap Node) : String × Bool := dom2str e.props c

/-! ## domdiff -/

/-- domDiffFunc(left, right): `left != nil && left.IsContainer() && left.SameAs(right)` → Diff;
    otherwise the empty slice (never an error) -/
def domDiff : Option Node → Option Node → List Mod
  | some (.cont l), some (.cont r) => diff l r
  | _, _ => []

/-! ## urlParseQuery, tpl -/

/-- urlParseQuery: delegates to url.ParseQuery (`none` = error) -/
def urlParseQuery {α : Type} (parse : String → Option α) (q : String) : Option α := parse q

/-- tplFunc(tmpl)(tpl, data): parse `tpl` as a template with the same functions and execute it on
    `data`; `engine` is parse+execute (`none` = either fails) -/
def tpl {δ : Type} (engine : String → δ → Option String) (t : String) (data : δ) : Option String :=
  engine t data

/-! ## one template action calling these functions -/

/-- what the functions need from outside -/
structure Env (Γ : Type) where
  os : OS
  files : Files Γ
  encs : Encoders
  /-- utils.NewYamlEncoder(..).Encode on a plain value -/
  yamlEnc : Val → String × Bool
  /-- text/template's `%v` printing of a []diff.Modification -/
  showMods : List Mod → String

/-- a template action `{{ … }}` built from the functions; `.key` reads the snapshot -/
inductive Call where
  /-- `{{ isEmpty .key }}` -/
  | isEmpty (key : String)
  /-- `{{ unflatten .key | toYaml }}` -/
  | unflattenYaml (key : String)
  /-- `{{ toYaml .key }}` -/
  | toYaml (key : String)
  /-- `{{ fileExists "f" }}` / `{{ isDir "f" }}` -/
  | fileExists (f : String)
  | isDir (f : String)
  /-- `{{ mergeFiles (list f…) | dom2<fmt> }}` -/
  | mergeDom2 (fmt : FileCodec.Fmt) (files : List String)
  /-- `{{ domdiff (mergeFiles (list l…)) (mergeFiles (list r…)) }}` -/
  | mergeDiff (l r : List String)
  deriving Repr

def showBool (b : Bool) : String := if b then "true" else "false"

/-- how text/template binds `.key` of the snapshot to a `map[string]interface{}` parameter:
    a missing key is the zero (nil) map, a map is passed, anything else — a stored nil included —
    is "wrong type for value" -/
def bindMap (snap : AMap Val) (key : String) : Option (AMap Val) :=
  match AMap.get? snap key with
  | none => some []
  | some (.obj m) => some m
  | some _ => none

def okText (r : String × Bool) : Option String := if r.2 then none else some r.1

/-- the text `TemplateEngine.Render` yields for the action (`none` = an error: a function returned
    an error or panicked — text/template turns both into an execution error) -/
def render {Γ : Type} (env : Env Γ) (snap : AMap Val) : Call → Option String
  | .isEmpty k => some (showBool (isEmpty (AMap.get? snap k)))
  | .unflattenYaml k =>
    match bindMap snap k with
    | none => none
    | some m => okText (toYaml env.yamlEnc (.obj (unflattenFn m)))
  | .toYaml k => okText (toYaml env.yamlEnc ((AMap.get? snap k).getD Val.null))
  | .fileExists f => some (showBool (fileExists env.os f))
  | .isDir f => some (showBool (isDir env.os f))
  | .mergeDom2 fmt files =>
    match mergeFiles env.files files with
    | .ok c =>
      okText (match fmt with
        | .yaml => dom2yaml env.encs c
        | .json => dom2json env.encs c
        | .properties => dom2properties env.encs c)
    | _ => none
  | .mergeDiff l r =>
    match mergeFiles env.files l, mergeFiles env.files r with
    | .ok a, .ok b => some (env.showMods (domDiff (some (.cont a)) (some (.cont b))))
    | _, _ => none

/-- TemplateOp.Do whose template is the action `c` (the template text itself is opaque: `tmpl`) -/
def templateOpCall {Γ : Type} (env : Env Γ) (c : Call) (tmpl path : String) (parseAs : Option String)
    (trim : Bool) (trimFn : String → String) (yamlParse : String → Option (Option PD.YNode))
    (data : AMap Node) : AMap Node × Bool :=
  PD.templateOp (fun _ => render env (asMap data) c) id trimFn yamlParse ⟨tmpl, path, parseAs, trim⟩ data

end Ytk.TplFuncs
