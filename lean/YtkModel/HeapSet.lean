/-
  YtkModel.HeapSet — heap-level (pointer / store-passing) model of pipeline/set_op.go on top of
  YtkModel/{Heap,HeapOverlay}.lean, mirroring /repo at HEAD.

  Sharing facts (what the Go code does):

    * `SetOp.Do`        `data := ctx.Factory().FromMap(sa.Data)` — the payload is DECODED ANEW on every
                        execution (`decodeNode`: all cells new, a nil value is the shared `nilLeaf`);
                        the Go map `sa.Data` is only read.  forEach-style clones (`CloneWith`) share
                        the map, never a node.
    * replace, path     `orig.AddValueAt(path, data)`: the new payload container itself is attached.
    * replace, root     `orig.AddValueAt(k, v)` per child of the payload: the new children are attached.
    * merge, path       destination is a container: `dest.Merge(data)` — a NEW container that shares
                        subtrees with the old destination (which it replaces) and with the new
                        payload (`Heap.mergeContainers`) — is attached; otherwise the payload itself.
    * merge, root       per child of the payload: container over container → `Merge` (as above),
                        otherwise the new child is attached.
    * `AddValueAt`      `ancestorOf(path, create=true)`: a missing member on the way — or one that is
                        NOT a container — is replaced by a new container (`addChild` → `AddContainer`);
                        then `AddValue(last, value)`.

  Plain member names / path components only (no index groups).  `none` = outside this domain
  (dangling address, wrong cell kind).  Core-only: linked into the native driver.
-/
import YtkModel.HeapOverlay

namespace Ytk.Heap

/-- `c.AddValueAt(path, v)` on plain components -/
def setAddValueAtH : Heap → Addr → List String → Addr → Option Heap
  | _, _, [], _ => none
  | h, c, [last], v => addValue h c last v
  | h, c, comp :: rest, v =>
    match h.get? c with
    | some (.cont kvs) =>
      let create : Option Heap :=
        match addContainer h c comp with
        | some (h1, b) => setAddValueAtH h1 b rest v
        | none => none
      match AMap.get? kvs comp with
      | some n =>
        match h.get? n with
        | some (.cont _) => setAddValueAtH h n rest v
        | _ => create
      | none => create
    | _ => none

/-- `orig.AddValueAt(k, v)` / `orig.AddValue(k, v)` per child (plain keys) -/
def addChildrenH : Heap → Addr → List (String × Addr) → Option Heap
  | h, _, [] => some h
  | h, c, (k, v) :: rest =>
    match addValue h c k v with
    | none => none
    | some h1 => addChildrenH h1 c rest

/-- setOpMergeIfContainersReplaceOtherwise -/
def setMergeRootH : Heap → Addr → List (String × Addr) → Option Heap
  | h, _, [] => some h
  | h, orig, (k, v) :: rest =>
    match h.get? orig with
    | some (.cont kvs) =>
      let plain : Option Heap :=
        match addValue h orig k v with
        | some h1 => setMergeRootH h1 orig rest
        | none => none
      match AMap.get? kvs k with
      | some oc =>
        match h.get? oc, h.get? v with
        | some (.cont _), some (.cont _) =>
          match mergeContainers .meld h oc v with
          | some (h1, m) =>
            match addValue h1 orig k m with
            | some h2 => setMergeRootH h2 orig rest
            | none => none
          | none => none
        | _, _ => plain
      | none => plain
    | _ => none

/-- SetOp.Do with a payload and a known strategy (`merge = true` / replace); `comps = []` is the
    empty path.  Returns the heap and the address of the payload container `FromMap` built. -/
def setOpH (merge : Bool) (comps : List String) (data : List (String × Node)) (h : Heap) (root : Addr) :
    Option (Heap × Addr) :=
  match decodeNode h (.cont data) with
  | (h1, c) =>
    match h1.get? c with
    | some (.cont ckvs) =>
      if comps = [] then
        (if merge then setMergeRootH h1 root ckvs else addChildrenH h1 root ckvs).map fun h2 => (h2, c)
      else if merge then
        match lookupKeys h1 root comps with
        | some dest =>
          match h1.get? dest with
          | some (.cont _) =>
            match mergeContainers .meld h1 dest c with
            | some (h2, m) => (setAddValueAtH h2 root comps m).map fun h3 => (h3, c)
            | none => none
          | _ => (setAddValueAtH h1 root comps c).map fun h2 => (h2, c)
        | none => (setAddValueAtH h1 root comps c).map fun h2 => (h2, c)
      else (setAddValueAtH h1 root comps c).map fun h2 => (h2, c)
    | _ => none

end Ytk.Heap
