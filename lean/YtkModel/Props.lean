/-
  YtkModel.Props — flat dotted keys ↔ trees (C16).

  Mirrors, at /repo HEAD:
  * utils.Unflatten            (utils/utils.go)      — `insertAt`, `unflattenList`, `unflatten`
  * containerFactory.FromProperties (dom/container.go) and k8s.DecodeEmbeddedProps
                                                     — `fromPropertiesList`, `fromProperties`
  * containerFactory.FromMap / decodeContainerFn     — `toNode*` (as far as FromReader needs it)
  * props.encodeKv / EncoderFn / DomEncoderFn        — `encodeKv`, `encodeList`, `encoderFn`, `domEncoderFn`
  * props.DecoderFn                                  — `decoderFn` (properties loader is a parameter)
  * a reference `k=v` line parser                    — `parseSimple`
  * the harness' reference flattening of plain trees — `flattenPlain`

  A Go map is an `AMap` (association list strictly sorted by key).  Both Unflatten and
  FromProperties (after the D21 fix) collect the keys, `sort.Strings` them and visit them in
  that order: the executable model folds over the sorted list.  The relational variants
  (`UnflattenRel`, `FromPropertiesRel`, `EncodeRel`) allow any visiting order.
-/
import YtkModel.Dom

namespace Ytk.Props

/-! ## utils.Unflatten -/

/-- `current[c].(map[string]interface{})` if that assertion holds, else a fresh map -/
def subOf (m : AMap Val) (c : String) : AMap Val :=
  match AMap.get? m c with
  | some (.obj x) => x
  | _ => []

/-- the body of Unflatten's loop for one key: descend through `pc[0:len-1]`, reusing a nested
    map where there is one and replacing anything else by a fresh map, then assign the last
    component. -/
def insertAt (m : AMap Val) : List String → Val → AMap Val
  | [], _ => m
  | [last], v => AMap.insert m last v
  | c :: rest, v => AMap.insert m c (.obj (insertAt (subOf m c) rest v))

/-- Unflatten with the keys visited in the order of the list -/
def unflattenList (l : List (String × Val)) : AMap Val :=
  l.foldl (fun m p => insertAt m (splitPath p.1) p.2) []

/-- utils.Unflatten: keys visited in sorted order (the order of the `AMap`) -/
def unflatten (kv : AMap Val) : AMap Val := unflattenList kv

/-- the flat map with its scalar values wrapped as plain values -/
def toV (kv : AMap Scalar) : AMap Val := kv.map fun p => (p.1, Val.sc p.2)

/-- Unflatten where the keys are visited in an arbitrary order (the code before the D21 fix) -/
def UnflattenRel (kv : AMap Val) (out : AMap Val) : Prop :=
  ∃ l : List (String × Val), l.Perm kv ∧ out = unflattenList l

/-! ## reference flattening of a plain tree -/

mutual
def flattenVal : Val → String → List (String × Scalar)
  | .sc v, p => [(p, v)]
  | .arr xs, p => flattenValList xs p 0
  | .obj kvs, p => flattenValKvs kvs p
def flattenValList : List Val → String → Nat → List (String × Scalar)
  | [], _, _ => []
  | x :: xs, p, i => flattenVal x (toListPath p i) ++ flattenValList xs p (i + 1)
def flattenValKvs : List (String × Val) → String → List (String × Scalar)
  | [], _ => []
  | (k, x) :: xs, p => flattenVal x (toPath p k) ++ flattenValKvs xs p
end

/-- leaves of a plain tree with their dotted paths, in traversal order -/
def flattenPlain (m : AMap Val) : List (String × Scalar) := flattenValKvs m ""

/-- the same as a map -/
def flattenPlainMap (m : AMap Val) : AMap Scalar := AMap.ofList (flattenPlain m)

/-! ## FromProperties / DecodeEmbeddedProps -/

def fromPropertiesList (l : List (String × Scalar)) : AMap Node :=
  l.foldl (fun m p => addValueAt m p.1 (.leaf p.2)) []

/-- containerFactory.FromProperties (and k8s.DecodeEmbeddedProps): AddValueAt per key, sorted -/
def fromProperties (kv : AMap Scalar) : AMap Node := fromPropertiesList kv

def FromPropertiesRel (kv : AMap Scalar) (out : AMap Node) : Prop :=
  ∃ l : List (String × Scalar), l.Perm kv ∧ out = fromPropertiesList l

/-! ## FromMap (decodeContainerFn / decodeListFn) -/

mutual
def toNode : Val → Node
  | .sc v => .leaf v
  | .arr xs => .list (toNodeList xs)
  | .obj kvs => .cont (toNodeKvs kvs [])
def toNodeList : List Val → List Node
  | [] => []
  | x :: xs => toNode x :: toNodeList xs
/-- AddValue / AddContainer / AddList per entry -/
def toNodeKvs : List (String × Val) → AMap Node → AMap Node
  | [], acc => acc
  | (k, v) :: rest, acc => toNodeKvs rest (add acc k (toNode v))
end

/-- containerFactory.FromMap -/
def fromMap (m : AMap Val) : AMap Node := toNodeKvs m []

/-! ## encoder -/

/-- encodeKv: `fmt.Sprintf("%s=%v\n", k, v)` -/
def encodeKv (k : String) (v : Scalar) : String := k ++ "=" ++ v.text ++ "\n"

def encodeList : List (String × Scalar) → String
  | [] => ""
  | p :: rest => encodeKv p.1 p.2 ++ encodeList rest

/-- props.EncoderFn on a flat map of scalars, entries written in key order -/
def encoderFn (kv : AMap Scalar) : String := encodeList kv

/-- … written in whatever order the Go map yields them -/
def EncodeRel (kv : AMap Scalar) (out : String) : Prop :=
  ∃ l : List (String × Scalar), l.Perm kv ∧ out = encodeList l

def leavesOf : List (String × Node) → Option (List (String × Scalar))
  | [] => some []
  | (k, .leaf v) :: rest => (leavesOf rest).map ((k, v) :: ·)
  | _ :: _ => none

/-- props.DomEncoderFn: every child is asserted to be a leaf (`v.(dom.Leaf)`) -/
def domEncoderFn (c : AMap Node) : Outcome String :=
  match leavesOf c with
  | some l => .ok (encodeList l)
  | none => .panic

/-! ## reference parser of `k=v` lines -/

/-- `strings.Split(s, "\n")` on characters -/
def splitNl : List Char → List (List Char)
  | [] => [[]]
  | c :: cs =>
    match splitNl cs with
    | [] => [[c]]
    | h :: t => if c = '\n' then [] :: h :: t else (c :: h) :: t

/-- split a line at its first `=` -/
def splitAtEq : List Char → Option (List Char × List Char)
  | [] => none
  | c :: cs =>
    if c = '=' then some ([], cs)
    else match splitAtEq cs with
      | some (a, b) => some (c :: a, b)
      | none => none

def parseLine (l : List Char) : Option (String × String) :=
  match splitAtEq l with
  | some (a, b) => some (String.ofList a, String.ofList b)
  | none => none

/-- one pair per line that contains `=`; other lines (the empty last one) are skipped -/
def parseSimple (s : String) : List (String × String) := (splitNl s.toList).filterMap parseLine

/-! ## props.DecoderFn -/

def strVal (s : String) : Val := .sc ⟨"string", s⟩

/-- DecoderFn: load → `Map()` (a later duplicate wins) → Unflatten → copy the top-level entries
    into the target map `x`. -/
def decoderFn (load : String → List (String × String)) (text : String) (x : AMap Val) : AMap Val :=
  let m2 : AMap Val := AMap.ofList ((load text).map fun p => (p.1, strVal p.2))
  (unflatten m2).foldl (fun acc p => AMap.insert acc p.1 p.2) x

/-- containerFactory.FromReader(r, props.DecoderFn): decode into an empty map, then FromMap -/
def fromReader (load : String → List (String × String)) (text : String) : AMap Node :=
  fromMap (decoderFn load text [])

/-! ## domain predicates -/

/-- no key is a dotted prefix of another -/
def PrefixFree {α : Type} (kv : List (String × α)) : Prop :=
  ∀ p ∈ kv, ∀ q ∈ kv, p.1 ≠ q.1 → ¬ (splitPath p.1) <+: (splitPath q.1)

/-- every segment of the key is non-empty and does not end in an index group -/
def KeyOk (k : String) : Prop := ∀ s ∈ splitPath k, s ≠ "" ∧ hasIdxSuffix s = false

def safeChar (c : Char) : Bool :=
  (c.toNat ≥ 48 && c.toNat ≤ 57) || (c.toNat ≥ 65 && c.toNat ≤ 90) || (c.toNat ≥ 97 && c.toNat ≤ 122)
    || c = '_' || c = '-'

end Ytk.Props
