/-
  YtkModel.Patch — executable model of patch/patch.go + patch/utils.go (JSON Patch, RFC 6902)
  as the code is at /repo HEAD, and — separately — `rfc6902`, a reference interpreter written
  from the RFC text.

  In-place mutation of the node that `Path.Eval` located becomes `setAt`: rebuild the document
  with the node at that location replaced (the walk is the one `Eval` does).  Every function
  returns the new document *and* an outcome, so a half-applied operation is representable:
  "error ⇒ document unchanged" is a theorem (YtkProps/C09.lean), not an artefact of the types.

  Quirks mirrored (all present at HEAD):
  * the last token is an index only when `Atoi` accepts it AND the parent is a list; under a
    container a numeric token is a plain member name;
  * `copy` is not prefix-restricted; the copied value is a clone;
  * `replace` on a list element is `Set` in place; on a member it is `AddValue`;
  * `move` with from == path is a no-op success (after `from` resolved); from a proper prefix
    of path is an error; otherwise remove, then add, and if the add fails the removed node is
    added back at `from`;
  * member names go through `AddValue` / `Child`, which read a trailing `[n]` as list access
    (`Dom.add` / `Dom.child`); `Remove` deletes the literal key;
  * `test` uses `Node.Equals`.
  Panics are placed where the Go code would panic (nil parent, failed type assertion, slice
  index out of range in insertListItem / removeListItem).
-/
import YtkModel.Pointer
import YtkModel.Equal

namespace Ytk.Patch
open Ytk.Ptr

structure OpObj where
  op    : String
  frm   : Option Path     -- From *Path   (nil = missing)
  path  : Option Path     -- Path         (nil = missing)
  value : Option Node     -- Value        (nil = missing)

abbrev Res := Node × Outcome Unit

/-- replace the node at location `p` (walked as `Path.Eval` walks); unchanged if `p` does not resolve -/
def setAt (cur : Node) : Path → Node → Node
  | [], new => new
  | t :: ts, new =>
    match cur with
    | .list xs =>
      match atoi t with
      | some i =>
        if 0 ≤ i ∧ i < (xs.length : Int) then
          match xs[i.toNat]? with
          | some c => .list (xs.set i.toNat (setAt c ts new))
          | none => cur
        else cur
      | none => cur
    | .cont kvs =>
      match child kvs t with
      | some c => .cont (add kvs t (setAt c ts new))
      | none => cur
    | .leaf _ => cur

/-- utils.go insertListItem: `items[i]` for `i < insertAt`, the new node, `items[i]` for
    `insertAt ≤ i < len` — slice indexing panics when `insertAt` is negative or beyond `len` -/
def insertListItem (xs : List Node) (i : Int) (v : Node) : Outcome (List Node) :=
  if i < 0 ∨ (xs.length : Int) < i then .panic
  else .ok (xs.take i.toNat ++ v :: xs.drop i.toNat)

/-- utils.go removeListItem: `items[i]` for `i < removeAt` and for `removeAt < i < len` —
    panics when `removeAt > len` or `removeAt < -1`; `removeAt = len` or `-1` copies everything -/
def removeListItem (xs : List Node) (i : Int) : Outcome (List Node) :=
  if i < -1 ∨ (xs.length : Int) < i then .panic
  else if i = -1 then .ok xs
  else .ok (xs.take i.toNat ++ xs.drop (i.toNat + 1))

def doAdd (value : Option Node) (path : Path) (root : Node) : Res :=
  match value with
  | none => (root, .err)                                   -- ErrOoValueMissing
  | some v =>
    match (eval (parent path) root).2 with
    | none => (root, .err)                                 -- parent path does not resolve
    | some par =>
      match atoi (lastSegment path), par with
      | some idx, .list xs =>
        if idx < 0 ∨ (xs.length : Int) < idx then (root, .err)   -- list index out of bounds
        else
          match insertListItem xs idx v with
          | .ok xs' => (setAt root (parent path) (.list xs'), .ok ())
          | _ => (root, .panic)
      | _, .cont kvs => (setAt root (parent path) (.cont (add kvs (lastSegment path) v)), .ok ())
      | _, _ => (root, .err)                               -- leaf parent, or non-index under a list

def doRemove (path : Path) (root : Node) : Res :=
  match (eval path root).2 with
  | none => (root, .err)                                   -- target must exist
  | some _ =>
    match (eval (parent path) root).2 with
    | none => (root, .panic)                               -- nil parent dereferenced
    | some par =>
      match atoi (lastSegment path), par with
      | some idx, .list xs =>
        match removeListItem xs idx with
        | .ok xs' => (setAt root (parent path) (.list xs'), .ok ())
        | _ => (root, .panic)
      | _, .cont kvs => (setAt root (parent path) (.cont (remove kvs (lastSegment path))), .ok ())
      | _, _ => (root, .panic)                             -- parent.(ContainerBuilder) fails

def doReplace (value : Option Node) (path : Path) (root : Node) : Res :=
  match value with
  | none => (root, .err)
  | some v =>
    match (eval path root).2 with
    | none => (root, .err)
    | some _ =>
      match (eval (parent path) root).2 with
      | none => (root, .panic)
      | some par =>
        match atoi (lastSegment path), par with
        | some idx, .list xs =>
          if idx < 0 then (root, .panic)                   -- Set(uint(idx)) with a negative idx
          else (setAt root (parent path) (.list (listSet xs idx.toNat v)), .ok ())
        | _, .cont kvs => (setAt root (parent path) (.cont (add kvs (lastSegment path) v)), .ok ())
        | _, _ => (root, .panic)

/-- `len(from) < len(path) && slices.Equal(from, path[:len(from)])` -/
def properPrefix (f p : Path) : Bool := f.length < p.length && f == p.take f.length

def moveOrCopy (frm : Option Path) (path : Path) (root : Node) (move : Bool) : Res :=
  match frm with
  | none => (root, .err)                                   -- ErrOoFromMissing
  | some f =>
    match (eval f root).2 with
    | none => (root, .err)                                 -- from must exist
    | some n =>
      if move then
        if f = path then (root, .ok ())
        else if properPrefix f path then (root, .err)
        else
          match doRemove f root with
          | (r1, .panic) => (r1, .panic)
          | (r1, _) =>                                     -- `_ = doRemove(...)`: error ignored
            match doAdd (some n) path r1 with
            | (r2, .ok ()) => (r2, .ok ())
            | (r2, .panic) => (r2, .panic)
            | (r2, .err) =>
              match doAdd (some n) f r2 with               -- put the removed node back
              | (r3, .panic) => (r3, .panic)
              | (r3, _) => (r3, .err)
      else doAdd (some (clone n)) path root

def doTest (value : Option Node) (path : Path) (root : Node) : Res :=
  match value with
  | none => (root, .err)
  | some v =>
    match (eval path root).2 with
    | none => (root, .err)
    | some n => if equals v n then (root, .ok ()) else (root, .err)

/-- patch.Do (obj and target non-nil) -/
def patchDo (o : OpObj) (root : Node) : Res :=
  match o.path with
  | none => (root, .err)                                   -- ErrOoPathMissing
  | some path =>
    if o.op = "add" then doAdd o.value path root
    else if o.op = "remove" then doRemove path root
    else if o.op = "replace" then doReplace o.value path root
    else if o.op = "move" then moveOrCopy o.frm path root true
    else if o.op = "copy" then moveOrCopy o.frm path root false
    else if o.op = "test" then doTest o.value path root
    else (root, .err)                                      -- invalid operation

/-- a sequence of operations on one document, outcome per step (the document carries on
    after a failed step, as with successive `patch.Do` calls) -/
def runPatch : List OpObj → Node → Node × List (Outcome Unit)
  | [], d => (d, [])
  | o :: os, d =>
    let r := patchDo o d
    let rest := runPatch os r.1
    (rest.1, r.2 :: rest.2)

/-! ## The reference: RFC 6902 over RFC 6901 locations

  Written from the RFC text.  A location is a token list; a token under an object is a member
  name, under an array it must be an index in canonical form (section 4 of RFC 6901; "-" is
  out of scope and treated like any other non-index).  `none` = the operation fails.
  Root locations (`[]`) are out of scope: `add`/`replace` at the root would replace the whole
  document, `remove` of the root is not meaningful; they are given as failure and excluded
  by `InScope`. -/

def insertAt (xs : List Node) (i : Nat) (v : Node) : List Node := xs.take i ++ v :: xs.drop i

/-- "add" at the last token below its parent value (RFC 6902, 4.1) -/
def addLast (par : Node) (t : String) (v : Node) : Option Node :=
  match par with
  | .cont kvs => some (.cont (AMap.insert kvs t v))        -- new member, or existing member replaced
  | .list xs =>
    match canonIdx t with
    | some i => if i ≤ xs.length then some (.list (insertAt xs i v)) else none
    | none => none
  | .leaf _ => none

/-- "remove" (4.2): the target location must exist -/
def removeLast (par : Node) (t : String) : Option Node :=
  match par with
  | .cont kvs => if (AMap.get? kvs t).isSome then some (.cont (AMap.erase kvs t)) else none
  | .list xs =>
    match canonIdx t with
    | some i => if i < xs.length then some (.list (xs.eraseIdx i)) else none
    | none => none
  | .leaf _ => none

/-- "replace" (4.3): the target location must exist -/
def replaceLast (par : Node) (t : String) (v : Node) : Option Node :=
  match par with
  | .cont kvs => if (AMap.get? kvs t).isSome then some (.cont (AMap.insert kvs t v)) else none
  | .list xs =>
    match canonIdx t with
    | some i => if i < xs.length then some (.list (xs.set i v)) else none
    | none => none
  | .leaf _ => none

/-- resolve every token but the last (each must exist), apply `f` to the parent value and the
    last token, and rebuild the document around the result -/
def modify (f : Node → String → Option Node) (d : Node) : Path → Option Node
  | [] => none
  | [t] => f d t
  | t :: t2 :: ts =>
    match d with
    | .cont kvs =>
      match AMap.get? kvs t with
      | some c => (modify f c (t2 :: ts)).map (fun c' => .cont (AMap.insert kvs t c'))
      | none => none
    | .list xs =>
      match canonIdx t with
      | some i =>
        match xs[i]? with
        | some c => (modify f c (t2 :: ts)).map (fun c' => .list (xs.set i c'))
        | none => none
      | none => none
    | .leaf _ => none

def rAdd (d : Node) (p : Path) (v : Node) : Option Node := modify (fun par t => addLast par t v) d p
def rRemove (d : Node) (p : Path) : Option Node := modify removeLast d p
def rReplace (d : Node) (p : Path) (v : Node) : Option Node := modify (fun par t => replaceLast par t v) d p

/-- "from" is a proper prefix of "path" -/
def isProperPrefix : Path → Path → Bool
  | [], [] => false
  | [], _ :: _ => true
  | _ :: _, [] => false
  | a :: as, b :: bs => a == b && isProperPrefix as bs

def rfc6902 (o : OpObj) (d : Node) : Option Node :=
  match o.path with
  | none => none
  | some path =>
    if o.op = "add" then
      match o.value with
      | some v => rAdd d path v
      | none => none
    else if o.op = "remove" then rRemove d path
    else if o.op = "replace" then
      match o.value with
      | some v => rReplace d path v
      | none => none
    else if o.op = "move" then
      -- 4.4: "from" must exist and must not be a proper prefix of "path"; then identical to
      -- remove at "from" followed by add at "path" of the value just removed
      match o.frm with
      | some f =>
        match getTok d f with
        | some n =>
          if isProperPrefix f path then none
          else
            match rRemove d f with
            | some d1 => rAdd d1 path n
            | none => none
        | none => none
      | none => none
    else if o.op = "copy" then
      -- 4.5: identical to add at "path" of the value at "from"
      match o.frm with
      | some f =>
        match getTok d f with
        | some n => rAdd d path n
        | none => none
      | none => none
    else if o.op = "test" then
      -- 4.6: the value at "path" must be equal to "value"
      match o.value with
      | some v =>
        match getTok d path with
        | some n => if n = v then some d else none
        | none => none
      | none => none
    else none

/-- the reference on a sequence: a failing step leaves the document as it was -/
def runRfc : List OpObj → Node → Node × List (Outcome Unit)
  | [], d => (d, [])
  | o :: os, d =>
    match rfc6902 o d with
    | some d' => let rest := runRfc os d'; (rest.1, .ok () :: rest.2)
    | none => let rest := runRfc os d; (rest.1, .err :: rest.2)

/-! ## the domain -/

/-- path-safe member-name alphabet `[A-Za-z0-9_-]` -/
def safeChar (c : Char) : Bool :=
  (c.toNat ≥ 65 && c.toNat ≤ 90) || (c.toNat ≥ 97 && c.toNat ≤ 122) || isDigit c || c = '_' || c = '-'

/-- an in-scope token: non-empty over the path-safe alphabet, not "-", and if `Atoi` reads it
    as a non-negative number then it is that number's canonical decimal (fits int64) -/
def safeTok (t : String) : Bool :=
  t.toList != [] && t.toList.all safeChar && t != "-" && tokOk t

def safePath (p : Path) : Bool := p != [] && p.all safeTok

/-- operation objects the property quantifies over: non-root in-scope locations where present
    (a missing `path`, `from` or `value` is in scope — it must fail) -/
def inScope (o : OpObj) : Bool :=
  (match o.path with | some p => safePath p | none => true) &&
  (match o.frm with | some f => safePath f | none => true)

end Ytk.Patch
