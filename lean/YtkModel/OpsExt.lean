/-
  YtkModel.OpsExt — the pipeline operations whose own semantics were "exercised only" (C13),
  namespace `Ytk.OpsExt`.

  Mirrors, at /repo HEAD, statement by statement and in the same order:
  * pipeline/exec_op.go           `(*ExecOp).Do`            → `execOp`
  * pipeline/template_file_op.go  `(*TemplateFileOp).Do`    → `templateFileOp`
  * pipeline/html2dom.go          `(*Html2DomOp).Do`        → `html2domOp`
                                  `convertHtmlNode2Dom`     → `convert` / `convertChildren`
  * pipeline/types.go             `(*ValOrRef).UnmarshalYAML` → `vorUnmarshal`
                                  `(*AnyVal).UnmarshalYAML`   → `anyValUnmarshal`

  The operating system (process execution, files), the template engine, the HTML parser /
  xpath engine (golang.org/x/net/html, antchfx/htmlquery) and yaml.v3's `node.Decode` are
  PARAMETERS: the model says what the operation does with their results.  In-place mutation of
  the data document returns the new value; the files an operation leaves behind and the lines
  it logs are part of the result.
-/
import YtkModel.PipelineData

namespace Ytk.OpsExt
open Ytk.PD

/-! ## pipeline/exec_op.go -/

/-- what `cmd.Run()` returned -/
inductive ProcResult where
  /-- an error that is not an `*exec.ExitError`: the program was not found, the working
      directory does not exist, … — nothing ran -/
  | startFail
  /-- `nil`: the process ran and exited with status 0; what it wrote to stdout / stderr -/
  | success (out err : List Nat)
  /-- `*exec.ExitError`: the process ran and did not succeed (`ExitCode()`, -1 when it was
      killed by a signal) -/
  | exitError (code : Int) (out err : List Nat)
  deriving Repr, DecidableEq

/-- the operating system as ExecOp sees it -/
structure ExecOS where
  /-- `os.OpenFile(path, O_WRONLY|O_CREATE|O_TRUNC, 0644)` succeeds (the file is then empty) -/
  canOpen : String → Bool
  /-- `exec.Command(prog, args...)` with `Dir = dir`, run to completion -/
  runProc : String → List String → String → ProcResult

/-- the fields of ExecOp (`none` = nil pointer) -/
structure ExecSpec where
  program : String
  args : Option (List String)
  dir : String
  validExitCodes : Option (List Int)
  stdout : Option String
  stderr : Option String
  saveExitCodeTo : Option String
  deriving Repr

structure ExecResult where
  /-- Do returned an error -/
  err : Bool
  /-- the data document afterwards -/
  data : AMap Node
  /-- the process was started and ran to completion -/
  ran : Bool
  /-- the files opened (created / truncated) by Do, in the order stdout, stderr, with their
      content when Do returns (rendered path, bytes) -/
  files : List (String × List Nat)
  /-- arguments of the `Logger().Log` calls, in order -/
  log : List (List String)
  deriving Repr

/-- `fmt.Sprintf("prog=%s,dir=%s,args=[%s]", prog, dir, strings.Join(args, " "))` -/
def execLogLine (prog dir : String) (args : List String) : String :=
  "prog=" ++ prog ++ ",dir=" ++ dir ++ ",args=[" ++ " ".intercalate args ++ "]"

/-- dom.LeafNode(exitErr.ExitCode()) -/
def exitCodeLeaf (code : Int) : Node := .leaf ⟨"int", toString code⟩

/-- the files as they are when Do returns: stdout's, then stderr's -/
def execFiles (outP errP : Option String) (out err : List Nat) : List (String × List Nat) :=
  (outP.toList.map fun p => (p, out)) ++ (errP.toList.map fun p => (p, err))

/-- `(*ExecOp).Do`.  `lenient` is TemplateEngine.RenderLenient on the snapshot taken on entry.
    * a nil ValidExitCodes is replaced by the EMPTY list (nil and empty mean the same: no
      non-zero exit code is valid), a nil Args by no arguments;
    * program, every argument, dir and the stdout / stderr paths are rendered; SaveExitCodeTo is not;
    * stdout's file is opened first, then stderr's; an open failure is RETURNED (the process is
      not started; a file opened before stays behind, empty);
    * one log line, then the process runs;
    * `Run() == nil` (exit status 0): nil is returned — the exit code is NOT stored and
      ValidExitCodes is not consulted;
    * `*exec.ExitError`: the exit code is stored at SaveExitCodeTo FIRST (when set), then an
      exit code outside ValidExitCodes is an error;
    * any other error of Run is returned; the data is untouched. -/
def execOp (lenient : String → String) (os : ExecOS) (e : ExecSpec) (data : AMap Node) : ExecResult :=
  let valid := e.validExitCodes.getD []
  let args := (e.args.getD []).map lenient
  let prog := lenient e.program
  let dir := lenient e.dir
  let outP := e.stdout.map lenient
  let errP := e.stderr.map lenient
  if outP.any (fun p => !os.canOpen p) then ⟨true, data, false, [], []⟩
  else if errP.any (fun p => !os.canOpen p) then ⟨true, data, false, execFiles outP none [] [], []⟩
  else
    let log := [[execLogLine prog dir args]]
    match os.runProc prog args dir with
    | .startFail => ⟨true, data, false, execFiles outP errP [] [], log⟩
    | .success out err => ⟨false, data, true, execFiles outP errP out err, log⟩
    | .exitError code out err =>
      let data' := match e.saveExitCodeTo with
        | some p => addValueAt data p (exitCodeLeaf code)
        | none => data
      ⟨!(valid.contains code), data', true, execFiles outP errP out err, log⟩

/-! ## pipeline/template_file_op.go -/

/-- the template engine, applied to `DefaultNodeEncoderFn(container)` -/
structure TplEngine where
  /-- TemplateEngine.Render (none = error) -/
  render : AMap Node → String → Option String
  /-- TemplateEngine.RenderLenient -/
  lenient : AMap Node → String → String

/-- the file system as TemplateFileOp sees it -/
structure TplFS where
  /-- `os.ReadFile(name)` as a string (none = error) -/
  readFile : String → Option String
  /-- `os.WriteFile(name, …, 0644)` succeeds -/
  canWrite : String → Bool

structure TemplateFileSpec where
  file : String
  output : String
  path : Option String
  deriving Repr

structure TemplateFileResult where
  err : Bool
  data : AMap Node
  /-- the file written: (rendered Output, content) -/
  written : Option (String × String)
  log : List (List String)
  deriving Repr

/-- `(*TemplateFileOp).Do`: the scope is the root of the data or, with a Path, the container
    found there (Path is NOT rendered; anything but a container is an error); File is rendered
    against the scope and read; its content is rendered (an error returns before anything is
    written); Output is rendered and written.  The data document is never changed. -/
def templateFileOp (te : TplEngine) (fs : TplFS) (t : TemplateFileSpec) (data : AMap Node) :
    TemplateFileResult :=
  if t.file = "" then ⟨true, data, none, []⟩
  else if t.output = "" then ⟨true, data, none, []⟩
  else
    let scope : Option (AMap Node) := match t.path with
      | none => some data
      | some p =>
        match lookup data p with
        | some (.cont c) => some c
        | _ => none
    match scope with
    | none => ⟨true, data, none, []⟩
    | some sc =>
      let inFile := te.lenient sc t.file
      let log1 := ["reading template file", inFile]
      match fs.readFile inFile with
      | none => ⟨true, data, none, [log1]⟩
      | some tmpl =>
        match te.render sc tmpl with
        | none => ⟨true, data, none, [log1]⟩
        | some val =>
          let outFile := te.lenient sc t.output
          let log2 := ["writing rendered template", outFile]
          if fs.canWrite outFile then ⟨false, data, some (outFile, val), [log1, log2]⟩
          else ⟨true, data, none, [log1, log2]⟩

/-! ## pipeline/html2dom.go -/

/-- an `*html.Node` tree as the parser hands it over -/
inductive HtmlNode where
  /-- html.ElementNode: `Data` (tag), `Attr` (Key, Val) in document order, child nodes -/
  | elem (tag : String) (attrs : List (String × String)) (children : List HtmlNode)
  /-- html.TextNode: `Data` -/
  | text (data : String)
  /-- html.DocumentNode (what `htmlquery.Parse` returns) -/
  | document (children : List HtmlNode)
  /-- html.CommentNode, DoctypeNode, RawNode, ErrorNode -/
  | other
  deriving Repr, Inhabited

/-- `unicode.IsSpace` (the characters strings.TrimSpace strips) -/
def isGoSpace (c : Char) : Bool :=
  let n := c.toNat
  (n ≥ 9 && n ≤ 13) || n == 32 || n == 0x85 || n == 0xA0 || n == 0x1680 ||
  (n ≥ 0x2000 && n ≤ 0x200A) || n == 0x2028 || n == 0x2029 || n == 0x202F || n == 0x205F || n == 0x3000

/-- `strings.TrimSpace(s) == ""` -/
def isBlank (s : String) : Bool := s.toList.all isGoSpace

/-- the `Attrs` container: `ac.AddValue(attr.Key, dom.LeafNode(attr.Val))` in document order -/
def attrsCont : AMap Node → List (String × String) → AMap Node
  | ac, [] => ac
  | ac, (k, v) :: rest => attrsCont (add ac k (.leaf ⟨"string", v⟩)) rest

/-- the container an element starts with before its children are visited -/
def elemStart (attrs : List (String × String)) : AMap Node :=
  match attrs with
  | [] => []
  | _ :: _ => add [] "Attrs" (.cont (attrsCont [] attrs))

/-- what is stored under the tag name, given what `cb.Child(tag)` found: an existing list gets
    the element appended, any other existing node becomes the first item of a new two-item list,
    nothing there: the element itself -/
def place (existing : Option Node) (c : Node) : Node :=
  match existing with
  | some (.list xs) => .list (xs ++ [c])
  | some e => .list [e, c]
  | none => c

mutual
/-- `convertHtmlNode2Dom(cb, node)`.  Only elements and text nodes do anything; a text node
    whose TrimSpace is empty is skipped, otherwise the UNTRIMMED text is stored under `Value`
    (a later text node of the same parent overwrites an earlier one). -/
def convert (cb : AMap Node) : HtmlNode → AMap Node
  | .elem tag attrs children =>
    add cb tag (place (child cb tag) (.cont (convertChildren (elemStart attrs) children)))
  | .text d => if isBlank d then cb else add cb "Value" (.leaf ⟨"string", d⟩)
  | .document _ => cb
  | .other => cb
/-- `for child := range node.ChildNodes() { convertHtmlNode2Dom(c, child) }` -/
def convertChildren (c : AMap Node) : List HtmlNode → AMap Node
  | [] => c
  | x :: xs => convertChildren (convert c x) xs
end

/-- the HTML library as Html2DomOp sees it -/
structure HtmlLib where
  /-- `htmlquery.Parse` (never fails on an in-memory buffer): the document node -/
  parse : String → HtmlNode
  /-- `htmlquery.Query(top, expr)`: none = error (invalid expression), some none = no match -/
  query : HtmlNode → String → Option (Option HtmlNode)

structure Html2DomSpec where
  from_ : String
  to : String
  query : Option String
  layout : Option String
  deriving Repr

/-- `(*Html2DomOp).Do`.  From and To are rendered; both must be non-empty; From must find a
    leaf, whose value is type-asserted to string (anything else PANICS); the layout must be
    `default`; the source is parsed; with a Query the matching node replaces the document
    (error / no match: error); the tree is converted into a fresh container stored at To.
    Without a Query the node handed to the layout function is the DOCUMENT node, for which
    convertHtmlNode2Dom does nothing: an empty container is stored. -/
def html2domOp (lenient : String → String) (lib : HtmlLib) (x : Html2DomSpec) (data : AMap Node) :
    Outcome (AMap Node) :=
  let from_ := lenient x.from_
  let to := lenient x.to
  if from_ = "" then .err
  else if to = "" then .err
  else
    match lookup data from_ with
    | some (.leaf v) =>
      if v.ty ≠ "string" then .panic
      else if x.layout.getD "default" ≠ "default" then .err
      else
        let doc := lib.parse v.text
        let src : Option HtmlNode := match x.query with
          | none => some doc
          | some q =>
            match lib.query doc q with
            | some r => r
            | none => none
        match src with
        | none => .err
        | some n => .ok (addValueAt data to (.cont (convert [] n)))
    | _ => .err

/-! ## pipeline/types.go: ValOrRef.UnmarshalYAML, AnyVal.UnmarshalYAML -/

/-- what `m["ref"]` is after `node.Decode(&m)` into a `map[string]interface{}` -/
inductive RefField where
  | absent
  | str (s : String)
  /-- present, but not a Go string (number, bool, null, list, map): `x.(string)` panics -/
  | nonString
  deriving Repr, DecidableEq

/-- the `*yaml.Node` handed to UnmarshalYAML, as far as the function looks at it -/
inductive YIn where
  | scalar (value : String)
  | mapping (ref : RefField)
  /-- SequenceNode, AliasNode, DocumentNode, the zero Kind -/
  | otherKind
  deriving Repr, DecidableEq

/-- `(*ValOrRef).UnmarshalYAML` on a receiver in state `pv`: a mapping must have a `ref` key
    holding a string (missing: error; not a string: panic) and makes the receiver a reference
    (Val is left as it was); a scalar sets Val to the scalar's text (isRef and Ref are left as
    they were); anything else is an error.  An error leaves the receiver as it was. -/
def vorUnmarshal (pv : ValOrRef) : YIn → Outcome ValOrRef
  | .mapping .absent => .err
  | .mapping (.str s) => .ok { pv with isRef := true, ref := s }
  | .mapping .nonString => .panic
  | .scalar v => .ok { pv with val := v }
  | .otherKind => .err

/-- the zero value `ValOrRef{}` -/
def vorZero : ValOrRef := ⟨false, "", ""⟩

/-- what yaml.v3 produces for a ValOrRef through reflection (there is no MarshalYAML): a mapping
    with the exported fields `ref` and `val`; `isRef` is unexported and is lost -/
def vorMarshalDefault (pv : ValOrRef) : YIn := .mapping (.str pv.ref)

/-- `(*AnyVal).UnmarshalYAML`: `pv.v = dom.YamlNodeDecoder()(node)` on an alias-free node -/
def anyValUnmarshal (n : YNode) : Node := decodeYamlNode n

end Ytk.OpsExt
