/-
  YtkModel.OpStringsWire — driver side of YtkModel/OpStrings.lean (ops of the C15 handler):
    string       {"v": cv}                   String() of the action value
    cloneString  {"v": cv, "x": text}        String() of its clone (the regenerated table, `{{ .x }}` ↦ x)
    strMod       {"type","path","value"}     (*diff.Modification).String()
    strCoord     {"cs": [[layer, path], …]}  dom.Coordinates.String()
-/
import YtkModel.Wire
import YtkModel.OpStrings
import YtkModel.Generated.CloneTable
open Lean

namespace Ytk.OpStrings
open Ytk.Clone Ytk.CloneT

def handleWire (cvOfJson : Json → Except String CV) (render : String → String → String) : Wire.Handler := fun op a => do
  match op with
  | "string" =>
    let v ← (a.getObjVal? "v") >>= cvOfJson
    pure (.str (stringOf opSpecOrder v))
  | "cloneString" =>
    let v ← (a.getObjVal? "v") >>= cvOfJson
    let x ← Wire.getStr a "x"
    pure (.str (stringOf opSpecOrder (cloneV Generated.cloneTable (render x) v)))
  | "strMod" =>
    pure (.str (modificationS (← Wire.getStr a "type") (← Wire.getStr a "path") (← Wire.getStr a "value")))
  | "strCoord" =>
    let cs ← Wire.getArr a "cs"
    let ps ← cs.mapM (fun p => match p with
      | .arr #[.str l, .str q] => pure (l, q)
      | _ => throw "strCoord: bad pair")
    pure (.str (coordinatesS ps))
  | _ => throw s!"OpStrings: unknown op {op}"

end Ytk.OpStrings
