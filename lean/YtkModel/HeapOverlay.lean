/-
  YtkModel.HeapOverlay — heap-level (pointer / store-passing) model of dom/overlay.go on top of
  YtkModel/Heap.lean, mirroring /repo at HEAD.

  An overlay document is the list of its layers in CREATION order (`names`), each with the ADDRESS
  of its `*containerBuilderImpl` (`overlays[name]`).  What the Go code does, statement by
  statement (sharing facts the model mirrors):

    * `ensureOverlay(name)`  a missing layer is a NEW empty container, appended to `names`.
    * `ensurePath(node, pc)` walks member names; a missing member is `node.AddContainer(c)` (a NEW
                             container stored under `c` — the one cell `node` is written), an
                             existing member must be a ContainerBuilder (`n.(ContainerBuilder)`
                             panics on a leaf or a list).
    * `Put(l, path, v)`      `v` NOT a container (leaf or LIST): ensureOverlay, ensurePath over all
                             but the last component, `AddValue(last, v)` — the caller's node ITSELF
                             is stored (a list value stays shared with the caller, item for item).
                             `v` a container: `v.Flatten()` — a map path → the LEAF OBJECTS of `v`
                             themselves (flattenLeaf stores `node`, no copy) — and one recursive
                             `Put(l, path.k, leaf)` per entry: the layer gets NEW containers along
                             the paths and the caller's LEAF objects; no container object of `v` is
                             stored; a leafless `v` writes nothing and creates no layer (Flatten
                             runs before ensureOverlay).
    * `Add(l, c)`            ensureOverlay, then `AddValue(k, child)` for every child of `c`: the
                             CHILD NODES of the caller's container themselves are stored (shared),
                             the container object `c` is not.
    * `Populate(l, path, m)` ensureOverlay, ensurePath over ALL components of a non-empty path, then
                             decodeContainerFn: every member gets a NEW node decoded from the plain
                             Go value (`AddContainer/AddList/AddValue(LeafNode(v))`), except that a
                             nil value (also inside lists) is the SHARED `nilLeaf`.
    * `Layers()`             `v.Clone()` per layer: all cells new (Clone, YtkModel/Heap.lean).
    * `Lookup / LookupAny`   hand out the STORED node itself (`Container.Lookup`).
    * `Merged`               `Heap.mergeAll` over the layer roots in `names` order.

  Modelled for plain member names / path components (no index group `[digits]` at the end — those
  go through `ensureList`, covered by the value-level model YtkModel/Overlay.lean) and, for `Put`
  of a container value, for container values without lists inside (`Flatten` names list items
  `k[i]`).  `none` = outside this domain: the Go code panics (failed type assertion in ensurePath),
  a dangling address, or a list inside a container value of Put.

  Go map iteration order (Flatten, Children, the data map, `overlays` in Layers) only permutes the
  order of allocations, which is not observable (no address comparison); the model iterates in
  key order / creation order.  Core-only: linked into the native driver.
-/
import YtkModel.Heap

namespace Ytk.Heap

/-- `overlayDocument`: the layers in `names` order, each with the address of its builder -/
abbrev HOverlay := List (String × Addr)

namespace HOverlay

/-- `m.overlays[name]` -/
def find : HOverlay → String → Option Addr
  | [], _ => none
  | (n, a) :: rest, l => if n = l then some a else find rest l

def roots (s : HOverlay) : List Addr := s.map (·.2)

def names (s : HOverlay) : List String := s.map (·.1)

end HOverlay

/-- ensureOverlay(name): the existing builder, or a NEW empty container appended to `names` -/
def ensureOverlay (h : Heap) (s : HOverlay) (l : String) : Heap × HOverlay × Addr :=
  match s.find l with
  | some a => (h, s, a)
  | none => ((h.alloc (.cont [])).1, s ++ [(l, h.size)], h.size)

/-- ensurePath(node, pc) on plain member names -/
def ensurePathH : Heap → Addr → List String → Option (Heap × Addr)
  | h, node, [] => some (h, node)
  | h, node, comp :: rest =>
    match h.get? node with
    | some (.cont kvs) =>
      match AMap.get? kvs comp with
      | none =>                                   -- node = node.AddContainer(component)
        match addContainer h node comp with
        | some (h1, b) => ensurePathH h1 b rest
        | none => none
      | some n =>                                 -- node = n.(ContainerBuilder)
        match h.get? n with
        | some (.cont _) => ensurePathH h n rest
        | _ => none
    | _ => none

/-- Put with a value that is not a container: the node `v` itself is stored -/
def putNodeH (h : Heap) (s : HOverlay) (l : String) (comps : List String) (v : Addr) :
    Option (Heap × HOverlay) :=
  match comps.getLast? with
  | none => none
  | some last =>
    match ensureOverlay h s l with
    | (h1, s1, cur) =>
      match ensurePathH h1 cur comps.dropLast with
      | none => none
      | some (h2, c) =>
        match addValue h2 c last v with
        | some h3 => some (h3, s1)
        | none => none

/-- run `g` over the members of a container (key order), collecting the flattened entries -/
def flattenKvs (g : Addr → List String → Option (List (List String × Addr))) :
    List (String × Addr) → List String → Option (List (List String × Addr))
  | [], _ => some []
  | (k, a) :: rest, pre =>
    match g a (pre ++ [k]) with
    | none => none
    | some xs =>
      match flattenKvs g rest pre with
      | none => none
      | some ys => some (xs ++ ys)

/-- `Container.Flatten()` on a list-free container: path components ↦ the LEAF NODE itself -/
def flattenF : Nat → Heap → Addr → List String → Option (List (List String × Addr))
  | 0, _, _, _ => none
  | f + 1, h, a, pre =>
    match h.get? a with
    | some (.leaf _) => some [(pre, a)]
    | some (.cont kvs) => flattenKvs (flattenF f h) kvs pre
    | _ => none

/-- the recursive `m.Put(overlay, ToPath(path, k), leaf)` calls -/
def putLeavesH (l : String) (comps : List String) :
    Heap → HOverlay → List (List String × Addr) → Option (Heap × HOverlay)
  | h, s, [] => some (h, s)
  | h, s, (k, a) :: rest =>
    match putNodeH h s l (comps ++ k) a with
    | none => none
    | some (h1, s1) => putLeavesH l comps h1 s1 rest

/-- Put(overlay, path, value); `comps = []` is the empty path (container values only) -/
def putH (h : Heap) (s : HOverlay) (l : String) (comps : List String) (v : Addr) :
    Option (Heap × HOverlay) :=
  match h.get? v with
  | some (.cont kvs) =>
    match flattenKvs (flattenF h.size h) kvs [] with
    | none => none
    | some leaves => putLeavesH l comps h s leaves
  | some _ => putNodeH h s l comps v
  | none => none

/-- `cb.AddValue(k, v)` for every entry -/
def addAllH : Heap → Addr → List (String × Addr) → Option Heap
  | h, _, [] => some h
  | h, c, (k, v) :: rest =>
    match addValue h c k v with
    | none => none
    | some h1 => addAllH h1 c rest

/-- Add(overlay, container): the children of `c` themselves are stored -/
def ovAddH (h : Heap) (s : HOverlay) (l : String) (c : Addr) : Option (Heap × HOverlay) :=
  match ensureOverlay h s l with
  | (h1, s1, cur) =>
    match h1.get? c with
    | some (.cont kvs) =>
      match addAllH h1 cur kvs with
      | some h2 => some (h2, s1)
      | none => none
    | _ => none

mutual
/-- the node decodeContainerFn / decodeListFn build for a plain Go value: all cells new, except
    that a nil value is the shared `nilLeaf` -/
def decodeNode : Heap → Node → Heap × Addr
  | h, .leaf s => if s == Scalar.null then (h, nilAddr) else h.alloc (.leaf s)
  | h, .list xs => match decodeList h xs with | (h1, as) => h1.alloc (.list as)
  | h, .cont kvs => match decodeKvs h kvs with | (h1, m) => h1.alloc (.cont m)
def decodeList : Heap → List Node → Heap × List Addr
  | h, [] => (h, [])
  | h, x :: xs =>
    match decodeNode h x with
    | (h1, a) => match decodeList h1 xs with | (h2, as) => (h2, a :: as)
def decodeKvs : Heap → List (String × Node) → Heap × List (String × Addr)
  | h, [] => (h, [])
  | h, (k, x) :: xs =>
    match decodeNode h x with
    | (h1, a) => match decodeKvs h1 xs with | (h2, as) => (h2, (k, a) :: as)
end

/-- decodeContainerFn(data, parent): every member of `data` is decoded and stored under its key -/
def decodeInto : Heap → Addr → List (String × Node) → Option Heap
  | h, _, [] => some h
  | h, c, (k, x) :: rest =>
    match decodeNode h x with
    | (h1, a) =>
      match addValue h1 c k a with
      | none => none
      | some h2 => decodeInto h2 c rest

/-- Populate(overlay, path, data); `comps = []` is the empty path -/
def populateH (h : Heap) (s : HOverlay) (l : String) (comps : List String)
    (data : List (String × Node)) : Option (Heap × HOverlay) :=
  match ensureOverlay h s l with
  | (h1, s1, cur) =>
    match ensurePathH h1 cur comps with
    | none => none
    | some (h2, c) =>
      match decodeInto h2 c data with
      | some h3 => some (h3, s1)
      | none => none

/-- Layers(): one Clone per layer -/
def layersF (f : Nat) : Heap → HOverlay → Option (Heap × HOverlay)
  | h, [] => some (h, [])
  | h, (n, a) :: rest =>
    match cloneF f h a with
    | none => none
    | some (h1, r) =>
      match layersF f h1 rest with
      | none => none
      | some (h2, snaps) => some (h2, (n, r) :: snaps)

def layersH (h : Heap) (s : HOverlay) : Option (Heap × HOverlay) := layersF h.size h s

/-- Lookup(overlay, path): the stored node itself -/
def ovLookupH (h : Heap) (s : HOverlay) (l : String) (comps : List String) : Option Addr :=
  match s.find l with
  | none => none
  | some a => if comps = [] then none else lookupKeys h a comps

/-- LookupAny(path): the first layer in creation order with a hit -/
def ovLookupAnyH (h : Heap) (s : HOverlay) (comps : List String) : Option Addr :=
  s.findSome? fun p => if comps = [] then none else lookupKeys h p.2 comps

/-- Merged(opts) -/
def mergedH (o : ListStrategy) (h : Heap) (s : HOverlay) : Option (Heap × Addr) :=
  mergeAll o h s.roots

/-! ### Overlay write histories as data -/

inductive OvOp where
  | put (l : String) (comps : List String) (v : Addr)
  | add (l : String) (c : Addr)
  | populate (l : String) (comps : List String) (data : List (String × Node))
  deriving Repr

/-- the caller's nodes the call hands to the overlay -/
def OvOp.args : OvOp → List Addr
  | .put _ _ v => [v]
  | .add _ c => [c]
  | .populate _ _ _ => []

def OvOp.layer : OvOp → String
  | .put l _ _ | .add l _ | .populate l _ _ => l

def applyOvOp (h : Heap) (s : HOverlay) : OvOp → Option (Heap × HOverlay)
  | .put l comps v => putH h s l comps v
  | .add l c => ovAddH h s l c
  | .populate l comps data => populateH h s l comps data

def applyOvOps : Heap → HOverlay → List OvOp → Option (Heap × HOverlay)
  | h, s, [] => some (h, s)
  | h, s, op :: ops =>
    match applyOvOp h s op with
    | none => none
    | some (h1, s1) => applyOvOps h1 s1 ops

end Ytk.Heap
