/-
  YtkModel.HeapBuilder — the PATH-LEVEL builder API of the dom package on the heap-level model
  (YtkModel/Heap.lean), mirroring /repo/dom/{container,list}.go at HEAD statement by statement.

  A document is a root address in a `Heap`; a HANDLE (the `ContainerBuilder` / `ListBuilder` /
  `Node` a call returns) is an address.  What the Go code does at pointer level (facts mirrored):

    * `containerImpl.Child(name)`     returns the STORED node: `children[name]`, or — for a name ending
                                      in index groups `b[i][j]` — the item found by walking the lists
                                      below `children[b]` (`nil` when a step leaves a list / the range).
    * `Lookup(path)`                  `Child` component by component through containers; the stored node.
    * `add(name, child)`              plain name: `children[name] = child` — ONE write to the receiver.
                                      `b[i]..[k]`: `ensureList` walks the lists below `children[b]`;
                                      an existing list is REUSED (padded with the shared `nilLeaf`, slot
                                      written); where the walk meets nothing / a non-list (also a
                                      `nilLeaf` pad) a NEW list is allocated and stored in the slot
                                      above it (`parent.AddList(name2)` → `add(name2, lb)`, recursively).
                                      Only the deepest reused list (or the receiver's map, when
                                      `children[b]` itself is replaced) is written; everything below is new.
    * `AddValue(name, v)`             `add(name, v)`: the node `v` ITSELF is attached (no copy).
    * `AddContainer(name)`/`AddList`  ALWAYS a new empty `containerBuilderImpl` / `listBuilderImpl`,
                                      attached by `add`; the new object is returned.  A container that
                                      was stored there before is detached, never reused.
    * `Remove(name)`                  `delete(children, name)` on the literal name.
    * `ancestorOf(path, create)`      for every component but the last: `x := node.Child(p)`; an existing
                                      CONTAINER is entered (reused, not written); anything else (nothing,
                                      a leaf, a list): `create` → `addChild(node, p)` = a NEW container
                                      attached at `p` exactly like `AddContainer` (replacing the leaf /
                                      list), `!create` → give up (nothing written at all).
    * `AddValueAt(path, v)`           `ancestorOf(path, true)`, then `AddValue(last, v)` on the ancestor.
    * `RemoveAt(path)`                `ancestorOf(path, false)`, then `Remove(last)`; no ancestor → no-op.
    * `ListBuilder.Set(i, v)`         pads with the shared `nilLeaf` up to `i`, `items[i] = v`;
      `MustSet` panics out of range; `Append`; `Clear` — one write to the list cell.
    * `Walk(CompactFn)`               for every child (a snapshot of the map; only the current key is
                                      ever deleted): a container child is walked first (post-order), then
                                      `CompactFn` removes it from the receiver when it has no children
                                      left.  Lists are not entered.  A cell is written only when a child
                                      is removed from it.

  Writes that store what is already there (re-storing a reused list in its slot) are content no-ops:
  the Go code skips them, the model performs them; no observation distinguishes the two.  As in
  Heap.lean the allocation order is not observable; a cell is allocated when its content is known.

  Everything is total, structurally recursive (on the component list / index list / explicit fuel
  for `Walk`) and `decide`-reducible; `none` = a type error the Go type system excludes (a container
  call on a non-container cell, …).  Core-only: linked into the native driver.
-/
import YtkModel.Heap
import YtkModel.Dom

namespace Ytk.Heap

/-! ## reading: Child, Lookup -/

/-- the list cell an optional address points to: its address and items -/
def listAt (h : Heap) : Option Addr → Option (Addr × List Addr)
  | some a =>
    match h.get? a with
    | some (.list xs) => some (a, xs)
    | _ => none
  | none => none

/-- descend through index groups below an optional node (`Child` on `b[i][j]…`) -/
def walkIdxH (h : Heap) : Option Addr → List Nat → Option Addr
  | n, [] => n
  | some a, i :: is =>
    match h.get? a with
    | some (.list xs) => walkIdxH h xs[i]? is
    | _ => none
  | none, _ :: _ => none

/-- `Child(name)` on a children map -/
def childKvs (h : Heap) (kvs : AMap Addr) (name : String) : Option Addr :=
  let (b, is) := parseSeg name
  match is with
  | [] => AMap.get? kvs name
  | _ => walkIdxH h (AMap.get? kvs b) is

/-- `c.Child(name)`: the stored node (`none` = Go's nil) -/
def childH (h : Heap) (c : Addr) (name : String) : Option Addr :=
  match h.get? c with
  | some (.cont kvs) => childKvs h kvs name
  | _ => none

/-- `x := node.Child(p); x != nil && x.IsContainer()` -/
def contChildH (h : Heap) (c : Addr) (p : String) : Option Addr :=
  match childH h c p with
  | some x =>
    match h.get? x with
    | some (.cont _) => some x
    | _ => none
  | none => none

def lookupSegsH (h : Heap) : Addr → List String → Option Addr
  | _, [] => none
  | c, [last] => childH h c last
  | c, p :: rest =>
    match contChildH h c p with
    | some x => lookupSegsH h x rest
    | none => none

/-- `c.Lookup(path)` -/
def lookupH (h : Heap) (c : Addr) (path : String) : Option Addr :=
  if path = "" then none else lookupSegsH h c (splitPath path)

/-! ## add / ensureList -/

/-- pad with the shared nil leaf up to length `n` (`list.Append(nilLeaf)` in ensureList / Set) -/
def padH (xs : List Addr) (n : Nat) : List Addr := xs ++ List.replicate (n - xs.length) nilAddr

/-- what `add("b[i]…[k]", v)` leaves in the slot whose current content is `cur`, below the index
    groups `is`: an existing list is reused (padded, its slot written), anything else is replaced
    by a new list.  Returns the address to be stored in the slot above. -/
def setSlotH : Heap → Option Addr → List Nat → Addr → Heap × Addr
  | h, _, [], v => (h, v)
  | h, cur, i :: is, v =>
    match listAt h cur with
    | some (a, xs) =>
      let xs' := padH xs (i + 1)
      let (h1, r) := setSlotH h xs'[i]? is v
      (h1.write a (.list (xs'.set i r)), a)
    | none =>
      let xs' := padH [] (i + 1)
      let (h1, r) := setSlotH h xs'[i]? is v
      h1.alloc (.list (xs'.set i r))

/-- `containerBuilderImpl.add(name, child)` / `AddValue` on the container cell `c` -/
def addH (h : Heap) (c : Addr) (name : String) (v : Addr) : Option Heap :=
  match h.get? c with
  | some (.cont kvs) =>
    let (b, is) := parseSeg name
    match is with
    | [] => some (h.write c (.cont (AMap.insert kvs name v)))
    | _ =>
      let (h1, r) := setSlotH h (AMap.get? kvs b) is v
      some (h1.write c (.cont (AMap.insert kvs b r)))
  | _ => none

/-- `c.AddContainer(name)` (= `addChild(c, name)`): a NEW empty container attached by `add`;
    its address is the handle the caller gets -/
def addContainerH (h : Heap) (c : Addr) (name : String) : Option (Heap × Addr) :=
  let (h1, b) := h.alloc (.cont [])
  match addH h1 c name b with
  | some h2 => some (h2, b)
  | none => none

/-- `c.AddList(name)` -/
def addListH (h : Heap) (c : Addr) (name : String) : Option (Heap × Addr) :=
  let (h1, b) := h.alloc (.list [])
  match addH h1 c name b with
  | some h2 => some (h2, b)
  | none => none

/-! ## AddValueAt / RemoveAt -/

/-- the NEW containers `ancestorOf(path, true)` creates for the remaining components once the walk
    has left the existing document (every further `Child` finds nothing in a new, empty
    container), with `v` stored under the last one: the node to attach for the components `segs`.
    The Go code creates them top-down, each attached before it is filled; nobody observes the
    intermediate states, so — as everywhere in Heap.lean — a cell is allocated once its content
    is known (deepest first). -/
def spineH : Heap → List String → Addr → Heap × Addr
  | h, [], v => (h, v)
  | h, p :: rest, v =>
    let (h1, r) := spineH h rest v
    let (b, is) := parseSeg p
    match is with
    | [] => h1.alloc (.cont [(p, r)])                 -- &containerBuilderImpl{}; children[p] = r
    | _ =>
      let (h2, r2) := setSlotH h1 none is r            -- ensureList in an empty container: new lists
      h2.alloc (.cont [(b, r2)])

/-- `ancestorOf(path, true)` followed by `AddValue(last, v)`, on the component list -/
def addAtSegsH : Heap → Addr → List String → Addr → Option Heap
  | h, _, [], _ => some h
  | h, c, [last], v => addH h c last v
  | h, c, p :: rest, v =>
    match contChildH h c p with
    | some x => addAtSegsH h x rest v                 -- existing container: entered, not written
    | none =>                                         -- addChild: new containers replace what is there
      let (h1, r) := spineH h rest v
      addH h1 c p r

/-- `c.AddValueAt(path, v)` -/
def addValueAtH (h : Heap) (c : Addr) (path : String) (v : Addr) : Option Heap :=
  addAtSegsH h c (splitPath path) v

/-- `ancestorOf(path, false)` followed by `Remove(last)` -/
def removeAtSegsH : Heap → Addr → List String → Option Heap
  | h, _, [] => some h
  | h, c, [last] => remove h c last
  | h, c, p :: rest =>
    match contChildH h c p with
    | some x => removeAtSegsH h x rest
    | none => some h                                  -- ancestorOf returned nil: nothing is written

/-- `c.RemoveAt(path)` -/
def removeAtH (h : Heap) (c : Addr) (path : String) : Option Heap :=
  match h.get? c with
  | some (.cont _) => removeAtSegsH h c (splitPath path)
  | _ => none

/-- the container `ancestorOf` ends in when every component but the last already leads through
    containers (`none` when the walk would have to create one) -/
def ancestorH (h : Heap) : Addr → List String → Option Addr
  | _, [] => none
  | c, [_] => some c
  | c, p :: rest =>
    match contChildH h c p with
    | some x => ancestorH h x rest
    | none => none

/-! ## ListBuilder.MustSet -/

/-- `l.MustSet(idx, v)`: `.panic` out of range, `.err` = not a list cell (excluded by Go's types) -/
def listMustSetH (h : Heap) (l : Addr) (idx : Nat) (v : Addr) : Outcome Heap :=
  match h.get? l with
  | some (.list xs) => if idx < xs.length then .ok (h.write l (.list (xs.set idx v))) else .panic
  | _ => .err

/-! ## Walk(CompactFn) -/

/-- the loop body of `Walk` with `CompactFn`, over a snapshot of the receiver's children:
    `g` walks a container child; afterwards the child is removed from `c` when it is an empty
    container -/
def compactKvsH (g : Heap → Addr → Option Heap) : Heap → Addr → List (String × Addr) → Option Heap
  | h, _, [] => some h
  | h, c, (k, v) :: rest =>
    match h.get? v with
    | some (.cont _) =>
      match g h v with
      | none => none
      | some h1 =>
        match h1.get? v with
        | some (.cont []) =>
          match remove h1 c k with                    -- parent.Remove(path)
          | some h2 => compactKvsH g h2 c rest
          | none => none
        | _ => compactKvsH g h1 c rest
    | _ => compactKvsH g h c rest

/-- `c.Walk(CompactFn)`; fuel bounds the nesting depth (`none` on a cyclic graph) -/
def compactF : Nat → Heap → Addr → Option Heap
  | 0, _, _ => none
  | f + 1, h, c =>
    match h.get? c with
    | some (.cont kvs) => compactKvsH (compactF f) h c kvs
    | _ => none

def compactH (h : Heap) (c : Addr) : Option Heap := compactF h.size h c

/-! ## builder histories with handles -/

/-- one public builder call on the cell `c` / `l` (a handle: the root or an address returned by an
    earlier call); value nodes are addresses of nodes that already exist in the heap -/
inductive HOp where
  | addValue (c : Addr) (name : String) (v : Addr)
  | addValueAt (c : Addr) (path : String) (v : Addr)
  | addContainer (c : Addr) (name : String)
  | addList (c : Addr) (name : String)
  | remove (c : Addr) (name : String)
  | removeAt (c : Addr) (path : String)
  | child (c : Addr) (name : String)
  | lookup (c : Addr) (path : String)
  | listSet (l : Addr) (idx : Nat) (v : Addr)
  | listMustSet (l : Addr) (idx : Nat) (v : Addr)
  | listAppend (l : Addr) (v : Addr)
  | listClear (l : Addr)
  | compact (c : Addr)
  deriving Repr, DecidableEq

/-- the handle the call is made on -/
def HOp.target : HOp → Addr
  | .addValue c _ _ | .addValueAt c _ _ | .addContainer c _ | .addList c _ | .remove c _
  | .removeAt c _ | .child c _ | .lookup c _ | .compact c => c
  | .listSet l _ _ | .listMustSet l _ _ | .listAppend l _ | .listClear l => l

/-- the value node the call attaches, if any -/
def HOp.value : HOp → Option Addr
  | .addValue _ _ v | .addValueAt _ _ v | .listSet _ _ v | .listMustSet _ _ v | .listAppend _ v => some v
  | _ => none

def outcomeOfOption {α : Type} : Option α → Outcome α
  | some a => .ok a
  | none => .err

/-- one call: the new heap and the node it returns to the caller (`none`: the call returns its
    receiver or Go's nil).  `.err` = excluded by Go's types, `.panic` = MustSet out of range. -/
def hstep (h : Heap) : HOp → Outcome (Heap × Option Addr)
  | .addValue c name v => outcomeOfOption ((addH h c name v).map (·, none))
  | .addValueAt c path v => outcomeOfOption ((addValueAtH h c path v).map (·, none))
  | .addContainer c name => outcomeOfOption ((addContainerH h c name).map fun p => (p.1, some p.2))
  | .addList c name => outcomeOfOption ((addListH h c name).map fun p => (p.1, some p.2))
  | .remove c name => outcomeOfOption ((remove h c name).map (·, none))
  | .removeAt c path => outcomeOfOption ((removeAtH h c path).map (·, none))
  | .child c name => .ok (h, childH h c name)
  | .lookup c path => .ok (h, lookupH h c path)
  | .listSet l idx v => outcomeOfOption ((listSet h l idx v).map (·, none))
  | .listMustSet l idx v => (listMustSetH h l idx v).map (·, none)
  | .listAppend l v => outcomeOfOption ((listAppend h l v).map (·, none))
  | .listClear l => outcomeOfOption ((listClear h l).map (·, none))
  | .compact c => outcomeOfOption ((compactH h c).map (·, none))

/-- a history; stops at the first error / panic -/
def hrun : Heap → List HOp → Outcome Heap
  | h, [] => .ok h
  | h, op :: ops =>
    match hstep h op with
    | .ok (h1, _) => hrun h1 ops
    | .err => .err
    | .panic => .panic

end Ytk.Heap
