/-
  YtkModel.GapAnalyticsResolve — the `resolve` parameter of the placeholder report instantiated
  with the C11 resolver model over the merged document, exactly as the C19 driver does
  (`YtkDriver/C19.lean`, `resolveOpt`): analytics/placeholder_resolver.go builds
  `props.Builder().LookupFunc(key ↦ fmt.Sprintf("%v", merged.Lookup(key)))` with the builder's
  default delimiters `${`, `}`, `:` and calls `resolver.Resolve(ph)` on every visited value.
-/
import YtkModel.Resolver
import YtkModel.Analytics

namespace Ytk.Analytics

/-- the props builder's default delimiters -/
def defaultDelims : Resolver.Delims := ⟨"${".toList, "}".toList, ":".toList⟩

/-- the lookup table of the resolver: lexed (key, value text) of the merged document -/
def mergedTable (merged : Flat) : Resolver.Table :=
  merged.map fun kv => (Resolver.lex defaultDelims kv.1.toList, Resolver.lex defaultDelims kv.2.text.toList)

/-- `resolver.Resolve(s)` as the C11 model; `none` = circular reference (the Go code panics) or
    fuel exhausted -/
def resolveStr (fuel : Nat) (merged : Flat) (s : String) : Option String :=
  match Resolver.resolveTop (Resolver.relex defaultDelims) fuel (mergedTable merged)
      (Resolver.lex defaultDelims s.toList) with
  | .ok t => some (String.ofList (Resolver.unlex defaultDelims t))
  | _ => none

/-- the total `resolve` parameter the driver passes to `placeholderReport` (driver fuel 400) -/
def resolveOr (merged : Flat) (s : String) : String := (resolveStr 400 merged s).getD s

end Ytk.Analytics
