/-
  YtkModel.Builder — builder edit histories (C03): one constructor per public builder call,
  `step` mirrors what the call does to the document, `run` folds a history.
  List operations are addressed by the lookup path of the list they are applied to.
-/
import YtkModel.Dom

namespace Ytk

/-- apply `f` to the node that `Lookup(path)` returns, in place (no-op when absent) -/
def updateAtSegs (kvs : AMap Node) (f : Node → Node) : List String → AMap Node
  | [] => kvs
  | [last] =>
    match child kvs last with
    | some n => add kvs last (f n)
    | none => kvs
  | p :: rest =>
    match child kvs p with
    | some (.cont c) => add kvs p (.cont (updateAtSegs c f rest))
    | _ => kvs

def updateAt (kvs : AMap Node) (path : String) (f : Node → Node) : AMap Node :=
  if path = "" then kvs else updateAtSegs kvs f (splitPath path)

inductive BOp where
  | addValue (name : String) (v : Node)
  | addValueAt (path : String) (v : Node)
  | addContainer (name : String)
  | addList (name : String)
  | remove (name : String)
  | removeAt (path : String)
  | listSet (path : String) (i : Nat) (v : Node)
  | listAppend (path : String) (v : Node)
  | listClear (path : String)
  | listMustSet (path : String) (i : Nat) (v : Node)
  | compact
  deriving Repr

def onList (f : List Node → List Node) : Node → Node
  | .list xs => .list (f xs)
  | n => n

/-- one builder call; `.panic` only for MustSet out of range (the documented behaviour) -/
def bstep (d : AMap Node) : BOp → Outcome (AMap Node)
  | .addValue name v => .ok (add d name v)
  | .addValueAt path v => .ok (addValueAt d path v)
  | .addContainer name => .ok (add d name (.cont []))
  | .addList name => .ok (add d name (.list []))
  | .remove name => .ok (remove d name)
  | .removeAt path => .ok (removeAt d path)
  | .listSet path i v => .ok (updateAt d path (onList fun xs => listSet xs i v))
  | .listAppend path v => .ok (updateAt d path (onList fun xs => listAppend xs v))
  | .listClear path => .ok (updateAt d path (onList fun _ => []))
  | .listMustSet path i v =>
    match lookup d path with
    | some (.list xs) => if i < xs.length then .ok (updateAt d path (onList fun xs => xs.set i v)) else .panic
    | _ => .ok d
  | .compact => .ok (compactKvs d)

/-- a history: stops at the first panic -/
def brun : AMap Node → List BOp → Outcome (AMap Node)
  | d, [] => .ok d
  | d, op :: ops =>
    match bstep d op with
    | .ok d' => brun d' ops
    | .err => .err
    | .panic => .panic

end Ytk
