/-
  YtkModel.Analytics — model of the three analytics reports
    analytics/dependency_resolver.go   dependencyResolver.Resolve, hasPlaceholderFunc, subtract
    analytics/placeholder_resolver.go  placeholderResolver.Resolve, possiblyContainsPlaceholder
    analytics/impact_analysis.go       impactAnalysis.ResolveOverlayDocument / resolveKey
  together with what they use of dom: overlayDocument.Search (layers in insertion order,
  each layer's `Container.Search` = filter over `Flatten()`), and utils.Unique.

  INPUTS.  The overlay itself (Put / Populate / Merged) is modelled elsewhere (C06).  The
  functions here take what the Go code reads from it:
    * `merged : Flat`  — `doc.Merged().Flatten()` as a key → scalar list,
    * `Doc = List Layer` — for every layer, in `names` order, its name and its `Flatten()`.
  The harness computes both from the real overlay document.  Go iterates these maps in random
  order; the executable model iterates the lists as given (the harness sends them sorted by
  key) and the order-independence theorems quantify over all permutations.

  PARAMETERS (DESIGN §6 C19).  `mentions : String → Scalar → Bool` is the placeholder matcher
  (`placeholderMatcherFn(k)(value)`), `hasPh : String → Bool` the PlaceholderResolver's
  `placeholderMatcherFn`, `filter` the key filter and `resolve : String → String` the props
  resolver over the merged document (total here: a reference cycle makes the Go resolver
  panic by contract and is outside the property's domain).  The code's own default matchers
  are modelled below (`hasPlaceholder`, `possiblyContainsPlaceholder`) on `List Char`.
-/
import YtkModel.Basic

namespace Ytk.Analytics

abbrev Flat := List (String × Scalar)

structure Layer where
  name : String
  flat : Flat
  deriving Repr

abbrev Doc := List Layer

structure Coord where
  layer : String
  path : String
  deriving DecidableEq, Repr

/-- `containerImpl.Search(fn)` on one layer, tagged with the layer name -/
def searchLayer (p : Scalar → Bool) (l : Layer) : List Coord :=
  (l.flat.filter fun kv => p kv.2).map fun kv => ⟨l.name, kv.1⟩

/-- `overlayDocument.Search(fn)`: layers in insertion order -/
def search (p : Scalar → Bool) (d : Doc) : List Coord := d.flatMap (searchLayer p)

/-- `utils.Unique` -/
def unique : List String → List String → List String
  | acc, [] => acc
  | acc, s :: r => if acc.contains s then unique acc r else unique (acc ++ [s]) r

/-- `subtract(from, what)` -/
def subtract (frm what : List String) : List String := frm.filter fun i => !what.contains i

/-- `slices.Sort` on strings -/
def sortStrings (l : List String) : List String := l.mergeSort fun a b => decide (a ≤ b)

structure DepReport where
  allKeys : List String
  orphanKeys : List String
  /-- `Map`: key → coordinates, one entry per key with at least one hit, in visiting order -/
  map : List (String × List Coord)
  deriving Repr

/-- the coordinates appended to `m[k]`: source first, then the references -/
def hits (mentions : String → Scalar → Bool) (docs : List Doc) (k : String) : List Coord :=
  docs.flatMap fun d => search (mentions k) d

/-- `dependencyResolver.Resolve(srcDoc, refDocs...)` (`docs = src :: refs`) -/
def dependencyReport (mentions : String → Scalar → Bool) (filter : String → Bool)
    (merged : Flat) (docs : List Doc) : DepReport :=
  let keys := (merged.map (·.1)).filter filter
  -- `used = append(used, k)` once per document with a non-nil Search result
  let used := keys.flatMap fun k => docs.filterMap fun d =>
    if (search (mentions k) d).isEmpty then none else some k
  let used := unique [] used
  { allKeys := sortStrings keys
    orphanKeys := sortStrings (subtract keys used)
    map := keys.filterMap fun k =>
      let h := hits mentions docs k
      if h.isEmpty then none else some (k, h) }

structure PhReport where
  failedKeys : List String
  /-- `ActualValues` and `Coordinates` of the failed keys, in visiting order -/
  details : List (String × Scalar × List Coord)
  deriving Repr

/-- `dom.SearchEqual(ph)` for a string `ph`: the value is that very string -/
def searchEqualStr (ph : String) (v : Scalar) : Bool := v.ty == "string" && v.text == ph

/-- loop of `placeholderResolver.Resolve`.  Since the D32 repair (f8018cb) the code tests
    `slices.Contains(failedKeys, k)` with the KEY; before it tested the VALUE text `ph` — that shape is
    kept as `phLoopNofix` in YtkModel/GapAnalyticsNofix.lean (the driver never runs it). -/
def phLoop (hasPh : String → Bool) (filter : String → Bool) (resolve : String → String) (doc : Doc) :
    Flat → PhReport → PhReport
  | [], acc => acc
  | (k, v) :: r, acc =>
    let ph := v.text
    if filter k && hasPh ph && (ph == resolve ph) && !acc.failedKeys.contains k then
      phLoop hasPh filter resolve doc r
        { failedKeys := acc.failedKeys ++ [k]
          details := acc.details ++ [(k, v, search (searchEqualStr ph) doc)] }
    else phLoop hasPh filter resolve doc r acc

/-- `placeholderResolver.Resolve(doc)` -/
def placeholderReport (hasPh : String → Bool) (filter : String → Bool) (resolve : String → String)
    (merged : Flat) (doc : Doc) : PhReport :=
  let r := phLoop hasPh filter resolve doc merged ⟨[], []⟩
  { r with failedKeys := sortStrings r.failedKeys }

/-- `impactAnalysis.ResolveOverlayDocument(od, keys)`: a Go map, so a repeated key keeps one
    entry; rendered as an association list in first-occurrence order.  The builder's key
    filter is stored but never consulted by the code. -/
def impact (mentions : String → Scalar → Bool) (doc : Doc) : List String → List (String × List Coord)
  | [] => []
  | k :: r =>
    let rest := (impact mentions doc r).filter fun p => p.1 != k
    let h := search (mentions k) doc
    if h.isEmpty then rest else (k, h) :: rest

/-! ## The code's own matchers, on characters -/

def isPrefixOf : List Char → List Char → Bool
  | [], _ => true
  | _ :: _, [] => false
  | a :: as, b :: bs => a == b && isPrefixOf as bs

/-- `strings.Contains` -/
def containsSub (s sub : List Char) : Bool :=
  match s with
  | [] => sub.isEmpty
  | c :: r => isPrefixOf sub (c :: r) || containsSub r sub

/-- `strings.HasSuffix` -/
def isSuffixOf (suf s : List Char) : Bool := isPrefixOf suf.reverse s.reverse

/-- `hasPlaceholderFunc(ph)(val)`: val is a string containing `${ph}`, or starting with
    `${ph:` and ending with `}` -/
def hasPlaceholder (k : String) (v : Scalar) : Bool :=
  v.ty == "string" &&
    (containsSub v.text.toList ("${".toList ++ k.toList ++ "}".toList) ||
      (isPrefixOf ("${".toList ++ k.toList ++ ":".toList) v.text.toList && isSuffixOf "}".toList v.text.toList))

/-- text from the first occurrence of `sub` on (`in[idx:]`), if any -/
def dropToSub (sub : List Char) : List Char → Option (List Char)
  | [] => if sub.isEmpty then some [] else none
  | c :: r => if isPrefixOf sub (c :: r) then some (c :: r) else dropToSub sub r

/-- `possiblyContainsPlaceholder`: a `${` with a `}` somewhere at or after it -/
def possiblyContainsPlaceholder (s : String) : Bool :=
  match dropToSub "${".toList s.toList with
  | none => false
  | some rest => containsSub rest "}".toList

end Ytk.Analytics
