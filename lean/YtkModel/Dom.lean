/-
  YtkModel.Dom — executable model of dom/container.go, dom/list.go (builder edits,
  child / lookup / flatten / search) and of utils.ToPath / ToListPath.

  Go maps are `AMap`s (sorted association lists); in-place mutation becomes a function
  returning the new value.  The model mirrors the code at /repo HEAD:

  * `child`      — containerImpl.Child   (a name may end in index groups `a[0][1]`)
  * `add`        — containerBuilderImpl.add / AddValue / AddContainer / AddList
                   (ensureList: reuse a list, replace anything else, pad with nulls)
  * `addValueAt` — ancestorOf(create=true) + AddValue
  * `removeAt`   — ancestorOf(create=false) + Remove;  `remove` — Remove
  * `lookup`, `flatten`, `search`, `compact` (Walk(CompactFn))
-/
import YtkModel.Basic

namespace Ytk

/-! ## path strings -/

def isDigit (c : Char) : Bool := c.toNat ≥ 48 && c.toNat ≤ 57

def digitsToNat (ds : List Char) : Nat := ds.foldl (fun a c => a * 10 + (c.toNat - 48)) 0

/-- `strings.Split(s, ".")` on characters: always at least one component -/
def splitDot : List Char → List (List Char)
  | [] => [[]]
  | c :: cs =>
    match splitDot cs with
    | [] => [[c]]
    | h :: t => if c = '.' then [] :: h :: t else (c :: h) :: t

def splitPath (p : String) : List String := (splitDot p.toList).map String.ofList

/-- one trailing index group, the regexp `\[\d+]$`:  `abc[12]` ↦ (`abc`, 12) -/
def stripIdx (s : List Char) : Option (List Char × Nat) :=
  match s.reverse with
  | ']' :: r =>
    match r.takeWhile isDigit, r.dropWhile isDigit with
    | d :: ds, '[' :: p => some (p.reverse, digitsToNat (d :: ds).reverse)
    | _, _ => none
  | _ => none

def parseSegAux : Nat → List Char → List Nat → (List Char × List Nat)
  | 0, s, acc => (s, acc)
  | fuel + 1, s, acc =>
    match stripIdx s with
    | some (p, i) => parseSegAux fuel p (i :: acc)
    | none => (s, acc)

/-- a path component split into its base name and all trailing indices, outermost first -/
def parseSeg (s : String) : String × List Nat :=
  let r := parseSegAux s.length s.toList []
  (String.ofList r.1, r.2)

def hasIdxSuffix (s : String) : Bool := (stripIdx s.toList).isSome

/-- utils.ToPath -/
def toPath (path key : String) : String := if path = "" then key else path ++ "." ++ key
/-- utils.ToListPath / fmt.Sprintf("%s[%d]") -/
def toListPath (path : String) (i : Nat) : String := path ++ "[" ++ toString i ++ "]"

/-! ## lists -/

/-- pad with null leaves up to length `n` (ListBuilder.Set / ensureList) -/
def padTo (xs : List Node) (n : Nat) : List Node := xs ++ List.replicate (n - xs.length) Node.null

/-- ListBuilder.Set(i, v): pad then overwrite -/
def listSet (xs : List Node) (i : Nat) (v : Node) : List Node := (padTo xs (i + 1)).set i v

/-- descend through index groups below an optional node -/
def walkIdx : Option Node → List Nat → Option Node
  | n, [] => n
  | some (.list xs), i :: is => walkIdx xs[i]? is
  | _, _ :: _ => none

/-- the value stored at `base` after writing `v` below index groups `is`:
    existing lists are reused, anything else is replaced by a fresh list, slots padded with null -/
def setSlot : Option Node → List Nat → Node → Node
  | _, [], v => v
  | cur, i :: is, v =>
    let xs := match cur with
      | some (.list xs) => xs
      | _ => []
    let xs' := padTo xs (i + 1)
    .list (xs'.set i (setSlot xs'[i]? is v))

/-! ## containers -/

/-- containerImpl.Child -/
def child (kvs : AMap Node) (name : String) : Option Node :=
  let (b, is) := parseSeg name
  match is with
  | [] => AMap.get? kvs name
  | _ => walkIdx (AMap.get? kvs b) is

/-- containerBuilderImpl.add -/
def add (kvs : AMap Node) (name : String) (v : Node) : AMap Node :=
  let (b, is) := parseSeg name
  match is with
  | [] => AMap.insert kvs name v
  | _ => AMap.insert kvs b (setSlot (AMap.get? kvs b) is v)

/-- ancestorOf(path, true) followed by AddValue on the last component -/
def addAtSegs (kvs : AMap Node) : List String → Node → AMap Node
  | [], _ => kvs
  | [last], v => add kvs last v
  | p :: rest, v =>
    let sub := match child kvs p with
      | some (.cont c) => c
      | _ => []
    add kvs p (.cont (addAtSegs sub rest v))

def addValueAt (kvs : AMap Node) (path : String) (v : Node) : AMap Node :=
  addAtSegs kvs (splitPath path) v

/-- Remove(name): Go `delete` on the literal key -/
def remove (kvs : AMap Node) (name : String) : AMap Node := AMap.erase kvs name

def removeAtSegs (kvs : AMap Node) : List String → AMap Node
  | [] => kvs
  | [last] => remove kvs last
  | p :: rest =>
    match child kvs p with
    | some (.cont c) => add kvs p (.cont (removeAtSegs c rest))
    | _ => kvs

def removeAt (kvs : AMap Node) (path : String) : AMap Node := removeAtSegs kvs (splitPath path)

def lookupSegs (kvs : AMap Node) : List String → Option Node
  | [] => none
  | [last] => child kvs last
  | p :: rest =>
    match child kvs p with
    | some (.cont c) => lookupSegs c rest
    | _ => none

/-- containerImpl.Lookup -/
def lookup (kvs : AMap Node) (path : String) : Option Node :=
  if path = "" then none else lookupSegs kvs (splitPath path)

/-! ## flatten / search -/

mutual
def flattenNode : Node → String → List (String × Scalar)
  | .leaf v, p => [(p, v)]
  | .list xs, p => flattenList xs p 0
  | .cont kvs, p => flattenKvs kvs p
def flattenList : List Node → String → Nat → List (String × Scalar)
  | [], _, _ => []
  | x :: xs, p, i => flattenNode x (toListPath p i) ++ flattenList xs p (i + 1)
def flattenKvs : List (String × Node) → String → List (String × Scalar)
  | [], _ => []
  | (k, x) :: xs, p => flattenNode x (toPath p k) ++ flattenKvs xs p
end

/-- Container.Flatten, in traversal (key) order -/
def flatten (kvs : AMap Node) : List (String × Scalar) := flattenKvs kvs ""

/-- Container.Flatten as the Go map it returns -/
def flattenMap (kvs : AMap Node) : AMap Scalar := AMap.ofList (flatten kvs)

def search (f : Scalar → Bool) (kvs : AMap Node) : List String :=
  ((flattenMap kvs).filter (fun p => f p.2)).map (·.1)

/-! ## Walk(CompactFn): remove empty keyed containers, post-order; lists are not entered -/

mutual
def compactNode : Node → Node
  | .leaf v => .leaf v
  | .list xs => .list xs
  | .cont kvs => .cont (compactKvs kvs)
def compactKvs : List (String × Node) → List (String × Node)
  | [] => []
  | (k, x) :: xs =>
    match compactNode x with
    | .cont [] => compactKvs xs
    | x' => (k, x') :: compactKvs xs
end

/-! ## list builder operations addressed through a node -/

def listAppend (xs : List Node) (v : Node) : List Node := xs ++ [v]

/-- MustSet: panics when out of range -/
def listMustSet (xs : List Node) (i : Nat) (v : Node) : Outcome (List Node) :=
  if i < xs.length then .ok (xs.set i v) else .panic



/-- No key anywhere in the tree ends in an index group `[digits]` — the invariant of every
    container built through the public API (DESIGN.md section 2, D26). -/
inductive Node.KeysOk : Node → Prop
  | leaf (v : Scalar) : Node.KeysOk (.leaf v)
  | list {xs : List Node} : (∀ x ∈ xs, Node.KeysOk x) → Node.KeysOk (.list xs)
  | cont {kvs : List (String × Node)} :
      (∀ p ∈ kvs, hasIdxSuffix p.1 = false) → (∀ p ∈ kvs, Node.KeysOk p.2) → Node.KeysOk (.cont kvs)

/-- constructible through the API: sorted unique keys, none ending in an index group -/
def Node.Valid (n : Node) : Prop := n.WF ∧ n.KeysOk

end Ytk
