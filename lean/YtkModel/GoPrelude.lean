/-
  YtkModel.GoPrelude — the Go / standard-library primitives that the Go→Lean translator
  (/verif/extract/translate.go → YtkModel/Generated/Funcs.lean) maps Go constructs to.

  TRUSTED: these definitions are the meaning the translator gives to the Go constructs named
  in their doc comments.  Each is a one-liner (or a three-line structural recursion) over core
  functions so that it can be read in a minute.  Core-only imports.

  Representation
  * Go `string`, named string types and `strings.Builder`  ↦ `String`;  `len`, `s[i]`, `s[a:b]`
    count CHARACTERS.  Go counts BYTES: the two coincide on ASCII strings (the path-safe domain
    of the properties; `len(s) == 0` / `len(s) > 0` coincide on all strings).  `[]rune(s)` ↦
    `s.toList` is exact for valid UTF-8.
  * Go `int` ↦ `Int` (unbounded: 64-bit wrap-around is not modelled).
  * `[]T` ↦ `List T` (VALUE semantics: the translator rejects element assignment `x[i] = v`;
    `append` never clobbers a shared backing array in the model).  A nil slice and an empty
    slice are the same list; the translator rejects comparisons of slices with nil.
  * `*T` ↦ `Option T` (nil = none), dereference of nil panics.
  * `error` ↦ `Error` = `Option Unit` (nil = none; error texts are never compared).
  * A function that can panic (index, slice, dereference, call of such a function) or contains a
    `for` loop that is not a `range` loop is translated into the monad `Res`:
    `ok v` | `panic` | `fuel` (loop fuel exhausted — not an observable of the Go code; the
    equivalence theorems show it does not occur for the fuel the translator instantiates).
-/
namespace Ytk.Go

inductive Res (α : Type) where
  | ok (a : α)
  | panic
  | fuel
  deriving DecidableEq, Repr

def Res.bind {α β : Type} (r : Res α) (f : α → Res β) : Res β :=
  match r with
  | .ok a => f a
  | .panic => .panic
  | .fuel => .fuel

instance : Monad Res where
  pure := .ok
  bind := Res.bind

@[simp] theorem Res.pure_eq {α : Type} (a : α) : (pure a : Res α) = .ok a := rfl
@[simp] theorem Res.ok_bind {α β : Type} (a : α) (f : α → Res β) : (Res.ok a >>= f) = f a := rfl
@[simp] theorem Res.panic_bind {α β : Type} (f : α → Res β) : (Res.panic >>= f) = .panic := rfl
@[simp] theorem Res.fuel_bind {α β : Type} (f : α → Res β) : (Res.fuel >>= f) = .fuel := rfl

/-- how a loop hands control back: the enclosing function returned `r`, or the loop ended
    normally with the loop-carried variables `s` -/
inductive Ctl (ρ σ : Type) where
  | ret (r : ρ)
  | next (s : σ)
  deriving DecidableEq, Repr

/-- Go `error`: nil or some error (texts are not modelled) -/
abbrev Error := Option Unit

/-! ## builtins -/

/-- `len(s)` of a string (characters; = bytes on ASCII) -/
def len (s : String) : Int := s.length
/-- `len(xs)` of a slice -/
def lenL {α : Type} (xs : List α) : Int := xs.length

/-- `s[a:b]` of a string: panics unless 0 ≤ a ≤ b ≤ len(s) -/
def slice (s : String) (a b : Int) : Res String :=
  if 0 ≤ a ∧ a ≤ b ∧ b ≤ s.length then .ok (String.ofList ((s.toList.drop a.toNat).take (b.toNat - a.toNat)))
  else .panic

/-- `xs[a:b]` of a slice: panics unless 0 ≤ a ≤ b ≤ len(xs) (the capacity is not modelled) -/
def sliceL {α : Type} (xs : List α) (a b : Int) : Res (List α) :=
  if 0 ≤ a ∧ a ≤ b ∧ b ≤ xs.length then .ok ((xs.drop a.toNat).take (b.toNat - a.toNat)) else .panic

/-- `xs[i]` of a slice: panics unless 0 ≤ i < len(xs) -/
def index {α : Type} (xs : List α) (i : Int) : Res α :=
  if 0 ≤ i then (match xs[i.toNat]? with | some a => .ok a | none => .panic) else .panic

/-- `s[i]` of a string (a byte in Go; a character here — equal on ASCII) -/
def byteAt (s : String) (i : Int) : Res Char := index s.toList i

/-- `make([]T, n)`: n zero values; panics for n < 0 (the capacity is not modelled) -/
def makeL {α : Type} (zero : α) (n : Int) : Res (List α) :=
  if 0 ≤ n then .ok (List.replicate n.toNat zero) else .panic

/-- `copy(dst, src)` on slices: the first min(len(dst), len(src)) elements of dst are overwritten -/
def copyL {α : Type} (dst src : List α) : List α := src.take dst.length ++ dst.drop src.length

/-- `*p` -/
def deref {α : Type} (p : Option α) : Res α :=
  match p with
  | some a => .ok a
  | none => .panic

/-- `[]rune(s)` -/
def runes (s : String) : List Char := s.toList

/-! ## strings / slices / strconv / fmt -/

/-- `strings.Index` on characters, counting from `n`: first position where `sub` is a prefix -/
def stringsIndexC (sub : List Char) : List Char → Nat → Int
  | [], n => if sub.isEmpty then n else -1
  | c :: cs, n => if sub.isPrefixOf (c :: cs) then n else stringsIndexC sub cs (n + 1)

/-- `strings.Index(s, sub)`: index of the first occurrence, -1 if there is none -/
def stringsIndex (s sub : String) : Int := stringsIndexC sub.toList s.toList 0

/-- `strings.HasPrefix(s, p)` -/
def hasPrefix (s p : String) : Bool := p.toList.isPrefixOf s.toList

/-- `slices.Index(xs, x)`: index of the first element equal to `x`, -1 if there is none -/
def slicesIndex {α : Type} [BEq α] (xs : List α) (x : α) : Int :=
  match xs.idxOf? x with
  | some i => i
  | none => -1

/-- `slices.Contains(xs, x)` -/
def slicesContains {α : Type} [BEq α] (xs : List α) (x : α) : Bool := xs.contains x

/-- the verb `%s` of fmt.Sprintf applied to a string -/
def fmtS (s : String) : String := s
/-- the verb `%d` of fmt.Sprintf applied to an int: decimal, '-' for negatives -/
def fmtD (i : Int) : String := toString i

def isDigit (c : Char) : Bool := '0' ≤ c && c ≤ '9'

/-- value of a digit string, most significant first -/
def digitsVal (ds : List Char) : Nat := ds.foldl (fun a c => a * 10 + (c.toNat - '0'.toNat)) 0

/-- the digits of `strconv.Atoi` behind the optional sign -/
def atoiDigits (neg : Bool) (ds : List Char) : Int × Error :=
  if ds.isEmpty || !ds.all isDigit then (0, some ())
  else
    let n := digitsVal ds
    if neg then (if n ≤ 9223372036854775808 then (-(n : Int), none) else (-9223372036854775808, some ()))
    else (if n < 9223372036854775808 then ((n : Int), none) else (9223372036854775807, some ()))

/-- `strconv.Atoi(s)`: optional sign, one or more ASCII digits.  Syntax error: (0, err).
    Out of the int64 range: (the nearest bound, err), as strconv does.  (Go also accepts nothing
    else: no underscores, no base prefixes — Atoi is base 10.) -/
def atoi (s : String) : Int × Error :=
  match s.toList with
  | '-' :: ds => atoiDigits true ds
  | '+' :: ds => atoiDigits false ds
  | ds => atoiDigits false ds

/-! ## regular expressions: exactly the pattern texts that occur in translated functions -/

/-- the regexp `.*(\[\d+])+` has a match in `s`: some `[`, one or more digits, `]` occurs -/
def reListPropC : List Char → Bool
  | [] => false
  | c :: cs =>
    (c == '[' && (match cs.span isDigit with
                  | (_ :: _, ']' :: _) => true
                  | _ => false)) || reListPropC cs

/-- `regexp.MustCompile(".*(\\[\\d+])+").MatchString(s)` -/
def reListProp (s : String) : Bool := reListPropC s.toList

end Ytk.Go
