/-
  YtkModel.DocSet — executable model of analytics/document_set.go (+ the DocumentSet part of
  analytics/types.go) at /repo HEAD.

  The model is generic in the document type `δ` (the driver instantiates it with `Node`);
  a document set never looks inside a document, it only stores and serves it.

  Go                                  model
  ----------------------------------  -----------------------------------------------
  documentSet{ctxMap,names,unnamed…}  `State δ`
  docContext{doc,tags,mergeFn}        `Ctx δ`   (`doc : Option δ` — Go's nil is `none`)
  AddLayerOpt closures                `Opt`     (WithTags ts | MergeTags | MustCreate)
  applyOpts / newContext              `applyOpts`
  addContext                          `addContext`  (returns the new state and the error flag)
  AddDocument / AddUnnamedDocument /
  AddDocumentFromReader / …FromFile   `step` on `Op δ`
  filtered / TaggedSubset / AsOne     `filtered / taggedSubset / asOne : Outcome (Overlay δ)`
  NamedDocument                       `namedDocument`
  utils.Unique                        `unique`
  containsAnyOf                       `containsAnyOf`

  An overlay document built by `filtered` is modelled by the sequence of `o.Add(name, doc)`
  calls that built it (`Overlay δ = List (String × δ)`): `dom.overlayDocument.Add` creates the
  layer on the first call for a name (appending to its `names`) and copies the children of the
  document into it.  `layerNames` / `layerDoc` read that back; `overlayLayer` is the copy for
  `δ = Node` (children re-added with `AddValue`).

  Nil dereferences of the Go code are `.panic`: `filtered` panics when a name has no context
  or the context has no document (that was D24 before its fix).
-/
import YtkModel.Dom

namespace Ytk.DocSet

/-- which merge closure an option installed in `docContext.mergeFn` -/
inductive MergeFn where
  | none | mergeTags | mustCreate
  deriving DecidableEq, Repr, Inhabited

structure Ctx (δ : Type) where
  doc : Option δ
  tags : List String
  mergeFn : MergeFn
  deriving Repr, Inhabited

/-- AddLayerOpt values constructible through the public API -/
inductive Opt where
  | withTags (ts : List String)
  | mergeTags
  | mustCreate
  deriving DecidableEq, Repr, Inhabited

structure State (δ : Type) where
  ctxMap : AMap (Ctx δ)
  names : List String
  unnamed : Nat
  deriving Repr, Inhabited

/-- NewDocumentSet() -/
def init {δ : Type} : State δ := ⟨[], [], 0⟩

def wildcardTag : String := "*"

/-- utils.Unique: first occurrences, in order -/
def uniqueAux : List String → List String → List String
  | ret, [] => ret
  | ret, s :: rest => if ret.contains s then uniqueAux ret rest else uniqueAux (ret ++ [s]) rest

def unique (xs : List String) : List String := uniqueAux [] xs

/-- one option applied to the context under construction -/
def applyOpt {δ : Type} (ctx : Ctx δ) : Opt → Ctx δ
  | .withTags ts => { ctx with tags := ctx.tags ++ ts }
  | .mergeTags => { ctx with mergeFn := .mergeTags }
  | .mustCreate => { ctx with mergeFn := .mustCreate }

/-- defaultOpts = [WithTags("*")] -/
def defaultOpts : List Opt := [.withTags [wildcardTag]]

/-- applyOpts on a fresh `&docContext{}` (= newContext) -/
def applyOpts {δ : Type} (opts : List Opt) : Ctx δ :=
  opts.foldl applyOpt (defaultOpts.foldl applyOpt ⟨none, [], .none⟩)

/-- addContext(name, doc, newCtx): new state and `true` when an error is returned -/
def addContext {δ : Type} (s : State δ) (name : String) (doc : δ) (newCtx : Ctx δ) : State δ × Bool :=
  match AMap.get? s.ctxMap name with
  | some existing =>
    match newCtx.mergeFn with
    | .mustCreate => (s, true)                       -- ErrLayerAlreadyExists, nothing stored
    | .mergeTags =>
      -- the closure installed by MergeTags(): context = newCtx, its parameter = existing
      let c : Ctx δ := { newCtx with
        tags := unique (newCtx.tags ++ existing.tags),
        doc := match newCtx.doc with
          | none => existing.doc
          | some d => some d }
      ({ s with ctxMap := AMap.insert s.ctxMap name c }, false)
    | .none =>
      ({ s with ctxMap := AMap.insert s.ctxMap name { newCtx with doc := some doc } }, false)
  | none =>
    ({ s with ctxMap := AMap.insert s.ctxMap name { newCtx with doc := some doc },
              names := s.names ++ [name] }, false)

/-- AddDocument -/
def addDocument {δ : Type} (s : State δ) (name : String) (doc : δ) (opts : List Opt) : State δ × Bool :=
  addContext s name doc (applyOpts opts)

/-- fmt.Sprintf("default__%d", id) -/
def unnamedName (id : Nat) : String := "default__" ++ toString id

/-- AddUnnamedDocument: the counter is bumped first, also when the add then fails -/
def addUnnamed {δ : Type} (s : State δ) (doc : δ) (opts : List Opt) : State δ × Bool :=
  let s' := { s with unnamed := s.unnamed + 1 }
  addDocument s' (unnamedName s'.unnamed) doc opts

/-- AddDocumentFromReader / AddDocumentFromFile (name = file name): `decoded = none` stands for
    an opener / decoder error, which is returned before the set is touched. -/
def addFromReader {δ : Type} (s : State δ) (name : String) (decoded : Option δ) (opts : List Opt) : State δ × Bool :=
  match decoded with
  | none => (s, true)
  | some d => addDocument s name d opts

inductive Op (δ : Type) where
  | add (name : String) (doc : δ) (opts : List Opt)
  | addUnnamed (doc : δ) (opts : List Opt)
  | addFromReader (name : String) (decoded : Option δ) (opts : List Opt)
  deriving Repr

def step {δ : Type} (s : State δ) : Op δ → State δ × Bool
  | .add n d o => addDocument s n d o
  | .addUnnamed d o => addUnnamed s d o
  | .addFromReader n d o => addFromReader s n d o

def run {δ : Type} (s : State δ) (ops : List (Op δ)) : State δ := ops.foldl (fun s op => (step s op).1) s

/-! ## queries -/

/-- the `o.Add(n, c.doc)` calls that built an overlay document, in order -/
abbrev Overlay (δ : Type) := List (String × δ)

/-- OverlayDocument.LayerNames(): a layer is created by the first Add for its name -/
def layerNames {δ : Type} (o : Overlay δ) : List String := unique (o.map (·.1))

/-- containsAnyOf(col, contains) -/
def containsAnyOf (col contains : List String) : Bool := col.any (fun i => contains.contains i)

def filteredAux {δ : Type} (f : String → List String → Bool) (m : AMap (Ctx δ)) : List String → Outcome (Overlay δ)
  | [] => .ok []
  | n :: ns =>
    match AMap.get? m n with
    | none => .panic                                   -- c == nil, dereferenced
    | some c =>
      if f n c.tags then
        match c.doc with
        | none => .panic                               -- o.Add(n, nil): value.Children() on nil
        | some d =>
          match filteredAux f m ns with
          | .ok o => .ok ((n, d) :: o)
          | .err => .err
          | .panic => .panic
      else filteredAux f m ns

/-- documentSet.filtered; the filter functions of the API only read the tags -/
def filtered {δ : Type} (f : String → List String → Bool) (s : State δ) : Outcome (Overlay δ) :=
  filteredAux f s.ctxMap s.names

/-- TaggedSubset(tag...) -/
def taggedSubset {δ : Type} (ts : List String) (s : State δ) : Outcome (Overlay δ) :=
  filtered (fun _ tags => containsAnyOf tags ts) s

/-- AsOne(): no nil check of its own, but `filtered` still dereferences `c.doc` -/
def asOne {δ : Type} (s : State δ) : Outcome (Overlay δ) :=
  filtered (fun _ _ => true) s

/-- NamedDocument(name) -/
def namedDocument {δ : Type} (s : State δ) (name : String) : Option δ :=
  match AMap.get? s.ctxMap name with
  | none => none
  | some c => c.doc

/-- overlayDocument.Add on a fresh layer, for `δ = Node`: every child is re-added with AddValue -/
def overlayLayer : Node → Node
  | .cont kvs => .cont (kvs.foldl (fun acc p => add acc p.1 p.2) [])
  | n => n

/-! ## specification: entries `(name, doc, tags)` in first-insertion order -/

abbrev Entry (δ : Type) := String × δ × List String

structure Spec (δ : Type) where
  entries : List (Entry δ)
  unnamed : Nat

/-- the tags one option contributes -/
def optTags : Opt → List String
  | .withTags ts => ts
  | _ => []

/-- the tags given on a call: `*` first, then every WithTags in order -/
def callTags (opts : List Opt) : List String := wildcardTag :: opts.flatMap optTags

/-- the re-add policy chosen on a call: the last of MergeTags / MustCreate wins -/
def policy : List Opt → MergeFn
  | [] => .none
  | o :: rest =>
    match policy rest with
    | .none => (match o with | .mergeTags => .mergeTags | .mustCreate => .mustCreate | .withTags _ => .none)
    | p => p

def specFind {δ : Type} (es : List (Entry δ)) (name : String) : Option (Entry δ) :=
  es.find? (fun e => e.1 = name)

def specReplace {δ : Type} (es : List (Entry δ)) (name : String) (e' : Entry δ) : List (Entry δ) :=
  es.map (fun e => if e.1 = name then e' else e)

/-- what the property says an add does -/
def specAdd {δ : Type} (es : List (Entry δ)) (name : String) (doc : δ) (opts : List Opt) : List (Entry δ) × Bool :=
  match specFind es name with
  | none => (es ++ [(name, doc, callTags opts)], false)
  | some old =>
    match policy opts with
    | .mustCreate => (es, true)                                    -- fails and changes nothing
    | .mergeTags => (specReplace es name (name, old.2.1, unique (callTags opts ++ old.2.2)), false)
    | .none => (specReplace es name (name, doc, callTags opts), false)

def specStep {δ : Type} (sp : Spec δ) : Op δ → Spec δ × Bool
  | .add n d o => let r := specAdd sp.entries n d o; (⟨r.1, sp.unnamed⟩, r.2)
  | .addUnnamed d o =>
    let r := specAdd sp.entries (unnamedName (sp.unnamed + 1)) d o
    (⟨r.1, sp.unnamed + 1⟩, r.2)
  | .addFromReader _ none _ => (sp, true)
  | .addFromReader n (some d) o => let r := specAdd sp.entries n d o; (⟨r.1, sp.unnamed⟩, r.2)

/-- abstraction: the stored contexts read in `names` order -/
def absEntries {δ : Type} (m : AMap (Ctx δ)) (names : List String) : List (Entry δ) :=
  names.filterMap (fun n =>
    match AMap.get? m n with
    | some c => (match c.doc with | some d => some (n, d, c.tags) | none => none)
    | none => none)

def abs {δ : Type} (s : State δ) : Spec δ := ⟨absEntries s.ctxMap s.names, s.unnamed⟩

/-- names generated for the unnamed adds of a history -/
def genNames {δ : Type} : State δ → List (Op δ) → List String
  | _, [] => []
  | s, op :: ops =>
    match op with
    | .addUnnamed _ _ => unnamedName (s.unnamed + 1) :: genNames (step s op).1 ops
    | _ => genNames (step s op).1 ops

end Ytk.DocSet
