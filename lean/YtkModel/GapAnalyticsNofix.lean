/-
  YtkModel.GapAnalyticsNofix — the PRE-FIX shape of `placeholderResolver.Resolve` (before D32, /repo f8018cb):
  the loop tested `slices.Contains(failedKeys, ph)` with the VALUE text `ph` although `failedKeys` holds
  KEYS.  The driver never runs these definitions; they exist so that the repair is backed by statements
  that fail without it (YtkProps/C19.lean: `failedKeys_nofix_…_counterexample`).
-/
import YtkModel.Analytics

namespace Ytk.Analytics

def phLoopNofix (hasPh : String → Bool) (filter : String → Bool) (resolve : String → String) (doc : Doc) :
    Flat → PhReport → PhReport
  | [], acc => acc
  | (k, v) :: r, acc =>
    let ph := v.text
    if filter k && hasPh ph && (ph == resolve ph) && !acc.failedKeys.contains ph then
      phLoopNofix hasPh filter resolve doc r
        { failedKeys := acc.failedKeys ++ [k]
          details := acc.details ++ [(k, v, search (searchEqualStr ph) doc)] }
    else phLoopNofix hasPh filter resolve doc r acc

def placeholderReportNofix (hasPh : String → Bool) (filter : String → Bool) (resolve : String → String)
    (merged : Flat) (doc : Doc) : PhReport :=
  let r := phLoopNofix hasPh filter resolve doc merged ⟨[], []⟩
  { r with failedKeys := sortStrings r.failedKeys }

end Ytk.Analytics
