/-
  YtkModel.Effects — C20.
  (i)  `writesAll tbl`: for every function of an effect table, the set of roots it may write through,
       directly or through any chain of calls — the least fixpoint of `step`, computed with fuel
       = number of functions.  Root sets are strictly ascending lists, so set equality is `=`.
  (i′) `reachAll tbl`: for every function, the functions any call tree rooted in it can visit.
  (ii) a generic model of threads as lists of read / write events on locations.
-/
import YtkModel.EffectTypes

namespace Ytk.Effects
open Ytk.EffectT

/-! ### (i) transitive write effects -/

abbrev State := List (List Root)

def insert (x : Root) : List Root → List Root
  | [] => [x]
  | y :: ys => if x < y then x :: y :: ys else if x = y then y :: ys else y :: insert x ys

def union (a b : List Root) : List Root := b.foldl (fun acc x => insert x acc) a

/-- what root `r` of the callee's frame denotes in the caller's frame -/
def mapRoot (e : CallEdge) (r : Root) : List Root :=
  if isGlobal r then [r] else
    match e.map.lookup r with
    | some l => l
    | none => []

def mapRoots (e : CallEdge) (rs : List Root) : List Root := rs.flatMap (mapRoot e)

def stepFn (s : State) (f : FnSummary) : List Root :=
  f.calls.foldl (fun acc e => union acc (mapRoots e (s.getD e.callee []))) (union [] f.writes)

def step (tbl : List FnSummary) (s : State) : State := tbl.map (stepFn s)

def iter (tbl : List FnSummary) : Nat → State → State
  | 0, s => s
  | n + 1, s =>
    let s' := step tbl s
    if s' = s then s else iter tbl n s'

/-- least fixpoint of `step` from the empty summary; fuel = number of functions (+1 round to notice
    stability).  That the fuel suffices is the theorem `fixpoint_reached`, not an assumption. -/
def writesAll (tbl : List FnSummary) : State := iter tbl (tbl.length + 1) (tbl.map fun _ => [])

def writesOf (tbl : List FnSummary) (i : Nat) : List Root := (writesAll tbl).getD i []

/-- `W` is closed: it contains every function's direct writes and, for every call edge, everything
    the callee's summary denotes in the caller's frame. -/
def Closed (tbl : List FnSummary) (W : State) : Prop :=
  ∀ i ∈ List.range tbl.length,
    (∀ r ∈ (tbl.getD i default).writes, r ∈ W.getD i []) ∧
    (∀ e ∈ (tbl.getD i default).calls, ∀ r ∈ W.getD e.callee [], ∀ x ∈ mapRoot e r, x ∈ W.getD i [])

instance (tbl : List FnSummary) (W : State) : Decidable (Closed tbl W) := by
  unfold Closed; infer_instance

/-- A run (call tree) of a function: the roots of its own frame it writes itself, and the runs of
    the calls it makes, each through one of its call edges. -/
inductive Run where
  | node (fn : Nat) (own : List Root) (calls : List (CallEdge × Run))

def Run.fn : Run → Nat
  | .node f _ _ => f

mutual
/-- every root written during the run, expressed in the frame of the run's function -/
def Run.writes : Run → List Root
  | .node _ own calls => own ++ Run.writesCalls calls
def Run.writesCalls : List (CallEdge × Run) → List Root
  | [] => []
  | (e, r) :: rest => (Run.writes r).flatMap (mapRoot e) ++ Run.writesCalls rest
end

mutual
/-- the run follows the table: own writes are within the function's direct summary, and every
    call goes through a listed edge to that edge's callee -/
def Run.Conforms (tbl : List FnSummary) : Run → Prop
  | .node fn own calls =>
    fn < tbl.length ∧ (∀ r ∈ own, r ∈ (tbl.getD fn default).writes) ∧ Run.ConformsCalls tbl fn calls
def Run.ConformsCalls (tbl : List FnSummary) (fn : Nat) : List (CallEdge × Run) → Prop
  | [] => True
  | (e, r) :: rest =>
    e ∈ (tbl.getD fn default).calls ∧ r.fn = e.callee ∧ Run.Conforms tbl r ∧ Run.ConformsCalls tbl fn rest
end

/-! ### (i′) reachable functions

`reachAll tbl`: for every function of the table, the set of functions a call tree rooted in it can visit —
itself and, for every call edge, everything its callee can visit.  Same shape as `writesAll` (least fixpoint with
fuel).  A set of functions is a bit mask (bit `j` = function `j`, union is `|||`) and the whole relation of a
table of `n` functions is ONE natural number: row `i` — the set reached from function `i` — occupies bits
`i*n … i*n+n-1`.  (The kernel evaluates arithmetic on literals eagerly, so `decide` over this is fast.)  Used to
state facts about every function BEHIND an entry point ("none of them calls an unknown callee", "none of them is
a syntactic writer of a package variable"). -/

abbrev ReachState := Nat

/-- row `i` of the relation: the set (bit mask) reached from function `i` -/
def rowOf (n : Nat) (S : ReachState) (i : Nat) : Nat := (S >>> (i * n)) % 2 ^ n

def reachRow (n : Nat) (S : ReachState) (p : FnSummary × Nat) : Nat :=
  p.1.calls.foldl (fun acc e => acc ||| rowOf n S e.callee) (rowOf n S p.2)

def reachStep (tbl : List FnSummary) (S : ReachState) : ReachState :=
  tbl.zipIdx.foldl (fun acc p => acc ||| (reachRow tbl.length S p <<< (p.2 * tbl.length))) 0

def reachIter (tbl : List FnSummary) : Nat → ReachState → ReachState
  | 0, S => S
  | k + 1, S =>
    let S' := reachStep tbl S
    if S' = S then S else reachIter tbl k S'

/-- every function reaches itself -/
def reachInit (n : Nat) : ReachState := (List.range n).foldl (fun acc i => acc ||| (1 <<< (i * n + i))) 0

def reachAll (tbl : List FnSummary) : ReachState := reachIter tbl (tbl.length + 1) (reachInit tbl.length)

/-- the functions (table indices, ascending) any call tree rooted in function `i` can visit -/
def reachOf (tbl : List FnSummary) (i : Nat) : List Nat :=
  (List.range tbl.length).filter fun j => (reachAll tbl).testBit (i * tbl.length + j)

/-- `R` is closed: every function reaches itself and whatever the callee of any of its call edges reaches. -/
def ReachClosed (tbl : List FnSummary) (R : ReachState) : Prop :=
  ∀ i ∈ List.range tbl.length,
    R.testBit (i * tbl.length + i) = true ∧
    (∀ e ∈ (tbl.getD i default).calls,
      rowOf tbl.length R e.callee ||| rowOf tbl.length R i = rowOf tbl.length R i)

instance (tbl : List FnSummary) (R : ReachState) : Decidable (ReachClosed tbl R) := by
  unfold ReachClosed; infer_instance

mutual
/-- every function executed during the run -/
def Run.fns : Run → List Nat
  | .node fn _ calls => fn :: Run.fnsCalls calls
def Run.fnsCalls : List (CallEdge × Run) → List Nat
  | [] => []
  | (_, r) :: rest => Run.fns r ++ Run.fnsCalls rest
end

/-! ### (ii) threads, races, interleavings -/

inductive Ev where
  | rd (loc : Nat)
  | wr (loc : Nat) (v : Nat)
  deriving DecidableEq, Repr

def Ev.loc : Ev → Nat
  | .rd l => l
  | .wr l _ => l

def Ev.isRead : Ev → Bool
  | .rd _ => true
  | .wr _ _ => false

abbrev Thread := List Ev

/-- Two events of different threads on one location, at least one of them a write.  Readers take no
    locks, so no happens-before edge orders events of different threads: such a pair is a data race. -/
def Race (ts : List Thread) : Prop :=
  ∃ (i j : Nat) (e₁ e₂ : Ev) (t₁ t₂ : Thread), i ≠ j ∧ ts[i]? = some t₁ ∧ ts[j]? = some t₂ ∧ e₁ ∈ t₁ ∧ e₂ ∈ t₂ ∧
    e₁.loc = e₂.loc ∧ (e₁.isRead = false ∨ e₂.isRead = false)

def ReadOnly (ts : List Thread) : Prop := ∀ t ∈ ts, ∀ e ∈ t, e.isRead = true

/-- An interleaving: any merge of the threads' event lists, each event tagged with its thread. -/
inductive Interleave : List Thread → List (Nat × Ev) → Prop where
  | done (ts : List Thread) (h : ∀ t ∈ ts, t = []) : Interleave ts []
  | step (ts : List Thread) (i : Nat) (e : Ev) (rest : Thread) (tr : List (Nat × Ev))
      (h : ts[i]? = some (e :: rest)) (hr : Interleave (ts.set i rest) tr) : Interleave ts ((i, e) :: tr)

abbrev Store := Nat → Nat

def Store.upd (σ : Store) (l v : Nat) : Store := fun x => if x = l then v else σ x

/-- the values thread `i` observes (reads) along a trace, starting from store `σ` -/
def observe (i : Nat) : Store → List (Nat × Ev) → List Nat
  | _, [] => []
  | σ, (j, .rd l) :: tr => if j = i then σ l :: observe i σ tr else observe i σ tr
  | σ, (_, .wr l v) :: tr => observe i (σ.upd l v) tr

/-- what a thread observes when it runs alone on `σ` -/
def observeAlone : Store → Thread → List Nat
  | _, [] => []
  | σ, .rd l :: t => σ l :: observeAlone σ t
  | σ, .wr l v :: t => observeAlone (σ.upd l v) t

end Ytk.Effects
