/-
  YtkModel.CloneTypes — the schema of the regenerated clone table (C15).
  `Generated/CloneTable.lean` (written by /verif/extract on every run) is data of these types.
-/
namespace Ytk.CloneT

/-- What a `CloneWith` body does with one field (classified syntactically by the extractor). -/
inductive Act where
  | copy        -- `F: recv.F`
  | render      -- `RenderLenient(recv.F, …)`, `safeRenderStrPointer/Slice(recv.F, …)`, `T(RenderLenient(string(recv.F), …))`
  | nested      -- `recv.F.CloneWith(ctx)` (also nil-guarded `ptr(…)` form, `safeCloneValOrRef`)
  | copySlice   -- `safeCopyIntSlice(recv.F)`
  | reflectAll  -- OpSpec's reflection loop: every non-nil operation field is cloned
  | mapAll      -- ChildActions: every entry is cloned
  | none        -- the field is absent from the clone, or the expression is of an unknown shape
  deriving DecidableEq, Repr, Inhabited

/-- Kind of a field, from its declared Go type. -/
inductive FKind where
  | str | strPtr | strs | ints | bool | boolPtr | int | map | anyVal
  | record      -- a type with its own CloneWith, by value (ActionSpec, OpSpec)
  | recordPtr   -- pointer to such a type (*ValOrRef, *ActionSpec, *SetOp …)
  | recordMap   -- map type with its own CloneWith (ChildActions)
  | other    -- anything else (opaque: copied or not, never looked into)
  deriving DecidableEq, Repr, Inhabited

structure CloneField where
  name : String
  goType : String
  kind : FKind
  ref : String          -- for record kinds: name of the referenced type ("" otherwise)
  tag : String          -- value of the `clone:"…"` struct tag ("" when absent)
  act : Act
  embedded : Bool
  deriving DecidableEq, Repr, Inhabited

structure CloneType where
  name : String
  ptrRecv : Bool
  fields : List CloneField
  deriving DecidableEq, Repr, Inhabited

def FKind.isText : FKind → Bool
  | .str | .strPtr | .strs => true
  | _ => false

def Act.toString : Act → String
  | .copy => "copy" | .render => "render" | .nested => "nested" | .copySlice => "copySlice"
  | .reflectAll => "reflectAll" | .mapAll => "mapAll" | .none => "none"

def FKind.toString : FKind → String
  | .str => "str" | .strPtr => "strPtr" | .strs => "strs" | .ints => "ints" | .bool => "bool"
  | .boolPtr => "boolPtr" | .int => "int" | .map => "map" | .anyVal => "anyVal"
  | .record => "record" | .recordPtr => "recordPtr" | .recordMap => "recordMap" | .other => "other"

end Ytk.CloneT
