/-
  YtkModel.DocSetFilesWire — driver side of YtkModel/DocSetFiles.lean (op `files` of the C18 handler).
    {"fn":"dir", "pre":[op…], "opts":[opt…], "glob": null | [file…], "files":[[file, load]…], "queries":…, "names":…}
    {"fn":"manifest", "pre":…, "opts":…, "manifest": name, "loaded": bool, "items":[[item, text]…],
     "decoded":[[item, load]…], …}
  load = {"t":"ok","doc":node} | {"t":"err"} | {"t":"panic"}; a file / item not listed: "err".
-/
import YtkModel.Wire
import YtkModel.DocSetFiles
open Lean

namespace Ytk.DocSetFiles
open Ytk.DocSet

def loadOfJson (j : Json) : Except String (Outcome Node) := do
  match ← Wire.getStr j "t" with
  | "ok" => pure (.ok (← Wire.getNode j "doc"))
  | "panic" => pure .panic
  | _ => pure .err

def tableOfJson (rows : List Json) : Except String (List (String × Outcome Node)) :=
  rows.mapM fun r => match r with
    | .arr #[.str k, v] => do pure (k, ← loadOfJson v)
    | _ => throw "files: bad row"

def lookupLoad (t : List (String × Outcome Node)) (k : String) : Outcome Node :=
  match t.find? (fun p => p.1 == k) with
  | some p => p.2
  | none => .err

def endTag : End → String
  | .ok _ => "ok" | .err => "err" | .panic => "panic"

def handleWire (optOfJson : Json → Except String Opt) (opOfJson : Json → Except String (Op Node))
    (observe : State Node → List (List String) → List String → List (String × Json)) (a : Json) : Except String Json := do
  let pre ← (← Wire.getArr a "pre").mapM opOfJson
  let opts ← (← Wire.getArr a "opts").mapM optOfJson
  let queries ← (← Wire.getArr a "queries").mapM (fun q => do
    let xs ← q.getArr?
    xs.toList.mapM Json.getStr?)
  let names ← Wire.getStrs a "names"
  let s0 : State Node := run DocSet.init pre
  let r ← (match ← Wire.getStr a "fn" with
    | "dir" => do
      let files ← tableOfJson (← Wire.getArr a "files")
      let glob : Option (List String) := match Wire.getStrs a "glob" with
        | .ok xs => some xs
        | .error _ => none
      pure (addFromDirectory (fun _ => glob) (lookupLoad files) opts s0 "")
    | "manifest" => do
      let items ← (← Wire.getArr a "items").mapM (fun r => match r with
        | .arr #[.str k, .str v] => pure (k, v)
        | _ => throw "files: bad item")
      let decoded ← tableOfJson (← Wire.getArr a "decoded")
      let loaded ← Wire.getBool a "loaded"
      let m : K8s.Manifest := { (default : K8s.Manifest) with str := items.foldl (fun acc p => AMap.insert acc p.1 p.2) [] }
      pure (addFromManifest (fun _ => if loaded then .ok m else .err) (fun item _ => lookupLoad decoded item) opts s0
        (← Wire.getStr a "manifest"))
    | f => throw s!"files: unknown fn {f}" : Except String (State Node × End))
  pure (Json.mkObj (("end", .str (endTag r.2)) :: observe r.1 queries names))

end Ytk.DocSetFiles
