/-
  YtkModel.EffectTypes — schema of the regenerated write-effect table (C20).
  `Generated/Effects.lean` (written by /verif/extract on every run) is data of these types.

  A *root* is a natural number: `3*slot + d` for the receiver (slot 0) or the i-th parameter
  (slot i) of the function — d = 0 the object it refers to, 1 the objects that one holds
  references to, 2 anything deeper — and `1000 + 3*g + d` for package variable `g` (global 0 is the
  *unknown* global: memory the analysis knows nothing about — what an unknown callee may write, what a
  function literal captures).  A function literal is a table entry of its own (`encl$N`), the callee
  of the dynamic calls the extractor resolved.  `PkgVar`: one package-level variable and the functions
  that syntactically write it.
-/
namespace Ytk.EffectT

abbrev Root := Nat

/-- One call site: callee (index into the table) and, for each root of the callee's frame, the
    roots of the caller's frame it may denote.  Global roots (≥ 1000) denote themselves.
    A callee root that is not listed denotes only objects allocated by the caller itself. -/
structure CallEdge where
  callee : Nat
  map : List (Root × List Root)
  deriving DecidableEq, Repr, Inhabited

structure FnSummary where
  name : String
  slots : Nat
  /-- roots written directly by statements of the function body -/
  writes : List Root
  calls : List CallEdge
  /-- function-typed parameters / fields the function calls (caller-supplied callbacks; assumed write-free) -/
  callbacks : List String
  /-- calls handled by the conservative rule (informational) -/
  conservative : List String
  /-- the entries of `conservative` whose callee is unknown to the analysis — a function value it could not
      enumerate ("dynamic:…"), a call leaving the analysed packages that is not on the allow-list ("external:…"),
      a function without body, an interface method without implementation, range-over-func; each is charged with
      a write to the unknown global (root 1000) and to everything reachable from its arguments.  (The remaining
      entries, "shallow:…", are known library calls that write only the object their first argument refers to.) -/
  unknownCalls : List String := []
  /-- dynamic calls (calls of a function VALUE) whose possible callees the extractor enumerated, with how; they
      are ordinary entries of `calls` (informational) -/
  resolvedCalls : List String := []
  deriving Repr, Inhabited

def isGlobal (r : Root) : Bool := r ≥ 1000

/-- the package variable (index into `globalNames`) a root belongs to, if it is a global root -/
def rootGlobal (r : Root) : Option Nat := if r ≥ 1000 then some ((r - 1000) / 3) else none

/-- One package-level variable of the analysed packages and what a syntactic scan of every file of its package
    found about it (extract/effects_pkgvars.go). -/
structure PkgVar where
  name : String
  /-- index into `globalNames`; its roots are `1000 + 3*global + d` -/
  global : Nat
  exported : Bool
  /-- declared with an initializer expression of its own -/
  hasInit : Bool
  /-- table functions (indices) whose body assigns it, op-assigns it, inc/decs it, appends to it, stores into an
      element / field of it or through it, deletes from it, or takes its address -/
  writers : List Nat
  /-- which of those forms occur: "assign" | "store" | "append" | "addr" (informational) -/
  writeKinds : List String
  /-- one of those forms occurs in a package-level initializer -/
  initWritten : Bool
  /-- the extractor resolved calls of function values read from this variable to `fnValues`, relying on the
      variable being unexported, initialised and never written -/
  resolved : Bool
  /-- table functions (indices) the function values held in the variable can be -/
  fnValues : List Nat
  deriving Repr, Inhabited

end Ytk.EffectT
