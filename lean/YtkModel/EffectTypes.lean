/-
  YtkModel.EffectTypes — schema of the regenerated write-effect table (C20).
  `Generated/Effects.lean` (written by /verif/extract on every run) is data of these types.

  A *root* is a natural number: `3*slot + d` for the receiver (slot 0) or the i-th parameter
  (slot i) of the function — d = 0 the object it refers to, 1 the objects that one holds
  references to, 2 anything deeper — and `1000 + 3*g + d` for package variable `g`.
-/
namespace Ytk.EffectT

abbrev Root := Nat

/-- One call site: callee (index into the table) and, for each root of the callee's frame, the
    roots of the caller's frame it may denote.  Global roots (≥ 1000) denote themselves.
    A callee root that is not listed denotes only objects allocated by the caller itself. -/
structure CallEdge where
  callee : Nat
  map : List (Root × List Root)
  deriving DecidableEq, Repr, Inhabited

structure FnSummary where
  name : String
  slots : Nat
  /-- roots written directly by statements of the function body -/
  writes : List Root
  calls : List CallEdge
  /-- function-typed parameters / fields the function calls (caller-supplied callbacks; assumed write-free) -/
  callbacks : List String
  /-- calls handled by the conservative rule (informational) -/
  conservative : List String
  deriving Repr, Inhabited

def isGlobal (r : Root) : Bool := r ≥ 1000

end Ytk.EffectT
