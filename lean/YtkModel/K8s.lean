/-
  YtkModel.K8s — executable model of k8s/manifest.go and k8s/embedded.go at /repo HEAD.

  Go                                         model
  -----------------------------------------  ------------------------------------------------
  manifest{doc,strData,binData,h{bk,tk}}     `Manifest` (doc : AMap Val, str, bin, bk, tk)
  ManifestFromBytes (after yaml.Unmarshal)   `load : Val → Outcome Manifest`
  dataHandler.afterLoad                      `afterLoadBinary` / `afterLoadString`
  dataHandler.beforeSave + WriteTo           `beforeSave` / `writeTo` (the YAML text is external:
                                             the "file" is the `Val` handed to the encoder)
  stringDataFacade / binaryDataFacade        `strGet strList strUpdate strRemove` / `bin…`
  DecodeEmbeddedDoc / EncodeEmbeddedDoc      `decodeEmbeddedDoc` / `encodeEmbeddedDoc` (codec = parameters)
  DecodeEmbeddedProps / EncodeEmbeddedProps  `decodeEmbeddedProps` / `encodeEmbeddedProps`
  doc.Save, builder Open / Create            `docSave`, `openDoc`, `createInit`
  encoding/base64 StdEncoding                `b64enc` / `b64dec` (RFC 4648, padding required,
                                             CR/LF skipped, trailing bits not checked — Go's
                                             non-strict decoder)
  fmt.Sprintf("%v", x)                       `fmtV` (scalars: their text; []any: `[a b]`;
                                             map[string]any: `map[k:v …]` with sorted keys)

  Go map iteration order never matters here: afterLoadBinary returns an error as soon as *some*
  entry is bad (the outcome is `err` whichever is met first), everything else builds maps.
  The model iterates in key order.
-/
import YtkModel.Dom

namespace Ytk.K8s

abbrev Bytes := List UInt8

/-! ## base64 (RFC 4648 section 4, standard alphabet, with padding) -/

def b64Alphabet : List Char :=
  ['A', 'B', 'C', 'D', 'E', 'F', 'G', 'H', 'I', 'J', 'K', 'L', 'M', 'N', 'O', 'P', 'Q', 'R', 'S', 'T', 'U', 'V',
   'W', 'X', 'Y', 'Z', 'a', 'b', 'c', 'd', 'e', 'f', 'g', 'h', 'i', 'j', 'k', 'l', 'm', 'n', 'o', 'p', 'q', 'r',
   's', 't', 'u', 'v', 'w', 'x', 'y', 'z', '0', '1', '2', '3', '4', '5', '6', '7', '8', '9', '+', '/']

def encChar (n : Nat) : Char := b64Alphabet.getD n '='

def decCharAux : List Char → Nat → Char → Option Nat
  | [], _, _ => none
  | a :: as, i, c => if c = a then some i else decCharAux as (i + 1) c

/-- the sextet of an alphabet character -/
def decChar (c : Char) : Option Nat := decCharAux b64Alphabet 0 c

def b64encL : Bytes → List Char
  | [] => []
  | [a] =>
    let x := a.toNat
    [encChar (x / 4), encChar (x % 4 * 16), '=', '=']
  | [a, b] =>
    let x := a.toNat; let y := b.toNat
    [encChar (x / 4), encChar (x % 4 * 16 + y / 16), encChar (y % 16 * 4), '=']
  | a :: b :: c :: rest =>
    let x := a.toNat; let y := b.toNat; let z := c.toNat
    encChar (x / 4) :: encChar (x % 4 * 16 + y / 16) :: encChar (y % 16 * 4 + z / 64) :: encChar (z % 64)
      :: b64encL rest

/-- base64.StdEncoding.EncodeToString -/
def b64enc (bs : Bytes) : String := String.ofList (b64encL bs)

def isNewline (c : Char) : Bool := c = '\n' || c = '\r'

/-- quanta of four characters; `=` only in the last quantum, at positions 2–3 or 3 -/
def b64decQ : List Char → Option Bytes
  | [] => some []
  | a :: b :: c :: d :: rest =>
    match decChar a, decChar b with
    | some x, some y =>
      if c = '=' then
        if d = '=' ∧ rest = [] then some [UInt8.ofNat (x * 4 + y / 16)] else none
      else
        match decChar c with
        | none => none
        | some z =>
          if d = '=' then
            if rest = [] then some [UInt8.ofNat (x * 4 + y / 16), UInt8.ofNat (y % 16 * 16 + z / 4)] else none
          else
            match decChar d with
            | none => none
            | some w =>
              match b64decQ rest with
              | none => none
              | some bs =>
                some (UInt8.ofNat (x * 4 + y / 16) :: UInt8.ofNat (y % 16 * 16 + z / 4)
                  :: UInt8.ofNat (z % 4 * 64 + w) :: bs)
    | _, _ => none
  | _ => none

def b64decL (cs : List Char) : Option Bytes := b64decQ (cs.filter (fun c => !isNewline c))

/-- base64.StdEncoding.DecodeString (`none` = CorruptInputError) -/
def b64dec (s : String) : Option Bytes := b64decL s.toList

/-! ## fmt.Sprintf("%v") on decoded YAML values -/

mutual
def fmtV : Val → String
  | .sc s => s.text
  | .arr xs => "[" ++ fmtVList xs ++ "]"
  | .obj kvs => "map[" ++ fmtVKvs kvs ++ "]"
def fmtVList : List Val → String
  | [] => ""
  | [x] => fmtV x
  | x :: y :: xs => fmtV x ++ " " ++ fmtVList (y :: xs)
def fmtVKvs : List (String × Val) → String
  | [] => ""
  | [(k, x)] => k ++ ":" ++ fmtV x
  | (k, x) :: q :: xs => k ++ ":" ++ fmtV x ++ " " ++ fmtVKvs (q :: xs)
end

/-! ## manifest -/

structure Manifest where
  doc : AMap Val
  str : AMap String
  bin : AMap Bytes
  bk : String
  tk : String
  deriving Inhabited, DecidableEq

def keyData : String := "data"
def keyStringData : String := "stringData"
def keyBinaryData : String := "binaryData"

def strVal (s : String) : Val := .sc ⟨"string", s⟩

/-- `k.doc[key].(map[string]interface{})` -/
def sectionOf (doc : AMap Val) (key : String) : Option (List (String × Val)) :=
  match AMap.get? doc key with
  | some (.obj kvs) => some kvs
  | _ => none

def loadBin : List (String × Val) → Outcome (AMap Bytes)
  | [] => .ok []
  | (k, v) :: rest =>
    match v with
    | .sc s =>
      if s.ty = "string" then
        match b64dec s.text with
        | none => .err                                  -- base64 error
        | some bs =>
          match loadBin rest with
          | .ok m => .ok (AMap.insert m k bs)
          | .err => .err
          | .panic => .panic
      else .err                                         -- "value of … is not a string"
    | _ => .err

def afterLoadBinary (doc : AMap Val) (bk : String) : Outcome (AMap Bytes) :=
  match sectionOf doc bk with
  | some kvs => loadBin kvs
  | none => .ok []

def loadStr : List (String × Val) → AMap String
  | [] => []
  | (k, v) :: rest => AMap.insert (loadStr rest) k (fmtV v)

def afterLoadString (doc : AMap Val) (tk : String) : AMap String :=
  match sectionOf doc tk with
  | some kvs => loadStr kvs
  | none => []

/-- kind dispatch of ManifestFromBytes: (binary key, text key) -/
def kindKeys (doc : AMap Val) : Outcome (String × String) :=
  match AMap.get? doc "kind" with
  | none => .err                                        -- errKindMissing
  | some (.sc s) =>
    if s.ty = "string" then
      if s.text = "Secret" then .ok (keyData, keyStringData)
      else if s.text = "ConfigMap" then .ok (keyBinaryData, keyData)
      else .err                                         -- unsupported manifest kind
    else .err                                           -- 'kind' element is not a string
  | some _ => .err

/-- ManifestFromBytes on the decoded document.  A YAML stream whose root is not a mapping
    makes yaml.Unmarshal fail; an empty / null stream leaves `doc` nil, i.e. no `kind`. -/
def load : Val → Outcome Manifest
  | .obj doc =>
    match kindKeys doc with
    | .ok (bk, tk) =>
      match afterLoadBinary doc bk with
      | .ok bin => .ok ⟨doc, afterLoadString doc tk, bin, bk, tk⟩
      | .err => .err
      | .panic => .panic
    | .err => .err
    | .panic => .panic
  | _ => .err

def beforeSaveBinary (doc : AMap Val) (bin : AMap Bytes) (key : String) : AMap Val :=
  if bin.isEmpty then AMap.erase doc key
  else AMap.insert doc key (.obj (bin.map (fun p => (p.1, strVal (b64enc p.2)))))

def beforeSaveString (doc : AMap Val) (str : AMap String) (key : String) : AMap Val :=
  if str.isEmpty then AMap.erase doc key
  else AMap.insert doc key (.obj (str.map (fun p => (p.1, strVal p.2))))

/-- dataHandler.beforeSave: the manifest's own `doc` is rewritten -/
def beforeSave (m : Manifest) : Manifest :=
  { m with doc := beforeSaveString (beforeSaveBinary m.doc m.bin m.bk) m.str m.tk }

/-- WriteTo: the mutated manifest and the value handed to the YAML encoder -/
def writeTo (m : Manifest) : Manifest × Val :=
  let m' := beforeSave m
  (m', .obj m'.doc)

/-! ### data facades -/

def strGet (m : Manifest) (k : String) : Option String := AMap.get? m.str k
def strList (m : Manifest) : List String := m.str.keys
def strUpdate (m : Manifest) (k v : String) : Manifest := { m with str := AMap.insert m.str k v }
def strRemove (m : Manifest) (k : String) : Manifest := { m with str := AMap.erase m.str k }
def binGet (m : Manifest) (k : String) : Option Bytes := AMap.get? m.bin k
def binList (m : Manifest) : List String := m.bin.keys
def binUpdate (m : Manifest) (k : String) (v : Bytes) : Manifest := { m with bin := AMap.insert m.bin k v }
def binRemove (m : Manifest) (k : String) : Manifest := { m with bin := AMap.erase m.bin k }

inductive Edit where
  | strUpdate (k v : String)
  | strRemove (k : String)
  | binUpdate (k : String) (v : Bytes)
  | binRemove (k : String)

def applyEdit (m : Manifest) : Edit → Manifest
  | .strUpdate k v => strUpdate m k v
  | .strRemove k => strRemove m k
  | .binUpdate k v => binUpdate m k v
  | .binRemove k => binRemove m k

def applyEdits (m : Manifest) (es : List Edit) : Manifest := es.foldl applyEdit m

/-! ## embedded documents -/

/-- the text codec of an embedded document (dom Serialize ∘ encoder, decoder ∘ FromMap):
    external, `none` = error -/
structure Codec where
  enc : Node → Option String
  dec : String → Option Node

/-- DecodeEmbeddedDoc(item, dec) -/
def decodeEmbeddedDoc (c : Codec) (item : String) (m : Manifest) : Outcome Node :=
  match strGet m item with
  | some e =>
    match c.dec e with
    | some cb => .ok cb
    | none => .err
  | none => .ok (.cont [])

/-- EncodeEmbeddedDoc(item, enc) -/
def encodeEmbeddedDoc (c : Codec) (item : String) (m : Manifest) (node : Node) : Outcome Manifest :=
  match c.enc node with
  | none => .err
  | some t => .ok (strUpdate m item t)

/-- DecodeEmbeddedProps: AddValueAt for every string item, keys sorted -/
def decodeEmbeddedProps (m : Manifest) : Node :=
  .cont (m.str.foldl (fun c p => addValueAt c p.1 (.leaf ⟨"string", p.2⟩)) [])

/-- EncodeEmbeddedProps: items that are no longer flattened keys are removed, then every
    flattened leaf is written with %v -/
def encodeEmbeddedProps (m : Manifest) (node : Node) : Manifest :=
  let fl : AMap Scalar := match node with
    | .cont kvs => flattenMap kvs
    | _ => []
  let m1 := (strList m).foldl (fun m k => if (AMap.get? fl k).isSome then m else strRemove m k) m
  fl.foldl (fun m p => strUpdate m p.1 p.2.text) m1

inductive Mode where
  | text (c : Codec) (item : String)     -- YamlDoc / JsonDoc
  | props                                -- Properties

/-- k8s.doc (the file is represented by what was last written to it) -/
structure Doc where
  cb : Node
  m : Manifest

def decodeWith (mode : Mode) (m : Manifest) : Outcome Node :=
  match mode with
  | .text c item => decodeEmbeddedDoc c item m
  | .props => .ok (decodeEmbeddedProps m)

def encodeWith (mode : Mode) (m : Manifest) (node : Node) : Outcome Manifest :=
  match mode with
  | .text c item => encodeEmbeddedDoc c item m node
  | .props => .ok (encodeEmbeddedProps m node)

/-- builderImpl.Open on a file holding (the YAML text of) `file` -/
def openDoc (mode : Mode) (file : Val) : Outcome Doc :=
  match load file with
  | .ok m =>
    match decodeWith mode m with
    | .ok cb => .ok ⟨cb, m⟩
    | .err => .err
    | .panic => .panic
  | .err => .err
  | .panic => .panic

/-- doc.Save: encode into the manifest, then WriteTo the (truncated) file.
    Result: the document afterwards and the new file content. -/
def docSave (mode : Mode) (d : Doc) : Outcome (Doc × Val) :=
  match encodeWith mode d.m d.cb with
  | .ok m1 =>
    let r := writeTo m1
    .ok (⟨d.cb, r.1⟩, r.2)
  | .err => .err
  | .panic => .panic

/-- the initial manifest written by builderImpl.Create -/
def createInit (kind name ns : String) : Val :=
  let base : List (String × Val) :=
    [("kind", strVal kind), ("apiVersion", strVal "v1"),
     ("metadata", .obj [("name", strVal name), ("namespace", strVal ns)]),
     (keyData, .obj [])]
  let all := if kind = "Secret" then ("type", strVal "Opaque") :: base else base
  .obj (AMap.ofList all)

end Ytk.K8s
