/-
  YtkModel.Heap — a heap-level (pointer / store-passing) model of the dom package's node graph,
  mirroring /repo/dom/{leaf,list,container,merge,overlay}.go at HEAD.

  The value-level model (`Node` trees, YtkModel/{Equal,Merge}.lean) cannot speak about pointer
  identity.  Here a document is a ROOT ADDRESS in a `Heap`:

    * `Addr = Nat`, a `Heap` is a list of `Cell`s, the address of a cell is its index;
    * allocation APPENDS a cell, so "fresh" means `address ≥ old size` and "no existing cell
      was written" means "the old heap is a prefix of the new one" (`Heap.le`);
    * address 0 (`nilAddr`) is the package-level shared `nilLeaf` (`dom/container.go:32`);
    * a container cell is the `*containerImpl` TOGETHER WITH its `children` map, a list cell is
      the `*listImpl` together with its `items` slice (one mutable unit each), a leaf cell is
      the immutable `*leaf`.

  What the Go code does, statement by statement (facts the model mirrors):

    * `leaf.Clone`           `&leaf{value: l.value}`: a NEW leaf object — also for the nil leaf
                             (the clone of `nilLeaf` is a fresh leaf holding nil, NOT `nilLeaf`).
    * `listImpl.Clone`       new `listBuilderImpl`, every item `.Clone()`d.
    * `containerImpl.Clone`  new `containerBuilderImpl` with a new map, every child `.Clone()`d.
                             Hence a clone shares NO node object with its original, not even
                             leaves; a node that occurs twice in the original (DAG) is cloned
                             twice (the clone is always a tree).
    * `mergeContainers`      new map + new `containerBuilderImpl`; children present on one side
                             only are stored AS THEY ARE (shared with that input); for a common
                             key: container/container → recursive merge (fresh), list/list →
                             `listMergeFn` (fresh list), otherwise `coalesce(n, v)`.
    * `coalesce(n, v)`       returns `v` itself if `hasValue(v)`, else `n` itself if
                             `hasValue(n)`, else the shared `nilLeaf` — never allocates.
    * `hasValue(n)`          false for `n == nilLeaf` (pointer test) and for every leaf whose
                             value is nil; true for every container and list (even empty ones).
    * `mergeListsAppend`     new list holding the ITEMS of l1 then l2 as they are (shared).
    * `mergeListsMeld`       new list; common positions: container/container → mergeContainers,
                             list/list → listMergeFn, otherwise coalesce; the tail of the longer
                             list through `firstValidListItem` — the existing item (shared).
    * `mergeOverlay`         fold of mergeContainers over the layers starting from a new empty
                             container.
    * builder mutators       `AddValue/AddContainer/AddList/Remove` write the one container
                             cell they are called on (AddContainer/AddList also allocate the new
                             child); `Set/Append/Clear` write the one list cell (`Set` pads with
                             the shared `nilLeaf`).  Modelled for plain member names (names that
                             do not end in an index group `[digits]`; those are routed through
                             `ensureList`, which the value-level model covers).

  Allocation ORDER is not observable through the API (there is no address comparison), so the
  model allocates a cell when its final content is known (children first, parent last), while
  the Go code allocates the parent object first and fills it while it is still unreachable for
  everybody else.  Go map iteration order only permutes the fresh addresses.

  All functions are total, by structural recursion on an explicit fuel (`Heap.size` is always
  enough on an acyclic heap, see YtkProofs/Heap.lean); `none` = fuel exhausted (cyclic graph) or a
  dangling address.  Core-only: this file is linked into the native driver.
-/
import YtkModel.Equal
import YtkModel.Merge

namespace Ytk.Heap

abbrev Addr := Nat

inductive Cell where
  | leaf (s : Scalar)
  | list (items : List Addr)
  | cont (kvs : AMap Addr)
  deriving Repr, Inhabited, DecidableEq

namespace Cell
/-- addresses stored in a cell -/
def kids : Cell → List Addr
  | .leaf _ => []
  | .list xs => xs
  | .cont kvs => kvs.map (·.2)

def isLeaf : Cell → Bool | .leaf _ => true | _ => false
def isList : Cell → Bool | .list _ => true | _ => false
def isCont : Cell → Bool | .cont _ => true | _ => false
end Cell

structure Heap where
  cells : List Cell
  deriving Repr, Inhabited, DecidableEq

/-- the address of the package-level `nilLeaf` -/
def nilAddr : Addr := 0

namespace Heap

/-- the heap of a freshly initialised package: only `nilLeaf = LeafNode(nil)` exists -/
def init : Heap := ⟨[.leaf Scalar.null]⟩

def size (h : Heap) : Nat := h.cells.length

def get? (h : Heap) (a : Addr) : Option Cell := h.cells[a]?

/-- `&T{…}`: append a cell; its address is the old size -/
def alloc (h : Heap) (c : Cell) : Heap × Addr := (⟨h.cells ++ [c]⟩, h.cells.length)

/-- in-place write of one existing cell (no-op when `a` is out of range) -/
def write (h : Heap) (a : Addr) (c : Cell) : Heap := ⟨h.cells.set a c⟩

/-- `h` is a prefix of `h'`: `h'` was obtained by allocations only, no existing cell written -/
def le (h h' : Heap) : Prop := ∃ ext, h'.cells = h.cells ++ ext

instance : LE Heap := ⟨le⟩

/-- address 0 holds the nil leaf -/
def NilOk (h : Heap) : Prop := h.get? nilAddr = some (.leaf Scalar.null)

/-- every address stored in a cell is in range -/
def Closed (h : Heap) : Prop := ∀ a c, h.get? a = some c → ∀ k ∈ c.kids, k < h.size

/-- acyclic: some rank strictly decreases along every parent → child edge -/
def RankedBy (h : Heap) (rank : Addr → Nat) : Prop :=
  ∀ a c, h.get? a = some c → ∀ k ∈ c.kids, rank k < rank a

def Acyclic (h : Heap) : Prop := ∃ rank, h.RankedBy rank

end Heap

/-- reachability: reflexive-transitive closure of the parent → child edge -/
inductive Reach (h : Heap) : Addr → Addr → Prop
  | refl (a : Addr) : Reach h a a
  | step {a k b : Addr} {c : Cell} : h.get? a = some c → k ∈ c.kids → Reach h k b → Reach h a b

/-! ## Threading a heap transformer over the children of a cell -/

/-- run `g` on every address of a list, left to right, threading the heap -/
def mapAddrs (g : Heap → Addr → Option (Heap × Addr)) : Heap → List Addr → Option (Heap × List Addr)
  | h, [] => some (h, [])
  | h, x :: xs =>
    match g h x with
    | none => none
    | some (h1, y) =>
      match mapAddrs g h1 xs with
      | none => none
      | some (h2, ys) => some (h2, y :: ys)

/-- run `g` on every value of a children map (key order), threading the heap -/
def mapKvs (g : Heap → Addr → Option (Heap × Addr)) :
    Heap → List (String × Addr) → Option (Heap × List (String × Addr))
  | h, [] => some (h, [])
  | h, (k, x) :: xs =>
    match g h x with
    | none => none
    | some (h1, y) =>
      match mapKvs g h1 xs with
      | none => none
      | some (h2, ys) => some (h2, (k, y) :: ys)

/-! ## Clone -/

/-- `Node.Clone()` on the node at address `a`: the new heap and the address of the clone -/
def cloneF : Nat → Heap → Addr → Option (Heap × Addr)
  | 0, _, _ => none
  | f + 1, h, a =>
    match h.get? a with
    | none => none
    | some (.leaf s) => some (h.alloc (.leaf s))            -- &leaf{value: l.value}
    | some (.list xs) =>                                     -- l2.items = append(l2.items, item.Clone())
      match mapAddrs (cloneF f) h xs with
      | none => none
      | some (h1, ys) => some (h1.alloc (.list ys))
    | some (.cont kvs) =>                                    -- c2.children[k] = v.Clone()
      match mapKvs (cloneF f) h kvs with
      | none => none
      | some (h1, kvs') => some (h1.alloc (.cont kvs'))

def clone (h : Heap) (a : Addr) : Option (Heap × Addr) := cloneF h.size h a

/-! ## Abstraction to the value-level `Node`, reachable addresses -/

def optMapM (g : Addr → Option Node) : List Addr → Option (List Node)
  | [] => some []
  | x :: xs =>
    match g x with
    | none => none
    | some n =>
      match optMapM g xs with
      | none => none
      | some ns => some (n :: ns)

def optMapKvs (g : Addr → Option Node) : List (String × Addr) → Option (List (String × Node))
  | [] => some []
  | (k, x) :: xs =>
    match g x with
    | none => none
    | some n =>
      match optMapKvs g xs with
      | none => none
      | some ns => some ((k, n) :: ns)

/-- the document (value-level tree) rooted at `a`; `none` on a dangling address or when the
    graph below `a` is deeper than the fuel (in particular when it is cyclic) -/
def absH : Nat → Heap → Addr → Option Node
  | 0, _, _ => none
  | f + 1, h, a =>
    match h.get? a with
    | none => none
    | some (.leaf s) => some (.leaf s)
    | some (.list xs) =>
      match optMapM (absH f h) xs with
      | none => none
      | some ns => some (.list ns)
    | some (.cont kvs) =>
      match optMapKvs (absH f h) kvs with
      | none => none
      | some m => some (.cont m)

def abs (h : Heap) (a : Addr) : Option Node := absH h.size h a

/-- addresses of the cells reachable from `a` (with repetitions; preorder) -/
def reachF : Nat → Heap → Addr → List Addr
  | 0, _, a => [a]
  | f + 1, h, a =>
    a :: (match h.get? a with
      | some c => c.kids.flatMap (reachF f h)
      | none => [])

def reach (h : Heap) (a : Addr) : List Addr := reachF h.size h a

/-- follow member names through container cells (`c.Child(k1).Child(k2)…` on plain names) -/
def lookupKeys (h : Heap) : Addr → List String → Option Addr
  | a, [] => some a
  | a, k :: ks =>
    match h.get? a with
    | some (.cont kvs) =>
      match AMap.get? kvs k with
      | some c => lookupKeys h c ks
      | none => none
    | _ => none

/-- every children map is a Go map: keys strictly sorted, hence unique -/
def Heap.MapsOk (h : Heap) : Prop := ∀ a kvs, h.get? a = some (.cont kvs) → AMap.Sorted kvs

/-! ## Merge -/

/-- hasValue(n): `n == nilLeaf` is a pointer test, `Value() == nil` a content test -/
def hasValueH (h : Heap) (a : Addr) : Bool :=
  if a = nilAddr then false
  else match h.get? a with
    | some (.leaf s) => !(s == Scalar.null)
    | some _ => true
    | none => false

/-- coalesce(n, v): an EXISTING node (or the shared nil leaf) is returned, nothing is allocated -/
def coalesceH (h : Heap) (n v : Addr) : Addr :=
  if hasValueH h v then v else if hasValueH h n then n else nilAddr

/-- firstValidListItem(idx, l1, l2) on the item slices: the existing item -/
def firstValidListItemH (i : Nat) (lists : List (List Addr)) : Addr :=
  match lists.find? (fun l => decide (i < l.length)) with
  | some l => l.getD i nilAddr
  | none => nilAddr

/-- the body of mergeContainers' second loop: fold c2's children into the accumulated map -/
def foldKvs (g : Heap → Addr → Addr → Option (Heap × Addr)) :
    Heap → AMap Addr → List (String × Addr) → Option (Heap × AMap Addr)
  | h, acc, [] => some (h, acc)
  | h, acc, (k, v) :: rest =>
    match AMap.get? acc k with
    | none => foldKvs g h (AMap.insert acc k v) rest                -- merged[k] = v
    | some n =>
      match g h n v with
      | none => none
      | some (h1, r) => foldKvs g h1 (AMap.insert acc k r) rest     -- merged[k] = merge(n, v)

/-- mergeListsMeld on the item slices: pairwise over the common prefix (`g`), then the tail of
    the longer list as it is (firstValidListItem) -/
def meldItems (g : Heap → Addr → Addr → Option (Heap × Addr)) :
    Heap → List Addr → List Addr → Option (Heap × List Addr)
  | h, xs, [] => some (h, xs)
  | h, [], y :: ys => some (h, y :: ys)
  | h, x :: xs, y :: ys =>
    match g h x y with
    | none => none
    | some (h1, r) =>
      match meldItems g h1 xs ys with
      | none => none
      | some (h2, rs) => some (h2, r :: rs)

/-- the three-way dispatch for a key / list position present on both sides (`n` = left/accumulated
    node, `v` = right node): container+container → mergeContainers (new container), list+list →
    listMergeFn (new list), otherwise coalesce (existing node) -/
def mergeNodeF (o : ListStrategy) : Nat → Heap → Addr → Addr → Option (Heap × Addr)
  | 0, _, _, _ => none
  | f + 1, h, n, v =>
    match h.get? n, h.get? v with
    | some (.cont ka), some (.cont kb) =>
      match foldKvs (mergeNodeF o f) h ka kb with
      | none => none
      | some (h1, m) => some (h1.alloc (.cont m))
    | some (.list xs), some (.list ys) =>
      match o with
      | .append => some (h.alloc (.list (xs ++ ys)))
      | .meld =>
        match meldItems (mergeNodeF o f) h xs ys with
        | none => none
        | some (h1, zs) => some (h1.alloc (.list zs))
    | some _, some _ => some (h, coalesceH h n v)
    | _, _ => none

/-- merger.mergeContainers(c1, c2) / ContainerBuilder.Merge: both addresses must hold containers
    (guaranteed by Go's static types) -/
def mergeContainersF (o : ListStrategy) (f : Nat) (h : Heap) (c1 c2 : Addr) : Option (Heap × Addr) :=
  match h.get? c1, h.get? c2 with
  | some (.cont _), some (.cont _) => mergeNodeF o f h c1 c2
  | _, _ => none

def mergeContainers (o : ListStrategy) (h : Heap) (c1 c2 : Addr) : Option (Heap × Addr) :=
  mergeContainersF o h.size h c1 c2

/-- merger.mergeOverlay: `merged = &containerBuilderImpl{}`, then
    `merged = mergeContainers(merged, layer)` for every layer in order -/
def mergeAllF (o : ListStrategy) (f : Nat) : Heap → Addr → List Addr → Option (Heap × Addr)
  | h, acc, [] => some (h, acc)
  | h, acc, l :: ls =>
    match mergeContainersF o f h acc l with
    | none => none
    | some (h1, acc1) => mergeAllF o f h1 acc1 ls

def mergeAll (o : ListStrategy) (h : Heap) (layers : List Addr) : Option (Heap × Addr) :=
  let (h0, e) := h.alloc (.cont [])
  mergeAllF o h0.size h0 e layers

/-! ## Builder mutators: in-place writes to ONE cell (plain member names) -/

/-- `c.AddValue(name, v)` — `c.children[name] = v` -/
def addValue (h : Heap) (c : Addr) (name : String) (v : Addr) : Option Heap :=
  match h.get? c with
  | some (.cont kvs) => some (h.write c (.cont (AMap.insert kvs name v)))
  | _ => none

/-- `c.AddContainer(name)` — allocate an empty container, store it under `name` -/
def addContainer (h : Heap) (c : Addr) (name : String) : Option (Heap × Addr) :=
  match h.get? c with
  | some (.cont kvs) =>
    let (h1, b) := h.alloc (.cont [])
    some (h1.write c (.cont (AMap.insert kvs name b)), b)
  | _ => none

/-- `c.AddList(name)` -/
def addList (h : Heap) (c : Addr) (name : String) : Option (Heap × Addr) :=
  match h.get? c with
  | some (.cont kvs) =>
    let (h1, b) := h.alloc (.list [])
    some (h1.write c (.cont (AMap.insert kvs name b)), b)
  | _ => none

/-- `c.Remove(name)` — `delete(c.children, name)` -/
def remove (h : Heap) (c : Addr) (name : String) : Option Heap :=
  match h.get? c with
  | some (.cont kvs) => some (h.write c (.cont (AMap.erase kvs name)))
  | _ => none

/-- `l.Set(idx, v)` — pad with the shared nil leaf up to `idx`, then `l.items[idx] = v` -/
def listSet (h : Heap) (l : Addr) (idx : Nat) (v : Addr) : Option Heap :=
  match h.get? l with
  | some (.list xs) =>
    some (h.write l (.list ((xs ++ List.replicate (idx + 1 - xs.length) nilAddr).set idx v)))
  | _ => none

/-- `l.Append(v)` -/
def listAppend (h : Heap) (l : Addr) (v : Addr) : Option Heap :=
  match h.get? l with
  | some (.list xs) => some (h.write l (.list (xs ++ [v])))
  | _ => none

/-- `l.Clear()` -/
def listClear (h : Heap) (l : Addr) : Option Heap :=
  match h.get? l with
  | some (.list _) => some (h.write l (.list []))
  | _ => none

/-- `dom.LeafNode(v)` -/
def newLeaf (h : Heap) (s : Scalar) : Heap × Addr := h.alloc (.leaf s)

/-! ### A sequence of builder calls as data -/

/-- one call of a builder mutator on the cell at `Op.target` (the `…Leaf` forms first create the
    value with `dom.LeafNode(s)`) -/
inductive Op where
  | addValue (c : Addr) (name : String) (v : Addr)
  | addLeaf (c : Addr) (name : String) (s : Scalar)
  | addContainer (c : Addr) (name : String)
  | addList (c : Addr) (name : String)
  | remove (c : Addr) (name : String)
  | listSet (l : Addr) (idx : Nat) (v : Addr)
  | listSetLeaf (l : Addr) (idx : Nat) (s : Scalar)
  | listAppend (l : Addr) (v : Addr)
  | listAppendLeaf (l : Addr) (s : Scalar)
  | listClear (l : Addr)
  deriving Repr, DecidableEq

/-- the one existing cell the call writes -/
def Op.target : Op → Addr
  | .addValue c _ _ | .addLeaf c _ _ | .addContainer c _ | .addList c _ | .remove c _ => c
  | .listSet l _ _ | .listSetLeaf l _ _ | .listAppend l _ | .listAppendLeaf l _ | .listClear l => l

def applyOp (h : Heap) : Op → Option Heap
  | .addValue c name v => addValue h c name v
  | .addLeaf c name s => let (h1, l) := newLeaf h s; addValue h1 c name l
  | .addContainer c name => (addContainer h c name).map (·.1)
  | .addList c name => (addList h c name).map (·.1)
  | .remove c name => remove h c name
  | .listSet l idx v => listSet h l idx v
  | .listSetLeaf l idx s => let (h1, v) := newLeaf h s; listSet h1 l idx v
  | .listAppend l v => listAppend h l v
  | .listAppendLeaf l s => let (h1, v) := newLeaf h s; listAppend h1 l v
  | .listClear l => listClear h l

def applyOps : Heap → List Op → Option Heap
  | h, [] => some h
  | h, op :: ops =>
    match applyOp h op with
    | none => none
    | some h1 => applyOps h1 ops

/-! ## Building a heap from a tree (deterministic allocation order: children first, key order) -/

mutual
/-- allocate the tree `n` as fresh cells (every leaf its own cell) -/
def build : Heap → Node → Heap × Addr
  | h, .leaf s => h.alloc (.leaf s)
  | h, .list xs => let (h1, as) := buildList h xs; h1.alloc (.list as)
  | h, .cont kvs => let (h1, m) := buildKvs h kvs; h1.alloc (.cont m)
def buildList : Heap → List Node → Heap × List Addr
  | h, [] => (h, [])
  | h, x :: xs =>
    let (h1, a) := build h x
    let (h2, as) := buildList h1 xs
    (h2, a :: as)
def buildKvs : Heap → List (String × Node) → Heap × List (String × Addr)
  | h, [] => (h, [])
  | h, (k, x) :: xs =>
    let (h1, a) := build h x
    let (h2, as) := buildKvs h1 xs
    (h2, (k, a) :: as)
end

end Ytk.Heap
