/-
  YtkModel.DecisionsDocSet — the decision tables of the document-set model (analytics/document_set.go),
  part of the second batch (see YtkModel/Decisions2.lean, which imports this file).  Its own file so
  that YtkProps/C18.lean can import it alone: the overlay model's `Ytk.Overlay` would otherwise shadow
  `DocSet.Overlay` inside `namespace Ytk.C18`.
-/
import YtkModel.TableTypes2
import YtkModel.DocSet

/-! ## analytics/document_set.go: addContext, applyOpts, the option constructors -/
namespace Ytk.DocSet
open Ytk.TableT

/-- the statements of documentSet.addContext after the lookup -/
inductive AddStep | callMergeFn | checkErr | setDoc | store | appendName | returnNil
  deriving DecidableEq, Repr, Inhabited

def AddStep.goText : AddStep → String
  | .callMergeFn => "v2:=arg2.mergeFn(v0,arg1)"
  | .checkErr => "if v2!=nil{return v2}"
  | .setDoc => "arg2.doc=arg1"
  | .store => "recv.ctxMap[arg0]=arg2"
  | .appendName => "recv.names=append(recv.names,arg0)"
  | .returnNil => "return nil"

/-- the re-add decision: existing name with a merge function / existing name without / new name -/
def addArms : List (String × List AddStep) :=
  [("v1&&arg2.mergeFn!=nil", [.callMergeFn, .checkErr, .store, .returnNil]),
   ("v1&&otherwise", [.setDoc, .store, .returnNil]),
   ("otherwise", [.setDoc, .store, .appendName, .returnNil])]

def addArmsNamed : List CondArm := addArms.map fun a => ⟨a.1, a.2.map AddStep.goText⟩

def addLookupM : String := "v0,v1:=recv.ctxMap[arg0]"

/-- interpreter state: the set, the context being added (`arg2`), the error of the merge function
    (`v2`), and what was returned (`some true` = an error) -/
structure AddSt (δ : Type) where
  s : State δ
  ctx : Ctx δ
  mergeErr : Bool
  ret : Option Bool

/-- one statement of addContext; nothing runs after a return -/
def AddStep.run {δ : Type} (name : String) (doc : δ) (existing : Option (Ctx δ)) (st : AddSt δ) : AddStep → AddSt δ
  | step =>
    if st.ret.isSome then st else
    match step with
    | .callMergeFn =>
      match st.ctx.mergeFn, existing with
      | .mustCreate, _ => { st with mergeErr := true }
      | .mergeTags, some ex =>
        { st with ctx := { st.ctx with
            tags := unique (st.ctx.tags ++ ex.tags),
            doc := match st.ctx.doc with
              | none => ex.doc
              | some d => some d } }
      | _, _ => st
    | .checkErr => if st.mergeErr then { st with ret := some true } else st
    | .setDoc => { st with ctx := { st.ctx with doc := some doc } }
    | .store => { st with s := { st.s with ctxMap := AMap.insert st.s.ctxMap name st.ctx } }
    | .appendName => { st with s := { st.s with names := st.s.names ++ [name] } }
    | .returnNil => { st with ret := some false }

/-- which arm of `addArms` is taken -/
def addArmOf {δ : Type} (existing : Option (Ctx δ)) (newCtx : Ctx δ) : String :=
  match existing with
  | some _ => if newCtx.mergeFn = .none then "v1&&otherwise" else "v1&&arg2.mergeFn!=nil"
  | none => "otherwise"

/-- `addContext`, table-driven: look the name up, pick the arm, run its statements -/
def addContextT {δ : Type} (s : State δ) (name : String) (doc : δ) (newCtx : Ctx δ) : State δ × Bool :=
  let existing := AMap.get? s.ctxMap name
  let steps := (addArms.lookup (addArmOf existing newCtx)).getD []
  let fin := steps.foldl (fun st step => step.run name doc existing st) (⟨s, newCtx, false, none⟩ : AddSt δ)
  (fin.s, fin.ret.getD false)

/-- applyOpts: the default options first, then the caller's, on the context handed in — which
    newContext creates empty -/
def applyOptsStepsM : List String :=
  ["for _,v0 in defaultOpts{v0(recv,arg0,arg1)}", "for _,v1 in arg2{v1(recv,arg0,arg1)}", "return arg1"]

def newContextStepsM : List String := ["return recv.applyOpts(arg0,&docContext{},arg1...)"]

/-- constructor name and (comma-joined) string arguments of an option -/
def Opt.sig : Opt → String × String
  | .withTags ts => ("WithTags", ",".intercalate ts)
  | .mergeTags => ("MergeTags", "")
  | .mustCreate => ("MustCreate", "")

/-- what each option constructor does to the context under construction (`own`); a closure stored in
    `own.mergeFn` is later called by addContext with the EXISTING context as `other`:
    MergeTags unions the tags (own first) and keeps the existing document unless own already has one —
    it never looks at the new document; MustCreate fails; WithTags appends its tags -/
def optionTable : List (String × List String) :=
  [("MergeTags", ["own.mergeFn:own.tags=utils.Unique(append(own.tags,other.tags...))",
                  "own.mergeFn:if own.doc==nil{own.doc=other.doc}", "own.mergeFn:return nil"]),
   ("MustCreate", ["own.mergeFn:return ErrLayerAlreadyExists"]),
   ("WithTags", ["own.tags=append(own.tags,arg0...)"])]

/-- the option constructor that installs a merge function -/
def MergeFn.ctor : MergeFn → Option String
  | .none => Option.none
  | .mergeTags => some "MergeTags"
  | .mustCreate => some "MustCreate"

/-- the closure an option constructor stores in `own.mergeFn`, RUN FROM its statement list: own context
    and existing context (`other`) ↦ own context afterwards, and whether an error is returned -/
def mergeFnBy {δ : Type} (steps : List String) (own other : Ctx δ) : Ctx δ × Bool :=
  let tags := if steps.contains "own.mergeFn:own.tags=utils.Unique(append(own.tags,other.tags...))"
    then unique (own.tags ++ other.tags) else own.tags
  let doc := if steps.contains "own.mergeFn:if own.doc==nil{own.doc=other.doc}"
    then (match own.doc with
          | none => other.doc
          | some d => some d)
    else own.doc
  ({ own with tags := tags, doc := doc }, steps.contains "own.mergeFn:return ErrLayerAlreadyExists")

/-- re-adding an existing name with a merge function, driven by an option table: run the closure of the
    constructor that installed it; an error leaves the set alone, otherwise the context replaces the
    stored one -/
def reAddBy {δ : Type} (opts : List (String × List String)) (s : State δ) (name : String) (newCtx ex : Ctx δ)
    (ctor : String) : State δ × Bool :=
  let r := mergeFnBy ((opts.lookup ctor).getD []) newCtx ex
  if r.2 then (s, true) else ({ s with ctxMap := AMap.insert s.ctxMap name r.1 }, false)

end Ytk.DocSet
