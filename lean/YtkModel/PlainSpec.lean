/-
  YtkModel.PlainSpec — the SPECIFICATION side of C03: "the same edits applied to a plain
  map/slice tree".

  A plain tree is a `Val` (`map[string]any` = `.obj`, `[]any` = `.arr`, scalar = `.sc`).
  A path is a list of STEPS (`PSeg.key k` = into a map by key, `PSeg.idx i` = into a list by
  index).  There is no path string, no splitting, no index-group parsing anywhere in this file:
  the only thing imported from the DOM model is the two-constructor type `PSeg`.

  Reading guide (every clause is one line):
  * `setAt`      write a value at a path.  A key step continues in the map that is there — if
                 there is no map (nothing, a scalar, a list) a new map takes its place;  an index
                 step continues in the list that is there — if there is no list (nothing, a
                 scalar, a map) a new list takes its place — padded with nulls up to the index.
  * `updAt f`    apply `f` to what is AT the path; nothing there: nothing happens.
  * `getAt`      what is at the path.
  * `specRemove` delete key `k` from the map at the parent path (a path ending in an index
                 removes nothing — the property's domain has remove paths end in a key).
  * list edits   `Set` (pad with null, overwrite), `Append`, `Clear`, `MustSet` (panic when out
                 of range) on the LIST found at the path; not a list: nothing happens.
  * `specCompact` drop empty maps bottom-up; lists are not entered (Walk(CompactFn)).
  * `specRun`    a history, stopping at the first panic.
-/
import YtkModel.Addr

namespace Ytk.Plain

/-- one step of a structured path -/
abbrev Step := PSeg

/-- the entries of the map that is there (no map there: none) -/
def members : Option Val → AMap Val
  | some (.obj m) => m
  | _ => []

/-- the items of the list that is there (no list there: none) -/
def items : Option Val → List Val
  | some (.arr xs) => xs
  | _ => []

/-- pad with nulls up to length `n` -/
def padNull (xs : List Val) (n : Nat) : List Val := xs ++ List.replicate (n - xs.length) Val.null

/-- write `v` at path `p` below what is there now (`none`: nothing is there) -/
def setAt : Option Val → List Step → Val → Val
  | _, [], v => v
  | cur, .key k :: r, v => .obj (AMap.insert (members cur) k (setAt (AMap.get? (members cur) k) r v))
  | cur, .idx i :: r, v =>
    .arr ((padNull (items cur) (i + 1)).set i (setAt (padNull (items cur) (i + 1))[i]? r v))

/-- apply `f` to what is at path `p`; nothing there: unchanged -/
def updAt (f : Val → Val) : Val → List Step → Val
  | t, [] => f t
  | .obj m, .key k :: r =>
    match AMap.get? m k with
    | some c => .obj (AMap.insert m k (updAt f c r))
    | none => .obj m
  | .arr xs, .idx i :: r =>
    match xs[i]? with
    | some c => .arr (xs.set i (updAt f c r))
    | none => .arr xs
  | t, _ :: _ => t

/-- what is at path `p` -/
def getAt : Val → List Step → Option Val
  | t, [] => some t
  | .obj m, .key k :: r =>
    match AMap.get? m k with
    | some c => getAt c r
    | none => none
  | .arr xs, .idx i :: r =>
    match xs[i]? with
    | some c => getAt c r
    | none => none
  | _, _ :: _ => none

def onObj (g : AMap Val → AMap Val) : Val → Val
  | .obj m => .obj (g m)
  | t => t

def onArr (g : List Val → List Val) : Val → Val
  | .arr xs => .arr (g xs)
  | t => t

/-- AddValue / AddValueAt / AddContainer / AddList -/
def specSet (t : Val) (p : List Step) (v : Val) : Val := setAt (some t) p v

/-- Remove / RemoveAt: delete the last key from the map at the parent path -/
def specRemove (t : Val) (p : List Step) : Val :=
  match p.getLast? with
  | some (.key k) => updAt (onObj fun m => AMap.erase m k) t p.dropLast
  | _ => t

/-- ListBuilder.Set / Append / Clear on the list at path `p` -/
def specListSet (t : Val) (p : List Step) (i : Nat) (v : Val) : Val :=
  updAt (onArr fun xs => (padNull xs (i + 1)).set i v) t p
def specListAppend (t : Val) (p : List Step) (v : Val) : Val := updAt (onArr fun xs => xs ++ [v]) t p
def specListClear (t : Val) (p : List Step) : Val := updAt (onArr fun _ => []) t p

/-- ListBuilder.MustSet: out of range panics -/
def specListMustSet (t : Val) (p : List Step) (i : Nat) (v : Val) : Outcome Val :=
  match getAt t p with
  | some (.arr xs) => if i < xs.length then .ok (updAt (onArr fun xs => xs.set i v) t p) else .panic
  | _ => .ok t

mutual
/-- Walk(CompactFn): empty maps are dropped bottom-up; lists are not entered -/
def specCompact : Val → Val
  | .sc v => .sc v
  | .arr xs => .arr xs
  | .obj m => .obj (specCompactKvs m)
def specCompactKvs : List (String × Val) → List (String × Val)
  | [] => []
  | (k, x) :: r =>
    match specCompact x with
    | .obj [] => specCompactKvs r
    | x' => (k, x') :: specCompactKvs r
end

/-- one edit of a plain tree -/
inductive SOp where
  | set (p : List Step) (v : Val)
  | remove (p : List Step)
  | listSet (p : List Step) (i : Nat) (v : Val)
  | listAppend (p : List Step) (v : Val)
  | listClear (p : List Step)
  | listMustSet (p : List Step) (i : Nat) (v : Val)
  | compact
  deriving Repr

def specStep (t : Val) : SOp → Outcome Val
  | .set p v => .ok (specSet t p v)
  | .remove p => .ok (specRemove t p)
  | .listSet p i v => .ok (specListSet t p i v)
  | .listAppend p v => .ok (specListAppend t p v)
  | .listClear p => .ok (specListClear t p)
  | .listMustSet p i v => specListMustSet t p i v
  | .compact => .ok (specCompact t)

/-- a history on a plain tree: stops at the first panic -/
def specRun : Val → List SOp → Outcome Val
  | t, [] => .ok t
  | t, op :: ops =>
    match specStep t op with
    | .ok t' => specRun t' ops
    | .err => .err
    | .panic => .panic

end Ytk.Plain
