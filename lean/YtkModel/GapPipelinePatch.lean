/-
  YtkModel.GapPipelinePatch — pipeline.PatchOp with its parameters instantiated by the patch package's
  model (C09): `patch.ParsePath` is `Ptr.parseS`, `patch.Do` is `Patch.patchDo` run on the root container
  `ctx.Data()`.

  `Patch.patchDo` works on a `Node` and returns an outcome (ok / err / panic); the pipeline op works on the
  root container's children and returns an error flag.  The root handed to patch.Do is the container
  `.cont data`; the new children are those of the resulting root (it stays a container — proved in
  YtkProofs/GapPipelinePatch.lean; the fallback branch below is never taken); the flag is "not ok".
-/
import YtkModel.PipelineData
import YtkModel.Patch

namespace Ytk.PD

/-- the `patch.OpObj` that PatchOp.Do fills in: Op, Path (always set), From (set when non-empty), Value -/
def c09Obj (c : PatchCall Ptr.Path) : Patch.OpObj := ⟨c.op, c.from_, some c.path, c.value⟩

/-- the children of a root container; `dflt` for a non-container -/
def rootKids (dflt : AMap Node) : Node → AMap Node
  | .cont d => d
  | _ => dflt

/-- `patch.Do(oo, ctx.Data())` as the pipeline sees it: new data, error flag -/
def c09PatchDo (c : PatchCall Ptr.Path) (data : AMap Node) : AMap Node × Bool :=
  let r := Patch.patchDo (c09Obj c) (.cont data)
  (rootKids data r.1, match r.2 with | .ok () => false | _ => true)

/-- PatchOp.Do over the patch package's model -/
def patchOpC09 (lenient : String → String) (ps : PatchSpec) (data : AMap Node) : AMap Node × Bool :=
  patchOp Ptr.parseS lenient c09PatchDo ps data

end Ytk.PD
