/-
  YtkModel.Addr — the other addressing schemes of C02 on top of the DOM model:
  props.ParsePath (props/path.go + utils.ParseListPathComponent), xform.PropPath2Pointer
  (xform/paths.go) and JSON-pointer evaluation (patch.Path.Eval) as used on flattened paths.

  Modelled fragment: components of the shape `name[i]…[j]` whose name carries no '[' / ']' —
  what Flatten produces for path-safe keys (the domain of C02).  On that fragment
  ParseListPathComponent(c) = (base, indices) exactly when `parseSeg c` finds index groups.
-/
import YtkModel.Dom

namespace Ytk

inductive PSeg where
  | key (s : String)
  | idx (n : Nat)
  deriving DecidableEq, Repr

/-- strings.TrimFunc(…, '.') after TrimSpace, on the characters (path-safe paths have no spaces) -/
def trimDots (cs : List Char) : List Char :=
  ((cs.dropWhile (· = '.')).reverse.dropWhile (· = '.')).reverse

def segOfComp (c : String) : List PSeg :=
  let (b, is) := parseSeg c
  match is with
  | [] => [.key c]
  | _ => .key b :: is.map .idx

/-- props.ParsePath -/
def propsParsePath (raw : String) : List PSeg :=
  ((splitDot (trimDots raw.toList)).map String.ofList).flatMap segOfComp

/-- xform.PropPath2Pointer: one reference token per segment -/
def pointerTokens (segs : List PSeg) : List String :=
  segs.map fun | .key s => s | .idx n => toString n

/-- PathSegment.IsNumeric on canonical tokens: all digits, non-empty -/
def tokenIndex (t : String) : Option Nat :=
  let cs := t.toList
  if cs ≠ [] ∧ cs.all isDigit then some (digitsToNat cs) else none

/-- patch.Path.Eval (final node only): members by name, list items by index -/
def evalTokens : Node → List String → Option Node
  | n, [] => some n
  | .list xs, t :: ts =>
    match tokenIndex t with
    | some i => match xs[i]? with
      | some x => evalTokens x ts
      | none => none
    | none => none
  | .cont kvs, t :: ts =>
    match child kvs t with
    | some x => evalTokens x ts
    | none => none
  | .leaf _, _ :: _ => none

/-- number of addressing steps of a flattened path: one per key and one per index -/
def stepCount (path : String) : Nat :=
  ((splitPath path).map fun c => 1 + (parseSeg c).2.length).sum

/-- rebuild: insert (path, leaf) pairs one by one with AddValueAt into an empty document -/
def rebuild (pairs : List (String × Scalar)) : AMap Node :=
  pairs.foldl (fun d p => addValueAt d p.1 (.leaf p.2)) []

end Ytk

namespace Ytk
mutual
/-- the scalars of a document in traversal order -/
def Node.leaves : Node → List Scalar
  | .leaf v => [v]
  | .list xs => Node.leavesList xs
  | .cont kvs => Node.leavesKvs kvs
def Node.leavesList : List Node → List Scalar
  | [] => []
  | x :: xs => Node.leaves x ++ Node.leavesList xs
def Node.leavesKvs : List (String × Node) → List Scalar
  | [] => []
  | (_, x) :: xs => Node.leaves x ++ Node.leavesKvs xs
end
end Ytk
