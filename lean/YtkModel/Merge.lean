/-
  YtkModel.Merge — executable model of dom/merge.go and of the helpers at the bottom of
  dom/overlay.go (hasValue, firstValidListItem), mirroring the code at /repo HEAD.

  * `hasValue`        — hasValue: false for the `nilLeaf` singleton and for every leaf whose
                        `Value()` is nil; in the value model both are "a leaf holding nil".
  * `coalesceList`    — coalesce(nodes...): reverse, first node with a value, else nilLeaf
  * `mergeNode`       — the three-way dispatch used for an existing key / a common list index:
                        container+container → mergeContainers, list+list → listMergeFn,
                        otherwise coalesce(n, v)
  * `mergeKvs`        — merger.mergeContainers: copy c1's children, fold c2's children in
  * `mergeList`       — merger.listMergeFn under the two strategies
  * `meldList`        — merger.mergeListsMeld (nested lists go through listMergeFn again)
  * `appendList`      — mergeListsAppend
  * `firstValidListItem`
  * `mergeAll`        — merger.mergeOverlay: fold mergeContainers over the layers from `{}`

  All recursion is structural on the SECOND document (c2's children / l2's items); the first
  one is looked up, exactly as the Go code does (`merged[k]`, `l1.Items()[i]`).
-/
import YtkModel.Dom

namespace Ytk

/-- the list strategy selected by the merge options: default (meld) or ListsMergeAppend -/
inductive ListStrategy where
  | meld
  | append
  deriving DecidableEq, Repr, Inhabited

/-- hasValue(n) for a non-nil node -/
def hasValue : Node → Bool
  | .leaf s => !(s == Scalar.null)
  | _ => true

/-- coalesce(nodes...): slices.Reverse, then the first node with a value, else nilLeaf -/
def coalesceList (nodes : List Node) : Node :=
  match nodes.reverse.find? hasValue with
  | some n => n
  | none => Node.null

/-- coalesce(n, v) as called from mergeContainers / mergeListsMeld -/
def coalesce (x y : Node) : Node := coalesceList [x, y]

/-- firstValidListItem(idx, l1, l2) -/
def firstValidListItem (i : Nat) (lists : List (List Node)) : Node :=
  match lists.find? (fun l => decide (i < l.length)) with
  | some l => l.getD i Node.null
  | none => Node.null

/-- mergeListsAppend -/
def appendList (xs ys : List Node) : List Node := xs ++ ys

mutual
/-- what is stored for a key (list index) present on both sides: `n` is the accumulated
    (left) node, `v` the right one -/
def mergeNode (o : ListStrategy) : Node → Node → Node
  | n, .cont kb =>
    match n with
    | .cont ka => .cont (mergeKvs o ka kb)
    | _ => coalesce n (.cont kb)
  | n, .list yb =>
    match n with
    | .list xa =>
      -- mg.listMergeFn(n, v): `mergeList` below, inlined so that the recursion stays structural
      .list (match o with
        | .append => appendList xa yb
        | .meld => meldList o xa yb)
    | _ => coalesce n (.list yb)
  | n, .leaf s => coalesce n (.leaf s)
/-- merger.mergeContainers(c1, c2): `a` is the accumulating map (starts as a copy of c1's
    children), the second argument the children of c2 still to be folded in -/
def mergeKvs (o : ListStrategy) : AMap Node → List (String × Node) → AMap Node
  | a, [] => a
  | a, (k, v) :: rest =>
    mergeKvs o (AMap.insert a k (match AMap.get? a k with
      | some n => mergeNode o n v
      | none => v)) rest
/-- merger.mergeListsMeld: pairwise over the common prefix, then the tail of the longer list -/
def meldList (o : ListStrategy) : List Node → List Node → List Node
  | xs, [] => xs
  | [], y :: ys => y :: ys
  | x :: xs, y :: ys => mergeNode o x y :: meldList o xs ys
end

/-- merger.listMergeFn / merger.mergeLists under the selected strategy -/
def mergeList (o : ListStrategy) (xs ys : List Node) : List Node :=
  match o with
  | .append => appendList xs ys
  | .meld => meldList o xs ys

/-- ContainerBuilder.Merge(other, opts...) on the children maps -/
def mergeC (o : ListStrategy) (a b : AMap Node) : AMap Node := mergeKvs o a b

/-- merger.mergeOverlay: fold over the layers in order, starting from the empty container -/
def mergeAll (o : ListStrategy) (layers : List (AMap Node)) : AMap Node :=
  layers.foldl (mergeKvs o) []

end Ytk
