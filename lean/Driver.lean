/-
  ytk-driver: JSON-lines front end of the executable model.
  One request per line  {"p": "C05", "op": "equals", "a": {...}}
  one response per line {"r": ...}  or  {"e": "message"}.
  The handlers call the very definitions the theorems in YtkProps are about.
-/
import YtkDriver.All
open Lean Ytk

partial def loop (hin hout : IO.FS.Stream) : IO Unit := do
  let line ← hin.getLine
  if line.isEmpty then return ()
  let resp : Json :=
    match Json.parse line with
    | .error e => Json.mkObj [("e", .str s!"parse: {e}")]
    | .ok j =>
      match (do
        let p ← Wire.getStr j "p"
        let op ← Wire.getStr j "op"
        let a ← j.getObjVal? "a"
        Ytk.dispatch p op a) with
      | .ok r => Json.mkObj [("r", r)]
      | .error e => Json.mkObj [("e", .str e)]
  hout.putStrLn resp.compress
  hout.flush
  loop hin hout

def main : IO Unit := do
  loop (← IO.getStdin) (← IO.getStdout)
