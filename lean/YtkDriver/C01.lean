import YtkModel.Wire
import YtkModel.Codec
open Lean

namespace Ytk.C01

/-- values with arbitrary scalar map keys: {"im": [[keyScalar, value], …]} | [ … ] | scalar -/
partial def ivalOfJson : Json → Except String IVal
  | .arr xs => do
    let ys ← xs.toList.mapM ivalOfJson
    pure (.arr ys)
  | j@(.obj _) => do
    match j.getObjVal? "im" with
    | .ok (.arr es) =>
      let ps ← es.toList.mapM fun e => do
        match e with
        | .arr #[k, v] =>
          let t ← (k.getObjVal? "t") >>= Json.getStr?
          let s ← (k.getObjVal? "v") >>= Json.getStr?
          let x ← ivalOfJson v
          pure ((⟨t, s⟩ : Scalar), x)
        | _ => throw "ival: entry must be [key, value]"
      pure (.obj ps)
    | _ =>
      let t ← (j.getObjVal? "t") >>= Json.getStr?
      let v ← (j.getObjVal? "v") >>= Json.getStr?
      pure (.sc ⟨t, v⟩)
  | _ => throw "ival: unexpected JSON"

def handle : Wire.Handler := fun op a => do
  match op with
  | "decodei" =>
    let v ← (a.getObjVal? "v") >>= ivalOfJson
    let d := decodeI v
    pure (Json.mkObj [("dom", Wire.nodeToJson d), ("scalars", .num (Node.scalarCount d)),
      ("keysOk", .bool (IVal.keysOk v)), ("inScalars", .num (IVal.scalarCount v))])
  | "frommap" =>
    -- input: a root map; output: the DOM built by FromMap and its AsMap
    let v ← Wire.getVal a "m"
    match v with
    | .obj kvs =>
      let d := fromMap kvs
      pure (Json.mkObj [("dom", Wire.nodeToJson (.cont d)), ("asmap", Wire.valToJson (.obj (asMap d))),
        ("scalars", .num (Node.scalarCount (.cont d))), ("noidx", .bool (Val.noIdxKeys v))])
    | _ => throw "frommap: root must be a map"
  | _ => throw s!"C01: unknown op {op}"

end Ytk.C01
