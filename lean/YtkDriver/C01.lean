import YtkModel.Wire
import YtkModel.Codec
open Lean

namespace Ytk.C01

def handle : Wire.Handler := fun op a => do
  match op with
  | "frommap" =>
    -- input: a root map; output: the DOM built by FromMap and its AsMap
    let v ← Wire.getVal a "m"
    match v with
    | .obj kvs =>
      let d := fromMap kvs
      pure (Json.mkObj [("dom", Wire.nodeToJson (.cont d)), ("asmap", Wire.valToJson (.obj (asMap d))),
        ("scalars", .num (Node.scalarCount (.cont d))), ("noidx", .bool (Val.noIdxKeys v))])
    | _ => throw "frommap: root must be a map"
  | _ => throw s!"C01: unknown op {op}"

end Ytk.C01
