/-
  Driver glue for YtkModel/TplFuncs.lean (the template functions of pipeline/template_engine_funcs.go).
  Reached through the C13 handler: `{"p":"C13","op":"tplFuncs","a":{"fn":<name>, …}}`.
  Trusted glue (JSON in/out); every computation is a call of the model definitions the theorems of
  YtkProps/C13.lean are about.
-/
import YtkModel.Wire
import YtkModel.TplFuncs
import YtkDriver.C07
open Lean

namespace Ytk.TplFuncsOps
open Ytk.TplFuncs

def getOptVal (a : Json) (k : String) : Except String (Option Val) :=
  match a.getObjVal? k with
  | .ok .null => pure none
  | .ok j => do let v ← Wire.valOfJson j; pure (some v)
  | .error _ => pure none

def getOptNode (a : Json) (k : String) : Except String (Option Node) :=
  match a.getObjVal? k with
  | .ok .null => pure none
  | .ok j => do let n ← Wire.nodeOfJson j; pure (some n)
  | .error _ => pure none

def getOptBool (a : Json) (k : String) : Option Bool :=
  match a.getObjVal? k with
  | .ok (.bool b) => some b
  | _ => none

/-- one file of the case's file system -/
structure FileRow where
  name : String
  ext : String
  canOpen : Bool
  dec : Option (List (String × Val))

def fileRows (a : Json) : Except String (List FileRow) := do
  match a.getObjVal? "fs" with
  | .ok (.arr rows) =>
    rows.toList.mapM fun j => do
      let name ← Wire.getStr j "name"
      let ext ← Wire.getStr j "ext"
      let canOpen ← Wire.getBool j "open"
      let dec ← getOptVal j "dec"
      let dec : Option (List (String × Val)) := match dec with
        | some (.obj m) => some m
        | _ => none
      pure ⟨name, ext, canOpen, dec⟩
  | _ => pure []

/-- the file system of a case: the content of a stream is the file's name; the decoder's result for
    it was computed by the harness with the real decoder of the file's suffix -/
def filesOf (rows : List FileRow) : Files String :=
  { ext := fun f => match rows.find? (·.name == f) with | some r => r.ext | none => ""
    open_ := fun f => match rows.find? (·.name == f) with
      | some r => if r.canOpen then some f else none
      | none => none
    decode := fun _ c => match rows.find? (·.name == c) with | some r => r.dec | none => none }

def osOf (a : Json) : Except String OS := do
  let rows ← match a.getObjVal? "stat" with
    | .ok (.arr rows) => rows.toList.mapM fun j => do
        let name ← Wire.getStr j "name"
        pure (name, getOptBool j "dir")
    | _ => pure []
  pure { stat := fun f => match rows.find? (·.1 == f) with | some r => r.2 | none => none
         glob := fun _ => none }

def valText (v : Val) : String := (Wire.valToJson v).compress

/-- encoders that write the JSON wire form of the value they are given (the harness applies the real
    encoder to that value) -/
def wireEncs : Encoders :=
  { yaml := fun v => ("yaml:" ++ valText (.obj v), false)
    json := fun v => ("json:" ++ valText (.obj v), false)
    props := fun v => ("properties:" ++ valText (.obj v), false) }

def fmtOf (s : String) : Except String FileCodec.Fmt :=
  if s = "yaml" then pure .yaml else if s = "json" then pure .json
  else if s = "properties" then pure .properties else throw s!"tplFuncs: unknown format {s}"

def callOf (j : Json) : Except String Call := do
  let k ← Wire.getStr j "k"
  match k with
  | "isEmpty" => pure (.isEmpty (← Wire.getStr j "key"))
  | "unflattenYaml" => pure (.unflattenYaml (← Wire.getStr j "key"))
  | "toYaml" => pure (.toYaml (← Wire.getStr j "key"))
  | "fileExists" => pure (.fileExists (← Wire.getStr j "f"))
  | "isDir" => pure (.isDir (← Wire.getStr j "f"))
  | "mergeDom2" => pure (.mergeDom2 (← fmtOf (← Wire.getStr j "fmt")) (← Wire.getStrs j "files"))
  | "mergeDiff" => pure (.mergeDiff (← Wire.getStrs j "l") (← Wire.getStrs j "r"))
  | _ => throw s!"tplFuncs: unknown call {k}"

def envOf (a : Json) : Except String (Env String) := do
  let rows ← fileRows a
  let os ← osOf a
  pure { os := os, files := filesOf rows, encs := wireEncs,
         -- the YAML encoder of toYaml: the wire form and the trailing newline every YAML document ends in
         yamlEnc := fun v => ("yaml:" ++ valText v ++ "\n", false)
         showMods := fun ms => "mods:" ++ (C07.modsToJson ms).compress }

def optStr : Option String → Json
  | some s => .str s
  | none => .null

def run (a : Json) : Except String Json := do
  let fn ← Wire.getStr a "fn"
  match fn with
  | "isEmpty" =>
    pure (.bool (isEmpty (← getOptVal a "v")))
  | "unflatten" =>
    match ← Wire.getVal a "m" with
    | .obj m => pure (Wire.valToJson (.obj (unflattenFn m)))
    | _ => throw "tplFuncs: unflatten needs a map"
  | "toYaml" =>
    let text ← Wire.getStr a "text"
    let err ← Wire.getBool a "err"
    let r := toYaml (fun (_ : Unit) => (text, err)) ()
    pure (Json.mkObj [("text", .str r.1), ("err", .bool r.2)])
  | "stat" =>
    let os : OS := { stat := fun _ => getOptBool a "dir", glob := fun _ => none }
    pure (Json.mkObj [("exists", .bool (fileExists os "f")), ("isDir", .bool (isDir os "f"))])
  | "mergeFiles" =>
    let rows ← fileRows a
    let files ← Wire.getStrs a "files"
    match mergeFiles (filesOf rows) files with
    | .ok d => pure (Json.mkObj [("out", "ok"), ("doc", Wire.nodeToJson (.cont d))])
    | o => pure (Json.mkObj [("out", .str o.tag)])
  | "encInput" =>
    match ← Wire.getNode a "doc" with
    | .cont c =>
      -- what dom2str hands to the encoder, through the model's own dom2str
      pure (.str (dom2str wireEncs.json c).1)
    | _ => throw "tplFuncs: encInput needs a container"
  | "domDiff" =>
    let l ← getOptNode a "l"
    let r ← getOptNode a "r"
    pure (C07.modsToJson (domDiff l r))
  | "render" =>
    let env ← envOf a
    let snap ← match ← Wire.getVal a "snap" with
      | .obj m => pure m
      | _ => throw "tplFuncs: snap must be a map"
    let c ← callOf (← a.getObjVal? "call")
    pure (optStr (render env snap c))
  | "templateOp" =>
    -- TemplateOp whose template is one action over the functions; ParseAs none (the text is stored)
    let env ← envOf a
    let data ← match ← Wire.getNode a "data" with
      | .cont c => pure c
      | _ => throw "tplFuncs: data must be a container"
    let c ← callOf (← a.getObjVal? "call")
    let path ← Wire.getStr a "path"
    let (d, e) := templateOpCall env c "{{ call }}" path none false id (fun _ => none) data
    pure (Json.mkObj [("err", .bool e), ("data", Wire.nodeToJson (.cont d))])
  | _ => throw s!"tplFuncs: unknown fn {fn}"

end Ytk.TplFuncsOps
