/-
  YtkDriver.HeapHist — JSON glue for builder histories on the heap-level model
  (YtkModel/HeapBuilder.lean); used by the C03 handler (op "heapHistory").  Trusted glue, not used
  by any theorem.

  Request   {"heap": [cell…], "root": addr, "ops": [op…]}          (cells as in HeapWire.lean)
    op      {"op": name, "on": k?, "path": s?, "idx": n?, "v": node?, "vh": k?}
            "on" absent = the call is made on the root document, "on": k = on the k-th handle
            (handles = the nodes returned by the addcontainer / addlist / child / lookup calls of
            this history, numbered in call order; a nil return occupies a number too);
            "v" = a value built by `dom.LeafNode` / `ListNode` / `AddValue` right before the call
            (every leaf a new object), "vh": k = the k-th handle's node itself is attached.

  Response  {"outcome": "ok" | "err" | "panic", "steps": [step…]}, one step per executed call:
    abs      the document (value-level) below the root after the call
    share    the sharing map of the root's graph; identity labels are GLOBAL over the history:
             "old:<addr>" = the cell of the initial heap, "new:<k>" = the k-th distinct cell first
             met after the start, in the order of the traversals (root's graph in preorder / key
             order after every call, then the graph of every handle that is not reachable from
             the root, in handle order)
    handles  per handle so far: its label, whether its cell is reachable from the root ("live"),
             and — when it is not — the sharing map of its own graph
    ret      label of the node the call returned (null: Go's nil, or a call returning its receiver)
    written  labels of the cells that existed before the call and whose content differs afterwards
    flat     Flatten of `abs`
-/
import YtkModel.Wire
import YtkModel.HeapBuilder
import YtkDriver.HeapWire
open Lean

namespace Ytk.HeapHist
open Ytk.Heap

structure St where
  h : Heap
  seen : List (Addr × Nat)
  handles : Array (Option Addr)

def labelOf (n0 : Nat) (seen : List (Addr × Nat)) (a : Addr) : Json :=
  if a < n0 then .str s!"old:{a}"
  else match seen.find? (fun p => p.1 == a) with
    | some (_, k) => .str s!"new:{k}"
    | none => .str s!"unseen:{a}"

def getOptNat (j : Json) (k : String) : Option Nat :=
  match j.getObjVal? k with
  | .ok v => v.getNat?.toOption
  | .error _ => none

def targetOf (root : Addr) (st : St) (j : Json) : Except String Addr :=
  match getOptNat j "on" with
  | none => pure root
  | some k =>
    match st.handles[k]? with
    | some (some a) => pure a
    | some none => throw s!"handle {k} is nil"
    | none => throw s!"no handle {k}"

/-- the value node of a call: built now (all cells new), or an existing handle's node -/
def valueOf (st : St) (j : Json) : Except String (Heap × Addr) :=
  match getOptNat j "vh" with
  | some k =>
    match st.handles[k]? with
    | some (some a) => pure (st.h, a)
    | _ => throw s!"no value handle {k}"
  | none => do
    let n ← Wire.getNode j "v"
    pure (build st.h n)

def sortStrs (xs : List String) : List String := xs.mergeSort (fun a b => decide (a ≤ b))

def stepOut (n0 : Nat) (root : Addr) (hBefore : Heap) (st : St) (ret : Option (Option Addr)) : St × Json :=
  let h := st.h
  -- the root's graph first, then every detached handle's graph (labels are assigned on the way)
  let (shRoot, seen1) := (HeapWire.shareF n0 h (h.size + 1) root).run st.seen
  let rootReach := reach h root
  let (hs, seen2) := st.handles.toList.foldl (fun (acc : List Json × List (Addr × Nat)) ha =>
    match ha with
    | none => (acc.1 ++ [Json.null], acc.2)
    | some a =>
      if rootReach.contains a then
        (acc.1 ++ [Json.mkObj [("id", labelOf n0 acc.2 a), ("live", .bool true)]], acc.2)
      else
        let (sh, seen') := (HeapWire.shareF n0 h (h.size + 1) a).run acc.2
        (acc.1 ++ [Json.mkObj [("id", labelOf n0 seen' a), ("live", .bool false), ("share", sh)]], seen')) ([], seen1)
  let written := (List.range hBefore.size).filter (fun a => hBefore.cells[a]? != h.cells[a]?)
  let writtenLbl := sortStrs (written.map fun a => match labelOf n0 st.seen a with | .str s => s | _ => "?")
  let absR := abs h root
  let flat : Json := match absR with
    | some (.cont d) => .arr ((flattenMap d).map fun (p, s) => Json.arr #[.str p, Wire.nodeToJson (.leaf s)]).toArray
    | _ => .null
  let retJ : Json := match ret with
    | some (some a) => labelOf n0 seen2 a
    | _ => .null
  ({ st with seen := seen2 },
   Json.mkObj [("abs", Wire.optNodeToJson absR), ("share", shRoot), ("handles", .arr hs.toArray),
     ("ret", retJ), ("written", Wire.strs writtenLbl), ("flat", flat)])

/-- decode one call against the current state: the heap with the value built, the model op,
    whether the call returns a node (a new handle) -/
def decodeOp (root : Addr) (st : St) (j : Json) : Except String (Heap × HOp × Bool) := do
  let op ← Wire.getStr j "op"
  let c ← targetOf root st j
  let path := (Wire.getOptStr j "path").getD ""
  let idx := (getOptNat j "idx").getD 0
  match op with
  | "addvalue" => let (h1, v) ← valueOf st j; pure (h1, .addValue c path v, false)
  | "addvalueat" => let (h1, v) ← valueOf st j; pure (h1, .addValueAt c path v, false)
  | "addcontainer" => pure (st.h, .addContainer c path, true)
  | "addlist" => pure (st.h, .addList c path, true)
  | "remove" => pure (st.h, .remove c path, false)
  | "removeat" => pure (st.h, .removeAt c path, false)
  | "child" => pure (st.h, .child c path, true)
  | "lookup" => pure (st.h, .lookup c path, true)
  | "listset" => let (h1, v) ← valueOf st j; pure (h1, .listSet c idx v, false)
  | "listmustset" => let (h1, v) ← valueOf st j; pure (h1, .listMustSet c idx v, false)
  | "listappend" => let (h1, v) ← valueOf st j; pure (h1, .listAppend c v, false)
  | "listclear" => pure (st.h, .listClear c, false)
  | "compact" => pure (st.h, .compact c, false)
  | _ => throw s!"heapHistory: unknown builder op {op}"

def run (a : Json) : Except String Json := do
  let h0 ← HeapWire.getHeap a
  let root ← Wire.getNat a "root"
  let ops ← Wire.getArr a "ops"
  let n0 := h0.size
  -- label the start graph (nothing new in it) so that the traversal state starts like the harness'
  let mut st : St := { h := h0, seen := [], handles := #[] }
  let mut steps : Array Json := #[]
  let mut outcome := "ok"
  for j in ops do
    let (h1, op, returns) ← decodeOp root st j
    match hstep h1 op with
    | .ok (h2, ret) =>
      let st1 : St := { st with h := h2, handles := if returns then st.handles.push ret else st.handles }
      let (st2, out) := stepOut n0 root st.h st1 (if returns then some ret else none)
      st := st2
      steps := steps.push out
    | .err => outcome := "err"; break
    | .panic => outcome := "panic"; break
  pure (Json.mkObj [("outcome", .str outcome), ("steps", .arr steps)])

end Ytk.HeapHist
