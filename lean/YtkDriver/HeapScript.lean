/-
  YtkDriver.HeapScript — JSON glue that runs a SCRIPT of heap-level operations (overlay writes and
  reads, patch operations, pipeline PatchOp, in-place builder writes) on an explicit heap; shared by
  the C06 / C09 / C13 handlers (op "heapScript").  Trusted glue, not used by any theorem; every
  step calls the model definitions of YtkModel/{Heap,HeapOverlay,HeapPatch}.lean the theorems are
  about.

  Arguments  {"heap": [cells] (HeapWire), "regs": [addr, …], "steps": [step, …]}
  State      heap, registers (node addresses or null; a step that hands out a node PUSHES a
             register), one overlay document, the list of outcomes.
  Steps      {"s":"reg","a":addr}                           a node of the initial heap becomes a register
             {"s":"put","l":L,"p":[comp…],"v":reg}         OverlayDocument.Put(L, path, node)
             {"s":"add","l":L,"v":reg}                      OverlayDocument.Add(L, container)
             {"s":"populate","l":L,"p":[comp…],"d":node}    OverlayDocument.Populate(L, path, map)
             {"s":"layers"}                                 Layers(): pushes one register per layer
             {"s":"lookup","l":L,"p":[…]} / {"s":"lookupAny","p":[…]}   pushes the node (or null)
             {"s":"merged","opt":"meld"|"append"}           pushes Merged()
             {"s":"patch","r":doc,"op":…,"path":[…]|null,"from":[…]|null,"v":reg|null}
             {"s":"patchOp","r":doc,"op":…,"path":…,"from":…,"v":reg | "vf":[comp…]}
             {"s":"setOp","r":doc,"merge":bool,"p":[comp…],"d":node}   pipeline.SetOp.Do (payload decoded anew)
             {"s":"eval","r":reg,"p":[tok…]}                Path.Eval: pushes the node (or null)
             {"s":"w","r":reg,"p":[nav…],"op":…,"name":…,"idx":…}   in-place builder write at the
                                                             node reached from the register
             {"s":"obs"}                                    records the abstraction of every register
  Result     {"outs": […], "abs": [per register], "share": [per register — ONE numbering of the new
             cells over all registers, so aliasing between them shows], "obs": [[…], …]}
-/
import YtkModel.Wire
import YtkModel.HeapOverlay
import YtkModel.HeapPatch
import YtkModel.HeapSet
import YtkDriver.HeapWire
open Lean

namespace Ytk.HeapScript
open Ytk.Heap

structure St where
  h : Heap
  regs : Array (Option Addr)
  ov : HOverlay
  outs : Array Json
  obs : Array Json

def optStrs (j : Json) (k : String) : Except String (Option (List String)) :=
  match j.getObjVal? k with
  | .ok (.arr xs) => do
    let ys ← xs.toList.mapM Json.getStr?
    pure (some ys)
  | _ => pure none

def strsOr (j : Json) (k : String) : Except String (List String) := do
  match ← optStrs j k with
  | some xs => pure xs
  | none => pure []

def optReg (st : St) (j : Json) (k : String) : Except String (Option Addr) :=
  match j.getObjVal? k with
  | .ok (.num _) => do
    let i ← Wire.getNat j k
    match st.regs[i]? with
    | some r => pure r
    | none => throw s!"no register {i}"
  | _ => pure none

def reg (st : St) (j : Json) (k : String) : Except String Addr := do
  match ← optReg st j k with
  | some a => pure a
  | none => throw s!"step needs a node in register '{k}'"

/-- follow Children()[key] / Items()[i] from a node -/
def nav (h : Heap) : Addr → List String → Except String Addr
  | a, [] => pure a
  | a, t :: ts =>
    match h.get? a with
    | some (.cont kvs) =>
      match AMap.get? kvs t with
      | some c => nav h c ts
      | none => throw s!"nav: no member {t}"
    | some (.list xs) =>
      match xs[t.toNat!]? with
      | some c => nav h c ts
      | none => throw s!"nav: no item {t}"
    | _ => throw "nav: leaf"

def push (st : St) (r : Option Addr) : St := { st with regs := st.regs.push r }

def out (st : St) (s : String) : St := { st with outs := st.outs.push (.str s) }

def ovResult (st : St) (r : Option (Heap × HOverlay)) : St :=
  match r with
  | some (h, ov) => out { st with h := h, ov := ov } "ok"
  | none => out st "outside-model"

def step (st : St) (j : Json) : Except String St := do
  let s ← Wire.getStr j "s"
  match s with
  | "put" =>
    let v ← reg st j "v"
    pure (ovResult st (putH st.h st.ov (← Wire.getStr j "l") (← strsOr j "p") v))
  | "add" =>
    let v ← reg st j "v"
    pure (ovResult st (ovAddH st.h st.ov (← Wire.getStr j "l") v))
  | "populate" =>
    match ← Wire.getNode j "d" with
    | .cont kvs => pure (ovResult st (populateH st.h st.ov (← Wire.getStr j "l") (← strsOr j "p") kvs))
    | _ => throw "populate: data is not a map"
  | "layers" =>
    match layersH st.h st.ov with
    | none => pure (out st "outside-model")
    | some (h, snaps) =>
      let st := { st with h := h }
      let st := snaps.foldl (fun st p => push st (some p.2)) st
      pure { st with outs := st.outs.push (Wire.strs snaps.names) }
  | "lookup" =>
    pure (push st (ovLookupH st.h st.ov (← Wire.getStr j "l") (← strsOr j "p")))
  | "lookupAny" =>
    pure (push st (ovLookupAnyH st.h st.ov (← strsOr j "p")))
  | "merged" =>
    let o ← HeapWire.getOpt j
    match mergedH o st.h st.ov with
    | none => pure (out (push st none) "outside-model")
    | some (h, r) => pure (push { st with h := h } (some r))
  | "patch" =>
    let root ← reg st j "r"
    let o : HOpObj := { op := ← Wire.getStr j "op", frm := ← optStrs j "from", path := ← optStrs j "path",
                        value := ← optReg st j "v" }
    let r := patchDoH o st.h root
    pure (out { st with h := r.1 } r.2.tag)
  | "patchOp" =>
    let root ← reg st j "r"
    let src : ValueSrc ←
      match ← optReg st j "v" with
      | some v => pure (ValueSrc.imm v)
      | none =>
        match ← optStrs j "vf" with
        | some comps => pure (ValueSrc.from comps)
        | none => pure ValueSrc.none
    let r := patchOpDoH (← Wire.getStr j "op") (← optStrs j "from") (← optStrs j "path") src st.h root
    pure (out { st with h := r.1 } r.2.tag)
  | "setOp" =>
    let root ← reg st j "r"
    match ← Wire.getNode j "d" with
    | .cont data =>
      match setOpH (← Wire.getBool j "merge") (← strsOr j "p") data st.h root with
      | some (h, _) => pure (out { st with h := h } "ok")
      | none => pure (out st "outside-model")
    | _ => throw "setOp: data is not a map"
  | "eval" =>
    let root ← reg st j "r"
    pure (push st (evalH st.h root (← strsOr j "p")))
  | "reg" =>
    -- a node of the INITIAL heap enters the history here (pushed as a register)
    let a ← Wire.getNat j "a"
    if a < st.h.size then pure (push st (some a)) else throw s!"reg: no cell {a}"
  | "w" =>
    let root ← reg st j "r"
    let tgt ← nav st.h root (← strsOr j "p")
    let probe : Scalar := ⟨"string", "probe"⟩
    let op ← Wire.getStr j "op"
    let o : Op ←
      match op with
      | "addLeaf" => do pure (Op.addLeaf tgt (← Wire.getStr j "name") probe)
      | "addContainer" => do pure (Op.addContainer tgt (← Wire.getStr j "name"))
      | "addList" => do pure (Op.addList tgt (← Wire.getStr j "name"))
      | "remove" => do pure (Op.remove tgt (← Wire.getStr j "name"))
      | "listSet" => pure (Op.listSetLeaf tgt ((Wire.getNat j "idx").toOption.getD 0) probe)
      | "listAppend" => pure (Op.listAppendLeaf tgt probe)
      | "listClear" => pure (Op.listClear tgt)
      | _ => throw s!"unknown write {op}"
    match applyOp st.h o with
    | some h => pure { st with h := h }
    | none => throw s!"write {op} at {tgt}: wrong cell kind"
  | "obs" =>
    let a := st.regs.toList.map fun r =>
      match r with
      | some x => Wire.optNodeToJson (abs st.h x)
      | none => Json.null
    pure { st with obs := st.obs.push (.arr a.toArray) }
  | _ => throw s!"heapScript: unknown step {s}"

def shareAll (n0 : Nat) (h : Heap) (regs : List (Option Addr)) : List Json :=
  let m : StateM (List (Addr × Nat)) (List Json) := regs.mapM fun r =>
    match r with
    | some x => HeapWire.shareF n0 h (h.size + 1) x
    | none => pure Json.null
  (m.run []).1

def run (a : Json) : Except String Json := do
  let h0 ← HeapWire.getHeap a
  let rs ← HeapWire.getAddrs a "regs"
  let steps ← Wire.getArr a "steps"
  let st0 : St := { h := h0, regs := (rs.map some).toArray, ov := [], outs := #[], obs := #[] }
  let st ← steps.foldlM step st0
  let regs := st.regs.toList
  let absAll := regs.map fun r =>
    match r with
    | some x => Wire.optNodeToJson (abs st.h x)
    | none => Json.null
  pure (Json.mkObj [("outs", .arr st.outs), ("abs", .arr absAll.toArray),
    ("share", .arr (shareAll h0.size st.h regs).toArray), ("obs", .arr st.obs),
    ("layers", Wire.strs st.ov.names)])

end Ytk.HeapScript
