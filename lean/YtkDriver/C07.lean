import YtkModel.Wire
import YtkModel.Diff
open Lean

namespace Ytk.C07

def scalarToJson (s : Scalar) : Json := Json.mkObj [("t", .str s.ty), ("v", .str s.text)]

def modToJson (m : Mod) : Json :=
  Json.mkObj [("ty", .str m.ty.name), ("path", .str m.path), ("value", scalarToJson m.value),
    ("old", scalarToJson m.old)]

def modsToJson (ms : List Mod) : Json := .arr (ms.map modToJson).toArray

def layersOf (n : Node) : AMap (AMap Node) :=
  match n with
  | .cont kvs => kvs.filterMap fun (k, v) => match v with
    | .cont c => some (k, c)
    | _ => none
  | _ => []

def getCont (a : Json) (k : String) : Except String (AMap Node) := do
  match (← Wire.getNode a k) with
  | .cont kvs => pure kvs
  | _ => throw s!"{k}: container expected"

def handle : Wire.Handler := fun op a => do
  match op with
  | "diff" =>
    let l ← getCont a "l"
    let r ← getCont a "r"
    pure (Json.mkObj [("mods", modsToJson (diff l r)), ("ll", modsToJson (diff l l)),
      ("rr", modsToJson (diff r r))])
  | "overlay" =>
    let l ← Wire.getNode a "l"
    let r ← Wire.getNode a "r"
    let res := overlayDocs (layersOf l) (layersOf r)
    pure (Json.mkObj (res.map fun (k, ms) => (k, modsToJson ms)))
  | _ => throw s!"C07: unknown op {op}"

end Ytk.C07
