import YtkModel.Wire
import YtkModel.Equal
open Lean

namespace Ytk.C05

def handle : Wire.Handler := fun op a => do
  match op with
  | "equals" =>
    let x ← Wire.getNode a "x"
    let y ← Wire.getNode a "y"
    pure (Json.mkObj [("xy", .bool (equals x y)), ("yx", .bool (equals y x)),
      ("xx", .bool (equals x x)), ("same", .bool (sameAs x y)),
      ("cx", Wire.nodeToJson (clone x)), ("xcx", .bool (equals x (clone x)))])
  | _ => throw s!"C05: unknown op {op}"

end Ytk.C05
