import YtkModel.Wire
import YtkModel.Equal
import YtkDriver.HeapWire
open Lean

namespace Ytk.C05

def handle : Wire.Handler := fun op a => do
  match op with
  | "equals" =>
    let x ← Wire.getNode a "x"
    let y ← Wire.getNode a "y"
    pure (Json.mkObj [("xy", .bool (equals x y)), ("yx", .bool (equals y x)),
      ("xx", .bool (equals x x)), ("same", .bool (sameAs x y)),
      ("cx", Wire.nodeToJson (clone x)), ("xcx", .bool (equals x (clone x)))])
  | "heapClone" =>
    -- explicit heap + root address: Clone at pointer level (YtkModel/Heap.lean)
    let h ← HeapWire.getHeap a
    let x ← Wire.getNat a "x"
    HeapWire.result a h [x] (Heap.clone h x)
      [("writes", "afterOrigWrites"), ("writes2", "afterCloneWrites")] false
  | _ => throw s!"C05: unknown op {op}"

end Ytk.C05
