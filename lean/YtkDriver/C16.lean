import YtkModel.Wire
import YtkModel.Props
open Lean

namespace Ytk.C16
open Ytk.Props

/-- pairs `[[k, v], …]` of strings -/
def getPairs (a : Json) (k : String) : Except String (List (String × String)) := do
  let xs ← Wire.getArr a k
  xs.mapM fun j => do
    let p ← j.getArr?
    match p.toList with
    | [x, y] => do
      let x ← x.getStr?
      let y ← y.getStr?
      pure (x, y)
    | _ => throw "pair expected"

def strSc (s : String) : Scalar := ⟨"string", s⟩

def pairsJson (l : List (String × String)) : Json :=
  .arr (l.map fun p => Json.arr #[.str p.1, .str p.2]).toArray

def flatJson (l : List (String × Scalar)) : Json :=
  .arr (l.map fun p => Json.arr #[.str p.1, Wire.nodeToJson (.leaf p.2)]).toArray

def handle : Wire.Handler := fun op a => do
  match op with
  | "kv" =>
    -- the flat map as a Go map: unique keys, visited sorted
    let ps ← getPairs a "kv"
    let kvS : AMap Scalar := AMap.ofList (ps.map fun p => (p.1, strSc p.2))
    let kvV : AMap Val := toV kvS
    let un := unflatten kvV
    let fp := fromProperties kvS
    let text ← Wire.getStr a "text"
    let fr := fromReader parseSimple text
    let enc := encoderFn kvS
    let flatC : AMap Node := kvS.map fun p => (p.1, Node.leaf p.2)
    let denc := match domEncoderFn flatC with
      | .ok s => pairsJson (AMap.ofList (parseSimple s))
      | o => Json.str ("<" ++ o.tag ++ ">")
    pure (Json.mkObj [
      ("unflatten", Wire.valToJson (.obj un)),
      ("unflattenFlat", flatJson (flattenPlainMap un)),
      ("fromProperties", Wire.nodeToJson (.cont fp)),
      ("fromPropertiesFlat", flatJson (flattenMap fp)),
      ("fromReader", Wire.nodeToJson (.cont fr)),
      ("fromReaderFlat", flatJson (flattenMap fr)),
      ("parse", pairsJson (AMap.ofList (parseSimple text))),
      ("encode", pairsJson (AMap.ofList (parseSimple enc))),
      ("encodeText", .str enc),
      ("domEncode", denc)])
  | _ => throw s!"C16: unknown op {op}"

end Ytk.C16
