/- Registry of per-property driver handlers: one import and one line per property. -/
import YtkModel.Wire
import YtkDriver.C05
open Lean

namespace Ytk

def dispatch (p op : String) (a : Json) : Except String Json :=
  match p with
  | "C05" => C05.handle op a
  | _ => .error s!"no handler for property {p}"

end Ytk
