import YtkModel.Wire
import YtkModel.Clone
import YtkModel.Generated.CloneTable
import YtkModel.OpStringsWire
open Lean

namespace Ytk.C15
open Ytk.CloneT Ytk.Clone

/- wire form of clone values:
   {"s": text} | {"sp": null|text} | {"ss": null|[text…]} | {"d": text} | {"nil": true} |
   {"rec": type, "f": [[field, value], …]} -/
partial def cvOfJson (j : Json) : Except String CV := do
  match j.getObjVal? "rec" with
  | .ok (.str ty) =>
    let fs ← Wire.getArr j "f"
    let ps ← fs.mapM (fun p => do
      match p with
      | .arr #[.str k, v] => let c ← cvOfJson v; pure (k, c)
      | _ => throw "cv: bad field")
    pure (.rcd ty ps)
  | _ =>
  match j.getObjVal? "s" with
  | .ok (.str s) => pure (.str s)
  | _ =>
  match j.getObjVal? "sp" with
  | .ok (.str s) => pure (.strPtr (some s))
  | .ok .null => pure (.strPtr none)
  | _ =>
  match j.getObjVal? "ss" with
  | .ok (.arr xs) => do
    let ys ← xs.toList.mapM Json.getStr?
    pure (.strs (some ys))
  | .ok .null => pure (.strs none)
  | _ =>
  match j.getObjVal? "d" with
  | .ok (.str s) => pure (.data s)
  | _ =>
  match j.getObjVal? "nil" with
  | .ok _ => pure .nil
  | _ => throw "cv: unexpected JSON"

partial def cvToJson : CV → Json
  | .str s => Json.mkObj [("s", .str s)]
  | .strPtr none => Json.mkObj [("sp", .null)]
  | .strPtr (some s) => Json.mkObj [("sp", .str s)]
  | .strs none => Json.mkObj [("ss", .null)]
  | .strs (some xs) => Json.mkObj [("ss", Wire.strs xs)]
  | .data d => Json.mkObj [("d", .str d)]
  | .nil => Json.mkObj [("nil", .bool true)]
  | .rcd ty fs => Json.mkObj [("rec", .str ty), ("f", .arr (fs.map fun (k, v) => Json.arr #[.str k, cvToJson v]).toArray)]

/-- the micro-fragment of text/template the harness uses: every `{{ .x }}` is replaced by the
    value of `x`; any other text is returned unchanged (RenderLenient on a non-template). -/
def renderX (x : String) (s : String) : String := s.replace "{{ .x }}" x

def tableJson : Json :=
  .arr (Generated.cloneTable.map fun t =>
    Json.mkObj [("name", .str t.name), ("ptrRecv", .bool t.ptrRecv),
      ("fields", .arr (t.fields.map fun f =>
        Json.mkObj [("name", .str f.name), ("goType", .str f.goType), ("kind", .str f.kind.toString),
          ("tag", .str f.tag), ("act", .str f.act.toString), ("embedded", .bool f.embedded)]).toArray)]).toArray

def handle : Wire.Handler := fun op a => do
  match op with
  | "table" => pure tableJson
  | "clone" =>
    let v ← (a.getObjVal? "v") >>= cvOfJson
    let x ← Wire.getStr a "x"
    pure (cvToJson (cloneV Generated.cloneTable (renderX x) v))
  | "string" | "cloneString" | "strMod" | "strCoord" => OpStrings.handleWire cvOfJson renderX op a
  | _ => throw s!"C15: unknown op {op}"

end Ytk.C15
