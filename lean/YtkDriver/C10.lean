import YtkModel.Wire
import YtkModel.Pointer
open Lean

namespace Ytk.C10
open Ytk.Ptr

def optPath : Option Path → Json
  | some p => Wire.strs p
  | none => .null

def getSegs (a : Json) (k : String) : Except String (List PropSeg) := do
  let xs ← Wire.getArr a k
  xs.mapM fun j => do
    let isNum ← Wire.getBool j "n"
    let idx ← Wire.getNat j "i"
    let v ← Wire.getStr j "v"
    pure { isNum := isNum, index := idx, value := v }

def handle : Wire.Handler := fun op a => do
  match op with
  | "toks" =>
    let toks ← Wire.getStrs a "toks"
    let s := stringS toks
    pure (Json.mkObj [("str", .str s), ("parsed", optPath (parseS s)),
      ("parent", Wire.strs (parent toks)), ("last", .str (lastSegment toks))])
  | "str" =>
    let s ← Wire.getStr a "s"
    let p := parseS s
    pure (Json.mkObj [("parsed", optPath p),
      ("restr", match p with | some q => .str (stringS q) | none => .null),
      ("grammar", .bool (rfc6901 s.toList)),
      ("must", .str (mustParse s.toList).tag)])
  | "eval" =>
    let d ← Wire.getNode a "doc"
    let p ← Wire.getStrs a "p"
    let r := eval p d
    pure (Json.mkObj [("node", Wire.optNodeToJson r.2), ("trail", .arr (r.1.map Wire.nodeToJson).toArray),
      ("ref", Wire.optNodeToJson (getTok d p)), ("tokok", .bool (p.all tokOk))])
  | "prop" =>
    let segs ← getSegs a "segs"
    match propPath2Pointer segs with
    | .ok p => pure (Json.mkObj [("out", .str "ok"), ("p", Wire.strs p)])
    | o => pure (Json.mkObj [("out", .str o.tag), ("p", .null)])
  | _ => throw s!"C10: unknown op {op}"

end Ytk.C10
