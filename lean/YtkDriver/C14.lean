import YtkDriver.C12
namespace Ytk.C14
def handle : Ytk.Wire.Handler := Ytk.Pipeline.WireP.handle
end Ytk.C14
