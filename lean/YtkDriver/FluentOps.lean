/-
  Driver glue for YtkModel/Fluent.lean (fluent.ConfigHelper).
  Reached through the C04 handler: `{"p":"C04","op":"fluent","a":{…}}`.
  Trusted glue (JSON in/out); the computation is `Fluent.step` / `Fluent.result` / `Fluent.save`.
-/
import YtkModel.Wire
import YtkModel.Fluent
open Lean

namespace Ytk.FluentOps
open Ytk.Fluent

def getOptVal (a : Json) (k : String) : Except String (Option Val) :=
  match a.getObjVal? k with
  | .ok .null => pure none
  | .ok j => do let v ← Wire.valOfJson j; pure (some v)
  | .error _ => pure none

def mapOf : Option Val → Option (List (String × Val))
  | some (.obj m) => some m
  | _ => none

def editOf (j : Json) : Except String BOp := do
  let op ← Wire.getStr j "op"
  match op with
  | "addvalue" => pure (.addValue (← Wire.getStr j "path") (← Wire.getNode j "v"))
  | "addvalueat" => pure (.addValueAt (← Wire.getStr j "path") (← Wire.getNode j "v"))
  | "addcontainer" => pure (.addContainer (← Wire.getStr j "path"))
  | "remove" => pure (.remove (← Wire.getStr j "path"))
  | "removeat" => pure (.removeAt (← Wire.getStr j "path"))
  | _ => throw s!"fluent: unknown edit {op}"

/-- a document handed to Add.  `other` documents (structs …) carry what yaml.v3 makes of them
    (`via`: the decoded map, or null when encode/decode fails), computed by the harness. -/
def opOf (j : Json) : Except String (Op (Option (List (String × Val)))) := do
  let k ← Wire.getStr j "k"
  match k with
  | "dom" =>
    match ← Wire.getNode j "doc" with
    | .cont c => pure (.add (.dom c))
    | _ => throw "fluent: dom document must be a container"
  | "map" =>
    match ← Wire.getVal j "doc" with
    | .obj m => pure (.add (.map m))
    | _ => throw "fluent: map document must be a map"
  | "other" => pure (.add (.other (mapOf (← getOptVal j "via"))))
  | "load" => pure (.load (← Wire.getStr j "file"))
  | "mutate" => do
    let es ← (← Wire.getArr j "edits").mapM editOf
    pure (.mutate es)
  | _ => throw s!"fluent: unknown op {k}"

structure FileRow where
  name : String
  ext : String
  canOpen : Bool
  dec : Option (List (String × Val))

def fileRows (a : Json) : Except String (List FileRow) := do
  match a.getObjVal? "fs" with
  | .ok (.arr rows) =>
    rows.toList.mapM fun j => do
      pure ⟨← Wire.getStr j "name", ← Wire.getStr j "ext", ← Wire.getBool j "open", mapOf (← getOptVal j "dec")⟩
  | _ => pure []

def filesOf (rows : List FileRow) : TplFuncs.Files String :=
  { ext := fun f => match rows.find? (·.name == f) with | some r => r.ext | none => ""
    open_ := fun f => match rows.find? (·.name == f) with
      | some r => if r.canOpen then some f else none
      | none => none
    decode := fun _ c => match rows.find? (·.name == c) with | some r => r.dec | none => none }

def fmtName : FileCodec.Fmt → String
  | .yaml => "yaml" | .json => "json" | .properties => "properties"

def run (a : Json) : Except String Json := do
  let ops ← (← Wire.getArr a "ops").mapM opOf
  let fl := filesOf (← fileRows a)
  let mut s : State := Fluent.init
  let mut states : Array Json := #[]
  for o in ops do
    let r := step (fun (x : Option (List (String × Val))) => x) fl s o
    s := r.1
    states := states.push (Json.mkObj [("panic", .bool r.2), ("doc", Wire.nodeToJson (.cont s))])
  -- Result(): the value handed to the YAML round trip (the harness applies the real one)
  let res := match result (fun v => some v) s with
    | .ok v => Wire.valToJson (.obj v)
    | _ => .null
  -- Save(file)
  let saved := match a.getObjVal? "save" with
    | .ok j@(.obj _) =>
      match Wire.getStr j "ext", Wire.getBool j "open" with
      | .ok ext, .ok canOpen =>
        let r := save ext canOpen (fun _ _ => false) s
        Json.mkObj [("panic", .bool r.panicked), ("opened", .bool r.opened),
          ("fmt", match r.written with | some (f, _) => .str (fmtName f) | none => .null),
          ("val", match r.written with | some (_, v) => Wire.valToJson (.obj v) | none => .null)]
      | _, _ => .null
    | _ => .null
  pure (Json.mkObj [("steps", .arr states), ("result", res), ("saved", saved)])

end Ytk.FluentOps
