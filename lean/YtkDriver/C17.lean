import YtkModel.Wire
import YtkModel.K8s
import YtkModel.Builder
open Lean

namespace Ytk.C17
open Ytk.K8s

def bytesToJson (bs : Bytes) : Json := .arr (bs.map (fun b => Json.num (JsonNumber.fromNat b.toNat))).toArray

def getBytes (j : Json) (k : String) : Except String Bytes := do
  let a ← Wire.getArr j k
  a.mapM (fun x => do let n ← x.getNat?; pure (UInt8.ofNat n))

def strMapToJson (m : AMap String) : Json := Json.mkObj (m.map (fun p => (p.1, Json.str p.2)))
def binMapToJson (m : AMap Bytes) : Json := Json.mkObj (m.map (fun p => (p.1, bytesToJson p.2)))

def itemsJson (m : Manifest) : List (String × Json) :=
  [("str", strMapToJson m.str), ("bin", binMapToJson m.bin),
   ("strList", Wire.strs (strList m)), ("binList", Wire.strs (binList m))]

def editOfJson (j : Json) : Except String Edit := do
  let op ← Wire.getStr j "op"
  let k ← Wire.getStr j "key"
  match op with
  | "supdate" => pure (.strUpdate k (← Wire.getStr j "s"))
  | "sremove" => pure (.strRemove k)
  | "bupdate" => pure (.binUpdate k (← getBytes j "b"))
  | "bremove" => pure (.binRemove k)
  | _ => throw s!"C17: unknown edit {op}"

/-- load → (items) → writeTo → reload -/
def loadSaveReload (file : Val) (edits : List Edit) : Json :=
  match load file with
  | .ok m =>
    let m1 := applyEdits m edits
    let r := writeTo m1
    let re : Json := match load r.2 with
      | .ok m2 => Json.mkObj (("o", "ok") :: itemsJson m2)
      | o => Json.mkObj [("o", .str o.tag)]
    Json.mkObj ([("o", "ok"), ("loaded", Json.mkObj (itemsJson m)), ("edited", Json.mkObj (itemsJson m1)),
      ("saved", Wire.valToJson r.2), ("reload", re)])
  | o => Json.mkObj [("o", .str o.tag)]

/-- a finite codec given by the harness: the (document, text) pairs it observed -/
def tableCodec (tbl : List (Node × String)) : Codec where
  enc n := (tbl.find? (fun p => p.1 == n)).map (·.2)
  dec t := (tbl.find? (fun p => p.2 == t)).map (·.1)

/-- an edit of the embedded document: through the root builder (`addAt`, `removeAt`), through the handle of
    the nested container `Lookup(path)` finds (`hAdd`, `hRemove`; path "" = the root itself), or through the
    handle of the nested list at `path` (`lAppend`, `lSet`, `lMustSet` in range, `lClear`).  The tree model has
    no aliasing, so a handle is the position it was obtained at (the harness uses a retained handle only while
    it is still the node at that position). -/
inductive DocEdit where
  | addAt (path : String) (v : Node)
  | removeAt (path : String)
  | hAdd (path key : String) (v : Node)
  | hRemove (path key : String)
  | lAppend (path : String) (v : Node)
  | lSet (path : String) (i : Nat) (v : Node)
  | lMustSet (path : String) (i : Nat) (v : Node)
  | lClear (path : String)

def docEditOfJson (j : Json) : Except String DocEdit := do
  let op ← Wire.getStr j "op"
  let p ← Wire.getStr j "path"
  match op with
  | "addat" => pure (.addAt p (← Wire.getNode j "v"))
  | "removeat" => pure (.removeAt p)
  | "hadd" => pure (.hAdd p (← Wire.getStr j "key") (← Wire.getNode j "v"))
  | "hremove" => pure (.hRemove p (← Wire.getStr j "key"))
  | "lappend" => pure (.lAppend p (← Wire.getNode j "v"))
  | "lset" => pure (.lSet p (← Wire.getNat j "idx") (← Wire.getNode j "v"))
  | "lmustset" => pure (.lMustSet p (← Wire.getNat j "idx") (← Wire.getNode j "v"))
  | "lclear" => pure (.lClear p)
  | _ => throw s!"C17: unknown doc edit {op}"

def onCont (f : AMap Node → AMap Node) : Node → Node
  | .cont kvs => .cont (f kvs)
  | n => n

/-- apply `f` to the container `Lookup(path)` finds ("" = the root) -/
def atCont (d : AMap Node) (path : String) (f : AMap Node → AMap Node) : AMap Node :=
  if path = "" then f d else updateAt d path (onCont f)

def applyDocEditKvs (kvs : AMap Node) : DocEdit → AMap Node
  | .addAt p v => addValueAt kvs p v
  | .removeAt p => removeAt kvs p
  | .hAdd p k v => atCont kvs p (fun c => add c k v)
  | .hRemove p k => atCont kvs p (fun c => remove c k)
  | .lAppend p v => updateAt kvs p (onList fun xs => listAppend xs v)
  | .lSet p i v => updateAt kvs p (onList fun xs => listSet xs i v)
  | .lMustSet p i v => updateAt kvs p (onList fun xs => if i < xs.length then xs.set i v else xs)
  | .lClear p => updateAt kvs p (onList fun _ => [])

def applyDocEdit (n : Node) (e : DocEdit) : Node :=
  match n with
  | .cont kvs => .cont (applyDocEditKvs kvs e)
  | x => x

/-- one history on ONE Document handle: (edits, Save, reopen-observe) per round; the handle
    (document and manifest as left by the previous Save) is carried into the next round -/
def embeddedRounds (mode : Mode) (d : Doc) : List (List DocEdit) → List Json
  | [] => []
  | es :: rest =>
    let cb := es.foldl applyDocEdit d.cb
    let d1 : Doc := ⟨cb, d.m⟩
    match docSave mode d1 with
    | .ok (d2, file') =>
      let re : Json := match openDoc mode file' with
        | .ok d3 => Json.mkObj (("o", "ok") :: ("doc", Wire.nodeToJson d3.cb) :: itemsJson d3.m)
        | o => Json.mkObj [("o", .str o.tag)]
      Json.mkObj [("edited", Wire.nodeToJson cb), ("save", "ok"),
        ("file", Wire.valToJson file'), ("reopen", re)] :: embeddedRounds mode d2 rest
    | o => [Json.mkObj [("edited", Wire.nodeToJson cb), ("save", .str o.tag)]]

def embedded (mode : Mode) (file : Val) (rounds : List (List DocEdit)) : Json :=
  match openDoc mode file with
  | .ok d =>
    Json.mkObj [("o", "ok"), ("doc0", Wire.nodeToJson d.cb), ("before", Json.mkObj (itemsJson d.m)),
      ("rounds", .arr (embeddedRounds mode d rounds).toArray)]
  | o => Json.mkObj [("o", .str o.tag)]

/-- one history on ONE loaded manifest: (edits, WriteTo, reload-observe) per round; the manifest
    as mutated by WriteTo is carried into the next round -/
def manifestRounds (m : Manifest) : List (List Edit) → List Json
  | [] => []
  | es :: rest =>
    let m1 := applyEdits m es
    let r := writeTo m1
    let re : Json := match load r.2 with
      | .ok m2 => Json.mkObj (("o", "ok") :: itemsJson m2)
      | o => Json.mkObj [("o", .str o.tag)]
    Json.mkObj [("edited", Json.mkObj (itemsJson m1)), ("saved", Wire.valToJson r.2), ("reload", re)]
      :: manifestRounds r.1 rest

def manifestHist (file : Val) (rounds : List (List Edit)) : Json :=
  match load file with
  | .ok m => Json.mkObj [("o", "ok"), ("loaded", Json.mkObj (itemsJson m)),
      ("rounds", .arr (manifestRounds m rounds).toArray)]
  | o => Json.mkObj [("o", .str o.tag)]

def handle : Wire.Handler := fun op a => do
  match op with
  | "b64" =>
    let bs ← getBytes a "bytes"
    let text ← Wire.getStr a "text"
    let dec : Json := match b64dec text with
      | some r => bytesToJson r
      | none => .null
    let rt : Json := match b64dec (b64enc bs) with
      | some r => bytesToJson r
      | none => .null
    pure (Json.mkObj [("enc", .str (b64enc bs)), ("dec", dec), ("rt", rt)])
  | "manifest" =>
    let file ← Wire.getVal a "doc"
    let edits ← (← Wire.getArr a "edits").mapM editOfJson
    pure (loadSaveReload file edits)
  | "manifestHist" =>
    let file ← Wire.getVal a "doc"
    let rounds ← (← Wire.getArr a "rounds").mapM (fun r => do
      match r with
      | .arr es => es.toList.mapM editOfJson
      | _ => throw "C17: a round is a list of edits")
    pure (manifestHist file rounds)
  | "load" =>
    let file ← Wire.getVal a "doc"
    match load file with
    | .ok m => pure (Json.mkObj (("o", "ok") :: itemsJson m))
    | o => pure (Json.mkObj [("o", .str o.tag)])
  | "embedded" =>
    let file ← Wire.getVal a "file"
    let modeS ← Wire.getStr a "mode"
    let rounds ← (← Wire.getArr a "rounds").mapM (fun r => do
      match r with
      | .arr es => es.toList.mapM docEditOfJson
      | _ => throw "C17: a round is a list of edits")
    let mode : Mode ← match modeS with
      | "props" => pure Mode.props
      | _ => do
        let item ← Wire.getStr a "item"
        let tbl ← (← Wire.getArr a "table").mapM (fun e => do
          let n ← Wire.getNode e "doc"
          let t ← Wire.getStr e "text"
          pure (n, t))
        pure (Mode.text (tableCodec tbl) item)
    pure (embedded mode file rounds)
  | "create" =>
    pure (Wire.valToJson (createInit (← Wire.getStr a "kind") (← Wire.getStr a "name") (← Wire.getStr a "ns")))
  | _ => throw s!"C17: unknown op {op}"

end Ytk.C17
