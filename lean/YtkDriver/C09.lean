import YtkModel.Wire
import YtkModel.Patch
import YtkDriver.HeapScript
open Lean

namespace Ytk.C09
open Ytk.Ptr Ytk.Patch

def optPathOf (j : Json) (k : String) : Except String (Option Path) :=
  match j.getObjVal? k with
  | .ok (.arr xs) => do
    let ys ← xs.toList.mapM Json.getStr?
    pure (some ys)
  | _ => pure none

def optNodeOf (j : Json) (k : String) : Except String (Option Node) :=
  match j.getObjVal? k with
  | .ok .null => pure none
  | .ok v => do let n ← Wire.nodeOfJson v; pure (some n)
  | .error _ => pure none

def opOf (j : Json) : Except String OpObj := do
  let op ← Wire.getStr j "op"
  let frm ← optPathOf j "from"
  let path ← optPathOf j "path"
  let value ← optNodeOf j "value"
  pure { op := op, frm := frm, path := path, value := value }

structure St where
  impl : Node
  spec : Node
  out : List Json

def stepJson (o : OpObj) (s : St) : St :=
  let r := patchDo o s.impl
  let q := rfc6902 o s.spec
  let spec' := match q with | some d => d | none => s.spec
  { impl := r.1, spec := spec',
    out := s.out ++ [Json.mkObj [("out", .str r.2.tag), ("doc", Wire.nodeToJson r.1),
      ("rfc", .str (if q.isSome then "ok" else "err")), ("rfcdoc", Wire.nodeToJson spec'),
      ("inscope", .bool (inScope o))]] }

def handle : Wire.Handler := fun op a => do
  match op with
  | "seq" =>
    let d ← Wire.getNode a "doc"
    let js ← Wire.getArr a "ops"
    let ops ← js.mapM opOf
    let st := ops.foldl (fun s o => stepJson o s) { impl := d, spec := d, out := [] }
    let fin := runPatch ops d
    let finR := runRfc ops d
    pure (Json.mkObj [("steps", .arr st.out.toArray), ("final", Wire.nodeToJson fin.1),
      ("outs", Wire.strs (fin.2.map Outcome.tag)),
      ("rfcfinal", Wire.nodeToJson finR.1), ("rfcouts", Wire.strs (finR.2.map Outcome.tag))])
  | "heapScript" =>
    -- a script of heap-level operations on an explicit heap (YtkDriver/HeapScript.lean)
    HeapScript.run a
  | _ => throw s!"C09: unknown op {op}"

end Ytk.C09
