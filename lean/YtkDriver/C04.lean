import YtkModel.Wire
import YtkModel.Merge
import YtkDriver.HeapWire
import YtkDriver.FluentOps
open Lean

namespace Ytk.C04

def getOpt (a : Json) : Except String ListStrategy := do
  match Wire.getOptStr a "opt" with
  | some "append" => pure .append
  | some "meld" => pure .meld
  | none => pure .meld
  | some o => throw s!"C04: unknown list strategy {o}"

def getCont (a : Json) (k : String) : Except String (AMap Node) := do
  match ← Wire.getNode a k with
  | .cont kvs => pure kvs
  | _ => throw s!"C04: {k} is not a container"

def handle : Wire.Handler := fun op a => do
  match op with
  | "merge" =>
    let x ← getCont a "a"
    let y ← getCont a "b"
    let o ← getOpt a
    pure (Wire.nodeToJson (.cont (mergeC o x y)))
  | "mergeAll" =>
    let ls ← Wire.getArr a "layers"
    let cs ← ls.mapM fun j => do
      match ← Wire.nodeOfJson j with
      | .cont kvs => pure kvs
      | _ => throw "C04: layer is not a container"
    let o ← getOpt a
    pure (Wire.nodeToJson (.cont (mergeAll o cs)))
  | "mergeList" =>
    let x ← Wire.getNode a "a"
    let y ← Wire.getNode a "b"
    let o ← getOpt a
    match x, y with
    | .list xs, .list ys => pure (Wire.nodeToJson (.list (mergeList o xs ys)))
    | _, _ => throw "C04: mergeList needs two lists"
  | "coalesce" =>
    let x ← Wire.getNode a "a"
    let y ← Wire.getNode a "b"
    pure (Wire.nodeToJson (coalesce x y))
  | "heapMerge" =>
    -- explicit heap + the two root addresses: Merge at pointer level (YtkModel/Heap.lean)
    let h ← HeapWire.getHeap a
    let x ← Wire.getNat a "a"
    let y ← Wire.getNat a "b"
    let o ← HeapWire.getOpt a
    HeapWire.result a h [x, y] (Heap.mergeContainers o h x y) [("writes", "afterWrites")] true
  | "heapMergeAll" =>
    -- OverlayDocument.Merged: fold over the layer roots from a new empty container
    let h ← HeapWire.getHeap a
    let ls ← HeapWire.getAddrs a "layers"
    let o ← HeapWire.getOpt a
    HeapWire.result a h ls (Heap.mergeAll o h ls) [("writes", "afterWrites")] true
  | "fluent" =>
    -- fluent.ConfigHelper as a state machine (YtkDriver/FluentOps.lean)
    FluentOps.run a
  | _ => throw s!"C04: unknown op {op}"

end Ytk.C04
