import YtkModel.Wire
import YtkModel.DocSet
import YtkModel.DocSetFilesWire
open Lean

namespace Ytk.C18
open Ytk.DocSet

def optOfJson (j : Json) : Except String Opt := do
  let k ← Wire.getStr j "k"
  match k with
  | "tags" =>
    -- WithTags() with no tag: the harness omits the empty list
    match Wire.getStrs j "tags" with
    | .ok ts => pure (.withTags ts)
    | .error _ => pure (.withTags [])
  | "merge" => pure .mergeTags
  | "must" => pure .mustCreate
  | _ => throw s!"C18: unknown option {k}"

def opOfJson (j : Json) : Except String (Op Node) := do
  let k ← Wire.getStr j "k"
  let opts ← (← Wire.getArr j "opts").mapM optOfJson
  match k with
  | "add" => pure (.add (← Wire.getStr j "name") (← Wire.getNode j "doc") opts)
  | "unnamed" => pure (.addUnnamed (← Wire.getNode j "doc") opts)
  | "reader" =>
    let d : Option Node := match Wire.getNode j "doc" with
      | .ok n => some n
      | .error _ => none
    pure (.addFromReader (← Wire.getStr j "name") d opts)
  | _ => throw s!"C18: unknown op kind {k}"

def overlayToJson (o : Outcome (Overlay Node)) : Json :=
  match o with
  | .ok ov => Json.mkObj [("o", "ok"), ("names", Wire.strs (layerNames ov)),
      ("layers", .arr (ov.map (fun p => Json.arr #[.str p.1, Wire.nodeToJson (overlayLayer p.2)])).toArray)]
  | .err => Json.mkObj [("o", "err")]
  | .panic => Json.mkObj [("o", "panic")]

def observe (s : State Node) (queries : List (List String)) (names : List String) : List (String × Json) :=
  [("q", .arr (queries.map (fun ts => overlayToJson (taggedSubset ts s))).toArray),
   ("asOne", overlayToJson (asOne s)),
   ("named", .arr (names.map (fun n => Wire.optNodeToJson (namedDocument s n))).toArray)]

def handle : Wire.Handler := fun op a => do
  match op with
  | "run" =>
    let ops ← (← Wire.getArr a "ops").mapM opOfJson
    let queries ← (← Wire.getArr a "queries").mapM (fun q => do
      let xs ← q.getArr?
      xs.toList.mapM Json.getStr?)
    let names ← Wire.getStrs a "names"
    let mut s : State Node := DocSet.init
    let mut out : Array Json := #[]
    let mut gen : Array Json := #[]
    for o in ops do
      match o with
      | .addUnnamed _ _ => gen := gen.push (.str (unnamedName (s.unnamed + 1)))
      | _ => pure ()
      let r := step s o
      s := r.1
      out := out.push (Json.mkObj (("err", .bool r.2) :: observe s queries names))
    pure (Json.mkObj [("steps", .arr out), ("gen", .arr gen),
      ("genNames", Wire.strs (genNames DocSet.init ops))])
  | "unique" =>
    pure (Wire.strs (unique (← Wire.getStrs a "xs")))
  | "files" => DocSetFiles.handleWire optOfJson opOfJson observe a
  | _ => throw s!"C18: unknown op {op}"

end Ytk.C18
