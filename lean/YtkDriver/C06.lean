import YtkModel.Wire
import YtkModel.Overlay
import YtkDriver.HeapScript
open Lean

namespace Ytk.C06


def getCont (a : Json) (k : String) : Except String (AMap Node) := do
  match ← Wire.getNode a k with
  | .cont kvs => pure kvs
  | _ => throw s!"C06: {k} is not a container"

def stateJson (s : Overlay) : Json :=
  Json.mkObj [("names", Wire.strs (Overlay.layerNames s)),
    ("layers", Json.mkObj ((Overlay.layers s).map fun p => (p.1, Wire.nodeToJson (.cont p.2))))]

def scalarJson (v : Scalar) : Json := Json.mkObj [("t", .str v.ty), ("v", .str v.text)]

def getPred (a : Json) : Except String (Scalar → Bool) := do
  match Wire.getOptStr a "pred" with
  | some "all" => pure fun _ => true
  | some "null" => pure fun s => s == Scalar.null
  | some "type" =>
    let t ← Wire.getStr a "t"
    pure fun s => s.ty == t
  | some "eq" =>
    match ← Wire.getNode a "v" with
    | .leaf v => pure fun s => s == v
    | _ => throw "C06: eq predicate needs a scalar"
  | _ => throw "C06: unknown predicate"

/-- visitor used by the harness: record every visit, stop at the `limit`-th one (0 = never) -/
def visitor (limit : Nat) (st : List (String × String × Scalar)) (l p : String) (v : Scalar) :
    List (String × String × Scalar) × Bool :=
  let st' := st ++ [(l, p, v)]
  (st', !(limit != 0 && st'.length ≥ limit))

def writeResult (s : Overlay) (r : Outcome Overlay) : Overlay × Json :=
  match r with
  | .ok s' => (s', Json.mkObj [("out", "ok"), ("state", stateJson s')])
  | .err => (s, Json.mkObj [("out", "err")])
  | .panic => (s, Json.mkObj [("out", "panic")])

def stepJson (s : Overlay) (a : Json) : Except String (Overlay × Json) := do
  let op ← Wire.getStr a "op"
  match op with
  | "put" =>
    let l ← Wire.getStr a "l"
    let p ← Wire.getStr a "path"
    let v ← Wire.getNode a "v"
    pure (writeResult s (Overlay.put s l p v))
  | "add" =>
    let l ← Wire.getStr a "l"
    let c ← getCont a "v"
    pure (writeResult s (.ok (Overlay.addLayer s l c)))
  | "populate" =>
    let l ← Wire.getStr a "l"
    let p ← Wire.getStr a "path"
    let c ← getCont a "v"
    pure (writeResult s (Overlay.populate s l p c))
  | "names" => pure (s, Wire.strs (Overlay.layerNames s))
  | "lookup" =>
    let l ← Wire.getStr a "l"
    let p ← Wire.getStr a "path"
    pure (s, Wire.optNodeToJson (Overlay.lookup s l p))
  | "lookupAny" =>
    let p ← Wire.getStr a "path"
    pure (s, Wire.optNodeToJson (Overlay.lookupAny s p))
  | "search" =>
    let f ← getPred a
    pure (s, .arr ((Overlay.search f s).map fun q => Json.arr #[.str q.1, .str q.2]).toArray)
  | "walk" =>
    let limit ← Wire.getNat a "limit"
    let (vis, go) := Overlay.walk (visitor limit) s []
    pure (s, Json.mkObj [("stopped", .bool (!go)),
      ("visited", .arr (vis.map fun q => Json.arr #[.str q.1, .str q.2.1, scalarJson q.2.2]).toArray)])
  | "merged" =>
    let o := match Wire.getOptStr a "opt" with
      | some "append" => ListStrategy.append
      | _ => ListStrategy.meld
    pure (s, Wire.nodeToJson (.cont (Overlay.merged o s)))
  | "snapshot" => pure (s, stateJson s)
  | _ => throw s!"C06: unknown step {op}"

def handle : Wire.Handler := fun op a => do
  match op with
  | "run" =>
    let ops ← Wire.getArr a "ops"
    let mut s : Overlay := []
    let mut out : Array Json := #[]
    for o in ops do
      let (s', j) ← stepJson s o
      s := s'
      out := out.push j
    pure (.arr out)
  | "heapScript" =>
    -- a script of heap-level operations on an explicit heap (YtkDriver/HeapScript.lean)
    HeapScript.run a
  | _ => throw s!"C06: unknown op {op}"

end Ytk.C06
