import YtkModel.Wire
import YtkModel.Diff
import YtkDriver.C07
open Lean

namespace Ytk.C08

def scalarOfJson (j : Json) : Except String Scalar := do
  let t ← (j.getObjVal? "t") >>= Json.getStr?
  let v ← (j.getObjVal? "v") >>= Json.getStr?
  pure ⟨t, v⟩

def modOfJson (j : Json) : Except String Mod := do
  let ty ← Wire.getStr j "ty"
  let path ← Wire.getStr j "path"
  let value ← (j.getObjVal? "value") >>= scalarOfJson
  let old ← (j.getObjVal? "old") >>= scalarOfJson
  let t ← match ty with
    | "Add" => pure ModType.add
    | "Change" => pure ModType.change
    | "Delete" => pure ModType.delete
    | _ => throw s!"mod type {ty}"
  pure ⟨t, path, value, old⟩

def flatToJson (f : AMap Scalar) : Json :=
  .arr (f.map fun (k, v) => Json.arr #[.str k, C07.scalarToJson v]).toArray

def handle : Wire.Handler := fun op a => do
  match op with
  | "recon" =>
    let l ← C07.getCont a "l"
    let r ← C07.getCont a "r"
    let res := apply r (diff l r)
    pure (Json.mkObj [("doc", Wire.nodeToJson (.cont res)), ("flat", flatToJson (flattenMap res))])
  | "apply" =>
    let d ← C07.getCont a "d"
    let ms ← (← Wire.getArr a "mods").mapM modOfJson
    let ps ← Wire.getStrs a "lookups"
    let res := apply d ms
    pure (Json.mkObj [("doc", Wire.nodeToJson (.cont res)),
      ("lookups", .arr (ps.map fun p => Wire.optNodeToJson (lookup res p)).toArray)])
  | _ => throw s!"C08: unknown op {op}"

end Ytk.C08
