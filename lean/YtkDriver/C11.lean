import YtkModel.Wire
import YtkModel.Resolver
open Lean

namespace Ytk.C11
open Ytk.Resolver

def getDelims (a : Json) : Except String Delims := do
  let ds ← Wire.getStrs a "d"
  match ds with
  | [p, s, v] => pure ⟨p.toList, s.toList, v.toList⟩
  | _ => throw "C11: d must be [prefix, suffix, separator]"

def getTable (d : Delims) (a : Json) : Except String Table := do
  let rows ← Wire.getArr a "tbl"
  rows.mapM fun row => do
    let kv ← (Json.getArr? row)
    match kv.toList with
    | [k, v] => do
      let k ← Json.getStr? k
      let v ← Json.getStr? v
      pure (lex d k.toList, lex d v.toList)
    | _ => throw "C11: table row must be [key, value]"

def resJson (d : Delims) : Res → Json
  | .ok t => Json.mkObj [("r", "ok"), ("s", .str (String.ofList (unlex d t)))]
  | .cycle o => Json.mkObj [("r", "cycle"), ("o", .str (String.ofList (unlex d o)))]
  | .outOfFuel => Json.mkObj [("r", "fuel")]

/-- default fuel of the driver: far above what any generated case needs (fuel is consumed
    once per nested call / loop continuation, i.e. along one branch of the call tree) -/
def defaultFuel : Nat := 400

def handle : Wire.Handler := fun op a => do
  match op with
  | "resolve" =>
    -- {"d":[pre,suf,sep], "tbl":[[k,v],…], "in":[s,…]}: lex everything for the triple, resolve each input
    let d ← getDelims a
    let tbl ← getTable d a
    let ins ← Wire.getStrs a "in"
    let fuel := (Wire.getNat a "fuel").toOption.getD defaultFuel
    let outs := ins.map fun s =>
      let t := lex d s.toList
      let r := resolveTop (relex d) fuel tbl t
      Json.mkObj [("res", resJson d r), ("bal", .bool (decide (Balanced t))),
        ("ntok", (t.length : Nat)),
        ("rt", .bool (unlex d t == s.toList))]
    pure (.arr outs.toArray)
  | _ => throw s!"C11: unknown op {op}"

end Ytk.C11
