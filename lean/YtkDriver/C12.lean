import YtkModel.Wire
import YtkModel.Pipeline
open Lean

namespace Ytk.Pipeline.WireP

def optStr (j : Json) (k : String) : Option String := Wire.getOptStr j k

def getVoR (j : Json) : Except String VoR := do
  let r ← Wire.getBool j "isRef"
  let rf ← Wire.getStr j "ref"
  let v ← Wire.getStr j "val"
  pure ⟨r, rf, v⟩

def optField (j : Json) (k : String) : Option Json :=
  match j.getObjVal? k with
  | .ok .null => none
  | .ok v => some v
  | .error _ => none

mutual
partial def actionOfJson (j : Json) : Except String Action := do
  let name ← Wire.getStr j "name"
  let order ← (j.getObjVal? "order") >>= Json.getInt?
  let ops ← (← Wire.getArr j "ops").mapM opOfJson
  let cs ← (← Wire.getArr j "children").mapM actionOfJson
  pure (.mk name order (optStr j "when") ops cs)
partial def optAction (j : Json) (k : String) : Except String (Option Action) :=
  match optField j k with
  | none => pure none
  | some a => do pure (some (← actionOfJson a))
partial def opOfJson (j : Json) : Except String Op := do
  let k ← Wire.getStr j "k"
  match k with
  | "set" =>
    let data ← match optField j "data" with
      | none => pure none
      | some d => do pure (some (← Wire.nodeOfJson d))
    pure (.set data (← Wire.getStr j "path") (optStr j "strategy"))
  | "template" =>
    pure (.template (← Wire.getStr j "tmpl") (← Wire.getStr j "path") (← Wire.getBool j "trim") (optStr j "parseAs"))
  | "log" => pure (.log (← Wire.getStr j "msg"))
  | "abort" => pure (.abort (← Wire.getStr j "msg"))
  | "ext" => pure (.ext (← Wire.getStr j "fn") (← Wire.getStr j "id") (← Wire.getNat j "n"))
  | "forEach" =>
    let q ← match optField j "query" with
      | none => pure none
      | some v => do pure (some (← getVoR v))
    let its ← match optField j "items" with
      | none => pure none
      | some (.arr xs) => do pure (some (← xs.toList.mapM getVoR))
      | some _ => throw "forEach.items: not an array"
    let body ← actionOfJson (← j.getObjVal? "body")
    pure (.forEach q its (optStr j "var") body)
  | "loop" =>
    let body ← actionOfJson (← j.getObjVal? "body")
    pure (.loop (← optAction j "init") (← Wire.getStr j "test") body (← optAction j "post"))
  | "call" =>
    let args ← match optField j "args" with
      | none => pure (Node.cont [])
      | some a => Wire.nodeOfJson a
    pure (.call (← Wire.getStr j "name") (optStr j "argsPath") args)
  | "define" => pure (.define (← Wire.getStr j "name") (← actionOfJson (← j.getObjVal? "body")))
  | _ => throw s!"unknown op kind {k}"
end

def errJson : Option Err → Json
  | none => .null
  | some e => .str e.tag

def eventJson : Event → Json
  | .before l => .arr #[.str "b", .str l]
  | .after l e => .arr #[.str "a", .str l, errJson e]
  | .ran i => .arr #[.str "r", .str i]
  | .log m => .arr #[.str "l", .str m]
  | .test t r => .arr #[.str "t", .str t, match r with | none => .null | some b => .bool b]

def contOfJson (j : Json) (k : String) : Except String (AMap Node) := do
  match ← Wire.getNode j k with
  | .cont c => pure c
  | _ => throw "data: not a container"

def handle : Wire.Handler := fun op a => do
  match op with
  | "exec" =>
    let d ← contOfJson a "data"
    let root ← actionOfJson (← a.getObjVal? "root")
    let fuel ← Wire.getNat a "fuel"
    let r := exec fuel root ⟨d, []⟩
    pure (Json.mkObj [("tr", .arr (r.tr.map eventJson).toArray), ("err", errJson r.err),
      ("data", Wire.nodeToJson (.cont r.st.data)), ("defs", Wire.strs (r.st.defs.map (·.1)))])
  | "seq" =>
    let d ← contOfJson a "data"
    let prog ← (← Wire.getArr a "prog").mapM opOfJson
    let fuel ← Wire.getNat a "fuel"
    let r := runSeq fuel prog ⟨d, []⟩
    pure (Json.mkObj [("tr", .arr (r.1.map eventJson).toArray), ("errs", .arr (r.2.2.map errJson).toArray),
      ("data", Wire.nodeToJson (.cont r.2.1.data)), ("defs", Wire.strs (r.2.1.defs.map (·.1)))])
  | "sort" =>
    -- children order only: names after sortActs
    let cs ← (← Wire.getArr a "children").mapM actionOfJson
    pure (Wire.strs ((sortActs cs).map Action.name))
  | "opsOf" =>
    let ops ← (← Wire.getArr a "ops").mapM opOfJson
    pure (Wire.strs ((opsIn Generated.opOrder ops).map Op.kind))
  | "evalBool" =>
    let d ← contOfJson a "data"
    pure (match evalBool (← Wire.getStr a "t") d with | none => .null | some b => .bool b)
  | "render" =>
    let d ← contOfJson a "data"
    let t ← Wire.getStr a "t"
    pure (Json.mkObj [("strict", match render t d with | none => .null | some s => .str s),
      ("lenient", .str (renderLenient t d))])
  | _ => throw s!"pipeline: unknown op {op}"

end Ytk.Pipeline.WireP

namespace Ytk.C12
def handle : Wire.Handler := Ytk.Pipeline.WireP.handle
end Ytk.C12
