import YtkModel.Wire
import YtkModel.Builder
import YtkDriver.HeapHist
open Lean

namespace Ytk.C03

def opOfJson (j : Json) : Except String BOp := do
  let op ← Wire.getStr j "op"
  match op with
  | "addvalue" => pure (.addValue (← Wire.getStr j "path") (← Wire.getNode j "v"))
  | "addvalueat" => pure (.addValueAt (← Wire.getStr j "path") (← Wire.getNode j "v"))
  | "addcontainer" => pure (.addContainer (← Wire.getStr j "path"))
  | "addlist" => pure (.addList (← Wire.getStr j "path"))
  | "remove" => pure (.remove (← Wire.getStr j "path"))
  | "removeat" => pure (.removeAt (← Wire.getStr j "path"))
  | "listset" => pure (.listSet (← Wire.getStr j "path") (← Wire.getNat j "idx") (← Wire.getNode j "v"))
  | "listappend" => pure (.listAppend (← Wire.getStr j "path") (← Wire.getNode j "v"))
  | "listclear" => pure (.listClear (← Wire.getStr j "path"))
  | "listmustset" => pure (.listMustSet (← Wire.getStr j "path") (← Wire.getNat j "idx") (← Wire.getNode j "v"))
  | "compact" => pure .compact
  | _ => throw s!"C03: unknown builder op {op}"

def contOf (n : Node) : Except String (AMap Node) :=
  match n with
  | .cont kvs => pure kvs
  | _ => throw "root must be a container"

def handle : Wire.Handler := fun op a => do
  match op with
  | "run" =>
    -- the state after every step, and lookups of the probe paths in the final state
    let d0 ← contOf (← Wire.getNode a "start")
    let ops ← (← Wire.getArr a "ops").mapM opOfJson
    let mut d := d0
    let mut states : Array Json := #[]
    let mut outcome := "ok"
    for o in ops do
      match bstep d o with
      | .ok d' => d := d'; states := states.push (Wire.nodeToJson (.cont d))
      | .err => outcome := "err"; break
      | .panic => outcome := "panic"; break
    let probes ← Wire.getStrs a "probes"
    pure (Json.mkObj [("states", .arr states), ("outcome", .str outcome),
      ("lookups", .arr (probes.map fun p => Wire.optNodeToJson (lookup d p)).toArray),
      ("flatten", .arr ((flattenMap d).map fun (p, s) => Json.arr #[.str p, Wire.nodeToJson (.leaf s)]).toArray)])
  | "heapHistory" =>
    -- explicit heap + root + a history of builder calls on the root / on returned handles, at
    -- pointer level (YtkModel/HeapBuilder.lean)
    HeapHist.run a
  | _ => throw s!"C03: unknown op {op}"

end Ytk.C03
