import YtkModel.Wire
import YtkModel.Addr
open Lean

namespace Ytk.C02

def segJson : PSeg → Json
  | .key s => Json.mkObj [("k", .str s)]
  | .idx n => Json.mkObj [("i", .num n)]

def contOf (n : Node) : Except String (AMap Node) :=
  match n with
  | .cont kvs => pure kvs
  | _ => throw "root must be a container"

def flatJson (f : AMap Scalar) : Json :=
  .arr (f.map fun (p, s) => Json.arr #[.str p, Wire.nodeToJson (.leaf s)]).toArray

def handle : Wire.Handler := fun op a => do
  match op with
  | "addr" =>
    -- flatten, and for every flattened path: lookup, pointer evaluation, props segments
    let d ← contOf (← Wire.getNode a "d")
    let fl := flattenMap d
    let per := fl.map fun (p, _) =>
      let segs := propsParsePath p
      Json.mkObj [("p", .str p), ("lookup", Wire.optNodeToJson (lookup d p)),
        ("ptr", Wire.optNodeToJson (evalTokens (.cont d) (pointerTokens segs))),
        ("segs", .arr (segs.map segJson).toArray), ("steps", .num (stepCount p))]
    pure (Json.mkObj [("flatten", flatJson fl), ("per", .arr per.toArray),
      ("scalars", .num (Node.scalarCount (.cont d)))])
  | "rebuild" =>
    let pairs ← (← Wire.getArr a "pairs").mapM fun j => do
      let p ← Wire.getStr j "p"
      let n ← Wire.getNode j "v"
      match n with
      | .leaf s => pure (p, s)
      | _ => throw "rebuild: leaf expected"
    let d := rebuild pairs
    pure (Json.mkObj [("dom", Wire.nodeToJson (.cont d)), ("flatten", flatJson (flattenMap d))])
  | _ => throw s!"C02: unknown op {op}"

end Ytk.C02
