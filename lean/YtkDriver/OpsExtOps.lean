/-
  Driver glue for YtkModel/OpsExt.lean (ExecOp, TemplateFileOp, Html2DomOp / convertHtmlNode2Dom,
  ValOrRef / AnyVal decoding).  Reached through the C13 handler:
  `{"p":"C13","op":"opsExt","a":{"fn":<name>, …}}`.
  Trusted glue (JSON in/out); every computation is a call of the model definitions the theorems
  of YtkProps/C13.lean are about.  The operating system, the template engine and the HTML
  library arrive as finite tables holding what the harness observed.
-/
import YtkModel.Wire
import YtkModel.OpsExt
open Lean

namespace Ytk.OpsExtOps
open Ytk.PD Ytk.OpsExt

def getOptStr (a : Json) (k : String) : Option String := Wire.getOptStr a k

def getOptStrs (a : Json) (k : String) : Except String (Option (List String)) :=
  match a.getObjVal? k with
  | .ok (.arr xs) => do let ys ← xs.toList.mapM Json.getStr?; pure (some ys)
  | _ => pure none

def getOptInts (a : Json) (k : String) : Except String (Option (List Int)) :=
  match a.getObjVal? k with
  | .ok (.arr xs) => do let ys ← xs.toList.mapM Json.getInt?; pure (some ys)
  | _ => pure none

def getBytes (a : Json) (k : String) : Except String (List Nat) :=
  match a.getObjVal? k with
  | .ok (.arr xs) => xs.toList.mapM Json.getNat?
  | _ => pure []

def bytesJson (bs : List Nat) : Json := .arr (bs.map fun (n : Nat) => (n : Json)).toArray

/-- a rendering table `[[text, rendered], …]`: RenderLenient as observed; identity elsewhere -/
def lenientTable (a : Json) (k : String) : Except String (String → String) := do
  match a.getObjVal? k with
  | .ok (.arr rows) =>
    let ps ← rows.toList.mapM fun r => do
      match (← r.getArr?).toList with
      | [s, t] => do pure ((← s.getStr?), (← t.getStr?))
      | _ => throw "lenient table: pair expected"
    pure fun s => match ps.find? (·.1 == s) with
      | some p => p.2
      | none => s
  | _ => pure id

/-- a table `[[key, value|null], …]` as a partial function -/
def optTable (a : Json) (k : String) : Except String (String → Option String) := do
  match a.getObjVal? k with
  | .ok (.arr rows) =>
    let ps ← rows.toList.mapM fun r => do
      match (← r.getArr?).toList with
      | [s, .str t] => do pure ((← s.getStr?), some t)
      | [s, _] => do pure ((← s.getStr?), (none : Option String))
      | _ => throw "table: pair expected"
    pure fun s => match ps.find? (·.1 == s) with
      | some p => p.2
      | none => none
  | _ => pure fun _ => none

partial def htmlOfJson (j : Json) : Except String HtmlNode := do
  match j.getObjVal? "e" with
  | .ok (.str tag) =>
    let attrs ← match j.getObjVal? "a" with
      | .ok (.arr xs) => xs.toList.mapM fun p => do
          match (← p.getArr?).toList with
          | [k, v] => do pure ((← k.getStr?), (← v.getStr?))
          | _ => throw "html: attribute pair expected"
      | _ => pure []
    let cs ← match j.getObjVal? "c" with
      | .ok (.arr xs) => xs.toList.mapM htmlOfJson
      | _ => pure []
    pure (.elem tag attrs cs)
  | _ =>
    match j.getObjVal? "t" with
    | .ok (.str d) => pure (.text d)
    | _ =>
      match j.getObjVal? "d" with
      | .ok (.arr xs) => do
        let cs ← xs.toList.mapM htmlOfJson
        pure (.document cs)
      | _ => pure .other

def procOfJson (j : Json) : Except String ProcResult := do
  match j.getObjVal? "kind" with
  | .ok (.str "start") => pure .startFail
  | .ok (.str "success") => pure (.success (← getBytes j "out") (← getBytes j "err"))
  | .ok (.str "exit") =>
    let code ← (j.getObjVal? "code") >>= Json.getInt?
    pure (.exitError code (← getBytes j "out") (← getBytes j "err"))
  | _ => throw "proc: kind expected"

def refFieldOfJson (j : Json) : RefField :=
  match j.getObjVal? "ref" with
  | .ok (.str s) => .str s
  | .ok (.bool true) => .nonString
  | _ => .absent

def yinOfJson (j : Json) : Except String YIn := do
  match j.getObjVal? "kind" with
  | .ok (.str "scalar") => pure (.scalar (← Wire.getStr j "value"))
  | .ok (.str "mapping") => pure (.mapping (refFieldOfJson j))
  | _ => pure .otherKind

def vorJson (pv : ValOrRef) : Json :=
  Json.mkObj [("isRef", .bool pv.isRef), ("ref", .str pv.ref), ("val", .str pv.val)]

partial def ynodeOfJson (j : Json) : Except String YNode := do
  match j.getObjVal? "s" with
  | .ok (.str s) => pure (.scalar s)
  | _ =>
    match j.getObjVal? "l" with
    | .ok (.arr xs) =>
      let ys ← xs.toList.mapM ynodeOfJson
      pure (.seq ys)
    | _ =>
      match j.getObjVal? "o" with
      | .ok (.arr xs) =>
        let ps ← xs.toList.mapM fun p => do
          let a ← p.getArr?
          match a.toList with
          | [k, v] => do
            let k ← k.getStr?
            let v ← ynodeOfJson v
            pure (k, v)
          | _ => throw "ynode: pair expected"
        pure (.map ps)
      | _ => throw "ynode: unexpected JSON"

def getCont (a : Json) (k : String) : Except String (AMap Node) := do
  match (← Wire.getNode a k) with
  | .cont c => pure c
  | _ => throw s!"{k}: container expected"

def logJson (log : List (List String)) : Json := .arr (log.map Wire.strs).toArray

def run (a : Json) : Except String Json := do
  let fn ← Wire.getStr a "fn"
  match fn with
  | "exec" =>
    let data ← getCont a "data"
    let spec : ExecSpec := {
      program := (← Wire.getStr a "program"), args := (← getOptStrs a "args"),
      dir := (← Wire.getStr a "dir"), validExitCodes := (← getOptInts a "valid"),
      stdout := getOptStr a "stdout", stderr := getOptStr a "stderr",
      saveExitCodeTo := getOptStr a "saveTo" }
    let lenient ← lenientTable a "ren"
    let cannot ← Wire.getStrs a "cannotOpen"
    let proc ← procOfJson (← a.getObjVal? "proc")
    let os : ExecOS := ⟨fun p => !cannot.contains p, fun _ _ _ => proc⟩
    let r := execOp lenient os spec data
    pure (Json.mkObj [("err", .bool r.err), ("data", Wire.nodeToJson (.cont r.data)), ("ran", .bool r.ran),
      ("files", .arr (r.files.map fun (p, bs) => Json.arr #[.str p, bytesJson bs]).toArray),
      ("log", logJson r.log)])
  | "templateFile" =>
    let data ← getCont a "data"
    let spec : TemplateFileSpec := ⟨(← Wire.getStr a "file"), (← Wire.getStr a "output"), getOptStr a "path"⟩
    -- the engine's observed results for the scope the operation used (one scope per case)
    let lenient ← lenientTable a "ren"
    let rendered ← optTable a "rendered"
    let files ← optTable a "files"
    let cannot ← Wire.getStrs a "cannotWrite"
    let te : TplEngine := ⟨fun _ s => rendered s, fun _ s => lenient s⟩
    let fs : TplFS := ⟨files, fun p => !cannot.contains p⟩
    let r := templateFileOp te fs spec data
    pure (Json.mkObj [("err", .bool r.err), ("data", Wire.nodeToJson (.cont r.data)),
      ("written", match r.written with
        | some (p, s) => Json.arr #[.str p, .str s]
        | none => .null),
      ("log", logJson r.log)])
  | "html2dom" =>
    let data ← getCont a "data"
    let spec : Html2DomSpec := ⟨(← Wire.getStr a "from"), (← Wire.getStr a "to"), getOptStr a "query", getOptStr a "layout"⟩
    let lenient ← lenientTable a "ren"
    let doc ← match a.getObjVal? "doc" with
      | .ok .null => pure HtmlNode.other
      | .ok j => htmlOfJson j
      | .error _ => pure HtmlNode.other
    -- the query's observed result: "err" | null (no match) | the node
    let q : Option (Option HtmlNode) ← match a.getObjVal? "queried" with
      | .ok (.str _) => pure none
      | .ok .null => pure (some none)
      | .ok j => do let n ← htmlOfJson j; pure (some (some n))
      | .error _ => pure (some none)
    let lib : HtmlLib := ⟨fun _ => doc, fun _ _ => q⟩
    match html2domOp lenient lib spec data with
    | .ok d => pure (Json.mkObj [("out", "ok"), ("data", Wire.nodeToJson (.cont d))])
    | o => pure (Json.mkObj [("out", .str o.tag), ("data", Wire.nodeToJson (.cont data))])
  | "convert" =>
    let cb ← getCont a "cb"
    let n ← htmlOfJson (← a.getObjVal? "node")
    pure (Wire.nodeToJson (.cont (convert cb n)))
  | "valOrRef" =>
    -- a sequence of UnmarshalYAML calls on one receiver, starting from the zero value
    let steps ← Wire.getArr a "steps"
    let mut pv := vorZero
    let mut outs : Array Json := #[]
    let mut dead := false
    for s in steps do
      if dead then
        outs := outs.push (Json.mkObj [("out", "skipped")])
      else
        match vorUnmarshal pv (← yinOfJson s) with
        | .ok v =>
          pv := v
          outs := outs.push (Json.mkObj [("out", "ok"), ("pv", vorJson pv)])
        | .err => outs := outs.push (Json.mkObj [("out", "err"), ("pv", vorJson pv)])
        | .panic =>
          outs := outs.push (Json.mkObj [("out", "panic")])
          dead := true
    pure (.arr outs)
  | "valOrRefMarshal" =>
    let pv : ValOrRef := ⟨(← Wire.getBool a "isRef"), (← Wire.getStr a "ref"), (← Wire.getStr a "val")⟩
    match vorUnmarshal vorZero (vorMarshalDefault pv) with
    | .ok v => pure (Json.mkObj [("out", "ok"), ("pv", vorJson v)])
    | o => pure (Json.mkObj [("out", .str o.tag)])
  | "anyVal" =>
    let n ← ynodeOfJson (← a.getObjVal? "ynode")
    pure (Wire.nodeToJson (anyValUnmarshal n))
  | _ => throw s!"C13 opsExt: unknown fn {fn}"

end Ytk.OpsExtOps
