import YtkModel.Wire
import YtkModel.Effects
import YtkModel.Generated.Effects
open Lean

namespace Ytk.C20
open Ytk.EffectT Ytk.Effects

def nats (xs : List Nat) : Json := .arr (xs.map (fun (n : Nat) => (n : Json))).toArray

/-- the closed write summary of every read API entry, as the theorems see it -/
def summaryJson : Json :=
  let W := writesAll Generated.effectTable
  .arr (Generated.readApi.map fun (lab, i) =>
    let f := Generated.effectTable.getD i default
    Json.mkObj [("method", .str lab), ("fn", .str f.name), ("writes", nats (W.getD i [])),
      ("callbacks", Wire.strs f.callbacks)]).toArray

def handle : Wire.Handler := fun op a => do
  match op with
  | "summary" => pure summaryJson
  | "writes" =>
    -- closed summary of a function given by name
    let n ← Wire.getStr a "fn"
    let W := writesAll Generated.effectTable
    match (Generated.effectTable.zipIdx.find? (fun p => p.1.name == n)) with
    | some (_, i) => pure (nats (W.getD i []))
    | none => pure .null
  | _ => throw s!"C20: unknown op {op}"

end Ytk.C20
