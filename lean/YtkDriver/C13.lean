import YtkModel.Wire
import YtkModel.PipelineData
import YtkDriver.HeapScript
import YtkDriver.TplFuncsOps
import YtkDriver.OpsExtOps
open Lean

namespace Ytk.C13
open Ytk.PD

def getCont (a : Json) (k : String) : Except String (AMap Node) := do
  match (← Wire.getNode a k) with
  | .cont c => pure c
  | _ => throw s!"{k}: container expected"

def getOptNode (a : Json) (k : String) : Except String (Option Node) :=
  match a.getObjVal? k with
  | .ok .null => pure none
  | .ok j => do let n ← Wire.nodeOfJson j; pure (some n)
  | .error _ => pure none

partial def ynodeOfJson (j : Json) : Except String YNode := do
  match j.getObjVal? "s" with
  | .ok (.str s) => pure (.scalar s)
  | _ =>
    match j.getObjVal? "l" with
    | .ok (.arr xs) =>
      let ys ← xs.toList.mapM ynodeOfJson
      pure (.seq ys)
    | _ =>
      match j.getObjVal? "o" with
      | .ok (.arr xs) =>
        let ps ← xs.toList.mapM fun p => do
          let a ← p.getArr?
          match a.toList with
          | [k, v] => do
            let k ← k.getStr?
            let v ← ynodeOfJson v
            pure (k, v)
          | _ => throw "ynode: pair expected"
        pure (.map ps)
      | _ => throw "ynode: unexpected JSON"

def errData (e : Bool) (d : AMap Node) : Json :=
  Json.mkObj [("err", .bool e), ("data", Wire.nodeToJson (.cont d))]

def noRender : String → Option String := fun _ => none

def getValOrRef (a : Json) (k : String) : Except String (Option ValOrRef) :=
  match a.getObjVal? k with
  | .ok .null => pure none
  | .error _ => pure none
  | .ok j => do
    let isRef ← Wire.getBool j "isRef"
    let ref ← Wire.getStr j "ref"
    let val ← Wire.getStr j "val"
    pure (some ⟨isRef, ref, val⟩)

def decisionTag : Decision → String
  | .errorBeforeOpen => "errorBeforeOpen"
  | .errorAfterOpen => "errorAfterOpen"
  | .writeNode => "writeNode"
  | .writeEmptyDoc => "writeEmptyDoc"
  | .writeLeafText => "writeLeafText"
  | .writeEmptyText => "writeEmptyText"
  | .panic => "panic"

def targetOfString (s : String) : Target :=
  if s = "leaf" then .leaf else if s = "list" then .list else if s = "cont" then .cont else .absent

def handle : Wire.Handler := fun op a => do
  match op with
  | "set" =>
    let data ← getCont a "data"
    let payload ← getOptNode a "payload"
    let payload : Option (AMap Node) := match payload with
      | some (.cont c) => some c
      | _ => none
    let path ← Wire.getStr a "path"
    let strategy := Wire.getOptStr a "strategy"
    match setOp mergeContainers data payload path strategy with
    | .ok d => pure (Json.mkObj [("out", "ok"), ("data", Wire.nodeToJson (.cont d))])
    | o => pure (Json.mkObj [("out", .str o.tag), ("data", Wire.nodeToJson (.cont data))])
  | "template" =>
    let data ← getCont a "data"
    let template ← Wire.getStr a "template"
    let path ← Wire.getStr a "path"
    let parseAs := Wire.getOptStr a "parseAs"
    let trim ← Wire.getBool a "trim"
    let rendered := Wire.getOptStr a "rendered"
    let trimmed ← Wire.getStr a "trimmed"
    let yn : Option (Option YNode) ← match a.getObjVal? "ynode" with
      | .ok .null => pure (some none)
      | .ok (.str _) => pure none          -- "error"
      | .ok j => do let n ← ynodeOfJson j; pure (some (some n))
      | .error _ => pure none
    let (d, e) := templateOp (fun _ => rendered) id (fun _ => trimmed) (fun _ => yn)
      ⟨template, path, parseAs, trim⟩ data
    pure (errData e d)
  | "patchargs" =>
    let data ← getCont a "data"
    let pop ← Wire.getStr a "op"
    let from_ ← Wire.getStr a "from"
    let path ← Wire.getStr a "path"
    let value ← getOptNode a "value"
    let valueFrom := Wire.getOptStr a "valueFrom"
    let parsePath : String → Option String := fun s =>
      if s = "" then some s else if s.toList.head? = some '/' then some s else none
    match patchArgs parsePath id ⟨pop, from_, path, value, valueFrom⟩ data with
    | none => pure (Json.mkObj [("err", .bool true)])
    | some c => pure (Json.mkObj [("err", .bool false), ("op", .str c.op),
        ("from", match c.from_ with | some f => .str f | none => .null),
        ("path", .str c.path), ("value", Wire.optNodeToJson c.value)])
  | "import" =>
    let data ← getCont a "data"
    let mode ← Wire.getStr a "mode"
    let path ← Wire.getStr a "path"
    let content : Option (List Nat) ← match a.getObjVal? "content" with
      | .ok (.arr xs) => do let ys ← xs.toList.mapM Json.getNat?; pure (some ys)
      | _ => pure none
    let decoded ← getOptNode a "decoded"
    let decoded : Option (AMap Node) := match decoded with
      | some (.cont c) => some c
      | _ => none
    let text := (Wire.getOptStr a "text").getD ""
    let cd : Codecs := ⟨fun _ => decoded, fun _ => decoded, fun _ => decoded, fun _ => text⟩
    let (d, e) := importOp cd id content mode path data
    pure (errData e d)
  | "export" =>
    let data ← getCont a "data"
    let format ← Wire.getStr a "format"
    let path ← getValOrRef a "path"
    let canOpen ← Wire.getBool a "canOpen"
    let (e, opened, w) := exportOp noRender format path canOpen data
    let wj := match w with
      | none => Json.null
      | some (.doc _ kvs) => Json.mkObj [("doc", Wire.nodeToJson (.cont kvs))]
      | some (.text s) => Json.mkObj [("text", .str s)]
    pure (Json.mkObj [("err", .bool e), ("opened", .bool opened), ("written", wj)])
  | "resolve" =>
    -- ValOrRef.Resolve on the data of this moment (the model keeps no state between executions)
    let data ← getCont a "data"
    match (← getValOrRef a "v") with
    | some pv => pure (.str (pv.resolve noRender data))
    | none => pure .null
  | "decision" =>
    let format ← Wire.getStr a "format"
    let target ← Wire.getStr a "target"
    pure (.str (decisionTag (exportDecision (Format.ofString format) (targetOfString target))))
  | "env" =>
    let data ← getCont a "data"
    let path ← Wire.getStr a "path"
    let ents ← Wire.getArr a "entries"
    let rows ← ents.mapM fun j => do
      let e ← Wire.getStr j "e"
      let n ← Wire.getStr j "n"
      let i ← Wire.getBool j "incl"
      let x ← Wire.getBool j "excl"
      pure (e, n, i, x)
    let tbl (sel : String × String × Bool × Bool → Bool) (name : String) : Bool :=
      match rows.find? (fun r => r.2.1 == name) with
      | some r => sel r
      | none => false
    match envOp (tbl (·.2.2.1)) (tbl (·.2.2.2)) path (rows.map (·.1)) data with
    | .ok d => pure (Json.mkObj [("out", "ok"), ("data", Wire.nodeToJson (.cont d))])
    | o => pure (Json.mkObj [("out", .str o.tag), ("data", Wire.nodeToJson (.cont data))])
  | "lenient" =>
    let s ← Wire.getStr a "s"
    let rendered := Wire.getOptStr a "rendered"
    pure (Json.mkObj [("possibly", .bool (possiblyTemplate s)),
      ("out", .str (renderLenient (fun _ => rendered) s))])
  | "b64" =>
    let xs ← Wire.getArr a "bytes"
    let ys ← xs.mapM Json.getNat?
    pure (.str (String.ofList (b64Encode ys)))
  | "heapScript" =>
    -- a script of heap-level operations on an explicit heap (YtkDriver/HeapScript.lean)
    HeapScript.run a
  | "tplFuncs" =>
    -- the template functions of pipeline/template_engine_funcs.go (YtkDriver/TplFuncsOps.lean)
    TplFuncsOps.run a
  | "opsExt" =>
    -- ExecOp / TemplateFileOp / Html2DomOp / ValOrRef decoding (YtkDriver/OpsExtOps.lean)
    OpsExtOps.run a
  | _ => throw s!"C13: unknown op {op}"

end Ytk.C13
