import YtkModel.Wire
import YtkModel.Resolver
import YtkModel.Analytics
open Lean

namespace Ytk.C19
open Ytk.Analytics

def getScalar (j : Json) : Except String Scalar := do
  let t ← Wire.getStr j "t"
  let v ← Wire.getStr j "v"
  pure ⟨t, v⟩

def getFlat (j : Json) : Except String Flat := do
  let rows ← Json.getArr? j
  rows.toList.mapM fun row => do
    let kv ← Json.getArr? row
    match kv.toList with
    | [k, v] => do pure (← Json.getStr? k, ← getScalar v)
    | _ => throw "C19: flat row must be [key, scalar]"

def getDoc (j : Json) : Except String Doc := do
  let ls ← Json.getArr? j
  ls.toList.mapM fun l => do
    let n ← Wire.getStr l "name"
    let f ← (l.getObjVal? "flat") >>= getFlat
    pure ⟨n, f⟩

/-- key filters used by the harness: all | none | prefix p | not k | in k1,k2,… -/
def getFilter (j : Json) : Except String (String → Bool) := do
  let kind ← Wire.getStr j "kind"
  let arg := (Wire.getOptStr j "arg").getD ""
  match kind with
  | "all" => pure fun _ => true
  | "none" => pure fun _ => false
  | "prefix" => pure fun k => Analytics.isPrefixOf arg.toList k.toList
  | "not" => pure fun k => k != arg
  | "in" => pure fun k => (arg.splitOn ",").contains k
  | _ => throw s!"C19: unknown filter {kind}"

def coordLe (a b : Coord) : Bool := a.layer < b.layer || (a.layer == b.layer && a.path ≤ b.path)

def coordsJson (cs : List Coord) : Json :=
  .arr ((cs.mergeSort coordLe).map fun c => Json.arr #[.str c.layer, .str c.path]).toArray

def scalarJson (s : Scalar) : Json := Json.mkObj [("t", .str s.ty), ("v", .str s.text)]

def defaultDelims : Resolver.Delims := ⟨"${".toList, "}".toList, ":".toList⟩

/-- the props resolver over the merged document (lookup = text of the merged leaf) as the C11
    model; `none` = circular reference (panic) or fuel exhausted -/
def resolveOpt (merged : Flat) (s : String) : Option String :=
  let d := defaultDelims
  let tbl : Resolver.Table := merged.map fun kv => (Resolver.lex d kv.1.toList, Resolver.lex d kv.2.text.toList)
  match Resolver.resolveTop (Resolver.relex d) 400 tbl (Resolver.lex d s.toList) with
  | .ok t => some (String.ofList (Resolver.unlex d t))
  | _ => none

def handle : Wire.Handler := fun op a => do
  match op with
  | "reports" =>
    let merged ← (a.getObjVal? "merged") >>= getFlat
    let docsJ ← Wire.getArr a "docs"
    let docs ← docsJ.mapM getDoc
    let src := docs.headD []
    let phFilter ← (a.getObjVal? "filter") >>= getFilter
    let keys ← Wire.getStrs a "keys"
    -- dependency report (the public builder offers no key filter: matchAll)
    let dep := dependencyReport hasPlaceholder (fun _ => true) merged docs
    let depJ := Json.mkObj [("all", Wire.strs dep.allKeys), ("orphans", Wire.strs dep.orphanKeys),
      ("map", Json.mkObj (dep.map.map fun (k, cs) => (k, coordsJson cs)))]
    -- placeholder report; a value whose resolution is circular makes the Go code panic
    let visited := merged.filter fun kv => phFilter kv.1 && possiblyContainsPlaceholder kv.2.text
    let phJ :=
      if visited.any fun kv => (resolveOpt merged kv.2.text).isNone then Json.str "panic"
      else
        let r := placeholderReport possiblyContainsPlaceholder phFilter
          (fun s => (resolveOpt merged s).getD s) merged src
        Json.mkObj [("failed", Wire.strs r.failedKeys),
          ("details", Json.mkObj (r.details.map fun (k, v, cs) =>
            (k, Json.mkObj [("v", scalarJson v), ("coords", coordsJson cs)])))]
    let imp := impact hasPlaceholder src keys
    let impJ := Json.mkObj (imp.map fun (k, cs) => (k, coordsJson cs))
    pure (Json.mkObj [("dep", depJ), ("ph", phJ), ("impact", impJ)])
  | "mentions" =>
    -- the code's matchers on single values
    let k ← Wire.getStr a "k"
    let v ← (a.getObjVal? "v") >>= getScalar
    pure (Json.mkObj [("mentions", .bool (hasPlaceholder k v)),
      ("possibly", .bool (possiblyContainsPlaceholder v.text))])
  | _ => throw s!"C19: unknown op {op}"

end Ytk.C19
