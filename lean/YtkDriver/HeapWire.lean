/-
  YtkDriver.HeapWire — JSON glue for the heap-level model (YtkModel/Heap.lean); shared by the
  C04 and C05 handlers.  Trusted glue, not used by any theorem.

  An explicit heap on the wire is the list of its cells, address = index, address 0 = nilLeaf:
      leaf      {"t": <go type>, "v": <text>}
      list      {"l": [addr, ...]}
      container {"c": {key: addr, ...}}

  The SHARING MAP of a result is a tree of the same shape as the result document; every node
  carries an identity label
      "old:<addr>"  — the node IS the input node at that address (pointer-identical)
      "new:<k>"     — a node allocated by the operation; k numbers the distinct new nodes in the
                      order of their first visit (preorder; container members in key order), so
                      that aliasing among new nodes is visible too
      leaf {"id": label}   list {"id": label, "i": [...]}   container {"id": label, "m": {...}}
-/
import YtkModel.Wire
import YtkModel.Heap
open Lean

namespace Ytk.HeapWire
open Ytk.Heap

def cellOfJson (j : Json) : Except String Cell := do
  match j.getObjVal? "l" with
  | .ok (.arr xs) =>
    let as ← xs.toList.mapM Json.getNat?
    pure (.list as)
  | _ =>
    match j.getObjVal? "c" with
    | .ok (.obj kvs) =>
      let ps ← kvs.toList.mapM (fun (k, v) => do let n ← v.getNat?; pure (k, n))
      pure (.cont (AMap.ofList ps))
    | _ =>
      let t ← (j.getObjVal? "t") >>= Json.getStr?
      let v ← (j.getObjVal? "v") >>= Json.getStr?
      pure (.leaf ⟨t, v⟩)

def getHeap (a : Json) : Except String Heap := do
  let cs ← Wire.getArr a "heap"
  let cells ← cs.mapM cellOfJson
  match cells with
  | .leaf s :: _ =>
    if s == Scalar.null then pure ⟨cells⟩ else throw "heap: cell 0 must be the nil leaf"
  | _ => throw "heap: cell 0 must be the nil leaf"

def getAddrs (a : Json) (k : String) : Except String (List Addr) := do
  let xs ← Wire.getArr a k
  xs.mapM Json.getNat?

/-- identity label of address `a` relative to the old size `n0` -/
def label (n0 : Nat) (a : Addr) : StateM (List (Addr × Nat)) Json := do
  if a < n0 then
    pure (.str s!"old:{a}")
  else
    let seen ← get
    match seen.find? (fun p => p.1 == a) with
    | some (_, k) => pure (.str s!"new:{k}")
    | none =>
      let k := seen.length
      set ((a, k) :: seen)
      pure (.str s!"new:{k}")

def shareF (n0 : Nat) (h : Heap) : Nat → Addr → StateM (List (Addr × Nat)) Json
  | 0, _ => pure (.str "fuel")
  | f + 1, a => do
    let id ← label n0 a
    match h.get? a with
    | none => pure (Json.mkObj [("id", id), ("dangling", .bool true)])
    | some (.leaf _) => pure (Json.mkObj [("id", id)])
    | some (.list xs) =>
      let is ← xs.mapM (shareF n0 h f)
      pure (Json.mkObj [("id", id), ("i", .arr is.toArray)])
    | some (.cont kvs) =>
      let ms ← kvs.mapM (fun (k, x) => do let j ← shareF n0 h f x; pure (k, j))
      pure (Json.mkObj [("id", id), ("m", Json.mkObj ms)])

/-- the sharing map of the node at `root` in `h`, relative to an input heap of size `n0`;
    also the numbering of the new cells it used -/
def share (n0 : Nat) (h : Heap) (root : Addr) : Json × List (Addr × Nat) :=
  (shareF n0 h (h.size + 1) root).run []

def getOpt (a : Json) : Except String ListStrategy := do
  match Wire.getOptStr a "opt" with
  | some "append" => pure .append
  | some "meld" => pure .meld
  | none => pure .meld
  | some o => throw s!"unknown list strategy {o}"

/-- one in-place builder write `{"op": …, "at": addr | "atNew": k, "name": …, "idx": n}`;
    `at` addresses an input cell, `atNew` a new cell by its number in the sharing map -/
def applyWrite (news : List (Addr × Nat)) (h : Heap) (j : Json) : Except String Heap := do
  let op ← Wire.getStr j "op"
  let tgt ← (match Wire.getNat j "at" with
    | .ok a => pure a
    | .error _ => do
      let k ← Wire.getNat j "atNew"
      match news.find? (fun p => p.2 == k) with
      | some (a, _) => pure a
      | none => throw s!"write: no new cell number {k}")
  let probe : Scalar := ⟨"string", "probe"⟩
  let o : Op ←
    match op with
    | "addLeaf" => do pure (Op.addLeaf tgt (← Wire.getStr j "name") probe)
    | "addContainer" => do pure (Op.addContainer tgt (← Wire.getStr j "name"))
    | "addList" => do pure (Op.addList tgt (← Wire.getStr j "name"))
    | "remove" => do pure (Op.remove tgt (← Wire.getStr j "name"))
    | "listSet" => pure (Op.listSetLeaf tgt ((Wire.getNat j "idx").toOption.getD 0) probe)
    | "listAppend" => pure (Op.listAppendLeaf tgt probe)
    | "listClear" => pure (Op.listClear tgt)
    | _ => throw s!"unknown write {op}"
  let r := applyOp h o
  match r with
  | some h' => pure h'
  | none => throw s!"write {op} at {tgt}: wrong cell kind"

def applyWrites (news : List (Addr × Nat)) (h : Heap) (a : Json) (k : String) : Except String Heap := do
  match a.getObjVal? k with
  | .ok (.arr ws) => ws.toList.foldlM (applyWrite news) h
  | _ => pure h

def absAll (h : Heap) (roots : List Addr) : Json :=
  .arr (roots.map (fun x => Wire.optNodeToJson (abs h x))).toArray

/-- the common result object: abstraction of the result, its sharing map, the abstractions of
    the input roots before and after, "no old cell was written", and — after the in-place probe
    writes of each phase — the abstractions of `probeRoots` (result first) -/
def result (a : Json) (h0 : Heap) (roots : List Addr) (r : Option (Heap × Addr))
    (phases : List (String × String)) (resultFirst : Bool) : Except String Json := do
  match r with
  | none => pure (Json.mkObj [("ok", .bool false)])
  | some (h1, x) =>
    let (sh, news) := share h0.size h1 x
    let probeRoots := if resultFirst then x :: roots else roots ++ [x]
    let mut h := h1
    let mut extra : List (String × Json) := []
    for (argKey, outKey) in phases do
      h ← applyWrites news h a argKey
      extra := extra ++ [(outKey, absAll h probeRoots)]
    pure (Json.mkObj ([("ok", .bool true),
      ("abs", Wire.optNodeToJson (abs h1 x)),
      ("share", sh),
      ("inputs", absAll h1 roots),
      ("inputsBefore", absAll h0 roots),
      ("prefix", .bool (h1.cells.take h0.size == h0.cells))] ++ extra))

end Ytk.HeapWire
