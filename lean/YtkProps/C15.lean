/-
  C15 — Cloning an action preserves everything that was configured.

  `Generated.cloneTable` is rewritten from /repo/pipeline on every run: for every type with a
  `CloneWith` method, every field and what the `CloneWith` body does with it.  The theorems
  below are re-checked against that table by `lake build`, so a `CloneWith` that stops carrying
  a field over breaks `clone_complete` (and with it `clone_eq`).

  `Clone.cloneV tbl render` is the generic interpretation of a table; `render` stands for
  `TemplateEngine.RenderLenient(·, ctx.Snapshot())` (an arbitrary function: text/template is
  an external library), `tpl` for `possiblyTemplate`.
-/
import YtkProofs.Clone
import YtkModel.Generated.CloneTable
import YtkProofs.FuncsLemmas
import YtkModel.Generated.OpOrder
import YtkProofs.GapPipeline

namespace Ytk.C15
open Ytk.CloneT Ytk.Clone Ytk.Generated

/-- Every field of every type with a `CloneWith` method is carried over by it (copied, rendered,
    cloned recursively, slice-copied, or handled by OpSpec's / ChildActions' loop).  A finite
    quantifier over the regenerated table. -/
theorem clone_complete : Complete cloneTable := by decide

/-- Rendering is applied to text fields only (string, *string, *[]string and named string types). -/
theorem clone_render_only_tagged :
    ∀ t ∈ cloneTable, ∀ f ∈ t.fields, f.act = .render → f.kind.isText = true := by decide

/-- Every field documented as a template (`clone:"template"`) is rendered by `CloneWith`: directly
    when it is a text field, through `ValOrRef.CloneWith` when it is a `*ValOrRef`. -/
theorem clone_tagged_rendered :
    ∀ t ∈ cloneTable, ∀ f ∈ t.fields, f.tag = "template" →
      (f.kind.isText = true ∧ actOf cloneTable t.name f.name = .render) ∨
      (f.goType = "*ValOrRef" ∧ actOf cloneTable t.name f.name = .nested) := by decide

/-- `ValOrRef.CloneWith` renders both of its text fields and copies the flag. -/
theorem valOrRef_renders :
    actOf cloneTable "ValOrRef" "Ref" = .render ∧ actOf cloneTable "ValOrRef" "Val" = .render ∧
    actOf cloneTable "ValOrRef" "isRef" = .copy := by decide

/-- Type names are unique in the table and field names are unique within a type, so `actOf`
    reads the entry the extractor wrote for that very field. -/
theorem table_names_unique :
    (cloneTable.map (·.name)).Nodup ∧ ∀ t ∈ cloneTable, (t.fields.map (·.name)).Nodup := by decide

/-- Every nested record type mentioned by a field is itself in the table (so cloning recurses
    into a known type). -/
theorem table_closed :
    ∀ t ∈ cloneTable, ∀ f ∈ t.fields, (f.kind = .record ∨ f.kind = .recordPtr ∨ f.kind = .recordMap) →
      f.ref ∈ cloneTable.map (·.name) := by decide

/-- For ALL tables, types and values: if the table is complete, the value is well typed for it and
    template-free, and lenient rendering leaves non-templates alone, the clone is structurally
    equal to the original. -/
theorem clone_eq_of_templateFree (tbl : List CloneType) (render : String → String) (tpl : String → Bool)
    (v : CV) (hc : Complete tbl) (hw : WellTyped tbl v) (ht : TemplateFree tpl v)
    (hl : LenientId render tpl) : cloneV tbl render v = v :=
  cloneV_eq hc hl v hw ht

/-- The same for the table regenerated from the code. -/
theorem clone_eq (render : String → String) (tpl : String → Bool) (v : CV)
    (hw : WellTyped cloneTable v) (ht : TemplateFree tpl v) (hl : LenientId render tpl) :
    cloneV cloneTable render v = v :=
  cloneV_eq clone_complete hl v hw ht

/-- Executing the clone has the same effect and log output as executing the original: whatever
    `exec` is (any function of the action value, the data and the environment), it is applied
    to equal arguments. -/
theorem clone_same_effect {α β : Type} (exec : CV → α → β) (render : String → String)
    (tpl : String → Bool) (v : CV) (data : α)
    (hw : WellTyped cloneTable v) (ht : TemplateFree tpl v) (hl : LenientId render tpl) :
    exec (cloneV cloneTable render v) data = exec v data := by
  rw [clone_eq render tpl v hw ht hl]

/-- A text field documented as a template holds the rendered text in the clone. -/
theorem clone_renders_tagged (render : String → String) :
    ∀ t ∈ cloneTable, ∀ f ∈ t.fields, f.tag = "template" → f.kind.isText = true →
      ∀ (fs : List (String × CV)) (v : CV), getField fs f.name = some v →
        getField (cloneFields cloneTable render t.name fs) f.name = some (renderV render v) := by
  intro t ht f hf htag htext fs v hv
  have h := clone_tagged_rendered t ht f hf htag
  have hact : actOf cloneTable t.name f.name = .render := by
    rcases h with ⟨_, h⟩ | ⟨h1, _⟩
    · exact h
    · exfalso
      have : ∀ t ∈ cloneTable, ∀ f ∈ t.fields, f.goType = "*ValOrRef" → f.kind.isText = false := by decide
      rw [this t ht f hf h1] at htext
      cases htext
  exact cloneFields_render hact fs v hv

/-- The clone of a record has the same type and the same field names; only field values change
    (the original is an input of a pure function: untouched). -/
theorem clone_shape (tbl : List CloneType) (render : String → String) (ty : String) (fs : List (String × CV)) :
    ∃ fs', cloneV tbl render (.rcd ty fs) = .rcd ty fs' ∧ fs'.map Prod.fst = fs.map Prod.fst :=
  ⟨cloneFields tbl render ty fs, by simp [cloneV], cloneFields_names tbl render ty fs⟩

/-! ### Non-vacuity -/

def exTpl : String → Bool := fun s => s == "{{ .x }}"
def exRender : String → String := fun s => if s == "{{ .x }}" then "RENDERED" else s

theorem exRender_lenient : LenientId exRender exTpl := by
  intro s h; simp [exTpl] at h; simp [exRender, h]

/-- forEach { item…, var: "v", action: { log: { message: "hello" } } } -/
def exLog (msg : String) : CV := .rcd "LogOp" [("Message", .str msg)]
def exAction (msg : String) : CV :=
  .rcd "ActionSpec" [("ActionMeta", .data "{}"),
    ("Operations", .rcd "OpSpec" [("Set", .nil), ("Log", exLog msg)]),
    ("Children", .rcd "ChildActions" [])]
def exForEach (msg : String) : CV :=
  .rcd "ForEachOp" [("Glob", .nil), ("Query", .nil), ("Item", .data "[a b]"),
    ("Action", exAction msg), ("Variable", .strPtr (some "v"))]

theorem nonvacuous_wellTyped : WellTyped cloneTable (exForEach "hello") ∧ TemplateFree exTpl (exForEach "hello") := by
  refine ⟨?_, ?_⟩
  · simp [exForEach, exAction, exLog, WellTyped, WellTypedFields, findType, findField, cloneTable]
  · simp [exForEach, exAction, exLog, TemplateFree, TemplateFreeFields, exTpl]

theorem nonvacuous_clone_eq : cloneV cloneTable exRender (exForEach "hello") = exForEach "hello" :=
  clone_eq exRender exTpl _ nonvacuous_wellTyped.1 nonvacuous_wellTyped.2 exRender_lenient

/-- with a template in the tagged field the clone holds the rendered text, deep inside the body -/
theorem nonvacuous_renders : cloneV cloneTable exRender (exForEach "{{ .x }}") = exForEach "RENDERED" := by
  rfl

/-- The table of the pinned tree (D20: ForEachOp dropped Action and Variable) is not complete, and
    the model shows the loss: this is what `clone_complete` guards against. -/
def oldForEach : List CloneType :=
  [{ name := "ForEachOp", ptrRecv := true, fields := [
      { name := "Glob", goType := "*ValOrRef", kind := .recordPtr, ref := "ValOrRef", tag := "", act := .copy, embedded := false },
      { name := "Query", goType := "*ValOrRef", kind := .recordPtr, ref := "ValOrRef", tag := "", act := .copy, embedded := false },
      { name := "Item", goType := "*ValOrRefSlice", kind := .other, ref := "", tag := "", act := .copy, embedded := false },
      { name := "Action", goType := "ActionSpec", kind := .record, ref := "ActionSpec", tag := "", act := .none, embedded := false },
      { name := "Variable", goType := "*string", kind := .strPtr, ref := "", tag := "", act := .none, embedded := false }] }]

theorem nonvacuous_incomplete_detected :
    ¬ Complete oldForEach ∧
    getField (cloneFields oldForEach exRender "ForEachOp" [("Variable", .strPtr (some "v"))]) "Variable"
      = some (.strPtr none) := by
  refine ⟨by decide, by rfl⟩

/-! ### round 8 (lean/CLAUSES_B.md, clauses C15.4, C15.5, C15.8): ties to C12, C13 and C14 -/

/-- C15.8 — the operation set of the executor (C12's regenerated `opOrder`: the fields of OpSpec in declared
    order with their operation types) and the clone table (this property's regenerated table) agree:
    every operation type the executor can run has a `CloneWith` entry, and the `OpSpec` entry of the
    clone table lists exactly those fields, in that order, each cloned through its own type's `CloneWith`.
    (Both tables come from different extractors; neither was compared with the other before.) -/
theorem opOrder_types_cloneable :
    (∀ e ∈ Generated.opOrder, e.2.2 ∈ cloneTable.map (·.name)) ∧
    ((cloneTable.find? (·.name == "OpSpec")).map fun t => t.fields.map fun f => (f.name, f.ref)) =
      some (Generated.opOrder.map fun e => (e.1, e.2.2)) ∧
    (∀ t ∈ cloneTable, t.name = "OpSpec" → ∀ f ∈ t.fields, f.kind = .recordPtr ∧ f.act = .reflectAll) := by
  decide

/-- C15.4 — the hypothesis `LenientId` of `clone_eq` is a THEOREM for the real lenient renderer: C13's
    model of `renderLenientTemplate` / `possiblyTemplate` (any underlying template engine `r`) … -/
theorem lenientId_renderLenient (r : String → Option String) :
    LenientId (PD.renderLenient r) PD.possiblyTemplate := by
  intro s h
  simp [PD.renderLenient, h]

/-- … and the interpreter's own (C12 / C14), against any data snapshot -/
theorem lenientId_pipeline (d : AMap Node) :
    LenientId (fun s => Pipeline.renderLenient s d) Pipeline.possiblyTemplate := by
  intro s h
  simp [Pipeline.renderLenient, h]

/-- hence `clone_eq` without any assumption on rendering: a well-typed value none of whose text fields
    has a `{{ … }}` pair is its own clone, whatever the template engine does -/
theorem clone_eq_lenient (r : String → Option String) (v : CV) (hw : WellTyped cloneTable v)
    (ht : TemplateFree PD.possiblyTemplate v) : cloneV cloneTable (PD.renderLenient r) v = v :=
  clone_eq _ _ v hw ht (lenientId_renderLenient r)

/-- C15.5 in the INTERPRETER model (`Ytk.Pipeline`, the model of C12 / C14, whose forEach clones every
    body operation per item): an operation none of whose rendered text fields looks like a template —
    recursively through forEach / loop / define bodies (`Op.tfree`) — is its own clone against ANY data … -/
theorem cloneOp_eq_of_templateFree (d : AMap Node) (o : Pipeline.Op) (h : o.tfree = true) :
    Pipeline.cloneOp d o = o := Pipeline.cloneOp_tfree d o h

theorem cloneAct_eq_of_templateFree (d : AMap Node) (a : Pipeline.Action) (h : a.tfree = true) :
    Pipeline.cloneAct d a = a := Pipeline.cloneAct_tfree d a h

/-- … so executing the clones IS executing the originals: same trace (listener events, log output),
    same final data, same error — performWithItem's "clone, then Execute" loop equals OpSpec.Do's loop,
    for every fuel and state (`clone_same_effect` above is the congruence `f x = f x`; this one is about
    the run). -/
theorem cloneOps_run_eq (n : Nat) (os : List Pipeline.Op) (h : ∀ o ∈ os, o.tfree = true) (st : Pipeline.St) :
    Pipeline.run n (.cloneOps os) st = Pipeline.run n (.ops os) st :=
  Pipeline.run_cloneOps_tfree n os h st

/-- with a template the clone differs — and the difference is exactly the rendering against the data of
    the moment: a forEach body `log "item={{ .i }}"` is cloned to `log "item=a"` -/
theorem nonvacuous_cloneOp :
    let o : Pipeline.Op := .forEach none none (some "i") (.mk "b" 0 none [.log "plain", .set none "p.q" none] [])
    o.tfree = true ∧
    (Pipeline.Op.log "item={{ .i }}").tfree = false ∧
    (match Pipeline.cloneOp [("i", .leaf ⟨"string", "a"⟩)] (.log "item={{ .i }}") with
      | .log m => m
      | _ => "") = "item=a" := by
  decide

end Ytk.C15

/-! ## Translated function (YtkModel/Generated/Funcs.lean, regenerated from the Go source on every run by
    extract/translate.go): `safeCopyIntSlice`, what the clone-table action `copySlice` stands for.  The
    clone model carries the field value over unchanged (`cloneFields`: `.copySlice => v`); the translation
    (`make([]int, len(*in))`, `copy(r, *in)`, `&r`) yields the same VALUE for every input — nil stays nil — and
    never panics.  (That the copy is a FRESH slice is a pointer-level fact outside the value model.) -/
namespace Ytk.C15
open Ytk.Generated

theorem safeCopyIntSlice_generated_eq_model (p : Option (List Int)) : Funcs.safeCopyIntSlice p = .ok p := by
  cases p with
  | none => simp [Funcs.safeCopyIntSlice]
  | some xs =>
    have h : (0 : Int) ≤ Go.lenL xs := by simp [Go.lenL]
    simp [Funcs.safeCopyIntSlice, Go.deref, Go.makeL, h, Go.copyL, Go.lenL]

theorem nonvacuous_safeCopyIntSlice :
    Funcs.safeCopyIntSlice (some [3, 1, 2]) = .ok (some [3, 1, 2]) ∧ Funcs.safeCopyIntSlice none = .ok none := by
  decide

end Ytk.C15
