/-
  C15 — Cloning an action preserves everything that was configured.

  `Generated.cloneTable` is rewritten from /repo/pipeline on every run: for every type with a
  `CloneWith` method, every field and what the `CloneWith` body does with it.  The theorems
  below are re-checked against that table by `lake build`, so a `CloneWith` that stops carrying
  a field over breaks `clone_complete` (and with it `clone_eq`).

  `Clone.cloneV tbl render` is the generic interpretation of a table; `render` stands for
  `TemplateEngine.RenderLenient(·, ctx.Snapshot())` (an arbitrary function: text/template is
  an external library), `tpl` for `possiblyTemplate`.
-/
import YtkProofs.Clone
import YtkModel.Generated.CloneTable
import YtkProofs.FuncsLemmas
import YtkModel.Generated.OpOrder
import YtkProofs.GapPipeline
import YtkProofs.OpStrings

namespace Ytk.C15
open Ytk.CloneT Ytk.Clone Ytk.Generated

/-- Every field of every type with a `CloneWith` method is carried over by it (copied, rendered,
    cloned recursively, slice-copied, or handled by OpSpec's / ChildActions' loop).  A finite
    quantifier over the regenerated table. -/
theorem clone_complete : Complete cloneTable := by decide

/-- Rendering is applied to text fields only (string, *string, *[]string and named string types). -/
theorem clone_render_only_tagged :
    ∀ t ∈ cloneTable, ∀ f ∈ t.fields, f.act = .render → f.kind.isText = true := by decide

/-- Every field documented as a template (`clone:"template"`) is rendered by `CloneWith`: directly
    when it is a text field, through `ValOrRef.CloneWith` when it is a `*ValOrRef`. -/
theorem clone_tagged_rendered :
    ∀ t ∈ cloneTable, ∀ f ∈ t.fields, f.tag = "template" →
      (f.kind.isText = true ∧ actOf cloneTable t.name f.name = .render) ∨
      (f.goType = "*ValOrRef" ∧ actOf cloneTable t.name f.name = .nested) := by decide

/-- `ValOrRef.CloneWith` renders both of its text fields and copies the flag. -/
theorem valOrRef_renders :
    actOf cloneTable "ValOrRef" "Ref" = .render ∧ actOf cloneTable "ValOrRef" "Val" = .render ∧
    actOf cloneTable "ValOrRef" "isRef" = .copy := by decide

/-- Type names are unique in the table and field names are unique within a type, so `actOf`
    reads the entry the extractor wrote for that very field. -/
theorem table_names_unique :
    (cloneTable.map (·.name)).Nodup ∧ ∀ t ∈ cloneTable, (t.fields.map (·.name)).Nodup := by decide

/-- Every nested record type mentioned by a field is itself in the table (so cloning recurses
    into a known type). -/
theorem table_closed :
    ∀ t ∈ cloneTable, ∀ f ∈ t.fields, (f.kind = .record ∨ f.kind = .recordPtr ∨ f.kind = .recordMap) →
      f.ref ∈ cloneTable.map (·.name) := by decide

/-- For ALL tables, types and values: if the table is complete, the value is well typed for it and
    template-free, and lenient rendering leaves non-templates alone, the clone is structurally
    equal to the original. -/
theorem clone_eq_of_templateFree (tbl : List CloneType) (render : String → String) (tpl : String → Bool)
    (v : CV) (hc : Complete tbl) (hw : WellTyped tbl v) (ht : TemplateFree tpl v)
    (hl : LenientId render tpl) : cloneV tbl render v = v :=
  cloneV_eq hc hl v hw ht

/-- The same for the table regenerated from the code. -/
theorem clone_eq (render : String → String) (tpl : String → Bool) (v : CV)
    (hw : WellTyped cloneTable v) (ht : TemplateFree tpl v) (hl : LenientId render tpl) :
    cloneV cloneTable render v = v :=
  cloneV_eq clone_complete hl v hw ht

/-- Executing the clone has the same effect and log output as executing the original: whatever
    `exec` is (any function of the action value, the data and the environment), it is applied
    to equal arguments. -/
theorem clone_same_effect {α β : Type} (exec : CV → α → β) (render : String → String)
    (tpl : String → Bool) (v : CV) (data : α)
    (hw : WellTyped cloneTable v) (ht : TemplateFree tpl v) (hl : LenientId render tpl) :
    exec (cloneV cloneTable render v) data = exec v data := by
  rw [clone_eq render tpl v hw ht hl]

/-- A text field documented as a template holds the rendered text in the clone. -/
theorem clone_renders_tagged (render : String → String) :
    ∀ t ∈ cloneTable, ∀ f ∈ t.fields, f.tag = "template" → f.kind.isText = true →
      ∀ (fs : List (String × CV)) (v : CV), getField fs f.name = some v →
        getField (cloneFields cloneTable render t.name fs) f.name = some (renderV render v) := by
  intro t ht f hf htag htext fs v hv
  have h := clone_tagged_rendered t ht f hf htag
  have hact : actOf cloneTable t.name f.name = .render := by
    rcases h with ⟨_, h⟩ | ⟨h1, _⟩
    · exact h
    · exfalso
      have : ∀ t ∈ cloneTable, ∀ f ∈ t.fields, f.goType = "*ValOrRef" → f.kind.isText = false := by decide
      rw [this t ht f hf h1] at htext
      cases htext
  exact cloneFields_render hact fs v hv

/-- The clone of a record has the same type and the same field names; only field values change
    (the original is an input of a pure function: untouched). -/
theorem clone_shape (tbl : List CloneType) (render : String → String) (ty : String) (fs : List (String × CV)) :
    ∃ fs', cloneV tbl render (.rcd ty fs) = .rcd ty fs' ∧ fs'.map Prod.fst = fs.map Prod.fst :=
  ⟨cloneFields tbl render ty fs, by simp [cloneV], cloneFields_names tbl render ty fs⟩

/-! ### Non-vacuity -/

def exTpl : String → Bool := fun s => s == "{{ .x }}"
def exRender : String → String := fun s => if s == "{{ .x }}" then "RENDERED" else s

theorem exRender_lenient : LenientId exRender exTpl := by
  intro s h; simp [exTpl] at h; simp [exRender, h]

/-- forEach { item…, var: "v", action: { log: { message: "hello" } } } -/
def exLog (msg : String) : CV := .rcd "LogOp" [("Message", .str msg)]
def exAction (msg : String) : CV :=
  .rcd "ActionSpec" [("ActionMeta", .data "{}"),
    ("Operations", .rcd "OpSpec" [("Set", .nil), ("Log", exLog msg)]),
    ("Children", .rcd "ChildActions" [])]
def exForEach (msg : String) : CV :=
  .rcd "ForEachOp" [("Glob", .nil), ("Query", .nil), ("Item", .data "[a b]"),
    ("Action", exAction msg), ("Variable", .strPtr (some "v"))]

theorem nonvacuous_wellTyped : WellTyped cloneTable (exForEach "hello") ∧ TemplateFree exTpl (exForEach "hello") := by
  refine ⟨?_, ?_⟩
  · simp [exForEach, exAction, exLog, WellTyped, WellTypedFields, findType, findField, cloneTable]
  · simp [exForEach, exAction, exLog, TemplateFree, TemplateFreeFields, exTpl]

theorem nonvacuous_clone_eq : cloneV cloneTable exRender (exForEach "hello") = exForEach "hello" :=
  clone_eq exRender exTpl _ nonvacuous_wellTyped.1 nonvacuous_wellTyped.2 exRender_lenient

/-- with a template in the tagged field the clone holds the rendered text, deep inside the body -/
theorem nonvacuous_renders : cloneV cloneTable exRender (exForEach "{{ .x }}") = exForEach "RENDERED" := by
  rfl

/-- The table of the pinned tree (D20: ForEachOp dropped Action and Variable) is not complete, and
    the model shows the loss: this is what `clone_complete` guards against. -/
def oldForEach : List CloneType :=
  [{ name := "ForEachOp", ptrRecv := true, fields := [
      { name := "Glob", goType := "*ValOrRef", kind := .recordPtr, ref := "ValOrRef", tag := "", act := .copy, embedded := false },
      { name := "Query", goType := "*ValOrRef", kind := .recordPtr, ref := "ValOrRef", tag := "", act := .copy, embedded := false },
      { name := "Item", goType := "*ValOrRefSlice", kind := .other, ref := "", tag := "", act := .copy, embedded := false },
      { name := "Action", goType := "ActionSpec", kind := .record, ref := "ActionSpec", tag := "", act := .none, embedded := false },
      { name := "Variable", goType := "*string", kind := .strPtr, ref := "", tag := "", act := .none, embedded := false }] }]

theorem nonvacuous_incomplete_detected :
    ¬ Complete oldForEach ∧
    getField (cloneFields oldForEach exRender "ForEachOp" [("Variable", .strPtr (some "v"))]) "Variable"
      = some (.strPtr none) := by
  refine ⟨by decide, by rfl⟩

/-! ### round 8 (lean/CLAUSES_B.md, clauses C15.4, C15.5, C15.8): ties to C12, C13 and C14 -/

/-- C15.8 — the operation set of the executor (C12's regenerated `opOrder`: the fields of OpSpec in declared
    order with their operation types) and the clone table (this property's regenerated table) agree:
    every operation type the executor can run has a `CloneWith` entry, and the `OpSpec` entry of the
    clone table lists exactly those fields, in that order, each cloned through its own type's `CloneWith`.
    (Both tables come from different extractors; neither was compared with the other before.) -/
theorem opOrder_types_cloneable :
    (∀ e ∈ Generated.opOrder, e.2.2 ∈ cloneTable.map (·.name)) ∧
    ((cloneTable.find? (·.name == "OpSpec")).map fun t => t.fields.map fun f => (f.name, f.ref)) =
      some (Generated.opOrder.map fun e => (e.1, e.2.2)) ∧
    (∀ t ∈ cloneTable, t.name = "OpSpec" → ∀ f ∈ t.fields, f.kind = .recordPtr ∧ f.act = .reflectAll) := by
  decide

/-- C15.4 — the hypothesis `LenientId` of `clone_eq` is a THEOREM for the real lenient renderer: C13's
    model of `renderLenientTemplate` / `possiblyTemplate` (any underlying template engine `r`) … -/
theorem lenientId_renderLenient (r : String → Option String) :
    LenientId (PD.renderLenient r) PD.possiblyTemplate := by
  intro s h
  simp [PD.renderLenient, h]

/-- … and the interpreter's own (C12 / C14), against any data snapshot -/
theorem lenientId_pipeline (d : AMap Node) :
    LenientId (fun s => Pipeline.renderLenient s d) Pipeline.possiblyTemplate := by
  intro s h
  simp [Pipeline.renderLenient, h]

/-- hence `clone_eq` without any assumption on rendering: a well-typed value none of whose text fields
    has a `{{ … }}` pair is its own clone, whatever the template engine does -/
theorem clone_eq_lenient (r : String → Option String) (v : CV) (hw : WellTyped cloneTable v)
    (ht : TemplateFree PD.possiblyTemplate v) : cloneV cloneTable (PD.renderLenient r) v = v :=
  clone_eq _ _ v hw ht (lenientId_renderLenient r)

/-- C15.5 in the INTERPRETER model (`Ytk.Pipeline`, the model of C12 / C14, whose forEach clones every
    body operation per item): an operation none of whose rendered text fields looks like a template —
    recursively through forEach / loop / define bodies (`Op.tfree`) — is its own clone against ANY data … -/
theorem cloneOp_eq_of_templateFree (d : AMap Node) (o : Pipeline.Op) (h : o.tfree = true) :
    Pipeline.cloneOp d o = o := Pipeline.cloneOp_tfree d o h

theorem cloneAct_eq_of_templateFree (d : AMap Node) (a : Pipeline.Action) (h : a.tfree = true) :
    Pipeline.cloneAct d a = a := Pipeline.cloneAct_tfree d a h

/-- … so executing the clones IS executing the originals: same trace (listener events, log output),
    same final data, same error — performWithItem's "clone, then Execute" loop equals OpSpec.Do's loop,
    for every fuel and state (`clone_same_effect` above is the congruence `f x = f x`; this one is about
    the run). -/
theorem cloneOps_run_eq (n : Nat) (os : List Pipeline.Op) (h : ∀ o ∈ os, o.tfree = true) (st : Pipeline.St) :
    Pipeline.run n (.cloneOps os) st = Pipeline.run n (.ops os) st :=
  Pipeline.run_cloneOps_tfree n os h st

/-- with a template the clone differs — and the difference is exactly the rendering against the data of
    the moment: a forEach body `log "item={{ .i }}"` is cloned to `log "item=a"` -/
theorem nonvacuous_cloneOp :
    let o : Pipeline.Op := .forEach none none (some "i") (.mk "b" 0 none [.log "plain", .set none "p.q" none] [])
    o.tfree = true ∧
    (Pipeline.Op.log "item={{ .i }}").tfree = false ∧
    (match Pipeline.cloneOp [("i", .leaf ⟨"string", "a"⟩)] (.log "item={{ .i }}") with
      | .log m => m
      | _ => "") = "item=a" := by
  decide

end Ytk.C15

/-! ## String() of the pipeline types (brief mext7c): what the log listener and error messages print.
    Model: YtkModel/OpStrings.lean (hand-written) and, for 13 of the methods, the definition regenerated
    from the Go source (`Generated.Funcs.<T>_String`).  `opSpecOrder` = OpSpec's declared field order, read
    from the regenerated clone table. -/
namespace Ytk.C15
open Ytk.CloneT Ytk.Clone Ytk.Generated Ytk.OpStrings

/-! ### the translated methods equal the hand-written model (all field values) -/
theorem AbortOp_String_generated_eq_model (m : String) : Funcs.AbortOp_String m = abortS m := AbortOp_String_eq m
theorem ExtOp_String_generated_eq_model (f : String) : Funcs.ExtOp_String f = extS f := ExtOp_String_eq f
theorem Html2DomOp_String_generated_eq_model (f t : String) : Funcs.Html2DomOp_String f t = html2domS f t := Html2DomOp_String_eq f t
theorem ImportOp_String_generated_eq_model (f p m : String) : Funcs.ImportOp_String f p m = importS f p m := ImportOp_String_eq f p m
/-- never panics (the 5-character cut is guarded by the length test) -/
theorem LogOp_String_generated_eq_model (m : String) : Funcs.LogOp_String m = .ok (logS m) := LogOp_String_eq m
theorem LoopOp_String_generated_eq_model : Funcs.LoopOp_String = loopS := LoopOp_String_eq
theorem PatchOp_String_generated_eq_model (o p : String) : Funcs.PatchOp_String o p = patchS o p := PatchOp_String_eq o p
theorem SetOp_String_generated_eq_model (p : String) : Funcs.SetOp_String p = setS p := SetOp_String_eq p
theorem TemplateFileOp_String_generated_eq_model (f o : String) : Funcs.TemplateFileOp_String f o = templateFileS f o := TemplateFileOp_String_eq f o
theorem TemplateOp_String_generated_eq_model (p : String) : Funcs.TemplateOp_String p = templateS p := TemplateOp_String_eq p
theorem ExecOp_String_generated_eq_model (p d : String) (a : Option (List String)) :
    Funcs.ExecOp_String p d a = .ok (execS p d a) := ExecOp_String_eq p d a
theorem ValOrRef_String_generated_eq_model (r v : String) : Funcs.ValOrRef_String r v = valOrRefS r v := ValOrRef_String_eq r v
theorem ActionMeta_String_generated_eq_model (n : String) (o : Int) (w : Option String) :
    Funcs.ActionMeta_String n o w = .ok (actionMetaS n o w) := ActionMeta_String_eq n o w

/-- the order in which OpSpec.String() lists the operations is the declared order the executor uses -/
theorem opSpec_string_order_is_opOrder : opSpecOrder = opOrder.map (·.1) := by decide

/-! ### clones -/

/-- String() of a template-free clone equals String() of the original — every type of the regenerated
    table, every well-typed value.  (By `clone_eq`: the clone IS the original; the theorems below do not
    go through that equality.) -/
theorem string_clone_eq_of_templateFree (render : String → String) (tpl : String → Bool) (v : CV)
    (hw : WellTyped cloneTable v) (ht : TemplateFree tpl v) (hl : LenientId render tpl) :
    stringOf opSpecOrder (cloneV cloneTable render v) = stringOf opSpecOrder v := by
  rw [clone_eq render tpl v hw ht hl]

/-- ForEachOp, CallOp, ExtOp, LoopOp: String() reads only fields that CloneWith COPIES — the clone prints
    the same text whatever the renderer does, templates or not, for every field list -/
theorem string_clone_eq_copied (render : String → String) (fs : List (String × CV)) :
    opS "ForEachOp" (cloneFields cloneTable render "ForEachOp" fs) = opS "ForEachOp" fs ∧
    opS "CallOp" (cloneFields cloneTable render "CallOp" fs) = opS "CallOp" fs ∧
    opS "ExtOp" (cloneFields cloneTable render "ExtOp" fs) = opS "ExtOp" fs ∧
    opS "LoopOp" (cloneFields cloneTable render "LoopOp" fs) = opS "LoopOp" fs := by
  have c (ty f : String) (h : actOf cloneTable ty f = .copy := by decide) := h
  refine ⟨?_, ?_, ?_, by rw [opS_loop, opS_loop]⟩
  · rw [opS_forEach, opS_forEach, recF_clone_copy (c "ForEachOp" "Glob"), recF_clone_copy (c "ForEachOp" "Query"),
      strsF_clone_copy (c "ForEachOp" "Item")]
  · rw [opS_call, opS_call, strF_clone_copy (c "CallOp" "Name"), strsF_clone_copy (c "CallOp" "Args")]
  · rw [opS_ext, opS_ext, strF_clone_copy (c "ExtOp" "Function")]

/-- the operations whose String() shows `clone:"template"` text fields: the clone prints the RENDERED
    text there and the copied fields unchanged — closed forms, every field list, every renderer -/
theorem string_clone_rendered (render : String → String) (fs : List (String × CV)) :
    opS "AbortOp" (cloneFields cloneTable render "AbortOp" fs) = abortS (strFR render fs "Message") ∧
    opS "LogOp" (cloneFields cloneTable render "LogOp" fs) = logS (strFR render fs "Message") ∧
    opS "SetOp" (cloneFields cloneTable render "SetOp" fs) = setS (strFR render fs "Path") ∧
    opS "TemplateOp" (cloneFields cloneTable render "TemplateOp" fs) = templateS (strFR render fs "Path") ∧
    opS "ImportOp" (cloneFields cloneTable render "ImportOp" fs)
      = importS (strFR render fs "File") (strFR render fs "Path") (strF fs "Mode") ∧
    opS "PatchOp" (cloneFields cloneTable render "PatchOp" fs) = patchS (strF fs "Op") (strFR render fs "Path") ∧
    opS "Html2DomOp" (cloneFields cloneTable render "Html2DomOp" fs)
      = html2domS (strFR render fs "From") (strFR render fs "To") ∧
    opS "TemplateFileOp" (cloneFields cloneTable render "TemplateFileOp" fs)
      = templateFileS (strFR render fs "File") (strFR render fs "Output") ∧
    opS "EnvOp" (cloneFields cloneTable render "EnvOp" fs)
      = envS (strFR render fs "Path") (strPtrF fs "Include") (strPtrF fs "Exclude") := by
  have c (ty f : String) (h : actOf cloneTable ty f = .copy := by decide) := h
  have r (ty f : String) (h : actOf cloneTable ty f = .render := by decide) := h
  refine ⟨?_, ?_, ?_, ?_, ?_, ?_, ?_, ?_, ?_⟩
  · rw [opS_abort, strF_clone_render (r "AbortOp" "Message")]
  · rw [opS_log, strF_clone_render (r "LogOp" "Message")]
  · rw [opS_set, strF_clone_render (r "SetOp" "Path")]
  · rw [opS_template, strF_clone_render (r "TemplateOp" "Path")]
  · rw [opS_import, strF_clone_render (r "ImportOp" "File"), strF_clone_render (r "ImportOp" "Path"),
      strF_clone_copy (c "ImportOp" "Mode")]
  · rw [opS_patch, strF_clone_render (r "PatchOp" "Path"), strF_clone_copy (c "PatchOp" "Op")]
  · rw [opS_html2dom, strF_clone_render (r "Html2DomOp" "From"), strF_clone_render (r "Html2DomOp" "To")]
  · rw [opS_templateFile, strF_clone_render (r "TemplateFileOp" "File"), strF_clone_render (r "TemplateFileOp" "Output")]
  · rw [opS_env, strF_clone_render (r "EnvOp" "Path"), strPtrF_clone_copy (c "EnvOp" "Include"),
      strPtrF_clone_copy (c "EnvOp" "Exclude")]

/-- ExecOp: program and directory rendered, and the argument COUNT unchanged by rendering the arguments -/
theorem string_clone_exec (render : String → String) (fs : List (String × CV)) :
    opS "ExecOp" (cloneFields cloneTable render "ExecOp" fs)
      = "Exec[Program=" ++ strFR render fs "Program" ++ ",Dir=" ++ strFR render fs "Dir" ++ ",Args=" ++
          toString ((strsF fs "Args").getD []).length ++ "]" := by
  have r (ty f : String) (h : actOf cloneTable ty f = .render := by decide) := h
  have hl := strsF_clone_render_length (render := render) (r "ExecOp" "Args") fs
  rw [opS_exec, strF_clone_render (r "ExecOp" "Program"), strF_clone_render (r "ExecOp" "Dir")]
  unfold execS
  rw [hl]

/-- String() mentions every field it documents: the text of the field occurs in the output between fixed labels -/
theorem string_mentions_fields (a b c : String) :
    (∃ pre post, abortS a = pre ++ a ++ post) ∧
    (∃ p1 p2 p3 p4, importS a b c = p1 ++ a ++ p2 ++ b ++ p3 ++ c ++ p4) ∧
    (∃ p1 p2 p3, patchS a b = p1 ++ a ++ p2 ++ b ++ p3) ∧
    (∃ p1 p2 p3, html2domS a b = p1 ++ a ++ p2 ++ b ++ p3) ∧
    (∃ p1 p2 p3, templateFileS a b = p1 ++ a ++ p2 ++ b ++ p3) ∧
    (∃ pre post, setS a = pre ++ a ++ post) ∧ (∃ pre post, templateS a = pre ++ a ++ post) ∧
    (∃ pre post, extS a = pre ++ a ++ post) :=
  ⟨⟨_, _, rfl⟩, ⟨_, _, _, _, rfl⟩, ⟨_, _, _, rfl⟩, ⟨_, _, _, rfl⟩, ⟨_, _, _, rfl⟩, ⟨_, _, rfl⟩, ⟨_, _, rfl⟩, ⟨_, _, rfl⟩⟩

/-! ### non-vacuity: the model RUN on concrete values -/

/-- a forEach whose body logs, with a glob, items and a query: the ValOrRef VALUES print as structs, the
    item slice through String(), and neither the action nor the variable is shown -/
def exStrForEach : CV :=
  .rcd "ForEachOp" [("Glob", .rcd "ValOrRef" [("isRef", .data "false"), ("Ref", .str ""), ("Val", .str "*.yaml")]),
    ("Query", .rcd "ValOrRef" [("isRef", .data "true"), ("Ref", .str "a.b"), ("Val", .str "")]),
    ("Item", .strs (some ["", "x", "r", ""])), ("Action", exAction "hello"), ("Variable", .strPtr (some "v"))]

theorem nonvacuous_string_forEach :
    stringOf opSpecOrder exStrForEach = "ForEach[Glob={false  *.yaml},Items=[[Val=x],[Ref=r]],Query={true a.b }]" := by
  decide

/-- an OpSpec given with its fields in ANOTHER order prints in the declared one; nil operations are skipped -/
theorem nonvacuous_string_opSpec :
    stringOf opSpecOrder (.rcd "OpSpec" [("Log", exLog "hello world"), ("Abort", .nil),
        ("Set", .rcd "SetOp" [("Data", .data "map[]"), ("Path", .str "a.b"), ("Strategy", .strPtr none)])])
      = "OpSpec[Set=Set[Path=a.b],Log=Log[message(11)=hello]]" := by
  decide

theorem nonvacuous_string_meta :
    actionMetaS "n" 3 (some "  .x  ") = "[name=n,order=3,when=.x]" ∧ actionMetaS "" 0 (some " \t") = "[]" ∧
    stringOf opSpecOrder (.rcd "DefineOp" [("Name", .str "f"),
        ("Action", .rcd "ActionSpec" [("ActionMeta", .strs (some ["n", "-2"])), ("Operations", .rcd "OpSpec" []), ("Children", .rcd "ChildActions" [])])])
      = "Define[Name=f, Action=ActionSpec[meta=[name=n,order=-2]]]" := by
  decide

theorem nonvacuous_string_children :
    stringOf opSpecOrder (.rcd "ChildActions" [("a", .rcd "ActionSpec" [("ActionMeta", .strs (some ["", "2"]))]),
        ("b", .rcd "ActionSpec" [("ActionMeta", .strs (some ["", "1"]))])]) = "ChildActions[names=b,a]" ∧
    stringOf opSpecOrder (.rcd "ChildActions" []) = "ChildActions[]" := by
  decide

/-- a templated clone prints the rendered text; the template-free one the same text as the original -/
theorem nonvacuous_string_clone :
    stringOf opSpecOrder (cloneV cloneTable exRender (exLog "{{ .x }}")) = "Log[message(8)=RENDE]" ∧
    stringOf opSpecOrder (exLog "{{ .x }}") = "Log[message(8)={{ .x]" ∧
    stringOf opSpecOrder (cloneV cloneTable exRender (exForEach "hello")) = stringOf opSpecOrder (exForEach "hello") := by
  decide

theorem nonvacuous_string_dom :
    coordinatesS [("l1", "a.b"), ("l2", "c[0]")] = "[[layer=l1,path=a.b],[layer=l2,path=c[0]]]\n" ∧
    coordinatesS [] = "[]\n" ∧
    modificationS "Add" "a.b" "1" = "Mod[Type=Add,Path=a.b,Value=1]" ∧
    exportS (some (valOrRefS "" "out.yaml")) "yaml" none = "Export[file=[Val=out.yaml],format=yaml]" := by
  decide

/-- the repair `],]` → `]]` of Coordinates.String() runs over the whole text: a path that contains `],]` is rewritten -/
theorem coordinates_string_rewrites_path : coordinatesS [("l", "x],]y")] = "[[layer=l,path=x]]y]]\n" := by decide

end Ytk.C15

/-! ## Translated function (YtkModel/Generated/Funcs.lean, regenerated from the Go source on every run by
    extract/translate.go): `safeCopyIntSlice`, what the clone-table action `copySlice` stands for.  The
    clone model carries the field value over unchanged (`cloneFields`: `.copySlice => v`); the translation
    (`make([]int, len(*in))`, `copy(r, *in)`, `&r`) yields the same VALUE for every input — nil stays nil — and
    never panics.  (That the copy is a FRESH slice is a pointer-level fact outside the value model.) -/
namespace Ytk.C15
open Ytk.Generated

theorem safeCopyIntSlice_generated_eq_model (p : Option (List Int)) : Funcs.safeCopyIntSlice p = .ok p := by
  cases p with
  | none => simp [Funcs.safeCopyIntSlice]
  | some xs =>
    have h : (0 : Int) ≤ Go.lenL xs := by simp [Go.lenL]
    simp [Funcs.safeCopyIntSlice, Go.deref, Go.makeL, h, Go.copyL, Go.lenL]

theorem nonvacuous_safeCopyIntSlice :
    Funcs.safeCopyIntSlice (some [3, 1, 2]) = .ok (some [3, 1, 2]) ∧ Funcs.safeCopyIntSlice none = .ok none := by
  decide

end Ytk.C15
