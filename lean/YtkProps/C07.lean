/-
  C07 — Diff reports exactly the differences, in a deterministic order.

  `diff`, `emit`, `sortMods`, `flatten` are the definitions the driver executes
  (YtkModel/Diff.lean, YtkModel/Dom.lean).  `Node.Valid` = constructible through the public
  API: strictly sorted unique keys, none ending in an index group (DESIGN.md section 2, D26).
-/
import YtkProofs.Diff
import YtkProofs.DiffSpec
import YtkProofs.DiffRel
import YtkProofs.DiffOverlay
import YtkProofs.DiffDet
import YtkProofs.DiffTies
import YtkProofs.ValidB
import YtkProofs.Decisions2
import YtkModel.Generated.Constants
import YtkProofs.FuncsDomDiff

namespace Ytk.C07

/-! ## decision tables regenerated from the source (extract/tables2.go) -/
section DecisionTables2
open Ytk.TableT

/-- (i) The kind-pair chain of diff.handleExisting, regenerated from diff/diff.go as an ORDERED case
    table, decides as the case table of the model's `emitNode` does — for every pair of node kinds the
    first matching arm runs the statements the model's decision stands for, and those statements stand
    for no other decision (stated on the decisions, so reordering disjoint arms is harmless); diffList, flattenLeaf, flattenNode, appendMod, the two key
    loops of diff() and the three modification-type constants are the model's; and `emitNode`,
    `emitLeft`, `emitRight`, `flatNode` do what those tables say on ALL nodes. -/
theorem diff_dispatch_table_matches_model :
    (∀ x ∈ kindShapes, ∀ y ∈ kindShapes,
      armStepsFor Generated.diffHandleExisting x y = (diffDecision x y).steps ∧
      DiffAct.ofSteps (armStepsFor Generated.diffHandleExisting x y) = some (diffDecision x y)) ∧
    Generated.diffListSteps = diffListStepsM ∧ Generated.diffFlattenLeafSteps = flattenLeafStepsM ∧
    Generated.diffFlattenNodeSteps = flattenNodeStepsM ∧ Generated.diffAppendModSteps = appendModStepsM ∧
    Generated.diffKeyCases = diffKeyCasesM ∧
    Generated.diffModTypes = ModType.all.map ModType.goConst ∧
    (∀ (l r : Node) (p : String),
      match diffDecision l.shape r.shape with
      | .recurse => ∃ a b, l = .cont a ∧ r = .cont b ∧ emitNode l r p = emitLeft a b p ++ emitRight b a p
      | .lists => ∃ xs ys, l = .list xs ∧ r = .list ys ∧
          emitNode l r p = if equals (.list xs) (.list ys) then [] else Mod.mkDel p :: flatList xs p 0
      | .compare => ∃ a b, l = .leaf a ∧ r = .leaf b ∧ emitNode l r p = if a = b then [] else [Mod.mkChange p b a]
      | .replace => emitNode l r p = Mod.mkDel p :: flatNode r p) ∧
    (∀ k n rest r p, emitLeft ((k, n) :: rest) r p =
      (match child r k with
       | some n2 => emitNode n n2 (toPath p k)
       | none => flatNode n (toPath p k)) ++ emitLeft rest r p) ∧
    (∀ k (n : Node) rest l p, emitRight ((k, n) :: rest) l p =
      (match child l k with
       | some _ => []
       | none => [Mod.mkDel (toPath p k)]) ++ emitRight rest l p) ∧
    (∀ v p, flatNode (.leaf v) p = [⟨.add, p, v, Scalar.null⟩]) :=
  ⟨by decide +kernel, by decide +kernel, by decide +kernel, by decide +kernel, by decide +kernel,
   by decide +kernel, by decide +kernel, emitNode_decision, emitLeft_step, emitRight_step, flatNode_leaf⟩

/-- (ii) The rule of the property on the regenerated tables: for a position both sides have, two
    containers are diffed recursively; two lists go through diffList, which — only when the lists differ
    — emits one Delete of the position immediately followed by Adds for the leaves of the LEFT list; two
    scalars that differ give one Change carrying both values (Value = the right one, OldValue = the left
    one) and equal ones nothing; a position whose kind differs gives one Delete of that position
    immediately followed by Adds for the leaves of the RIGHT node.  A key only the left has is flattened
    into one Add per leaf (value, no old value), a key only the right has is one Delete, and a common key
    emits nothing in the second loop.  appendMod stores type, path, value, old value where they belong,
    and the three modification types are `Add`, `Change`, `Delete` — the values of the constants the
    constants table has. -/
theorem diff_table_rule :
    (∀ x ∈ kindShapes, ∀ y ∈ kindShapes, x ≠ y →
      armStepsFor Generated.diffHandleExisting x y =
        ["appendMod(ModDelete,arg2,nil,nil,arg3)", "flattenNode(arg1,arg2,arg3)"]) ∧
    armStepsFor Generated.diffHandleExisting .container .container = [stmtRecurse] ∧
    armStepsFor Generated.diffHandleExisting .list .list = [stmtDiffList] ∧
    armStepsFor Generated.diffHandleExisting .leaf .leaf = [stmtCompare] ∧
    Generated.diffListSteps =
      ["if !arg0.Equals(arg1){appendMod(ModDelete,arg2,nil,nil,arg3);flattenList(arg0,arg2,arg3)}"] ∧
    Generated.diffFlattenLeafSteps = ["appendMod(ModAdd,arg1,arg0.Value(),nil,arg2)"] ∧
    Generated.diffAppendModSteps = ["*arg4=append(*arg4,Modification{Type:arg0,Path:arg1,Value:arg2,OldValue:arg3})"] ∧
    armSteps Generated.diffKeyCases "left:both" = some ["handleExisting(item,found,utils.ToPath(arg2,key),arg3)"] ∧
    armSteps Generated.diffKeyCases "left:leftOnly" = some ["flattenNode(item,utils.ToPath(arg2,key),arg3)"] ∧
    armSteps Generated.diffKeyCases "right:both" = some [] ∧
    armSteps Generated.diffKeyCases "right:rightOnly" = some ["appendMod(ModDelete,utils.ToPath(arg2,key),nil,nil,arg3)"] ∧
    Generated.diffModTypes.map (·.2) = ["Add", "Change", "Delete"] ∧
    (∀ c ∈ Generated.diffModTypes, Generated.const? ("diff." ++ c.1) = some c.2) := by
  decide +kernel

/-- (iii) the tables are not empty: the chain ends in a catch-all arm, no arm is shadowed by an earlier
    one (every arm is the first match for some pair of kinds), the constants and the key cases are
    distinct -/
theorem nonvacuous_diff_tables :
    Generated.diffHandleExisting.length = 4 ∧
    (Generated.diffHandleExisting.getLast?.map fun a => (a.left, a.right)) = some ("any", "any") ∧
    (Generated.diffHandleExisting.map fun a => (a.left, a.right)).Nodup ∧
    (∀ a ∈ Generated.diffHandleExisting, ∃ x ∈ kindShapes, ∃ y ∈ kindShapes,
      armStepsFor Generated.diffHandleExisting x y = a.steps) ∧
    (Generated.diffModTypes.map (·.1)).Nodup ∧ (Generated.diffModTypes.map (·.2)).Nodup ∧
    (conds Generated.diffKeyCases).Nodup ∧ Generated.diffKeyCases.length = 4 ∧
    (DiffAct.all.map DiffAct.steps).Nodup := by
  decide +kernel

end DecisionTables2

/-- Diff(L, L) = []. -/
theorem diff_self (l : AMap Node) (hl : (Node.cont l).Valid) : diff l l = [] := by
  simp only [diff, emit, emitNode_self _ "" hl]; rfl

/-- Diff of equal documents is empty (the "if" half of the first sentence). -/
theorem diff_eq_nil_of_eq (l r : AMap Node) (hl : (Node.cont l).Valid) (h : l = r) : diff l r = [] := by
  subst h; exact diff_self l hl

/-- Diff(L, R) = [] only if both have the same flattened leaves. -/
theorem diff_nil_flatten (l r : AMap Node) (hl : (Node.cont l).Valid) (hr : (Node.cont r).Valid)
    (h : diff l r = []) : flatten l = flatten r := by
  have he : emit l r = [] := sortMods_eq_nil.mp h
  have := emitNode_nil_flatten (.cont l) (.cont r) "" hl hr he
  simpa [flattenNode, flatten] using this

/-- The result is ordered by path (non-decreasing), for all inputs. -/
theorem diff_sorted (l r : AMap Node) : (diff l r).Pairwise (fun a b => a.path ≤ b.path) :=
  sortMods_sorted _

/-- Sorting neither adds nor drops modifications … -/
theorem diff_perm (l r : AMap Node) : (diff l r).Perm (emit l r) := sortMods_perm _

/-- … and is stable: the modifications of any one path appear in emission order, i.e. the Delete
    of a position stays in front of the Add emitted right after it for the same path. -/
theorem diff_ties_emission_order (l r : AMap Node) (q : String) :
    (diff l r).filter (fun m => m.path = q) = (emit l r).filter (fun m => m.path = q) :=
  sortMods_filter q _

/-- Determinism, sorting half: the stable sort is a function of the per-path sub-sequences of
    what was emitted, whatever the order in which the paths were visited. -/
theorem sort_order_independent (ms ms' : List Mod)
    (h : ∀ q, ms.filter (fun m => m.path = q) = ms'.filter (fun m => m.path = q)) :
    sortMods ms = sortMods ms' := sortMods_congr h

/-- Exactness: Diff(L, R) contains a modification iff the specification `DiffSpec` (one Add per
    leaf under a left-only key, one Delete per right-only key, one Change with both values per
    differing scalar, Delete + Adds of the LEFT list's leaves for a differing list, Delete + Adds
    of the RIGHT node's leaves for a kind mismatch; YtkProofs/DiffSpec.lean) asks for it —
    and nothing else. -/
theorem diff_mem_iff (l r : AMap Node) (hl : (Node.cont l).Valid) (hr : (Node.cont r).Valid) (m : Mod) :
    m ∈ diff l r ↔ DiffSpec l r "" m := by
  rw [diff, mem_sortMods, emit]
  exact emit_mem_iff hl hr "" m

/-- The key-order traversal the driver executes is one of the traversals Go may perform. -/
theorem emitRel_keyorder (l r : AMap Node) : EmitRel (.cont l) (.cont r) "" (emit l r) :=
  emitRel_self _ _ _

/-- Determinism, multiset half: whatever order Go ranges over its maps in (both loops of diff()
    and flattenContainer, at every depth), the sorted result is a permutation of `diff l r`
    and is ordered by path. -/
theorem diff_det_perm (l r : AMap Node) (ms : List Mod) (h : EmitRel (.cont l) (.cont r) "" ms) :
    (sortMods ms).Perm (diff l r) ∧ (sortMods ms).Pairwise (fun a b => a.path ≤ b.path) :=
  ⟨sortMods_perm_of_perm (emitRel_perm h), sortMods_sorted ms⟩

/-- Determinism when no two emitted modifications share a path (no Delete/Add tie):
    every traversal order sorts to the very same sequence. -/
theorem diff_det_tiefree_partial (l r : AMap Node) (ms : List Mod) (h : EmitRel (.cont l) (.cont r) "" ms)
    (hn : ((emit l r).map (·.path)).Nodup) : sortMods ms = diff l r :=
  sortMods_congr (filter_eq_of_perm_of_nodup (emitRel_perm h) hn)

/-- OverlayDocs(l, r)[name] = Diff(layer_l or {}, layer_r or {}) for every layer name of either
    side, and there is no other entry. -/
theorem overlayDocs_spec (l r : AMap (AMap Node)) (hl : AMap.Sorted l) (hr : AMap.Sorted r) (n : String) :
    AMap.get? (overlayDocs l r) n =
      if (AMap.get? l n).isSome ∨ (AMap.get? r n).isSome
      then some (diff ((AMap.get? l n).getD []) ((AMap.get? r n).getD []))
      else none := get?_overlayDocs l r hl hr n

/-- Determinism at full strength: for documents constructible through the API (`Valid`) over
    path-safe keys (`SafeKeysD`: non-empty, without `.` and `[`), whatever order Go ranges over its
    maps in — both loops of diff() and every flattenContainer, at every depth — sorting what was
    emitted gives exactly `diff l r`, ties included. -/
theorem diff_det (l r : AMap Node) (hl : Good (.cont l)) (hr : Good (.cont r)) (ms : List Mod)
    (h : EmitRel (.cont l) (.cont r) "" ms) : sortMods ms = diff l r :=
  sortMods_emitRel hl hr h

/-- … because every traversal emits, for each path, the same modifications in the same order. -/
theorem emit_order_irrelevant_per_path (l r : AMap Node) (hl : Good (.cont l)) (hr : Good (.cont r))
    (ms : List Mod) (h : EmitRel (.cont l) (.cont r) "" ms) (q : String) :
    ms.filter (fun m => m.path = q) = (emit l r).filter (fun m => m.path = q) :=
  emitRel_filter h hl hr q

/-- The shape of ties: the modifications `diff` reports for one path are nothing, a single
    modification, or the Delete of the path immediately followed (among those of that path) by
    one Add of a leaf at the very same path (a position replaced by a scalar). -/
theorem diff_path_shape (l r : AMap Node) (hl : Good (.cont l)) (hr : Good (.cont r)) (q : String) :
    (diff l r).filter (fun m => m.path = q) = [] ∨
    (∃ m, (diff l r).filter (fun m => m.path = q) = [m]) ∨
    (∃ v, (diff l r).filter (fun m => m.path = q) = [Mod.mkDel q, Mod.mkAdd q v]) :=
  diff_tieShape hl hr q

/-- Two entries of the result with the same path: the earlier one is exactly the Delete of that
    path and the later one an Add at it. -/
theorem diff_tie_pair (l r : AMap Node) (hl : Good (.cont l)) (hr : Good (.cont r)) (i j : Nat) (hij : i < j)
    (hj : j < (diff l r).length) (h : (diff l r)[i].path = (diff l r)[j].path) :
    (diff l r)[i] = Mod.mkDel (diff l r)[j].path ∧ ∃ v, (diff l r)[j] = Mod.mkAdd (diff l r)[j].path v :=
  (diff_tieShape hl hr).getElem_pair hij hj h

/-- Delete before Add: whenever two entries share a path, the earlier is a Delete and the later
    an Add. -/
theorem diff_delete_before_add (l r : AMap Node) (hl : Good (.cont l)) (hr : Good (.cont r)) (i j : Nat)
    (hij : i < j) (hj : j < (diff l r).length) (h : (diff l r)[i].path = (diff l r)[j].path) :
    (diff l r)[i].ty = .delete ∧ (diff l r)[j].ty = .add := by
  obtain ⟨h1, v, h2⟩ := diff_tie_pair l r hl hr i j hij hj h
  exact ⟨congrArg Mod.ty h1, congrArg Mod.ty h2⟩

/-- Multiplicity one: no path carries two modifications of the same kind. -/
theorem diff_nodup_positions (l r : AMap Node) (hl : Good (.cont l)) (hr : Good (.cont r)) :
    ((diff l r).map (fun m => (m.path, m.ty))).Nodup := by
  refine List.pairwise_iff_getElem.mpr ?_
  intro i j hi hj hij e
  simp only [List.length_map] at hi hj
  simp only [List.getElem_map, Prod.mk.injEq] at e
  have := diff_delete_before_add l r hl hr i j hij hj e.1
  rw [this.1, this.2] at e
  exact absurd e.2 (by decide)

/-! ## non-vacuity -/

def i (n : Nat) : Scalar := ⟨"int", toString n⟩

def exL : AMap Node :=
  [("a", .list [.leaf (i 1)]), ("a-b", .leaf (i 2)), ("aB", .leaf (i 1)), ("k", .cont [("x", .leaf (i 1))]),
   ("m", .cont [("u", .leaf (i 1)), ("v", .leaf (i 2))])]
def exR : AMap Node :=
  [("a", .list [.leaf (i 2)]), ("k", .leaf (i 5)), ("m", .cont [("u", .leaf (i 7)), ("w", .list [])])]

theorem nonvacuous_valid : (Node.cont exL).Valid ∧ (Node.cont exR).Valid :=
  ⟨Node.validB_sound _ (by decide +kernel), Node.validB_sound _ (by decide +kernel)⟩

/-- one of each: Adds under left-only keys (`a-b`, `aB`, `m.v`), a Delete of a right-only key
    (`m.w`), a Change with both values (`m.u`), a differing list (`a`: Delete, then the Add of
    the LEFT list's leaf, with `a-b` and `aB` sorting in between), a kind mismatch (`k`: Delete
    and the Add of the RIGHT leaf on the same path, Delete first) -/
theorem nonvacuous_diff : diff exL exR =
    [Mod.mkDel "a", Mod.mkAdd "a-b" (i 2), Mod.mkAdd "aB" (i 1), Mod.mkAdd "a[0]" (i 1),
     Mod.mkDel "k", Mod.mkAdd "k" (i 5),
     Mod.mkChange "m.u" (i 7) (i 1), Mod.mkAdd "m.v" (i 2), Mod.mkDel "m.w"] := by
  decide +kernel

theorem nonvacuous_self : diff exL exL = [] ∧ diff exR exR = [] := by decide +kernel

/-- an empty diff between different documents: same leaves, different empty composites -/
theorem nonvacuous_nil_flatten :
    diff [("a", .cont []), ("b", .leaf (i 1))] [("b", .leaf (i 1))] = [] ∧
    ([("a", Node.cont []), ("b", .leaf (i 1))] : AMap Node) ≠ [("b", .leaf (i 1))] := by decide +kernel

/-- a traversal in another map order emits another sequence, which sorts to the same result -/
theorem nonvacuous_other_order :
    ∃ ms, EmitRel (.cont [("a", .leaf (i 1)), ("b", .leaf (i 2))]) (.cont []) "" ms ∧
      ms ≠ emit [("a", .leaf (i 1)), ("b", .leaf (i 2))] [] ∧
      sortMods ms = diff [("a", .leaf (i 1)), ("b", .leaf (i 2))] [] :=
  ⟨([Mod.mkAdd (toPath "" "b") (i 2)] ++ ([Mod.mkAdd (toPath "" "a") (i 1)] ++ [])) ++
      emitRight [] [("a", .leaf (i 1)), ("b", .leaf (i 2))] "",
    EmitRel.cont (l' := [("b", .leaf (i 2)), ("a", .leaf (i 1))]) (r' := []) (List.Perm.swap ..) (List.Perm.refl _)
      (.leftOnly (by decide +kernel) (.leaf _ _) (.leftOnly (by decide +kernel) (.leaf _ _) (.nil _ _))),
    by decide +kernel, by decide +kernel⟩

theorem nonvacuous_overlay :
    overlayDocs [("base", exL), ("dev", exR)] [("base", exR), ("prod", exL)] =
      [("base", diff exL exR), ("dev", diff exR []), ("prod", diff [] exL)] := by decide +kernel

theorem nonvacuous_good : Good (.cont exL) ∧ Good (.cont exR) := by
  refine ⟨⟨nonvacuous_valid.1, ?_⟩, ⟨nonvacuous_valid.2, ?_⟩⟩ <;>
    simp only [exL, exR, Node.SafeKeysD, SafeKeysKvs, SafeKeysList, SafeKeyD] <;> decide +kernel

/-- the tie on `k` (indices 4 and 5 of `diff exL exR`): Delete first, then the Add -/
theorem nonvacuous_tie :
    (diff exL exR).filter (fun m => m.path = "k") = [Mod.mkDel "k", Mod.mkAdd "k" (i 5)] ∧
    (diff exL exR)[4]? = some (Mod.mkDel "k") ∧ (diff exL exR)[5]? = some (Mod.mkAdd "k" (i 5)) := by
  decide +kernel

theorem nonvacuous_tiefree : ((emit exR exL).map (·.path)).Nodup := by decide +kernel

end Ytk.C07

/-! ## gap7a: the converse of `diff_nil_flatten` is false -/
namespace Ytk.C07

/-- `Flatten(L) = Flatten(R)` does NOT imply `Diff(L, R) = []` (the property claims only the other
    direction): an empty keyed container, an empty list or a kind difference between empty composites is
    invisible in Flatten but reported by Diff.  (Without empty composites below the root the converse
    holds: `C02.diff_nil_iff_flatten`.) -/
theorem diff_nonempty_same_flatten_counterexample :
    (Node.cont ([] : AMap Node)).Valid ∧ (Node.cont [("a", .cont [])]).Valid ∧
    flatten ([] : AMap Node) = flatten [("a", .cont [])] ∧
    diff [] [("a", .cont [])] = [Mod.mkDel "a"] ∧
    flatten [("a", Node.cont [])] = flatten [("a", .list [])] ∧
    diff [("a", .cont [])] [("a", .list [])] = [Mod.mkDel "a"] :=
  ⟨Node.validB_sound _ (by decide +kernel), Node.validB_sound _ (by decide +kernel), by decide +kernel,
   by decide +kernel, by decide +kernel, by decide +kernel⟩

end Ytk.C07

/-! ## xlate7c: diff/diff.go REGENERATED from the source (YtkModel/Generated/FuncsDom.lean) equals the model

  `extract/translate_dom.go` translates `appendMod`, `flattenLeaf`, `flattenContainer`, `flattenList`,
  `flattenNode`, `diffList`, `handleExisting` and `diff` from /repo's working tree on every run (the
  accumulator `res *[]Modification` is threaded through; the mutually recursive functions are indexed by a
  fuel that the wrappers instantiate from the size of the left document).  For ALL documents, paths and
  accumulators the translation returns `Go.Res.ok` (no panic, fuel not exhausted) with exactly the
  modifications of the hand-written model of YtkModel/Diff.lean appended, in the same order, Go maps being
  ranged in key order on both sides (order independence: `diff_det`, `emit_rel_perm`).  `G` renders a model
  `Mod` as the Go struct (type constant text, path, value, old value).  Proofs: YtkProofs/FuncsDomDiff.lean. -/
namespace Ytk.C07
open Ytk.Generated Ytk.FuncsDomDiff

theorem flattenContainer_generated_eq_model (c : AMap Node) (p : String) (res : List FuncsDom.diff_Modification) :
    FuncsDom.flattenContainer c p res = .ok (res ++ G (flatKvs c p)) :=
  FuncsDomDiff.flattenContainer_generated_eq_model c p res

theorem flattenList_generated_eq_model (l : List Node) (p : String) (res : List FuncsDom.diff_Modification) :
    FuncsDom.flattenList l p res = .ok (res ++ G (flatList l p 0)) :=
  FuncsDomDiff.flattenList_generated_eq_model l p res

theorem flattenLeaf_generated_eq_model (s : Scalar) (p : String) (res : List FuncsDom.diff_Modification) :
    FuncsDom.flattenLeaf s p res = .ok (res ++ G (flatNode (.leaf s) p)) :=
  FuncsDomDiff.flattenLeaf_eq s p res

theorem flattenNode_generated_eq_model (n : Node) (p : String) (res : List FuncsDom.diff_Modification) :
    FuncsDom.flattenNode n p res = .ok (res ++ G (flatNode n p)) :=
  FuncsDomDiff.flattenNode_generated_eq_model n p res

/-- diffList: Delete + the LEFT list's leaves when `!left.Equals(right)` -/
theorem diffList_generated_eq_model (l r : List Node) (p : String) (res : List FuncsDom.diff_Modification) :
    FuncsDom.diffList l r p res = .ok (res ++ G (emitNode (.list l) (.list r) p)) :=
  FuncsDomDiff.diffList_generated_eq_model l r p res

theorem handleExisting_generated_eq_model (l r : Node) (p : String) (res : List FuncsDom.diff_Modification) :
    FuncsDom.handleExisting l r p res = .ok (res ++ G (emitNode l r p)) :=
  FuncsDomDiff.handleExisting_generated_eq_model l r p res

/-- the unexported `diff(left, right, path, res)`: what `Diff` sorts afterwards -/
theorem diff_generated_eq_model (l r : AMap Node) :
    FuncsDom.diff l r "" [] = .ok (G (emit l r)) := by
  rw [FuncsDomDiff.diff_generated_eq_model]
  simp [emit, emitNode]

/-- the translated code RUN on a pair with a changed leaf, a replaced kind, a changed list and keys on one side only -/
theorem nonvacuous_diff_generated :
    (match FuncsDom.diff [("a", .leaf ⟨"int", "1"⟩), ("c", .cont [("x", .leaf ⟨"int", "1"⟩)]), ("l", .list [.leaf ⟨"int", "1"⟩]),
                    ("o", .leaf ⟨"int", "7"⟩)]
                   [("a", .leaf ⟨"int", "2"⟩), ("c", .leaf ⟨"int", "3"⟩), ("l", .list []), ("r", .leaf ⟨"int", "9"⟩)] "" [] with
     | .ok ms => some (ms.map (fun m => (m.Type_, m.Path)))
     | _ => none)
      = some [("Change", "a"), ("Delete", "c"), ("Add", "c"), ("Delete", "l"), ("Add", "l[0]"), ("Add", "o"), ("Delete", "r")] := by
  decide

end Ytk.C07
