/-
  C07 — Diff reports exactly the differences, in a deterministic order.

  `diff`, `emit`, `sortMods`, `flatten` are the definitions the driver executes
  (YtkModel/Diff.lean, YtkModel/Dom.lean).  `Node.Valid` = constructible through the public
  API: strictly sorted unique keys, none ending in an index group (DESIGN.md section 2, D26).
-/
import YtkProofs.Diff
import YtkProofs.ValidB

namespace Ytk.C07

/-- Diff(L, L) = []. -/
theorem diff_self (l : AMap Node) (hl : (Node.cont l).Valid) : diff l l = [] := by
  simp only [diff, emit, emitNode_self _ "" hl]; rfl

/-- Diff of equal documents is empty (the "if" half of the first sentence). -/
theorem diff_eq_nil_of_eq (l r : AMap Node) (hl : (Node.cont l).Valid) (h : l = r) : diff l r = [] := by
  subst h; exact diff_self l hl

/-- Diff(L, R) = [] only if both have the same flattened leaves. -/
theorem diff_nil_flatten (l r : AMap Node) (hl : (Node.cont l).Valid) (hr : (Node.cont r).Valid)
    (h : diff l r = []) : flatten l = flatten r := by
  have he : emit l r = [] := sortMods_eq_nil.mp h
  have := emitNode_nil_flatten (.cont l) (.cont r) "" hl hr he
  simpa [flattenNode, flatten] using this

/-- The result is ordered by path (non-decreasing), for all inputs. -/
theorem diff_sorted (l r : AMap Node) : (diff l r).Pairwise (fun a b => a.path ≤ b.path) :=
  sortMods_sorted _

/-- Sorting neither adds nor drops modifications … -/
theorem diff_perm (l r : AMap Node) : (diff l r).Perm (emit l r) := sortMods_perm _

/-- … and is stable: the modifications of any one path appear in emission order, i.e. the Delete
    of a position stays in front of the Add emitted right after it for the same path. -/
theorem diff_ties_emission_order (l r : AMap Node) (q : String) :
    (diff l r).filter (fun m => m.path = q) = (emit l r).filter (fun m => m.path = q) :=
  sortMods_filter q _

/-- Determinism, sorting half: the stable sort is a function of the per-path sub-sequences of
    what was emitted, whatever the order in which the paths were visited. -/
theorem sort_order_independent (ms ms' : List Mod)
    (h : ∀ q, ms.filter (fun m => m.path = q) = ms'.filter (fun m => m.path = q)) :
    sortMods ms = sortMods ms' := sortMods_congr h

/-! ## non-vacuity -/

def i (n : Nat) : Scalar := ⟨"int", toString n⟩

def exL : AMap Node :=
  [("a", .list [.leaf (i 1)]), ("a-b", .leaf (i 2)), ("aB", .leaf (i 1)), ("k", .cont [("x", .leaf (i 1))]),
   ("m", .cont [("u", .leaf (i 1)), ("v", .leaf (i 2))])]
def exR : AMap Node :=
  [("a", .list [.leaf (i 2)]), ("k", .leaf (i 5)), ("m", .cont [("u", .leaf (i 7)), ("w", .list [])])]

theorem nonvacuous_valid : (Node.cont exL).Valid ∧ (Node.cont exR).Valid :=
  ⟨Node.validB_sound _ (by decide +kernel), Node.validB_sound _ (by decide +kernel)⟩

/-- one of each: Adds under left-only keys (`a-b`, `aB`, `m.v`), a Delete of a right-only key
    (`m.w`), a Change with both values (`m.u`), a differing list (`a`: Delete, then the Add of
    the LEFT list's leaf, with `a-b` and `aB` sorting in between), a kind mismatch (`k`: Delete
    and the Add of the RIGHT leaf on the same path, Delete first) -/
theorem nonvacuous_diff : diff exL exR =
    [Mod.mkDel "a", Mod.mkAdd "a-b" (i 2), Mod.mkAdd "aB" (i 1), Mod.mkAdd "a[0]" (i 1),
     Mod.mkDel "k", Mod.mkAdd "k" (i 5),
     Mod.mkChange "m.u" (i 7) (i 1), Mod.mkAdd "m.v" (i 2), Mod.mkDel "m.w"] := by
  decide +kernel

theorem nonvacuous_self : diff exL exL = [] ∧ diff exR exR = [] := by decide +kernel

/-- an empty diff between different documents: same leaves, different empty composites -/
theorem nonvacuous_nil_flatten :
    diff [("a", .cont []), ("b", .leaf (i 1))] [("b", .leaf (i 1))] = [] ∧
    ([("a", Node.cont []), ("b", .leaf (i 1))] : AMap Node) ≠ [("b", .leaf (i 1))] := by decide +kernel

end Ytk.C07
