/-
  C07 — Diff reports exactly the differences, in a deterministic order.
-/
import YtkModel.Diff

namespace Ytk.C07

end Ytk.C07
