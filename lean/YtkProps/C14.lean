/-
  C14 — iteration and calls: per-item execution, scoped variables / arguments, loop order, define / call.

  About the same interpreter `Ytk.Pipeline.run` as C12.  Tasks used here:
    `.items v b its`   the remaining iterations of ForEachOp.Do (variable `v`, body `b`)
    `.item v b it`     performWithItem for one item
    `.loopIter t b p`  LoopOp.Do's `for { … }` (test `t`, body `b`, post-action `p`)
    `.op (.call …)`, `.op (.define …)`
-/
import YtkProofs.Pipeline
import YtkProofs.PipelineWF
import YtkProofs.PipelineLoop
import YtkProofs.GapPipeline

namespace Ytk.C14
open Ytk.Pipeline

/-! ### forEach -/

/-- One iteration: bind the variable, run the CLONED body operations (in declared order), then the body's
    children, and — on every exit — remove the variable. -/
theorem forEach_item_shape (n : Nat) (v : String) (b : Action) (it : Node) (st : St) :
    run (n + 1) (.item v b it) st =
      ((run n (.cloneOps (opsOf b)) (st.setData (add st.data v it))).andThen fun st =>
          wrap "steps" (run n (.steps (sortActs b.children)) st)).mapSt
        fun s => s.setData (remove s.data v) := rfl

/-- forEach runs its body once per item, in item order, each iteration starting from the data the
    previous one left; the trace is the concatenation of the iterations' traces … -/
theorem forEach_trace (n : Nat) (v : String) (b : Action) (it : ItemE) (its : List ItemE) (st : St) :
    run (n + 1) (.items v b (it :: its)) st =
      (run n (.item v b (it.resolve st.data)) st).andThen fun st => run n (.items v b its) st := rfl

theorem forEach_trace_nil (n : Nat) (v : String) (b : Action) (st : St) :
    run (n + 1) (.items v b []) st = Res.ok st := rfl

/-- … up to the first failing iteration, whose result is the result of the whole loop (no later item runs) -/
theorem forEach_stops_at_failure (n : Nat) (v : String) (b : Action) (it : ItemE) (its : List ItemE) (st : St)
    (e : Err) (h : (run n (.item v b (it.resolve st.data)) st).err = some e) :
    run (n + 1) (.items v b (it :: its)) st = run n (.item v b (it.resolve st.data)) st := by
  rw [forEach_trace]; simp [Res.andThen, h]

/-- a successful iteration is followed by the remaining ones -/
theorem forEach_continues (n : Nat) (v : String) (b : Action) (it : ItemE) (its : List ItemE) (st : St)
    (h : (run n (.item v b (it.resolve st.data)) st).err = none) :
    (run (n + 1) (.items v b (it :: its)) st).tr =
      (run n (.item v b (it.resolve st.data)) st).tr ++
        (run n (.items v b its) (run n (.item v b (it.resolve st.data)) st).st).tr := by
  rw [forEach_trace]; simp [Res.andThen, h]

/-- when an iteration finishes — normally or with an error — the variable is gone
    (`Sorted` = the data is a map: unique keys; it is an invariant of `run`, `sorted_run`) -/
theorem forEach_var_gone_item (n : Nat) (v : String) (b : Action) (it : Node) (st : St)
    (hs : AMap.Sorted st.data) : AMap.get? (run (n + 1) (.item v b it) st).st.data v = none := by
  rw [forEach_item_shape]
  simp only [Res.mapSt, St.setData, remove]
  apply AMap.get?_erase_self
  have h1 : AMap.Sorted (add st.data v it) := sorted_add hs _ _
  have := sorted_run (n + 1) (.item v b it) st hs
  -- the data before the deferred Remove is sorted as well
  unfold Res.andThen
  split
  · exact sorted_run n _ _ h1
  · exact sorted_run n _ _ (sorted_run n _ _ h1)

/-- when the whole forEach finishes — normally or with an error, after any number of iterations — a
    variable that was not in the data before is not in the data afterwards -/
theorem forEach_var_gone : ∀ (n : Nat) (v : String) (b : Action) (its : List ItemE) (st : St),
    AMap.Sorted st.data → AMap.get? st.data v = none →
    AMap.get? (run n (.items v b its) st).st.data v = none := by
  intro n
  induction n with
  | zero => intro v b its st _ h; exact h
  | succ n ih =>
    intro v b its st hs h
    cases its with
    | nil => exact h
    | cons it its =>
      rw [forEach_trace]
      have hitem : AMap.get? (run n (.item v b (it.resolve st.data)) st).st.data v = none := by
        cases n with
        | zero => exact h
        | succ m => exact forEach_var_gone_item m v b _ st hs
      unfold Res.andThen
      split
      · exact hitem
      · exact ih v b its _ (sorted_run n _ _ hs) hitem

/-- the same for the operation as the executor runs it -/
theorem forEach_op_var_gone (n : Nat) (q : Option VoR) (its : Option (List VoR)) (v : Option String) (b : Action)
    (st : St) (hs : AMap.Sorted st.data) (h : AMap.get? st.data (v.getD "forEach") = none) :
    AMap.get? (run (n + 1) (.op (.forEach q its v b)) st).st.data (v.getD "forEach") = none := by
  simp only [run, wrap]
  exact forEach_var_gone n _ b _ st hs h

/-! ### loop -/

/-- the test is evaluated before every iteration; false ends the loop without error -/
theorem loop_test_false (n : Nat) (t : String) (b : Action) (p : Option Action) (st : St)
    (h : evalBool t st.data = some false) :
    run (n + 1) (.loopIter t b p) st = ⟨[.test t (some false)], st, none⟩ := by
  simp [run, h]

/-- a test that cannot be evaluated ends the loop with an error -/
theorem loop_test_error (n : Nat) (t : String) (b : Action) (p : Option Action) (st : St)
    (h : evalBool t st.data = none) :
    run (n + 1) (.loopIter t b p) st = ⟨[.test t none], st, some .cond⟩ := by
  simp [run, h]

/-- a true test is followed by the BODY, then the POST-action, then the next test -/
theorem loop_step (n : Nat) (t : String) (b : Action) (p : Option Action) (st : St)
    (h : evalBool t st.data = some true) :
    run (n + 1) (.loopIter t b p) st =
      Res.pre [.test t (some true)] ((run n (.doAct b) st).andThen fun st =>
        (match p with
          | none => Res.ok st
          | some pa => run n (.act pa) st).andThen fun st => run n (.loopIter t b p) st) := by
  simp only [run, h]
  cases p <;> rfl

/-- init runs once, before the first test -/
theorem loop_shape (n : Nat) (i : Option Action) (t : String) (b : Action) (p : Option Action) (st : St) :
    run (n + 1) (.op (.loop i t b p)) st =
      wrap "loop" ((match i with
        | none => Res.ok st
        | some a => run n (.act a) st).andThen fun st => run n (.loopIter t b p) st) := rfl

/-- one full iteration without failure: trace = test, body, post, then the rest of the loop from the
    state the post-action left -/
theorem loop_trace_step (n : Nat) (t : String) (b pa : Action) (st : St)
    (h : evalBool t st.data = some true)
    (hb : (run n (.doAct b) st).err = none)
    (hp : (run n (.act pa) (run n (.doAct b) st).st).err = none) :
    (run (n + 1) (.loopIter t b (some pa)) st).tr =
      .test t (some true) :: ((run n (.doAct b) st).tr ++ ((run n (.act pa) (run n (.doAct b) st).st).tr ++
        (run n (.loopIter t b (some pa)) (run n (.act pa) (run n (.doAct b) st).st).st).tr)) := by
  rw [loop_step _ _ _ _ _ h]
  simp [Res.pre, Res.andThen, hb, hp]

/-- the loop stops at the first error: a failing body ends it (no post-action, no further test) … -/
theorem loop_stops_on_error (n : Nat) (t : String) (b : Action) (p : Option Action) (st : St) (e : Err)
    (h : evalBool t st.data = some true) (hb : (run n (.doAct b) st).err = some e) :
    run (n + 1) (.loopIter t b p) st = Res.pre [.test t (some true)] (run n (.doAct b) st) := by
  rw [loop_step _ _ _ _ _ h]; simp [Res.andThen, hb]

/-- … and so does a failing post-action (no further test) -/
theorem loop_stops_on_post_error (n : Nat) (t : String) (b pa : Action) (st : St) (e : Err)
    (h : evalBool t st.data = some true) (hb : (run n (.doAct b) st).err = none)
    (hp : (run n (.act pa) (run n (.doAct b) st).st).err = some e) :
    (run (n + 1) (.loopIter t b (some pa)) st).err = some e ∧
    (run (n + 1) (.loopIter t b (some pa)) st).tr =
      .test t (some true) :: ((run n (.doAct b) st).tr ++ (run n (.act pa) (run n (.doAct b) st).st).tr) := by
  rw [loop_step _ _ _ _ _ h]; simp [Res.pre, Res.andThen, hb, hp]

/-! ### fuel, and the closed n-fold form of a loop

  `iterSt n b p i st` (YtkProofs/PipelineLoop.lean) is the state after `i` iterations of "body, then
  post-action" started in `st`, body and post-action run with fuel `n` (`iterSt_zero`, `iterSt_succ`). -/

/-- fuel monotonicity: a run that did not run out of fuel is the same run with any larger fuel -/
theorem fuel_mono (n m : Nat) (h : n ≤ m) (t : Task) (st : St) (hne : (run n t st).err ≠ some .fuel) :
    run m t st = run n t st := run_mono h t st hne

theorem iterSt_zero (n : Nat) (b : Action) (p : Option Action) (st : St) : iterSt n b p 0 st = st := rfl

/-- the state after `i + 1` iterations is what the post-action (if any), started where the body ended,
    leaves — body started in the state after `i` iterations -/
theorem iterSt_succ (n : Nat) (b : Action) (p : Option Action) (i : Nat) (st : St) :
    iterSt n b p (i + 1) st =
      match p with
      | none => (run n (.doAct b) (iterSt n b p i st)).st
      | some pa => (run n (.act pa) (run n (.doAct b) (iterSt n b p i st)).st).st := by
  rw [iterSt_succ']
  cases p <;> rfl

/-- Closed form, loop with a post-action.  If on the states before the first `k` iterations the test is
    true and body and post-action end without error (with fuel `n`), and on the state after `k` iterations
    the test is false, then for every fuel `m ≥ n + k + 1` the loop ends without error, in the `k`-fold
    iterate, and its trace is (test · body · post)ᵏ · test:
    the concatenation over `i < k` of `test true :: body trace_i ++ post trace_i`, then `test false`. -/
theorem loop_trace (n : Nat) (t : String) (b pa : Action) (k : Nat) (st : St) (m : Nat)
    (htrue : ∀ i, i < k → evalBool t (iterSt n b (some pa) i st).data = some true)
    (hbody : ∀ i, i < k → (run n (.doAct b) (iterSt n b (some pa) i st)).err = none)
    (hpost : ∀ i, i < k → (run n (.act pa) (run n (.doAct b) (iterSt n b (some pa) i st)).st).err = none)
    (hfalse : evalBool t (iterSt n b (some pa) k st).data = some false)
    (hm : n + k + 1 ≤ m) :
    (run m (.loopIter t b (some pa)) st).err = none ∧
    (run m (.loopIter t b (some pa)) st).st = iterSt n b (some pa) k st ∧
    (run m (.loopIter t b (some pa)) st).tr =
      ((List.range k).flatMap fun i =>
        .test t (some true) :: ((run n (.doAct b) (iterSt n b (some pa) i st)).tr ++
          (run n (.act pa) (run n (.doAct b) (iterSt n b (some pa) i st)).st).tr)) ++
      [.test t (some false)] := by
  rw [loopIter_closed n t b (some pa) k st m ⟨fun i hi => ⟨htrue i hi, hbody i hi, hpost i hi⟩, hfalse⟩ hm]
  exact ⟨rfl, rfl, rfl⟩

/-- Closed form, loop without post-action: (test · body)ᵏ · test -/
theorem loop_trace_nopost (n : Nat) (t : String) (b : Action) (k : Nat) (st : St) (m : Nat)
    (htrue : ∀ i, i < k → evalBool t (iterSt n b none i st).data = some true)
    (hbody : ∀ i, i < k → (run n (.doAct b) (iterSt n b none i st)).err = none)
    (hfalse : evalBool t (iterSt n b none k st).data = some false)
    (hm : n + k + 1 ≤ m) :
    (run m (.loopIter t b none) st).err = none ∧
    (run m (.loopIter t b none) st).st = iterSt n b none k st ∧
    (run m (.loopIter t b none) st).tr =
      ((List.range k).flatMap fun i =>
        .test t (some true) :: (run n (.doAct b) (iterSt n b none i st)).tr) ++ [.test t (some false)] := by
  rw [loopIter_closed n t b none k st m ⟨fun i hi => ⟨htrue i hi, hbody i hi, rfl⟩, hfalse⟩ hm]
  refine ⟨rfl, rfl, ?_⟩
  simp [iterTrace, iterEvents, iterPost, iterBody, Res.ok]

/-- The loop operation as the executor runs it (`Execute(LoopOp)`): the init action — if there is one —
    runs once, before the first test, then the closed form; everything inside one before/after pair.
    `iterPost n i st` is `Execute(init)` with fuel `n` (the unchanged state and no events when `i = none`),
    `iterTrace` the (test · body · post)ᵏ part (`iterTrace_eq`). -/
theorem loop_op_trace (n : Nat) (i : Option Action) (t : String) (b : Action) (p : Option Action) (k : Nat)
    (st : St) (m : Nat) (hi : (iterPost n i st).err = none)
    (h : TestsTrueFor n t b p k (iterPost n i st).st) (hm : n + k + 1 ≤ m) :
    run (m + 1) (.op (.loop i t b p)) st =
      ⟨.before "loop" :: ((iterPost n i st).tr ++
          (iterTrace n t b p k (iterPost n i st).st ++ [.test t (some false)])) ++ [.after "loop" none],
        iterSt n b p k (iterPost n i st).st, none⟩ :=
  loop_op_closed n i t b p k st m hi h hm

theorem iterTrace_eq (n : Nat) (t : String) (b : Action) (p : Option Action) (k : Nat) (st : St) :
    iterTrace n t b p k st =
      (List.range k).flatMap fun i =>
        .test t (some true) :: ((run n (.doAct b) (iterSt n b p i st)).tr ++
          (match p with
            | none => []
            | some pa => (run n (.act pa) (run n (.doAct b) (iterSt n b p i st)).st).tr)) := by
  cases p <;> rfl

theorem iterPost_eq (n : Nat) (i : Option Action) (st : St) :
    iterPost n i st = match i with
      | none => Res.ok st
      | some a => run n (.act a) st := rfl

theorem testsTrueFor_iff (n : Nat) (t : String) (b : Action) (p : Option Action) (k : Nat) (st : St) :
    TestsTrueFor n t b p k st ↔
      (∀ i, i < k → evalBool t (iterSt n b p i st).data = some true ∧
        (run n (.doAct b) (iterSt n b p i st)).err = none ∧
        (iterPost n p (run n (.doAct b) (iterSt n b p i st)).st).err = none) ∧
      evalBool t (iterSt n b p k st).data = some false := Iff.rfl

/-! ### the closed form of forEach

  `itemRes n v b it st` = performWithItem for the item `it` (resolved against `st`'s data) with fuel `n`;
  `itemsSt` / `itemsTrace` / `ItemsOk` thread the state through the items (YtkProofs/PipelineLoop.lean;
  `items_unfold`). -/

theorem items_unfold (n : Nat) (v : String) (b : Action) (it : ItemE) (its : List ItemE) (st : St) :
    itemRes n v b it st = run n (.item v b (it.resolve st.data)) st ∧
    itemsSt n v b [] st = st ∧ itemsSt n v b (it :: its) st = itemsSt n v b its (itemRes n v b it st).st ∧
    itemsTrace n v b [] st = [] ∧
    itemsTrace n v b (it :: its) st = (itemRes n v b it st).tr ++ itemsTrace n v b its (itemRes n v b it st).st ∧
    (ItemsOk n v b [] st ↔ True) ∧
    (ItemsOk n v b (it :: its) st ↔ (itemRes n v b it st).err = none ∧ ItemsOk n v b its (itemRes n v b it st).st) :=
  ⟨rfl, rfl, rfl, rfl, rfl, Iff.rfl, Iff.rfl⟩

/-- every iteration ends without error: the trace is the concatenation of the iterations' traces in item
    order, each iteration starting from the data the previous one left (fuel `m ≥ n + #items + 1`) -/
theorem forEach_trace_closed (n : Nat) (v : String) (b : Action) (its : List ItemE) (st : St) (m : Nat)
    (h : ItemsOk n v b its st) (hm : n + its.length + 1 ≤ m) :
    run m (.items v b its) st = ⟨itemsTrace n v b its st, itemsSt n v b its st, none⟩ :=
  items_closed n v b its st m h hm

/-- the iteration of item number `pre.length` fails with `e`: trace = the traces of the items up to and
    including the failing one, the result is the failing iteration's; no later item runs -/
theorem forEach_trace_failing (n : Nat) (v : String) (b : Action) (pre : List ItemE) (it : ItemE)
    (post : List ItemE) (e : Err) (he : e ≠ .fuel) (st : St) (m : Nat) (h : ItemsOk n v b pre st)
    (hf : (itemRes n v b it (itemsSt n v b pre st)).err = some e) (hm : n + pre.length + 1 ≤ m) :
    run m (.items v b (pre ++ it :: post)) st =
      ⟨itemsTrace n v b pre st ++ (itemRes n v b it (itemsSt n v b pre st)).tr,
        (itemRes n v b it (itemsSt n v b pre st)).st, some e⟩ :=
  items_failing n v b it post e he pre st m h hf hm

/-- the operation as the executor runs it -/
theorem forEach_op_trace_closed (n : Nat) (q : Option VoR) (its : Option (List VoR)) (v : Option String)
    (b : Action) (st : St) (m : Nat)
    (h : ItemsOk n (v.getD "forEach") b (itemsOf q its st.data) st)
    (hm : n + (itemsOf q its st.data).length + 1 ≤ m) :
    run (m + 1) (.op (.forEach q its v b)) st =
      wrap ("forEach:" ++ v.getD "forEach")
        ⟨itemsTrace n (v.getD "forEach") b (itemsOf q its st.data) st,
          itemsSt n (v.getD "forEach") b (itemsOf q its st.data) st, none⟩ := by
  simp only [run, Op.label]
  rw [items_closed n _ b _ st m h hm]

/-! ### call / define -/

/-- calling an undefined name is an error; nothing runs and nothing changes -/
theorem call_undefined_err (n : Nat) (name : String) (ap : Option String) (args : Node) (st : St)
    (h : AMap.get? st.defs name = none) :
    run (n + 1) (.op (.call name ap args)) st = wrap ("call:" ++ name) (Res.fail st .undefined) := by
  simp [run, h, Op.label]

/-- defining a name that is already defined is an error and the registry (and the data) stay as they
    were: the first definition is kept -/
theorem define_twice_err_keeps_first (n : Nat) (name : String) (b b0 : Action) (st : St)
    (h : AMap.get? st.defs name = some b0) :
    run (n + 1) (.op (.define name b)) st = wrap ("define:" ++ name) (Res.fail st .redefined) ∧
    AMap.get? (run (n + 1) (.op (.define name b)) st).st.defs name = some b0 := by
  simp [run, h, Op.label, wrap, Res.fail]

/-- a first definition is stored … -/
theorem define_stores (n : Nat) (name : String) (b : Action) (st : St) (h : AMap.get? st.defs name = none) :
    (run (n + 1) (.op (.define name b)) st).err = none ∧
    AMap.get? (run (n + 1) (.op (.define name b)) st).st.defs name = some b := by
  simp [run, h, wrap, Res.ok, AMap.get?_insert_self]

/-- … so define; define is: ok, error, first one kept -/
theorem define_define (n m : Nat) (name : String) (b1 b2 : Action) (st : St) (h : AMap.get? st.defs name = none) :
    let r1 := run (n + 1) (.op (.define name b1)) st
    let r2 := run (m + 1) (.op (.define name b2)) r1.st
    r1.err = none ∧ r2.err = some .redefined ∧ AMap.get? r2.st.defs name = some b1 := by
  have h1 := define_stores n name b1 st h
  have h2 := define_twice_err_keeps_first m name b2 b1 _ h1.2
  refine ⟨h1.1, ?_, h2.2⟩
  rw [h2.1]; rfl

/-- call: the rendered arguments are stored at the (rendered) arguments path, the callable is executed
    through Execute, and the path is removed with RemoveAt on every exit -/
theorem call_shape (n : Nat) (name : String) (ap : Option String) (args : Node) (spec : Action) (st : St)
    (h : AMap.get? st.defs name = some spec) :
    run (n + 1) (.op (.call name ap args)) st =
      wrap ("call:" ++ name)
        ((run n (.act spec) (st.setData (addValueAt st.data (renderLenient (ap.getD "args") st.data)
            (renderArgs st.data args)))).mapSt
          fun s => s.setData (removeAt s.data (renderLenient (ap.getD "args") st.data))) := by
  simp [run, h, Op.label]

/-- inside the callable the arguments are readable at a single-key arguments path -/
theorem call_args_visible (d : AMap Node) (p : String) (v : Node) (hp : splitPath p = [p]) (hne : p ≠ "")
    (hx : hasIdxSuffix p = false) : lookup (addValueAt d p v) p = some v := by
  simp [lookup, hne, addValueAt, hp, addAtSegs, lookupSegs, child_of_noSuffix _ hx, add_of_noSuffix _ _ hx,
    AMap.get?_insert_self]

/-- single-key arguments path: after the call — normal or failing exit alike — nothing is left there -/
theorem call_args_gone (n : Nat) (name : String) (ap : Option String) (args : Node) (spec : Action) (st : St)
    (h : AMap.get? st.defs name = some spec) (hs : AMap.Sorted st.data)
    (hp : splitPath (renderLenient (ap.getD "args") st.data) = [renderLenient (ap.getD "args") st.data])
    (hne : renderLenient (ap.getD "args") st.data ≠ "")
    (hx : hasIdxSuffix (renderLenient (ap.getD "args") st.data) = false) :
    lookup (run (n + 1) (.op (.call name ap args)) st).st.data (renderLenient (ap.getD "args") st.data) = none := by
  rw [call_shape n name ap args spec st h]
  simp only [wrap, Res.mapSt, St.setData, lookup, hne, if_false, removeAt, hp, removeAtSegs, lookupSegs,
    child_of_noSuffix _ hx, remove]
  apply AMap.get?_erase_self
  exact sorted_run n _ _ (sorted_addValueAt hs _ _)

/-- removing a dotted path from a well-formed tree leaves nothing there (segments without index groups) -/
theorem lookupSegs_removeAtSegs : ∀ (segs : List String) (kvs : AMap Node),
    Node.WF (.cont kvs) → (∀ s ∈ segs, hasIdxSuffix s = false) → lookupSegs (removeAtSegs kvs segs) segs = none
  | [], _, _, _ => rfl
  | [last], kvs, hwf, hseg => by
    have hx := hseg last (by simp)
    simp only [removeAtSegs, lookupSegs, child_of_noSuffix _ hx, remove]
    exact AMap.get?_erase_self hwf.sorted _
  | p :: q :: rest, kvs, hwf, hseg => by
    have hx := hseg p (by simp)
    simp only [removeAtSegs, child_of_noSuffix _ hx]
    split
    · rename_i c hc
      simp only [lookupSegs, add_of_noSuffix _ _ hx, child_of_noSuffix _ hx, AMap.get?_insert_self]
      exact lookupSegs_removeAtSegs (q :: rest) c (hwf.of_cont_get hc) (fun s hs => hseg s (by simp [hs]))
    · rename_i hnc
      simp only [lookupSegs, child_of_noSuffix _ hx]

/-! ### deep well-formedness is an invariant of the interpreter

  `Node.WF (.cont d)`: every container of the document, at every depth, has strictly sorted — hence
  unique — keys, i.e. it is a Go map.  The programs of the model carry document literals as `Node`s (the
  `Data` of a SetOp, the `Args` of a CallOp; both are `map[string]interface{}` in the Go code), so the
  invariant has a program side: `Task.LitWF t` / `Action.LitWF a` — every such literal, at any depth of
  sub-actions, is itself `WF` (defined in YtkProofs/PipelineWF.lean; CloneWith preserves it).  For the Go
  code this side holds by construction (a Go map cannot hold a key twice); in the model it has to be said,
  and `run_wf_literal_counterexample` / `call_args_gone_dotted_literal_counterexample` show that the
  statements are false for a model program with a duplicate-key literal.  No operation of the model is
  excluded: set (merge / replace, path and root forms), template, log, abort, ext (trace / fail / inc),
  forEach (all item sources), loop, call, define, at every nesting depth and for every fuel. -/

/-- Deep well-formedness of the data is an invariant of `run`: for every fuel, every task whose literals
    are well formed, every state whose registered callables have well-formed literals. -/
theorem run_wf (n : Nat) (t : Task) (st : St) (ht : t.LitWF) (hdefs : ∀ p ∈ st.defs, p.2.LitWF)
    (h : Node.WF (.cont st.data)) : Node.WF (.cont (run n t st).st.data) :=
  (run_wf_inv n t st ht ⟨h, hdefs⟩).1

/-- the program side of the invariant: the registry only ever holds callables with well-formed literals -/
theorem run_defs_litWF (n : Nat) (t : Task) (st : St) (ht : t.LitWF) (hdefs : ∀ p ∈ st.defs, p.2.LitWF)
    (h : Node.WF (.cont st.data)) : ∀ p ∈ (run n t st).st.defs, p.2.LitWF :=
  (run_wf_inv n t st ht ⟨h, hdefs⟩).2

/-- the same for a caller's sequence of top-level `Execute(op)` calls on one executor -/
theorem runSeq_wf (n : Nat) : ∀ (os : List Op) (st : St), (∀ o ∈ os, o.LitWF) → (∀ p ∈ st.defs, p.2.LitWF) →
    Node.WF (.cont st.data) → Node.WF (.cont (runSeq n os st).2.1.data)
  | [], _, _, _, h => h
  | o :: os, st, hos, hdefs, h => by
    have hr := run_wf_inv n (.op o) st (hos o (List.mem_cons_self ..)) ⟨h, hdefs⟩
    exact runSeq_wf n os _ (fun o' ho' => hos o' (List.mem_cons_of_mem _ ho')) hr.2 hr.1

/-- the literal hypothesis cannot be dropped in the model: a SetOp whose `Data` literal is not a map
    (keys `b`, `a` out of order below `k`) stores that literal as it is -/
theorem run_wf_literal_counterexample :
    let o : Op := .set (some (.cont [("k", .cont [("b", .leaf ⟨"int", "1"⟩), ("a", .leaf ⟨"int", "2"⟩)])])) ""
      (some "replace")
    Node.WF (.cont ([] : AMap Node)) ∧ ¬ Node.WF (.cont (run 5 (.op o) ⟨[], []⟩).st.data) := by
  refine ⟨wf_nil, ?_⟩
  have hd : (run 5 (.op (.set (some (.cont [("k", .cont [("b", .leaf ⟨"int", "1"⟩), ("a", .leaf ⟨"int", "2"⟩)])])) ""
      (some "replace"))) ⟨[], []⟩).st.data = [("k", .cont [("b", .leaf ⟨"int", "1"⟩), ("a", .leaf ⟨"int", "2"⟩)])] := by
    decide +kernel
  intro h
  rw [hd] at h
  have h2 : Node.WF (.cont [("b", .leaf ⟨"int", "1"⟩), ("a", .leaf ⟨"int", "2"⟩)]) :=
    h.of_cont_get (k := "k") rfl
  have h3 : "b" < "a" := h2.sorted.head_lt ("a", _) (List.mem_cons_self ..)
  exact absurd h3 (by decide)

/-- dotted arguments path, full strength: after the call — normal or failing exit alike — nothing is left
    at the arguments path, whatever the callable did in between (it may have replaced, merged into or
    removed any part of the document, defined further callables, called others …).  From the well-formedness
    of the data before the call only (plus the program side: `args` and the registered callables are
    Go-map literals); the hypothesis about the callee's final data of the former `…_partial` version is
    now the theorem `run_wf`. -/
theorem call_args_gone_dotted (n : Nat) (name : String) (ap : Option String) (args : Node) (spec : Action)
    (st : St) (h : AMap.get? st.defs name = some spec)
    (hne : renderLenient (ap.getD "args") st.data ≠ "")
    (hseg : ∀ s ∈ splitPath (renderLenient (ap.getD "args") st.data), hasIdxSuffix s = false)
    (hwf : Node.WF (.cont st.data)) (hargs : args.WF) (hdefs : ∀ p ∈ st.defs, p.2.LitWF) :
    lookup (run (n + 1) (.op (.call name ap args)) st).st.data (renderLenient (ap.getD "args") st.data) = none := by
  rw [call_shape n name ap args spec st h]
  simp only [wrap, Res.mapSt, St.setData, lookup, hne, if_false, removeAt]
  refine lookupSegs_removeAtSegs _ _ ?_ hseg
  exact run_wf n (.act spec) _ (hdefs (name, spec) (AMap.mem_of_get? h)) hdefs
    (wf_addValueAt _ hwf (wf_renderArgs st.data hargs))

/-- … and the data is still well formed afterwards -/
theorem call_wf (n : Nat) (name : String) (ap : Option String) (args : Node) (st : St)
    (hwf : Node.WF (.cont st.data)) (hargs : args.WF) (hdefs : ∀ p ∈ st.defs, p.2.LitWF) :
    Node.WF (.cont (run n (.op (.call name ap args)) st).st.data) :=
  run_wf n (.op (.call name ap args)) st hargs hdefs hwf

/-- the program-side hypothesis is needed in the model: a callable whose SetOp literal holds the key `q`
    twice leaves one of the two entries at the arguments path `p.q` behind -/
theorem call_args_gone_dotted_literal_counterexample :
    let body : Action := .mk "f" 0 none
      [.set (some (.cont [("q", .leaf ⟨"int", "1"⟩), ("q", .leaf ⟨"int", "2"⟩)])) "p" (some "replace")] []
    let st : St := ⟨[], [("f", body)]⟩
    Node.WF (.cont st.data) ∧
    lookup (run 30 (.op (.call "f" (some "p.q") (.cont []))) st).st.data "p.q" = some (.leaf ⟨"int", "2"⟩) := by
  refine ⟨wf_nil, ?_⟩
  decide +kernel

/-! ### non-vacuity: concrete programs, evaluated by the kernel -/

def exData : AMap Node := [("xs", .list [.leaf ⟨"string", "a"⟩, .leaf ⟨"int", "2"⟩])]

def logsOf (tr : List Event) : List String := tr.filterMap fun | .log m => some m | _ => none

/-- forEach over a list query: body once per item, in order, variable bound, gone afterwards, data untouched -/
theorem nonvacuous_forEach :
    let r := run 30 (.op (.forEach (some ⟨false, "", "xs"⟩) none (some "i")
      (.mk "b" 0 none [.log "item={{ .i }}"] []))) ⟨exData, []⟩
    logsOf r.tr = ["item=a", "item=2"] ∧ r.err = none ∧ r.st.data = exData := by
  decide

/-- the hypotheses of `forEach_trace_closed` hold for that loop (fuel 8 per iteration) -/
theorem nonvacuous_forEach_closed :
    ItemsOk 8 "i" (.mk "b" 0 none [.log "item={{ .i }}"] [])
      (itemsOf (some ⟨false, "", "xs"⟩) none exData) ⟨exData, []⟩ := by
  have e : itemsOf (some ⟨false, "", "xs"⟩) none exData =
      [.node (.leaf ⟨"string", "a"⟩), .node (.leaf ⟨"int", "2"⟩)] := by
    have hl : lookup exData (VoR.resolve ⟨false, "", "xs"⟩ exData) =
        some (.list [.leaf ⟨"string", "a"⟩, .leaf ⟨"int", "2"⟩]) := by decide +kernel
    simp only [itemsOf, hl, List.map]
  rw [e]
  exact ⟨by decide +kernel, by decide +kernel, trivial⟩

/-- failing position: the abort (declared after log) fires in the first iteration; the variable is gone -/
theorem nonvacuous_forEach_failure :
    let r := run 30 (.op (.forEach (some ⟨false, "", "xs"⟩) none none
      (.mk "b" 0 none [.abort "stop {{ .forEach }}", .log "item={{ .forEach }}"] []))) ⟨exData, []⟩
    logsOf r.tr = ["item=a"] ∧ r.err = some (.abort "stop a") ∧ r.st.data = exData := by
  decide

/-- a loop inside the template micro-fragment: the "counter" is the shift register cur ← n1 ← n2,
    written by the post-action's children -/
def exLoop : Op :=
  .loop (some (.mk "init" 0 none [.log "init"] []))
    "{{ .cur }}"
    (.mk "body" 0 none [.log "body:{{ .n1 }}"] [])
    (some (.mk "post" 0 none [.log "post"]
      [.mk "shift2" 2 none [.template "{{ .n2 }}" "n1" false none] [],
       .mk "shift1" 1 none [.template "{{ .n1 }}" "cur" false none] []]))

def exLoopData : AMap Node :=
  [("cur", .leaf ⟨"string", "true"⟩), ("n1", .leaf ⟨"string", "true"⟩), ("n2", .leaf ⟨"string", "false"⟩)]

def seqOf (tr : List Event) : List String := tr.filterMap fun
  | .log m => some m
  | .test _ (some true) => some "test:true"
  | .test _ (some false) => some "test:false"
  | _ => none

/-- two iterations: init, (test, body, post)², test — body BEFORE post -/
theorem nonvacuous_loop :
    seqOf (run 40 (.op exLoop) ⟨exLoopData, []⟩).tr =
      ["init", "test:true", "body:true", "post", "test:true", "body:false", "post", "test:false"] := by
  decide

/-- a counting loop inside the template micro-fragment: the body's TemplateOp increments the unary
    counter `c` ("" ↦ "i" ↦ "ii" ↦ "iii"); the bound 3 is the shift register cur ← n1 ← n2 ← n3 = T T T F
    moved by the post-action's children; the test reads `cur` -/
def exCountBody : Action := .mk "body" 0 none [.template "{{ .c }}i" "c" false none, .log "body:{{ .c }}"] []
def exCountPost : Action :=
  .mk "post" 0 none [.log "post:{{ .c }}"]
    [.mk "shift3" 3 none [.template "{{ .n3 }}" "n2" false none] [],
     .mk "shift1" 1 none [.template "{{ .n1 }}" "cur" false none] [],
     .mk "shift2" 2 none [.template "{{ .n2 }}" "n1" false none] []]
def exCountInit : Action := .mk "init" 0 none [.template "true" "cur" false none] []
def exCountSt0 : St :=
  ⟨[("c", .leaf ⟨"string", ""⟩), ("n1", .leaf ⟨"string", "true"⟩), ("n2", .leaf ⟨"string", "true"⟩),
    ("n3", .leaf ⟨"string", "false"⟩)], []⟩
def exCountSt : St := ⟨AMap.insert exCountSt0.data "cur" (.leaf ⟨"string", "true"⟩), []⟩

/-- the hypotheses of `loop_trace` hold for k = 3 (fuel 12 per body / post-action) … -/
theorem nonvacuous_loop_trace_hyps :
    (∀ i, i < 3 → evalBool "{{ .cur }}" (iterSt 12 exCountBody (some exCountPost) i exCountSt).data = some true) ∧
    (∀ i, i < 3 → (run 12 (.doAct exCountBody) (iterSt 12 exCountBody (some exCountPost) i exCountSt)).err = none) ∧
    (∀ i, i < 3 → (run 12 (.act exCountPost)
        (run 12 (.doAct exCountBody) (iterSt 12 exCountBody (some exCountPost) i exCountSt)).st).err = none) ∧
    evalBool "{{ .cur }}" (iterSt 12 exCountBody (some exCountPost) 3 exCountSt).data = some false := by
  decide +kernel

/-- … and the loop does what the closed form says: three iterations, body before post, counter at 3
    afterwards; also through the operation wrapper, with an init action that sets `cur` first -/
theorem nonvacuous_loop_trace :
    seqOf (run 16 (.loopIter "{{ .cur }}" exCountBody (some exCountPost)) exCountSt).tr =
      ["test:true", "body:i", "post:i", "test:true", "body:ii", "post:ii", "test:true", "body:iii", "post:iii",
       "test:false"] ∧
    (run 16 (.loopIter "{{ .cur }}" exCountBody (some exCountPost)) exCountSt).err = none ∧
    lookup (run 16 (.loopIter "{{ .cur }}" exCountBody (some exCountPost)) exCountSt).st.data "c" =
      some (.leaf ⟨"string", "iii"⟩) ∧
    (run 16 (.loopIter "{{ .cur }}" exCountBody (some exCountPost)) exCountSt).st =
      iterSt 12 exCountBody (some exCountPost) 3 exCountSt ∧
    seqOf (run 18 (.op (.loop (some exCountInit) "{{ .cur }}" exCountBody (some exCountPost))) exCountSt0).tr =
      ["test:true", "body:i", "post:i", "test:true", "body:ii", "post:ii", "test:true", "body:iii", "post:iii",
       "test:false"] := by
  obtain ⟨h1, h2, h3, h4⟩ := nonvacuous_loop_trace_hyps
  have h := loop_trace 12 "{{ .cur }}" exCountBody exCountPost 3 exCountSt 16 h1 h2 h3 h4 (by omega)
  refine ⟨?_, h.1, ?_, h.2.1, ?_⟩
  · decide +kernel
  · decide +kernel
  · decide +kernel

/-- call with a dotted arguments path: argument readable inside, path gone afterwards (the emptied
    intermediate container `p` remains), define twice: error, first kept -/
def exF : Action := .mk "f" 0 none [.log "x={{ .p.q.x }}"] []
def exF2 : Action := .mk "f2" 0 none [.log "second"] []
def exS0 : St := ⟨[("name", .leaf ⟨"string", "N"⟩)], []⟩
def exR1 : Res := run 30 (.op (.define "f" exF)) exS0
def exR2 : Res := run 30 (.op (.define "f" exF2)) exR1.st
def exR3 : Res := run 30 (.op (.call "f" (some "p.q") (.cont [("x", .leaf ⟨"string", "{{ .name }}!"⟩)]))) exR2.st
def exR4 : Res := run 30 (.op (.call "g" none (.cont []))) exR3.st

theorem nonvacuous_call :
    exR1.err = none ∧ exR2.err = some .redefined ∧ exR3.err = none ∧ exR4.err = some .undefined ∧
    logsOf exR3.tr = ["x=N!"] ∧ lookup exR3.st.data "p.q" = none ∧
    exR4.st.data = [("name", .leaf ⟨"string", "N"⟩), ("p", .cont [])] := by
  decide

/-- `run_wf` / `call_args_gone_dotted` on a concrete program: a callable that merges a nested literal
    below the arguments path's parent and replaces the arguments themselves, called with a dotted arguments
    path; all hypotheses hold, and so do the conclusions (evaluated independently by the kernel) -/
def exG : Action :=
  .mk "g" 0 none
    [.set (some (.cont [("r", .cont [("u", .leaf ⟨"int", "1"⟩), ("v", .list [.cont [("k", .leaf ⟨"int", "2"⟩)]])])])) "p"
      none]
    [.mk "g1" 1 none [.set (some (.cont [("x", .leaf ⟨"int", "3"⟩), ("y", .leaf ⟨"int", "4"⟩)])) "p.q" (some "replace")] []]
def exCallG : Op := .call "g" (some "p.q") (.cont [("x", .leaf ⟨"string", "{{ .name }}!"⟩)])
def exS1 : St := ⟨[("name", .leaf ⟨"string", "N"⟩), ("p", .cont [("a", .leaf ⟨"int", "0"⟩)])], [("g", exG)]⟩

theorem nonvacuous_run_wf :
    Task.LitWF (.op exCallG) ∧ (∀ p ∈ exS1.defs, p.2.LitWF) ∧ Node.WF (.cont exS1.data) ∧
    AMap.get? exS1.defs "g" = some exG ∧
    renderLenient ((some "p.q").getD "args") exS1.data ≠ "" ∧
    (∀ s ∈ splitPath (renderLenient ((some "p.q").getD "args") exS1.data), hasIdxSuffix s = false) ∧
    (run 30 (.op exCallG) exS1).err = none ∧
    (run 30 (.op exCallG) exS1).st.data =
      [("name", .leaf ⟨"string", "N"⟩),
       ("p", .cont [("a", .leaf ⟨"int", "0"⟩),
                    ("r", .cont [("u", .leaf ⟨"int", "1"⟩), ("v", .list [.cont [("k", .leaf ⟨"int", "2"⟩)]])])])] := by
  refine ⟨Op.litWF_of_b exCallG (by decide +kernel), ?_, wf_of_wfb _ (by decide +kernel), rfl,
    by decide +kernel, by decide +kernel, by decide +kernel, by decide +kernel⟩
  intro p hp
  simp only [exS1, List.mem_singleton] at hp
  subst hp
  exact Action.litWF_of_b exG (by decide +kernel)

/-! ### round 8 (lean/CLAUSES_B.md, clauses C14.2, C14.4, C14.6, C14.9) -/

/-- C14.2: inside an iteration the loop variable IS the item: `Child(variable)` on the data the body
    starts with returns the item (any variable name), and for a plain name (no trailing index group) so
    does the map lookup a template action `{{ .variable }}` performs. -/
theorem forEach_var_bound (d : AMap Node) (v : String) (it : Node) :
    child (add d v it) v = some it ∧ (hasIdxSuffix v = false → AMap.get? (add d v it) v = some it) :=
  ⟨PD.child_add_self d v it, fun hx => by rw [add_of_noSuffix _ _ hx, AMap.get?_insert_self]⟩

/-- … and that data is what the cloned body operations are started with (restating `forEach_item_shape`) -/
theorem forEach_body_starts_bound (n : Nat) (v : String) (b : Action) (it : Node) (st : St) :
    ∃ k : St → Res, run (n + 1) (.item v b it) st =
      ((run n (.cloneOps (opsOf b)) (st.setData (add st.data v it))).andThen k).mapSt
        fun s => s.setData (remove s.data v) := ⟨_, rfl⟩

/-- C14.4 for EVERY non-empty arguments path (dotted, list-item components): what the callable finds at
    the arguments path is the rendered argument container -/
theorem call_args_visible_dotted (d : AMap Node) (p : String) (v : Node) (hne : p ≠ "") :
    lookup (addValueAt d p v) p = some v := PD.lookup_addValueAt_self' d v hne

/-- C14.6, forEach: the mechanism itself disturbs no other data.  For a plain variable name `v` and any
    other top-level key `k`: binding the variable does not change what is found at `k`, and what is found
    at `k` after the iteration is what the BODY left there (`bodyRes` = the run of the cloned operations
    and the children, before the deferred Remove). -/
theorem forEach_item_frame (n : Nat) (v : String) (b : Action) (it : Node) (st : St) (k : String)
    (hx : hasIdxSuffix v = false) (hk : k ≠ v) :
    let bodyRes := (run n (.cloneOps (opsOf b)) (st.setData (add st.data v it))).andThen fun st =>
      wrap "steps" (run n (.steps (sortActs b.children)) st)
    AMap.get? (add st.data v it) k = AMap.get? st.data k ∧
    AMap.get? (run (n + 1) (.item v b it) st).st.data k = AMap.get? bodyRes.st.data k ∧
    (run (n + 1) (.item v b it) st).tr = bodyRes.tr ∧ (run (n + 1) (.item v b it) st).err = bodyRes.err := by
  intro bodyRes
  refine ⟨?_, ?_, rfl, rfl⟩
  · rw [add_of_noSuffix _ _ hx, AMap.get?_insert_ne _ _ hk]
  · rw [forEach_item_shape]
    simp only [Res.mapSt, St.setData, remove]
    exact AMap.get?_erase_ne _ hk

/-- C14.6, forEach (`forEach_frame` of DESIGN §6): a body that leaves the data as it found it (e.g. only
    logs) and a variable that was not in the data before — the iteration returns the data UNCHANGED,
    whatever the outcome of the body. -/
theorem forEach_frame_pure (n : Nat) (v : String) (b : Action) (it : Node) (st : St)
    (hs : AMap.Sorted st.data) (hx : hasIdxSuffix v = false) (hv : AMap.get? st.data v = none)
    (hbody : ((run n (.cloneOps (opsOf b)) (st.setData (add st.data v it))).andThen fun st =>
      wrap "steps" (run n (.steps (sortActs b.children)) st)).st.data = add st.data v it) :
    (run (n + 1) (.item v b it) st).st.data = st.data := by
  rw [forEach_item_shape]
  simp only [Res.mapSt, St.setData, remove] at hbody ⊢
  rw [hbody, add_of_noSuffix _ _ hx]
  exact erase_insert_fresh hs it hv

/-- C14.6, call with a single-key arguments path `p`: every other top-level key holds after the call
    what the CALLABLE left there, and binding the arguments did not change it before. -/
theorem call_frame (n : Nat) (name : String) (ap : Option String) (args : Node) (spec : Action) (st : St)
    (h : AMap.get? st.defs name = some spec)
    (hp : splitPath (renderLenient (ap.getD "args") st.data) = [renderLenient (ap.getD "args") st.data])
    (hx : hasIdxSuffix (renderLenient (ap.getD "args") st.data) = false) (k : String)
    (hk : k ≠ renderLenient (ap.getD "args") st.data) :
    let p := renderLenient (ap.getD "args") st.data
    let d0 := addValueAt st.data p (renderArgs st.data args)
    AMap.get? d0 k = AMap.get? st.data k ∧
    AMap.get? (run (n + 1) (.op (.call name ap args)) st).st.data k =
      AMap.get? (run n (.act spec) (st.setData d0)).st.data k := by
  intro p d0
  refine ⟨?_, ?_⟩
  · simp only [d0, addValueAt, p, hp, addAtSegs]
    rw [add_of_noSuffix _ _ hx, AMap.get?_insert_ne _ _ hk]
  · rw [call_shape n name ap args spec st h]
    simp only [wrap, Res.mapSt, St.setData, removeAt, hp, removeAtSegs, remove]
    exact AMap.get?_erase_ne _ hk

/-- C14.9: a container query yields its KEYS (as string leaves), each key exactly once.  (The model
    visits them in key order; Go's map order is unspecified.  That the effect of the whole loop is
    independent of that order is NOT claimed — bodies have effects.) -/
theorem itemsOf_container_keys (q : VoR) (its : Option (List VoR)) (d : AMap Node) (kvs : AMap Node)
    (h : lookup d (q.resolve d) = some (.cont kvs)) (hs : AMap.Sorted kvs) :
    (itemsOf (some q) its d).map (ItemE.resolve d) = kvs.map (fun p => Node.leaf ⟨"string", p.1⟩) ∧
    (itemsOf (some q) its d).length = kvs.length ∧ (kvs.map (·.1)).Nodup := by
  refine ⟨?_, ?_, sorted_keys_nodup hs⟩
  · simp only [itemsOf, h, List.map_map]
    rfl
  · simp only [itemsOf, h, List.length_map]

/-- the hypotheses of `forEach_frame_pure` / `itemsOf_container_keys` on concrete data: a logging body
    over the keys of the container `m` (variable `i`, absent before) -/
theorem nonvacuous_forEach_frame :
    let d : AMap Node := [("m", .cont [("a", .leaf ⟨"int", "1"⟩), ("b", .leaf ⟨"int", "2"⟩)])]
    let body : Action := .mk "b" 0 none [.log "key={{ .i }}"] []
    hasIdxSuffix "i" = false ∧ AMap.get? d "i" = none ∧
    (itemsOf (some ⟨false, "", "m"⟩) none d).map (ItemE.resolve d) =
      [.leaf ⟨"string", "a"⟩, .leaf ⟨"string", "b"⟩] ∧
    ((run 8 (.cloneOps (opsOf body)) (St.setData ⟨d, []⟩ (add d "i" (.leaf ⟨"string", "a"⟩)))).andThen fun st =>
      wrap "steps" (run 8 (.steps (sortActs body.children)) st)).st.data = add d "i" (.leaf ⟨"string", "a"⟩) ∧
    logsOf (run 30 (.op (.forEach (some ⟨false, "", "m"⟩) none (some "i") body)) ⟨d, []⟩).tr = ["key=a", "key=b"] ∧
    (run 30 (.op (.forEach (some ⟨false, "", "m"⟩) none (some "i") body)) ⟨d, []⟩).st.data = d := by
  decide +kernel

/-- C14.6 for the WHOLE forEach (any number of items, any fuel, also when an iteration fails): if the body
    leaves the data as it found it — for every item and from every state holding the same data (the
    registry of callables may differ) — and the variable was not in the data before, the data after the
    loop is the data before it. -/
theorem forEach_frame_pure_all (v : String) (b : Action) (d : AMap Node) (hs : AMap.Sorted d)
    (hx : hasIdxSuffix v = false) (hv : AMap.get? d v = none)
    (hbody : ∀ (m : Nat) (it : Node) (st' : St), st'.data = d →
      ((run m (.cloneOps (opsOf b)) (st'.setData (add st'.data v it))).andThen fun s =>
        wrap "steps" (run m (.steps (sortActs b.children)) s)).st.data = add st'.data v it) :
    ∀ (n : Nat) (its : List ItemE) (st : St), st.data = d → (run n (.items v b its) st).st.data = d := by
  have hitem : ∀ (n : Nat) (it : Node) (st : St), st.data = d → (run n (.item v b it) st).st.data = d := by
    intro n it st hd
    cases n with
    | zero => exact hd
    | succ m =>
      rw [forEach_frame_pure m v b it st (hd ▸ hs) hx (hd ▸ hv) (hbody m it st hd)]
      exact hd
  intro n
  induction n with
  | zero => intro its st hd; exact hd
  | succ n ih =>
    intro its st hd
    cases its with
    | nil => exact hd
    | cons it its =>
      rw [forEach_trace]
      have h1 := hitem n (it.resolve st.data) st hd
      unfold Res.andThen
      split
      · exact h1
      · exact ih its _ h1

/-- the hypothesis holds for a body that only logs (every fuel, every item, every state): the whole
    loop over any item list returns the data unchanged -/
theorem nonvacuous_forEach_frame_all (d : AMap Node) (hs : AMap.Sorted d) (hv : AMap.get? d "i" = none)
    (n : Nat) (its : List ItemE) (defs : AMap Action) :
    (run n (.items "i" (.mk "b" 0 none [.log "plain"] []) its) ⟨d, defs⟩).st.data = d := by
  refine forEach_frame_pure_all "i" _ d hs (by decide) hv ?_ n its ⟨d, defs⟩ rfl
  intro m it st' _
  have hops : opsOf (.mk "b" 0 none [.log "plain"] []) = [.log "plain"] := by rfl
  have hcs : sortActs (Action.mk "b" 0 none [.log "plain"] []).children = [] := rfl
  rw [hops, hcs]
  match m with
  | 0 => rfl
  | 1 => rfl
  | 2 => rfl
  | m + 3 => rfl

end Ytk.C14
