import YtkModel.Pipeline
namespace Ytk.C14
end Ytk.C14
