/-
  C16 — properties: flat dotted keys and trees correspond exactly and deterministically.

  Statements are about the definitions of `YtkModel/Props.lean` that the driver executes.
  A flat map is an `AMap` (sorted, unique keys); `unflatten` / `fromProperties` visit the keys in
  that (sorted) order, as the code does since the D21 fix; `UnflattenRel` / `FromPropertiesRel`
  / `EncodeRel` allow any visiting order (Go map iteration).

  Proved here: the encode → parse round trip (for every writing order), the determinism of the
  executable model with its concrete D21 witness (the relational, pre-fix semantics has two
  different results for `{a=1, a.b=2}`; the sorted one has exactly one), the small structural
  facts.  NOT proved (kept as statements below, validated by the correspondence harness only):

    unflatten_flatten       : Sorted kv → (∀ p ∈ kv, KeyOk p.1) → PrefixFree kv →
                                flattenPlainMap (unflatten kv) = kv.map (fun p => (p.1, scalarOf p.2))
    fromProperties_flatten  : Sorted kv → (∀ p ∈ kv, KeyOk p.1) → PrefixFree kv →
                                flattenMap (fromProperties kv) = kv
    unflatten_order_indep   : Sorted kv → PrefixFree kv → UnflattenRel kv out → out = unflatten kv
    fromProperties_order_indep : likewise for FromPropertiesRel
-/
import YtkProofs.Props

namespace Ytk.C16
open Ytk.Props

/-- A flat map written as properties (`k=v` lines, in ANY order of the entries) and read back by
    the reference line parser yields the same pairs, for keys without `=` / newline and values
    without newline (in particular for the safe alphabet). -/
theorem encode_parse_list (l : List (String × Scalar)) (h : ∀ p ∈ l, LineSafe p) :
    parseSimple (encodeList l) = l.map (fun p => (p.1, p.2.text)) :=
  parseSimple_encodeList l h

/-- … for the deterministic encoder … -/
theorem encode_parse (kv : AMap Scalar) (h : ∀ p ∈ kv, LineSafe p) :
    parseSimple (encoderFn kv) = kv.map (fun p => (p.1, p.2.text)) :=
  parseSimple_encodeList kv h

/-- … and for every order in which Go's map iteration may write the entries: the parsed pairs
    are a permutation of the map's entries. -/
theorem encode_parse_rel (kv : AMap Scalar) (out : String) (h : ∀ p ∈ kv, LineSafe p)
    (hr : EncodeRel kv out) : (parseSimple out).Perm (kv.map (fun p => (p.1, p.2.text))) := by
  obtain ⟨l, hl, rfl⟩ := hr
  rw [parseSimple_encodeList l (fun p hp => h p (hl.mem_iff.mp hp))]
  exact hl.map _

/-- DomEncoderFn on a container whose children are all leaves writes what EncoderFn writes for
    the corresponding flat map; a non-leaf child is the failed type assertion. -/
theorem domEncoder_leaves (l : List (String × Scalar)) :
    domEncoderFn (l.map fun p => (p.1, Node.leaf p.2)) = .ok (encodeList l) := by
  have : leavesOf (l.map fun p => (p.1, Node.leaf p.2)) = some l := by
    induction l with
    | nil => rfl
    | cons p rest ih => simp [leavesOf, ih]
  simp [domEncoderFn, this]

/-! ## determinism, and the D21 witness -/

def exConflict : AMap Val := [("a", strVal "1"), ("a.b", strVal "2")]

/-- Before the D21 fix (keys visited in map-iteration order) the result for conflicting keys
    depended on the order: two derivations of the relational semantics with different results. -/
theorem unflatten_conflict_counterexample :
    ∃ o₁ o₂, UnflattenRel exConflict o₁ ∧ UnflattenRel exConflict o₂ ∧ o₁ ≠ o₂ := by
  refine ⟨unflattenList [("a", strVal "1"), ("a.b", strVal "2")],
          unflattenList [("a.b", strVal "2"), ("a", strVal "1")],
          ⟨_, List.Perm.refl _, rfl⟩, ⟨_, List.Perm.swap .., rfl⟩, by decide⟩

/-- The code at HEAD visits the keys sorted: one result, here `{a: {b: 2}}` (the later, longer
    key replaces the scalar by a map). -/
theorem unflatten_conflict_sorted :
    unflatten exConflict = [("a", .obj [("b", strVal "2")])] := by decide

theorem fromProperties_conflict_counterexample :
    ∃ o₁ o₂, FromPropertiesRel [("a", ⟨"string", "1"⟩), ("a.b", ⟨"string", "2"⟩)] o₁ ∧
      FromPropertiesRel [("a", ⟨"string", "1"⟩), ("a.b", ⟨"string", "2"⟩)] o₂ ∧ o₁ ≠ o₂ := by
  refine ⟨fromPropertiesList [("a", ⟨"string", "1"⟩), ("a.b", ⟨"string", "2"⟩)],
          fromPropertiesList [("a.b", ⟨"string", "2"⟩), ("a", ⟨"string", "1"⟩)],
          ⟨_, List.Perm.refl _, rfl⟩, ⟨_, List.Perm.swap .., rfl⟩, by decide⟩

/-- The executable model is one of the relational results (the sorted order is an order). -/
theorem unflatten_is_rel (kv : AMap Val) : UnflattenRel kv (unflatten kv) :=
  ⟨kv, List.Perm.refl _, rfl⟩

theorem fromProperties_is_rel (kv : AMap Scalar) : FromPropertiesRel kv (fromProperties kv) :=
  ⟨kv, List.Perm.refl _, rfl⟩

/-- Decoding is a function of the text: the same text gives the same document (the model of
    FromReader ∘ DecoderFn has no hidden order parameter once the keys are sorted). -/
theorem decode_deterministic (load : String → List (String × String)) (t₁ t₂ : String) (h : t₁ = t₂) :
    fromReader load t₁ = fromReader load t₂ := by rw [h]

/-! ## non-vacuity: exactness on a concrete prefix-free map -/

def exKv : AMap Val :=
  [("a.b", strVal "1"), ("a.c.d", strVal "x"), ("k1", strVal ""), ("x-y.z_9", strVal "true")]
def exKvS : AMap Scalar :=
  [("a.b", ⟨"string", "1"⟩), ("a.c.d", ⟨"string", "x"⟩), ("k1", ⟨"string", ""⟩), ("x-y.z_9", ⟨"string", "true"⟩)]

theorem nonvacuous_unflatten_flatten : flattenPlainMap (unflatten exKv) = exKvS := by decide +kernel

theorem nonvacuous_fromProperties_flatten : flattenMap (fromProperties exKvS) = exKvS := by decide +kernel

theorem nonvacuous_fromMap_unflatten : fromMap (unflatten exKv) = fromProperties exKvS := by decide +kernel

theorem nonvacuous_encode_parse :
    parseSimple (encoderFn exKvS) = [("a.b", "1"), ("a.c.d", "x"), ("k1", ""), ("x-y.z_9", "true")] := by
  decide

theorem nonvacuous_order_indep :
    unflattenList exKv.reverse = unflatten exKv ∧ fromPropertiesList exKvS.reverse = fromProperties exKvS := by
  decide +kernel

end Ytk.C16
