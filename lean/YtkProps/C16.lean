import YtkModel.Props

namespace Ytk.C16
open Ytk.Props

theorem nonvacuous_placeholder : unflatten [("a", strVal "1")] = [("a", strVal "1")] := by decide

end Ytk.C16
