/-
  C16 — properties: flat dotted keys and trees correspond exactly and deterministically.

  Statements are about the definitions of `YtkModel/Props.lean` that the driver executes.
  A flat map is an `AMap Scalar` (sorted, unique keys); `toV` wraps its values as plain values.
  `unflatten` / `fromProperties` visit the keys in that (sorted) order, as the code does since
  the D21 fix; `UnflattenRel` / `FromPropertiesRel` / `EncodeRel` allow any visiting order
  (Go map iteration).

    PrefixFree kv : no key is a dotted prefix of another
    KeyOk k       : every dotted component of k is non-empty and does not end in `[digits]`
                    (implied by the path-safe alphabet `[A-Za-z0-9_-]+`)
    LineSafe p    : the key has no `=` / newline, the value no newline (no escaping needed)
    Loads load text kv : the contract on the external properties loader (magiconair) for one
                    text — it yields exactly the pairs of `kv`, all values strings.  For the
                    reference parser `parseSimple` on text written by the encoder the contract
                    is PROVED (`decode_encode`); for magiconair it is validated by corr:C16.parse.

  `flattenPlainMap` / `flattenMap` are the flattenings as Go maps (`AMap.ofList` of the
  traversal): equality with `kv` says "exactly the decoded key/value pairs".
-/
import YtkProofs.Props
import YtkProofs.GapProps
import YtkModel.FileCodec
import YtkModel.Generated.Tables

namespace Ytk.C16
open Ytk.Props

/-! ## decision tables regenerated from the source (extract/tables.go) -/
section DecisionTables
open Ytk.TableT Ytk.FileCodec

/-- (i) the `.properties` rows of the suffix switches of common.DefaultFile{Decoder,Encoder}Provider, as
    regenerated from common/common.go, are the model's: the suffix selects the properties codec, whose
    decoder / encoder are props.DecoderFn / props.EncoderFn (the rows of the other suffixes belong to C01) -/
theorem props_codec_table_matches_model :
    ofSuffix ".properties" = some .properties ∧
    lookupD Generated.fileDecoders Generated.fileDecodersDefault ".properties" = decoderOf ".properties" ∧
    lookupD Generated.fileEncoders Generated.fileEncodersDefault ".properties" = encoderOf ".properties" := by
  decide +kernel

/-- (ii) a `x.properties` file is read with props.DecoderFn and written with props.EncoderFn — the codec
    the property is stated for — and no other suffix selects either of them -/
theorem props_codec_table_rule :
    lookupD Generated.fileDecoders Generated.fileDecodersDefault ".properties" = "props.DecoderFn" ∧
    lookupD Generated.fileEncoders Generated.fileEncodersDefault ".properties" = "props.EncoderFn" ∧
    (∀ r ∈ Generated.fileDecoders, r.target = "props.DecoderFn" → r.key = ".properties") ∧
    (∀ r ∈ Generated.fileEncoders, r.target = "props.EncoderFn" → r.key = ".properties") := by
  decide +kernel

/-- (iii) the rows exist and the suffixes are distinct -/
theorem nonvacuous_props_codec_table :
    ".properties" ∈ keys Generated.fileDecoders ∧ ".properties" ∈ keys Generated.fileEncoders ∧
    (keys Generated.fileDecoders).Nodup ∧ (keys Generated.fileEncoders).Nodup := by
  decide +kernel

end DecisionTables

/-- A flat map written as properties (`k=v` lines, in ANY order of the entries) and read back by
    the reference line parser yields the same pairs, for keys without `=` / newline and values
    without newline (in particular for the safe alphabet). -/
theorem encode_parse_list (l : List (String × Scalar)) (h : ∀ p ∈ l, LineSafe p) :
    parseSimple (encodeList l) = l.map (fun p => (p.1, p.2.text)) :=
  parseSimple_encodeList l h

/-- … for the deterministic encoder … -/
theorem encode_parse (kv : AMap Scalar) (h : ∀ p ∈ kv, LineSafe p) :
    parseSimple (encoderFn kv) = kv.map (fun p => (p.1, p.2.text)) :=
  parseSimple_encodeList kv h

/-- … and for every order in which Go's map iteration may write the entries: the parsed pairs
    are a permutation of the map's entries. -/
theorem encode_parse_rel (kv : AMap Scalar) (out : String) (h : ∀ p ∈ kv, LineSafe p)
    (hr : EncodeRel kv out) : (parseSimple out).Perm (kv.map (fun p => (p.1, p.2.text))) := by
  obtain ⟨l, hl, rfl⟩ := hr
  rw [parseSimple_encodeList l (fun p hp => h p (hl.mem_iff.mp hp))]
  exact hl.map _

/-- DomEncoderFn on a container whose children are all leaves writes what EncoderFn writes for
    the corresponding flat map; a non-leaf child is the failed type assertion. -/
theorem domEncoder_leaves (l : List (String × Scalar)) :
    domEncoderFn (l.map fun p => (p.1, Node.leaf p.2)) = .ok (encodeList l) := by
  have : leavesOf (l.map fun p => (p.1, Node.leaf p.2)) = some l := by
    induction l with
    | nil => rfl
    | cons p rest ih => simp [leavesOf, ih]
  simp [domEncoderFn, this]

/-! ## determinism, and the D21 witness -/

def exConflict : AMap Val := [("a", strVal "1"), ("a.b", strVal "2")]

/-- Before the D21 fix (keys visited in map-iteration order) the result for conflicting keys
    depended on the order: two derivations of the relational semantics with different results. -/
theorem unflatten_conflict_counterexample :
    ∃ o₁ o₂, UnflattenRel exConflict o₁ ∧ UnflattenRel exConflict o₂ ∧ o₁ ≠ o₂ := by
  refine ⟨unflattenList [("a", strVal "1"), ("a.b", strVal "2")],
          unflattenList [("a.b", strVal "2"), ("a", strVal "1")],
          ⟨_, List.Perm.refl _, rfl⟩, ⟨_, List.Perm.swap .., rfl⟩, by decide⟩

/-- The code at HEAD visits the keys sorted: one result, here `{a: {b: 2}}` (the later, longer
    key replaces the scalar by a map). -/
theorem unflatten_conflict_sorted :
    unflatten exConflict = [("a", .obj [("b", strVal "2")])] := by decide

theorem fromProperties_conflict_counterexample :
    ∃ o₁ o₂, FromPropertiesRel [("a", ⟨"string", "1"⟩), ("a.b", ⟨"string", "2"⟩)] o₁ ∧
      FromPropertiesRel [("a", ⟨"string", "1"⟩), ("a.b", ⟨"string", "2"⟩)] o₂ ∧ o₁ ≠ o₂ := by
  refine ⟨fromPropertiesList [("a", ⟨"string", "1"⟩), ("a.b", ⟨"string", "2"⟩)],
          fromPropertiesList [("a.b", ⟨"string", "2"⟩), ("a", ⟨"string", "1"⟩)],
          ⟨_, List.Perm.refl _, rfl⟩, ⟨_, List.Perm.swap .., rfl⟩, by decide⟩

/-- The executable model is one of the relational results (the sorted order is an order). -/
theorem unflatten_is_rel (kv : AMap Val) : UnflattenRel kv (unflatten kv) :=
  ⟨kv, List.Perm.refl _, rfl⟩

theorem fromProperties_is_rel (kv : AMap Scalar) : FromPropertiesRel kv (fromProperties kv) :=
  ⟨kv, List.Perm.refl _, rfl⟩

/-- Decoding is a function of the text: the same text gives the same document (the model of
    FromReader ∘ DecoderFn has no hidden order parameter once the keys are sorted). -/
theorem decode_deterministic (load : String → List (String × String)) (t₁ t₂ : String) (h : t₁ = t₂) :
    fromReader load t₁ = fromReader load t₂ := by rw [h]

/-! ## exactness on prefix-free key sets -/

theorem segsNonempty_of_keyOk {kv : AMap Scalar} (h : ∀ p ∈ kv, KeyOk p.1) : SegsNonempty kv :=
  fun p hp s hs => (h p hp s hs).1

theorem keysNoSuffix_of_keyOk {kv : AMap Scalar} (h : ∀ p ∈ kv, KeyOk p.1) : KeysNoSuffix kv :=
  fun p hp s hs => (h p hp s hs).2

/-- keys whose components are non-empty words over the path-safe alphabet `[A-Za-z0-9_-]`
    satisfy `KeyOk` -/
theorem keyOk_of_safe (k : String)
    (h : ∀ s ∈ splitPath k, s ≠ "" ∧ ∀ c ∈ s.toList, safeChar c = true) : KeyOk k :=
  fun s hs => ⟨(h s hs).1, hasIdxSuffix_of_safe s (h s hs).2⟩

/-- flattenPlain(utils.Unflatten(kv)) == kv when no key is a dotted prefix of another. -/
theorem unflatten_flatten (kv : AMap Scalar) (hs : AMap.Sorted kv) (hk : ∀ p ∈ kv, KeyOk p.1)
    (hpf : PrefixFree kv) : flattenPlainMap (unflatten (toV kv)) = kv :=
  flattenPlainMap_unflatten hs hpf (segsNonempty_of_keyOk hk)

/-- … also as membership in the traversal itself (no normalisation involved). -/
theorem unflatten_flatten_mem (kv : AMap Scalar) (hs : AMap.Sorted kv) (hk : ∀ p ∈ kv, KeyOk p.1)
    (hpf : PrefixFree kv) (path : String) (s : Scalar) :
    (path, s) ∈ flattenPlain (unflatten (toV kv)) ↔ (path, s) ∈ kv :=
  mem_flattenPlain_unflatten hs hpf (segsNonempty_of_keyOk hk) path s

/-- Flatten(FromProperties(kv)) == kv (also k8s.DecodeEmbeddedProps, the same loop). -/
theorem fromProperties_flatten (kv : AMap Scalar) (hs : AMap.Sorted kv) (hk : ∀ p ∈ kv, KeyOk p.1)
    (hpf : PrefixFree kv) : flattenMap (fromProperties kv) = kv :=
  flattenMap_fromProperties hs hpf (segsNonempty_of_keyOk hk) (keysNoSuffix_of_keyOk hk)

/-- Flatten(FromReader(text, props.DecoderFn)) == kv for every text that the loader reads as `kv`. -/
theorem fromReader_flatten (load : String → List (String × String)) (text : String) (kv : AMap Scalar)
    (hl : Loads load text kv) (hs : AMap.Sorted kv) (hk : ∀ p ∈ kv, KeyOk p.1) (hpf : PrefixFree kv) :
    flattenMap (fromReader load text) = kv := by
  rw [fromReader_eq_fromProperties load text kv hl (keysNoSuffix_of_keyOk hk)]
  exact fromProperties_flatten kv hs hk hpf

/-- DecoderFn(EncoderFn(kv)) == kv, with the reference parser as the loader: nothing assumed. -/
theorem decode_encode (kv : AMap Scalar) (hs : AMap.Sorted kv) (hk : ∀ p ∈ kv, KeyOk p.1)
    (hpf : PrefixFree kv) (hsafe : ∀ p ∈ kv, LineSafe p) (hstr : ∀ p ∈ kv, p.2.ty = "string") :
    flattenMap (fromReader parseSimple (encoderFn kv)) = kv :=
  fromReader_flatten parseSimple _ kv (loads_parseSimple_encoderFn hs hsafe hstr) hs hk hpf

/-- … and for every order in which the encoder may have written the lines. -/
theorem decode_encode_rel (kv : AMap Scalar) (out : String) (hr : EncodeRel kv out)
    (hs : AMap.Sorted kv) (hk : ∀ p ∈ kv, KeyOk p.1)
    (hpf : PrefixFree kv) (hsafe : ∀ p ∈ kv, LineSafe p) (hstr : ∀ p ∈ kv, p.2.ty = "string") :
    flattenMap (fromReader parseSimple out) = kv := by
  obtain ⟨l, hl, rfl⟩ := hr
  exact fromReader_flatten parseSimple _ kv (loads_parseSimple_encodeList hl hs hsafe hstr) hs hk hpf

/-! ## independence of the visiting order -/

/-- On prefix-free key sets the result of Unflatten does not depend on the order in which the
    keys are visited (so the pre-fix code was already deterministic there). -/
theorem unflatten_order_indep (kv : AMap Scalar) (hs : AMap.Sorted kv) (hpf : PrefixFree kv)
    (out : AMap Val) (h : UnflattenRel (toV kv) out) : out = unflatten (toV kv) := by
  refine unflattenRel_unique (toV kv) (sorted_toV hs) ?_ ?_ out h
  · intro p hp
    simp only [toV, List.mem_map] at hp
    obtain ⟨a, _, rfl⟩ := hp
    exact .sc _
  · intro p hp q hq hne
    simp only [toV, List.mem_map] at hp hq
    obtain ⟨a, ha, rfl⟩ := hp
    obtain ⟨b, hb, rfl⟩ := hq
    exact hpf a ha b hb hne

theorem fromProperties_order_indep (kv : AMap Scalar) (hs : AMap.Sorted kv) (hk : ∀ p ∈ kv, KeyOk p.1)
    (hpf : PrefixFree kv) (out : AMap Node) (h : FromPropertiesRel kv out) : out = fromProperties kv :=
  fromPropertiesRel_unique hs hpf (keysNoSuffix_of_keyOk hk) out h

/-- Decoding the same pairs gives the same document whatever the order of the lines and
    WHATEVER the keys (conflicting ones included): the model of DecoderFn sorts before it
    unflattens. -/
theorem decode_line_order_indep (kv : AMap Scalar) (l : List (String × Scalar)) (hl : l.Perm kv)
    (hs : AMap.Sorted kv) (hsafe : ∀ p ∈ kv, LineSafe p) (hstr : ∀ p ∈ kv, p.2.ty = "string") :
    fromReader parseSimple (encodeList l) = fromReader parseSimple (encoderFn kv) :=
  fromReader_line_order hl hs hsafe hstr

/-- FromReader ∘ DecoderFn and FromProperties build the same document from the same pairs. -/
theorem fromReader_eq_fromProperties (load : String → List (String × String)) (text : String)
    (kv : AMap Scalar) (hl : Loads load text kv) (hk : ∀ p ∈ kv, KeyOk p.1) :
    fromReader load text = fromProperties kv :=
  Props.fromReader_eq_fromProperties load text kv hl (keysNoSuffix_of_keyOk hk)

/-! ## non-vacuity: exactness on a concrete prefix-free map -/

def exKv : AMap Val :=
  [("a.b", strVal "1"), ("a.c.d", strVal "x"), ("k1", strVal ""), ("x-y.z_9", strVal "true")]
def exKvS : AMap Scalar :=
  [("a.b", ⟨"string", "1"⟩), ("a.c.d", ⟨"string", "x"⟩), ("k1", ⟨"string", ""⟩), ("x-y.z_9", ⟨"string", "true"⟩)]

/-- the hypotheses of the exactness theorems are satisfiable: `exKvS` is sorted, prefix-free,
    has path-safe keys, line-safe string entries, and `toV exKvS = exKv` -/
theorem nonvacuous_hypotheses :
    (∀ p ∈ exKvS, KeyOk p.1) ∧ PrefixFree exKvS ∧ (∀ p ∈ exKvS, p.2.ty = "string") ∧ toV exKvS = exKv := by
  refine ⟨?_, ?_, by decide, by decide⟩
  · intro p hp s hs; revert s hs; revert p hp; decide
  · intro p hp q hq; revert q hq; revert p hp; decide

theorem nonvacuous_sorted_linesafe : AMap.Sorted exKvS ∧ (∀ p ∈ exKvS, LineSafe p) := by
  refine ⟨?_, ?_⟩
  case refine_2 =>
    show ∀ p ∈ exKvS, ('=' ∉ p.1.toList ∧ '\n' ∉ p.1.toList ∧ '\n' ∉ p.2.text.toList)
    decide
  have h : AMap.ofList exKvS = exKvS := by decide +kernel
  rw [← h]; exact AMap.sorted_ofList _

theorem nonvacuous_unflatten_flatten : flattenPlainMap (unflatten exKv) = exKvS := by decide +kernel

theorem nonvacuous_fromProperties_flatten : flattenMap (fromProperties exKvS) = exKvS := by decide +kernel

theorem nonvacuous_fromMap_unflatten : fromMap (unflatten exKv) = fromProperties exKvS := by decide +kernel

theorem nonvacuous_encode_parse :
    parseSimple (encoderFn exKvS) = [("a.b", "1"), ("a.c.d", "x"), ("k1", ""), ("x-y.z_9", "true")] := by
  decide

theorem nonvacuous_order_indep :
    unflattenList exKv.reverse = unflatten exKv ∧ fromPropertiesList exKvS.reverse = fromProperties exKvS := by
  decide +kernel

/-! ## round 7: the DOM encoder round trip, and decoding independent of the order of the loaded pairs -/

/-- DecoderFn(DomEncoderFn(c)) == the leaves of c: a container whose children are exactly the leaves of the
    flat map `kv` (sorted, path-safe prefix-free keys, line-safe string values) is written by the DOM encoder
    without failure, as the very text EncoderFn writes for `kv`, and reading that text back (reference parser)
    and flattening the document gives back `kv`. -/
theorem decode_domEncode (kv : AMap Scalar) (hs : AMap.Sorted kv) (hk : ∀ p ∈ kv, KeyOk p.1)
    (hpf : PrefixFree kv) (hsafe : ∀ p ∈ kv, LineSafe p) (hstr : ∀ p ∈ kv, p.2.ty = "string") :
    domEncoderFn (kv.map fun p => (p.1, Node.leaf p.2)) = .ok (encoderFn kv) ∧
    flattenMap (fromReader parseSimple (encoderFn kv)) = kv :=
  ⟨domEncoder_leaves kv, decode_encode kv hs hk hpf hsafe hstr⟩

/-- … on the concrete map `exKvS` (its hypotheses: `nonvacuous_hypotheses`, `nonvacuous_sorted_linesafe`):
    the DOM encoder writes four lines and the decoded, flattened document is `exKvS` again -/
theorem nonvacuous_decode_domEncode :
    domEncoderFn (exKvS.map fun p => (p.1, Node.leaf p.2)) = .ok "a.b=1\na.c.d=x\nk1=\nx-y.z_9=true\n" ∧
    flattenMap (fromReader parseSimple "a.b=1\na.c.d=x\nk1=\nx-y.z_9=true\n") = exKvS := by
  decide +kernel

/-- Decoding does not depend on the order in which the loader (or Go's `Map()` iteration) yields the pairs,
    for ALL key sets, conflicting ones included: two loaders / texts whose pair lists are permutations of
    each other, with pairwise distinct keys, decode to the same document.  (Replaces the content-free
    `decode_deterministic`; with duplicate keys the later pair wins, so the order of the duplicates matters.) -/
theorem fromReader_perm (load₁ load₂ : String → List (String × String)) (t₁ t₂ : String)
    (hp : (load₁ t₁).Perm (load₂ t₂)) (hn : ((load₁ t₁).map (·.1)).Nodup) :
    fromReader load₁ t₁ = fromReader load₂ t₂ :=
  Props.fromReader_perm load₁ load₂ t₁ t₂ hp hn

/-- the underlying fact: `Map()` (`AMap.ofList`, a later duplicate wins) is order-independent on lists with
    pairwise distinct keys -/
theorem ofList_perm {α : Type} (L₁ L₂ : List (String × α)) (hp : L₁.Perm L₂)
    (hn : (L₁.map (·.1)).Nodup) : AMap.ofList L₁ = AMap.ofList L₂ :=
  Props.ofList_perm hp hn

/-- … on the CONFLICTING key set {a=1, a.b=2} given as two texts with the lines in opposite orders: the
    parsed pair lists are permutations with distinct keys, and both texts decode to `{a: {b: "2"}}` -/
theorem nonvacuous_fromReader_perm :
    (parseSimple "a=1\na.b=2\n").Perm (parseSimple "a.b=2\na=1\n") ∧
    ((parseSimple "a=1\na.b=2\n").map (·.1)).Nodup ∧
    parseSimple "a=1\na.b=2\n" ≠ parseSimple "a.b=2\na=1\n" ∧
    fromReader parseSimple "a=1\na.b=2\n" = fromReader parseSimple "a.b=2\na=1\n" ∧
    fromReader parseSimple "a.b=2\na=1\n" = [("a", .cont [("b", .leaf ⟨"string", "2"⟩)])] := by
  have h1 : parseSimple "a=1\na.b=2\n" = [("a", "1"), ("a.b", "2")] := by decide
  have h2 : parseSimple "a.b=2\na=1\n" = [("a.b", "2"), ("a", "1")] := by decide
  refine ⟨?_, ?_, ?_, ?_, ?_⟩
  · rw [h1, h2]; exact List.Perm.swap ..
  · rw [h1]; decide
  · rw [h1, h2]; decide
  · decide +kernel
  · decide +kernel

/-- the distinct-keys hypothesis is needed: with a duplicate key the later pair wins, so two permutations of
    the same pairs decode differently -/
theorem fromReader_perm_dup_counterexample :
    (parseSimple "a=1\na=2\n").Perm (parseSimple "a=2\na=1\n") ∧
    fromReader parseSimple "a=1\na=2\n" ≠ fromReader parseSimple "a=2\na=1\n" := by
  have h1 : parseSimple "a=1\na=2\n" = [("a", "1"), ("a", "2")] := by decide
  have h2 : parseSimple "a=2\na=1\n" = [("a", "2"), ("a", "1")] := by decide
  refine ⟨?_, by decide +kernel⟩
  rw [h1, h2]; exact List.Perm.swap ..

end Ytk.C16
