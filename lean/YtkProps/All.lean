import YtkProps.C01
import YtkProps.C02
import YtkProps.C03
import YtkProps.C04
import YtkProps.C05
import YtkProps.C06
import YtkProps.C07
import YtkProps.C08
import YtkProps.C09
import YtkProps.C10
import YtkProps.C11
import YtkProps.C12
import YtkProps.C13
import YtkProps.C14
import YtkProps.C15
import YtkProps.C16
import YtkProps.C17
import YtkProps.C18
import YtkProps.C19
import YtkProps.C20

/-- Coherence of the whole framework: this file imports all 20 property modules `YtkProps.C01` …
    `YtkProps.C20`, so ONE environment holds every property theorem together with everything the
    proofs depend on. That it builds shows that no two declarations of the model or of the proof
    files clash (same name, different body). `lake env leanchecker --fresh YtkProps.All` replays
    every declaration of that environment (core included) through the kernel in one go, about 4
    minutes; without `--fresh`, `leanchecker YtkProps.All` only loads the imports and replays this
    one theorem — use `lake env leanchecker YtkModel YtkProofs YtkProps` for a per-module replay. -/
theorem Ytk.all_properties_cohere : True := trivial
