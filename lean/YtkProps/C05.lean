/-
  C05 — Equality is structural; clones are equal, same-kind and independent.

  `Node.Valid` = every container has strictly sorted (unique) keys, none ending in an index
  group: exactly the nodes constructible through the public API (DESIGN.md section 2, D26).
  In the sorted representation two nodes have "the same kind and the same content" iff
  they are equal as terms, so the property reads `equals x y = true ↔ x = y`.
  "The two share no state" is stated and proved on the heap-level model (section "Pointer
  level" below: `heap_clone_prefix`, `heap_clone_fresh`, `heap_clone_abs`,
  `heap_clone_independent…`) and tied to the code by the sharing-map correspondence of
  harness/heap_share.go.
-/
import YtkProofs.Equal
import YtkProofs.Heap
import YtkProofs.GapEqualPlain
import YtkProofs.FuncsDomEquals

namespace Ytk.C05

/-- Equals holds exactly when the two nodes have the same kind and the same content. -/
theorem equals_iff (x y : Node) (hx : x.Valid) (hy : y.Valid) : equals x y = true ↔ x = y :=
  equals_iff_eq hx hy

theorem equals_refl (x : Node) (hx : x.Valid) : equals x x = true := Ytk.equals_refl x hx

theorem equals_symm (x y : Node) (hx : x.Valid) (hy : y.Valid) : equals x y = equals y x := by
  cases h : equals x y with
  | true =>
    have e := (equals_iff x y hx hy).mp h
    subst e; exact h.symm
  | false =>
    cases h' : equals y x with
    | false => rfl
    | true =>
      have e := (equals_iff y x hy hx).mp h'
      subst e; rw [h] at h'; cases h'

theorem equals_trans (x y z : Node) (hx : x.Valid) (hy : y.Valid) (hz : z.Valid)
    (h1 : equals x y = true) (h2 : equals y z = true) : equals x z = true := by
  have e1 := (equals_iff x y hx hy).mp h1
  have e2 := (equals_iff y z hy hz).mp h2
  subst e1; subst e2; exact h1

/-- `x.Equals(nil)` is false. -/
theorem equals_nil (x : Node) : equalsNil x = false := rfl

/-- SameAs is kind equality. -/
theorem sameAs_iff_kind (x y : Node) : sameAs x y = true ↔ x.kind = y.kind := by
  simp [sameAs]

/-- A clone has the same content as (in the value model: is) its original … -/
theorem clone_eq (x : Node) : clone x = x := clone_id x

/-- … hence equals it both ways and is of the same kind. -/
theorem clone_equals (x : Node) (hx : x.Valid) : equals (clone x) x = true ∧ equals x (clone x) = true := by
  rw [clone_id]; exact ⟨Ytk.equals_refl x hx, Ytk.equals_refl x hx⟩

theorem clone_sameAs (x : Node) : sameAs (clone x) x = true := by
  rw [clone_id]; simp [sameAs]

/-- different kinds are never equal -/
theorem equals_kind (x y : Node) (h : equals x y = true) : x.kind = y.kind := by
  cases x <;> cases y <;> simp_all [equals, Node.kind]

/-- Non-vacuity: a concrete nested document is `Valid`, and the asymmetric pair that the
    pinned tree got wrong (`{a:1}` vs `{a:1,b:2}`) is decided `false` in both directions. -/
def exDoc : Node := .cont [("a", .leaf ⟨"int", "1"⟩), ("b", .list [.cont [("x", .leaf Scalar.null)], .leaf ⟨"string", "s"⟩])]
def exSmall : Node := .cont [("a", .leaf ⟨"int", "1"⟩)]
def exBig : Node := .cont [("a", .leaf ⟨"int", "1"⟩), ("b", .leaf ⟨"int", "2"⟩)]

theorem nonvacuous_subset_pair : equals exSmall exBig = false ∧ equals exBig exSmall = false := by
  decide

theorem nonvacuous_refl : equals exDoc exDoc = true := by decide

/-! ## Pointer level: Clone on the heap model (YtkModel/Heap.lean)

  A document is a root address in a heap of cells; allocation appends, so "new" means
  `address ≥ old size` and "no existing object was written" means "the old heap is a prefix".
  What the code shares between a clone and its original: NOTHING — `leaf.Clone` allocates a new
  leaf even for the shared nil leaf, so not even immutable leaves are common. -/

section heap
open Ytk.Heap

/-- On a closed (every stored address in range) and acyclic (ranked) heap, Clone of any root
    succeeds with any fuel above the root's rank; the clone's abstraction is the value-level
    `clone` of the original's abstraction (= the same document) and the original root still
    abstracts to what it did. -/
theorem heap_clone_abs (h : Heap) (hc : h.Closed) (rank : Addr → Nat) (hr : h.RankedBy rank)
    (a : Addr) (ha : a < h.size) (f : Nat) (hf : rank a < f) :
    ∃ n h' r, absH f h a = some n ∧ cloneF f h a = some (h', r) ∧
      absH f h' r = some (Ytk.clone n) ∧ absH f h' a = some n := by
  obtain ⟨d, rfl⟩ : ∃ d, f = d + 1 := ⟨f - 1, by omega⟩
  obtain ⟨n, hn⟩ := absH_of_ranked hc hr d a (Nat.le_of_lt_succ hf) ha
  obtain ⟨h', r, hcl, hab⟩ := cloneF_abs (d + 1) h a n hn
  refine ⟨n, h', r, hn, hcl, ?_, ?_⟩
  · rw [clone_id]; exact hab
  · exact absH_mono (cloneF_spec (d + 1) h a h' r hcl).1 (d + 1) a n hn

/-- The same for any root whose abstraction is defined (only the part of the heap below the
    root has to be closed and acyclic). -/
theorem heap_clone_abs_of_defined (f : Nat) (h : Heap) (a : Addr) (n : Node)
    (hn : absH f h a = some n) :
    ∃ h' r, cloneF f h a = some (h', r) ∧ absH f h' r = some (Ytk.clone n) ∧
      absH f h' a = some n := by
  obtain ⟨h', r, hcl, hab⟩ := cloneF_abs f h a n hn
  refine ⟨h', r, hcl, ?_, absH_mono (cloneF_spec f h a h' r hcl).1 f a n hn⟩
  rw [clone_id]; exact hab

/-- The driver's entry points (`clone`, `abs`: fuel = heap size): on every closed acyclic heap
    Clone of any in-range root succeeds, the clone abstracts to the original's document and the
    original still does. -/
theorem heap_clone_total (h : Heap) (hc : h.Closed) (ha : h.Acyclic) (a : Addr) (hlt : a < h.size) :
    ∃ n h' r, abs h a = some n ∧ Ytk.Heap.clone h a = some (h', r) ∧
      abs h' r = some (Ytk.clone n) ∧ abs h' a = some n := by
  obtain ⟨n, hn⟩ := abs_defined hc ha hlt
  obtain ⟨h', r, hcl, hr, hor⟩ := heap_clone_abs_of_defined h.size h a n hn
  have hsz := Heap.size_le_of_le (cloneF_spec h.size h a h' r hcl).1
  exact ⟨n, h', r, hn, hcl, absH_fuel_le hsz hr, absH_fuel_le hsz hor⟩

/-- Cloning never writes an existing cell: the old heap is a prefix of the new one, cell for cell. -/
theorem heap_clone_prefix (f : Nat) (h h' : Heap) (a r : Addr) (hc : cloneF f h a = some (h', r)) :
    h ≤ h' ∧ ∀ b, b < h.size → h'.get? b = h.get? b :=
  ⟨(cloneF_spec f h a h' r hc).1, fun _ hb => Heap.get?_eq_of_le (cloneF_spec f h a h' r hc).1 hb⟩

/-- EVERY cell reachable from the clone root — containers, lists and also leaves, the nil leaf
    included — was allocated by the Clone call (address ≥ old size, < new size): a clone shares
    no object at all with anything that existed before. -/
theorem heap_clone_fresh (f : Nat) (h h' : Heap) (a r : Addr) (hc : cloneF f h a = some (h', r)) :
    ∀ b, Reach h' r b → h.size ≤ b ∧ b < h'.size := by
  obtain ⟨_, h1, h2, _⟩ := cloneF_spec f h a h' r hc
  intro b hb
  exact (cloneF_region hc).reach hb h1 h2

/-- … in particular for the executable `reach`, and the shared nil leaf is not among them. -/
theorem heap_clone_fresh_reach (f : Nat) (h h' : Heap) (a r : Addr) (hc : cloneF f h a = some (h', r)) :
    (∀ b ∈ reach h' r, h.size ≤ b) ∧ (0 < h.size → nilAddr ∉ reach h' r) := by
  have hall : ∀ b ∈ reach h' r, h.size ≤ b := fun b hb =>
    (heap_clone_fresh f h h' a r hc b (mem_reachF _ _ _ hb)).1
  refine ⟨hall, fun hpos hmem => ?_⟩
  have := hall _ hmem
  exact absurd hpos (Nat.not_lt.mpr this)

/-- FRAME: an in-place write at `a` only changes the abstraction of roots that reach `a`. -/
theorem heap_write_frame (h : Heap) (r a : Addr) (c : Cell) (hnr : ¬ Reach h r a) (f : Nat) :
    absH f (h.write a c) r = absH f h r :=
  absH_write_frame c hnr f

/-- Independence, clone side: any sequence of in-place writes to cells allocated by or after the
    Clone call (the clone's own cells are such, `heap_clone_fresh`) and of allocations leaves the
    abstraction of EVERY root of the old heap unchanged — and every old cell as it was. -/
theorem heap_clone_independent (f : Nat) (h h1 h2 : Heap) (a r : Addr)
    (hc : cloneF f h a = some (h1, r))
    (hw : Writes (fun _ b => h.size ≤ b) h1 h2) :
    h ≤ h2 ∧ ∀ (g : Nat) (x : Addr) (n : Node), absH g h x = some n → absH g h2 x = some n := by
  have hl := hw.le_of_fresh (cloneF_spec f h a h1 r hc).1
  exact ⟨hl, fun g x n hn => absH_mono hl g x n hn⟩

/-- Independence, original side: any sequence of in-place writes to cells that are NOT the
    clone's (old cells, or cells allocated after the Clone call) and of allocations leaves the
    clone's abstraction unchanged. -/
theorem heap_clone_independent_symm (f : Nat) (h h1 h2 : Heap) (a r : Addr)
    (hc : cloneF f h a = some (h1, r))
    (hw : Writes (fun _ b => b < h.size ∨ h1.size ≤ b) h1 h2) :
    ∀ (g : Nat) (n : Node), absH g h1 r = some n → absH g h2 r = some n := by
  obtain ⟨_, b1, b2, _⟩ := cloneF_spec f h a h1 r hc
  intro g n hn
  exact (hw.region_frame (cloneF_region hc) (Nat.le_refl _)).2 g r n b1 b2 hn

/-- The same two statements for literal builder histories: `ops` is any list of calls of
    AddValue / AddContainer / AddList / Remove / Set / Append / Clear (`Op`, `applyOps`).
    (i) calls on cells of the clone (or created later) never change any document of the old heap;
    (ii) calls on cells of the original (or created later) never change the clone. -/
theorem heap_clone_independent_ops (f : Nat) (h h1 h2 : Heap) (a r : Addr) (ops : List Op)
    (hc : cloneF f h a = some (h1, r)) (he : applyOps h1 ops = some h2) :
    ((∀ op ∈ ops, h.size ≤ op.target) →
      ∀ (g : Nat) (x : Addr) (n : Node), absH g h x = some n → absH g h2 x = some n) ∧
    ((∀ op ∈ ops, op.target < h.size ∨ h1.size ≤ op.target) →
      ∀ (g : Nat) (n : Node), absH g h1 r = some n → absH g h2 r = some n) :=
  ⟨fun hq => (heap_clone_independent f h h1 h2 a r hc (applyOps_writes hq he)).2,
   fun hq => heap_clone_independent_symm f h h1 h2 a r hc (applyOps_writes hq he)⟩

/-- The general form: writes that avoid what a root reaches (at the time of each write) leave
    that root's abstraction alone. -/
theorem heap_writes_frame (r : Addr) (h h' : Heap)
    (hw : Writes (fun g a => ¬ Reach g r a) h h') (f : Nat) (n : Node)
    (hn : absH f h r = some n) : absH f h' r = some n :=
  hw.absH_frame hn

/-- The builder mutators are such writes: each writes exactly the cell it is called on
    (AddContainer / AddList also allocate the new child). -/
theorem heap_builder_writes (Q : Addr → Prop) (h h' : Heap) (c : Addr) (hq : Q c) :
    (∀ name v, addValue h c name v = some h' → Writes (fun _ a => Q a) h h') ∧
    (∀ name, Ytk.Heap.remove h c name = some h' → Writes (fun _ a => Q a) h h') ∧
    (∀ name b, addContainer h c name = some (h', b) → Writes (fun _ a => Q a) h h') ∧
    (∀ name b, addList h c name = some (h', b) → Writes (fun _ a => Q a) h h') ∧
    (∀ idx v, Ytk.Heap.listSet h c idx v = some h' → Writes (fun _ a => Q a) h h') ∧
    (∀ v, Ytk.Heap.listAppend h c v = some h' → Writes (fun _ a => Q a) h h') ∧
    (listClear h c = some h' → Writes (fun _ a => Q a) h h') :=
  ⟨fun _ _ he => addValue_writes hq he, fun _ he => remove_writes hq he,
   fun _ _ he => addContainer_writes hq he, fun _ _ he => addList_writes hq he,
   fun _ _ he => listSet_writes hq he, fun _ he => listAppend_writes hq he,
   fun he => listClear_writes hq he⟩

/-! ### Non-vacuity on a concrete heap

  `exHeap`: 0 nilLeaf · 1 leaf 1 · 2 list [nilLeaf, #1, #1] · 3 {x: nilLeaf} ·
  4 {a: #1, b: #2, c: #3, n: nilLeaf} — a DAG (leaf #1 and the nil leaf occur several times). -/
def exHeap : Heap := ⟨[.leaf Scalar.null, .leaf ⟨"int", "1"⟩, .list [0, 1, 1], .cont [("x", 0)],
  .cont [("a", 1), ("b", 2), ("c", 3), ("n", 0)]]⟩

def exRank : Addr → Nat | 4 => 2 | 3 => 1 | 2 => 1 | _ => 0

theorem nonvacuous_heap_wf : exHeap.Closed ∧ exHeap.RankedBy exRank ∧ exHeap.NilOk :=
  ⟨closed_of_all (by decide), rankedBy_of_all (by decide), rfl⟩

/-- the clone of root 4 occupies the nine new cells 5‥13 (every leaf occurrence its own cell),
    abstracts to the same document, and the old cells are untouched -/
theorem nonvacuous_heap_clone :
    (Ytk.Heap.clone exHeap 4).map (fun p => (p.1.size, p.2)) = some (14, 13) ∧
    (Ytk.Heap.clone exHeap 4).bind (fun p => abs p.1 p.2) = abs exHeap 4 ∧
    (abs exHeap 4).isSome = true ∧
    (Ytk.Heap.clone exHeap 4).map (fun p => p.1.cells.take 5) = some exHeap.cells ∧
    (Ytk.Heap.clone exHeap 4).map (fun p => (reach p.1 p.2).all (fun b => decide (5 ≤ b))) = some true := by
  decide

/-- writing into the clone (AddValue on the clone root 13, Clear on its list 9) does not show in
    the original, and writing into the original does not show in the clone -/
theorem nonvacuous_heap_independent :
    ((Ytk.Heap.clone exHeap 4).bind fun p => (addValue p.1 13 "z" 1).bind fun h2 =>
      (listClear h2 9).bind fun h3 => abs h3 4) = abs exHeap 4 ∧
    ((Ytk.Heap.clone exHeap 4).bind fun p => (Ytk.Heap.remove p.1 4 "a").bind fun h2 =>
      (Ytk.Heap.listAppend h2 2 0).bind fun h3 => abs h3 13) = abs exHeap 4 := by
  decide

/-- the same through `applyOps`: a builder history on the clone's cells (13 root, 9 list, 11
    nested container), then one on the original's -/
theorem nonvacuous_heap_ops :
    ((Ytk.Heap.clone exHeap 4).bind fun p =>
      (applyOps p.1 [.addLeaf 13 "z" ⟨"int", "7"⟩, .listClear 9, .addContainer 11 "k", .remove 13 "a",
        .listSetLeaf 9 2 ⟨"int", "8"⟩]).bind fun h2 => abs h2 4) = abs exHeap 4 ∧
    ((Ytk.Heap.clone exHeap 4).bind fun p =>
      (applyOps p.1 [.remove 4 "b", .listAppend 2 13, .addList 3 "l", .listClear 2]).bind fun h2 =>
        abs h2 13) = abs exHeap 4 := by
  decide

end heap

end Ytk.C05

/-! ## gap7a: Equals against the plain values (the clause as the quantifier text writes it) -/
namespace Ytk.C05

/-- `x.Equals(y) <=> deepEqual(plain(x), plain(y)) && kind(x) == kind(y)` with `plain` = C01's
    `encodeNode` (AsMap / AsSlice / leaf value): on nodes constructible through the API, Equals holds
    exactly when the plain values are equal — and equal plain values already force equal kinds
    (a Go map is never deep-equal to a slice or a scalar), so the kind conjunct is implied. -/
theorem equals_iff_plain (x y : Node) (hx : x.Valid) (hy : y.Valid) :
    equals x y = true ↔ encodeNode x = encodeNode y ∧ x.kind = y.kind := by
  rw [equals_iff x y hx hy]
  constructor
  · intro h; subst h; exact ⟨rfl, rfl⟩
  · intro h; exact encodeNode_inj x y h.1

/-- … the kind conjunct is redundant (for ALL nodes, valid or not) -/
theorem plain_eq_same_kind (x y : Node) (h : encodeNode x = encodeNode y) : x.kind = y.kind :=
  kind_of_encode_eq x y h

/-- Equals is false across kinds even when both sides are "empty": `{}` vs `[]` vs null. -/
theorem nonvacuous_equals_iff_plain :
    equals (.cont []) (.list []) = false ∧ encodeNode (.cont []) ≠ encodeNode (.list []) ∧
    equals (.list []) Node.null = false ∧ equals exDoc exDoc = true ∧ encodeNode exDoc = encodeNode exDoc := by
  decide

end Ytk.C05

/-! ## xlate7d: the REGENERATED translation of `Equals` / `Clone` (dom/leaf.go, dom/list.go, dom/container.go)

  `FuncsDom.leafEquals / listEquals / containerEquals / leafClone / listClone / containerClone` are rewritten from
  the Go method bodies on every run (extract/translate_dom.go); `FuncsDom.Equals` / `FuncsDom.Clone` are the
  dynamic dispatch of the interface calls `v.Equals(o)` / `v.Clone()` over EVERY implementation of `dom.Node`
  found in the package (extract/translate_dispatch.go).  The theorems below say: for all inputs the translation
  equals the hand-written `equals` / `clone` that every theorem above is about. -/
namespace Ytk.C05
open Ytk.Generated

/-- `x.Equals(y)` through the interface, for ALL nodes `x`, `y` (no validity hypothesis) and for the nil argument -/
theorem Equals_generated_eq_model (x y : Node) :
    FuncsDom.Equals x (some y) = .ok (equals x y) ∧ FuncsDom.Equals x none = .ok (equalsNil x) :=
  ⟨FuncsDomEquals.Equals_generated_eq_model x (some y), FuncsDomEquals.Equals_generated_eq_model x none⟩

/-- `(*containerImpl).Equals` — also the method of `*containerBuilderImpl` (embedding; the generator checks it) -/
theorem containerEquals_generated_eq_model (c : List (String × Node)) (y : Node) :
    FuncsDom.containerEquals c (some y) = .ok (equals (.cont c) y) ∧ FuncsDom.containerEquals c none = .ok false :=
  ⟨FuncsDomEquals.containerEquals_generated_eq_model c (some y), FuncsDomEquals.containerEquals_generated_eq_model c none⟩

theorem listEquals_generated_eq_model (l : List Node) (y : Node) :
    FuncsDom.listEquals l (some y) = .ok (equals (.list l) y) ∧ FuncsDom.listEquals l none = .ok false :=
  ⟨FuncsDomEquals.listEquals_generated_eq_model l (some y), FuncsDomEquals.listEquals_generated_eq_model l none⟩

theorem leafEquals_generated_eq_model (s : Scalar) (y : Node) :
    FuncsDom.leafEquals s (some y) = .ok (equals (.leaf s) y) ∧ FuncsDom.leafEquals s none = .ok false :=
  ⟨FuncsDomEquals.leafEquals_eq s (some y), FuncsDomEquals.leafEquals_eq s none⟩

/-- the property's first sentence about the TRANSLATED code: on nodes constructible through the API the generated
    `Equals` returns true exactly for equal nodes, never panics, never runs out of fuel -/
theorem Equals_generated_iff (x y : Node) (hx : x.Valid) (hy : y.Valid) :
    FuncsDom.Equals x (some y) = .ok true ↔ x = y := by
  rw [(Equals_generated_eq_model x y).1]
  constructor
  · intro h; exact (equals_iff x y hx hy).mp (by injection h)
  · intro h; rw [(equals_iff x y hx hy).mpr h]

/-- `x.Clone()` through the interface, for every node in the model's representation of Go maps (`WF`: strictly
    sorted keys in every container — the translated loop REBUILDS the map key by key) -/
theorem Clone_generated_eq_model (x : Node) (h : x.WF) : FuncsDom.Clone x = .ok (clone x) :=
  FuncsDomEquals.Clone_generated_eq_model x h

theorem containerClone_generated_eq_model (c : List (String × Node)) (h : (Node.cont c).WF) :
    FuncsDom.containerClone c = .ok (clone (.cont c)) :=
  FuncsDomEquals.containerClone_generated_eq_model c h

theorem listClone_generated_eq_model (l : List Node) (h : (Node.list l).WF) :
    FuncsDom.listClone l = .ok (clone (.list l)) :=
  FuncsDomEquals.listClone_generated_eq_model l h

theorem leafClone_generated_eq_model (s : Scalar) : FuncsDom.leafClone s = .ok (clone (.leaf s)) := rfl

/-- … so the generated clone of a representable node IS the node (`clone_eq` for the translated code) -/
theorem Clone_generated_id (x : Node) (h : x.WF) : FuncsDom.Clone x = .ok x := by
  rw [Clone_generated_eq_model x h, clone_id]

/-- `WF` is needed, and only as a matter of representation: on an association list that is not a Go map (keys out of
    order) the translated loop `c2.children[k] = v.Clone()` yields the sorted map, the hand-written `clone` keeps the list -/
theorem Clone_generated_needs_wf_counterexample :
    FuncsDom.Clone (.cont [("b", Node.null), ("a", Node.null)]) = .ok (.cont [("a", Node.null), ("b", Node.null)]) ∧
    clone (.cont [("b", Node.null), ("a", Node.null)]) = .cont [("b", Node.null), ("a", Node.null)] := by
  decide

/-- the translated code RUN: nested containers and lists, a nil argument, a kind mismatch, a missing key -/
theorem nonvacuous_Equals_generated :
    FuncsDom.Equals exDoc (some exDoc) = .ok true ∧ FuncsDom.Equals exDoc none = .ok false ∧
    FuncsDom.Equals exDoc (some (.list [])) = .ok false ∧
    FuncsDom.Equals (.cont [("a", .leaf ⟨"int", "1"⟩)]) (some (.cont [("b", .leaf ⟨"int", "1"⟩)])) = .ok false ∧
    FuncsDom.Equals (.list [.leaf ⟨"int", "1"⟩, .leaf ⟨"int", "2"⟩]) (some (.list [.leaf ⟨"int", "1"⟩, .leaf ⟨"int", "3"⟩])) = .ok false ∧
    FuncsDom.Clone exDoc = .ok exDoc := by
  decide

end Ytk.C05

/-! ## xlate7d: `SameAs` of the three kinds and its method table, regenerated -/
namespace Ytk.C05
open Ytk.Generated

/-- `x.SameAs(y)` through the interface is the model's `sameAs` (kind equality); `false` for nil -/
theorem SameAs_generated_eq_model (x y : Node) :
    FuncsDom.SameAs x (some y) = .ok (sameAs x y) ∧ FuncsDom.SameAs x none = .ok false := by
  cases x <;> cases y <;> exact ⟨rfl, rfl⟩

end Ytk.C05
