/-
  C05 — Equality is structural; clones are equal, same-kind and independent.

  `Node.Valid` = every container has strictly sorted (unique) keys, none ending in an index
  group: exactly the nodes constructible through the public API (DESIGN.md section 2, D26).
  In the sorted representation two nodes have "the same kind and the same content" iff
  they are equal as terms, so the property reads `equals x y = true ↔ x = y`.
-/
import YtkProofs.Equal

namespace Ytk.C05

/-- Equals holds exactly when the two nodes have the same kind and the same content. -/
theorem equals_iff (x y : Node) (hx : x.Valid) (hy : y.Valid) : equals x y = true ↔ x = y :=
  equals_iff_eq hx hy

theorem equals_refl (x : Node) (hx : x.Valid) : equals x x = true := Ytk.equals_refl x hx

theorem equals_symm (x y : Node) (hx : x.Valid) (hy : y.Valid) : equals x y = equals y x := by
  cases h : equals x y with
  | true =>
    have e := (equals_iff x y hx hy).mp h
    subst e; exact h.symm
  | false =>
    cases h' : equals y x with
    | false => rfl
    | true =>
      have e := (equals_iff y x hy hx).mp h'
      subst e; rw [h] at h'; cases h'

theorem equals_trans (x y z : Node) (hx : x.Valid) (hy : y.Valid) (hz : z.Valid)
    (h1 : equals x y = true) (h2 : equals y z = true) : equals x z = true := by
  have e1 := (equals_iff x y hx hy).mp h1
  have e2 := (equals_iff y z hy hz).mp h2
  subst e1; subst e2; exact h1

/-- `x.Equals(nil)` is false. -/
theorem equals_nil (x : Node) : equalsNil x = false := rfl

/-- SameAs is kind equality. -/
theorem sameAs_iff_kind (x y : Node) : sameAs x y = true ↔ x.kind = y.kind := by
  simp [sameAs]

/-- A clone has the same content as (in the value model: is) its original … -/
theorem clone_eq (x : Node) : clone x = x := clone_id x

/-- … hence equals it both ways and is of the same kind. -/
theorem clone_equals (x : Node) (hx : x.Valid) : equals (clone x) x = true ∧ equals x (clone x) = true := by
  rw [clone_id]; exact ⟨Ytk.equals_refl x hx, Ytk.equals_refl x hx⟩

theorem clone_sameAs (x : Node) : sameAs (clone x) x = true := by
  rw [clone_id]; simp [sameAs]

/-- different kinds are never equal -/
theorem equals_kind (x y : Node) (h : equals x y = true) : x.kind = y.kind := by
  cases x <;> cases y <;> simp_all [equals, Node.kind]

/-- Non-vacuity: a concrete nested document is `Valid`, and the asymmetric pair that the
    pinned tree got wrong (`{a:1}` vs `{a:1,b:2}`) is decided `false` in both directions. -/
def exDoc : Node := .cont [("a", .leaf ⟨"int", "1"⟩), ("b", .list [.cont [("x", .leaf Scalar.null)], .leaf ⟨"string", "s"⟩])]
def exSmall : Node := .cont [("a", .leaf ⟨"int", "1"⟩)]
def exBig : Node := .cont [("a", .leaf ⟨"int", "1"⟩), ("b", .leaf ⟨"int", "2"⟩)]

theorem nonvacuous_subset_pair : equals exSmall exBig = false ∧ equals exBig exSmall = false := by
  decide

theorem nonvacuous_refl : equals exDoc exDoc = true := by decide

end Ytk.C05
