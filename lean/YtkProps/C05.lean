import YtkModel.Equal
namespace Ytk.C05
theorem sameAs_iff_kind (x y : Node) : sameAs x y = true ↔ x.kind = y.kind := by
  simp [sameAs]
end Ytk.C05
