import YtkModel.Pipeline
namespace Ytk.C12
end Ytk.C12
