/-
  C12 — pipeline control flow: operations then ordered children, conditions, fail-fast,
  properly nested listener notifications.

  All statements are about `Ytk.Pipeline.run` / `exec` (lean/YtkModel/Pipeline.lean), the interpreter the
  driver executes.  `exec fuel a st` = Executor.Execute(ActionSpec a) on state `st`; running out of fuel is
  an ordinary error (`Err.fuel`), so none of the trace theorems needs a fuel hypothesis.
  Events: `before l` / `after l err` (Listener.OnBefore / OnAfter for EVERY Action the executor runs: the
  ActionSpec "act:name", its OpSpec "ops", its ChildActions "steps", each operation), `ran id` (ext trace
  action), `log msg` (OnLog), `test t r` (an EvalBool call).
-/
import YtkProofs.Pipeline
import YtkProofs.Decisions2
import YtkProofs.GapPipeline

namespace Ytk.C12

/-! ## decision tables regenerated from the source (extract/tables2.go) -/
section DecisionTables2
open Ytk.TableT Ytk.Pipeline

/-- (i) The statement sequence of exec.Execute and the phases of ActionSpec.Do, regenerated from
    pipeline/executor.go and pipeline/action_spec.go, are the model's; the model's `wrap` (Execute)
    equals the function DRIVEN BY the regenerated statement list — OnBefore, then what Do produced, then
    OnAfter carrying Do's error, that error returned — and `run (.doAct a)` (ActionSpec.Do) equals the
    fold over the regenerated phase list — per phase: condition, execute through the executor, stop at
    the first error — for all actions, states and fuel. -/
theorem execute_table_matches_model :
    Generated.executeSteps = executeStepsM ∧
    Generated.actionDoPhases = actionDoPhasesM ∧ Generated.actionDoPhaseSteps = actionDoPhaseStepsM ∧
    Generated.actionDoFinal = actionDoFinalM ∧
    (∀ l r, wrap l r = wrapBy Generated.executeSteps l r) ∧
    (∀ n a st, run (n + 1) (.doAct a) st = doActBy n a Generated.actionDoPhases st) := by
  have h1 : Generated.executeSteps = executeStepsM := by decide +kernel
  have h2 : Generated.actionDoPhases = actionDoPhasesM := by decide +kernel
  refine ⟨h1, h2, by decide +kernel, by decide +kernel, ?_, ?_⟩
  · intro l r; rw [h1]; exact wrap_eq_table l r
  · intro n a st; rw [h2]; exact doAct_eq_table n a st

/-- (ii) The rule of the property on the regenerated tables: a listener sees OnBefore, then the action
    runs, then OnAfter — each exactly once and in this order — the after-notification carries the error
    the action returned (`res0`), and that same error is what Execute returns; an action runs its own
    operations first and then its children; before EACH of the two the condition (if there is one) is
    evaluated — an evaluation error is returned, `false` ends the action with nil — the phase is run
    through the executor (so the listener sees it) and its error is returned before the next phase
    starts; after both phases nil is returned. -/
theorem execute_table_rule :
    Generated.executeSteps.idxOf "recv.l.OnBefore(v0)" < Generated.executeSteps.idxOf "res0=arg0.Do(v0)" ∧
    Generated.executeSteps.idxOf "res0=arg0.Do(v0)" < Generated.executeSteps.idxOf "recv.l.OnAfter(v0,res0)" ∧
    Generated.executeSteps.idxOf "recv.l.OnAfter(v0,res0)" < Generated.executeSteps.idxOf "return res0" ∧
    Generated.executeSteps.getLast? = some "return res0" ∧
    Generated.executeSteps.head? = some "v0:=recv.newCtx(arg0)" ∧
    Generated.executeSteps.length = 5 ∧ Generated.executeSteps.Nodup ∧
    Generated.actionDoPhases = ["recv.Operations", "recv.Children"] ∧
    Generated.actionDoPhaseSteps =
      ["if recv.When!=nil{if v0,v1:=arg0.TemplateEngine().EvalBool(*recv.When,arg0.Snapshot());v1!=nil{return v1}else if !v0{return nil}}",
       "v2:=arg0.Executor().Execute(phase)", "if v2!=nil{return v2}"] ∧
    Generated.actionDoFinal = ["return nil"] := by
  decide +kernel

/-- (iii) the tables are not empty; and the trace the regenerated statement list gives a concrete run
    is the well-nested one: before, the action's own events, after with its error -/
theorem nonvacuous_execute_tables :
    Generated.executeSteps ≠ [] ∧ Generated.actionDoPhases.length = 2 ∧ Generated.actionDoPhases.Nodup ∧
    Generated.actionDoPhaseSteps.length = 3 ∧
    (wrapBy Generated.executeSteps "a" ⟨[.ran "x"], ⟨[], []⟩, some .cond⟩).tr =
      [.before "a", .ran "x", .after "a" (some .cond)] ∧
    (wrapBy Generated.executeSteps "a" ⟨[.ran "x"], ⟨[], []⟩, some .cond⟩).err = some .cond := by
  decide +kernel

end DecisionTables2
open Ytk.Pipeline

/-! ### the regenerated table (decided by the kernel against what op_spec.go says now) -/

/-- no OpSpec field is listed twice -/
theorem opOrder_nodup : (Generated.opOrder.map (·.1)).Nodup := by decide

/-- every operation kind the model interprets is a field of OpSpec … -/
theorem opOrder_complete : ∀ k ∈ modelKinds, k ∈ Generated.opOrder.map (·.1) := by decide

/-- … of the operation type the model assumes (`Set` ↦ `SetOp`, …), and OpSpec.toList still enumerates by
    reflect.VisibleFields, i.e. in this declared order -/
theorem opOrder_types : (∀ k ∈ modelKinds, (k, k ++ "Op") ∈ Generated.opOrder.map (fun e => (e.1, e.2.2))) ∧
    Generated.opEnumeration = "reflect.VisibleFields" := by decide

theorem kind_mem_modelKinds (o : Op) : o.kind ∈ modelKinds := by
  cases o <;> simp [Op.kind, modelKinds]

/-! ### shape: own operations in declared order, then children ascending, recursively -/

/-- Executing an action: `before a`, [condition], the OpSpec wrapper around the own operations,
    [condition again], the ChildActions wrapper around the children, `after a err`. -/
theorem exec_shape (n : Nat) (a : Action) (st : St) :
    exec (n + 2) a st =
      wrap a.label (guardWhen a.when_ st fun st =>
        (wrap "ops" (run n (.ops (opsOf a)) st)).andThen fun st =>
          guardWhen a.when_ st fun st => wrap "steps" (run n (.steps (sortActs a.children)) st)) := rfl

/-- without a condition: operations, then children -/
theorem exec_shape_uncond (n : Nat) (a : Action) (st : St) (hw : a.when_ = none) :
    exec (n + 2) a st =
      wrap a.label ((wrap "ops" (run n (.ops (opsOf a)) st)).andThen fun st =>
        wrap "steps" (run n (.steps (sortActs a.children)) st)) := by
  rw [exec_shape]; simp [guardWhen, hw]

/-- the operations run one after the other, each through Execute, stopping at the first error -/
theorem ops_shape (n : Nat) (o : Op) (os : List Op) (st : St) :
    run (n + 1) (.ops (o :: os)) st = (run n (.op o) st).andThen fun st => run n (.ops os) st := rfl

/-- the children run one after the other (recursively, each a full `exec`), stopping at the first error -/
theorem steps_shape (n : Nat) (a : Action) (as : List Action) (st : St) :
    run (n + 1) (.steps (a :: as)) st = (exec n a st).andThen fun st => run n (.steps as) st := rfl

/-- the own operations are executed in the DECLARED field order of OpSpec (regenerated table) … -/
theorem ops_declared_order (a : Action) :
    ((opsOf a).map Op.kind).Sublist (Generated.opOrder.map (·.1)) :=
  opsIn_kinds_sublist _ _

/-- … and every operation kind the action carries is executed -/
theorem ops_all_present (a : Action) (o : Op) (ho : o ∈ a.ops) : ∃ o' ∈ opsOf a, o'.kind = o.kind :=
  opsIn_complete _ _ o ho (opOrder_complete _ (kind_mem_modelKinds o))

/-- the children are executed in ascending order value, each exactly once -/
theorem children_ascending (a : Action) :
    (sortActs a.children).Pairwise (fun x y => x.order ≤ y.order) ∧ (sortActs a.children).Perm a.children :=
  ⟨sortActs_sorted _, sortActs_perm _⟩

/-! ### conditions -/

/-- An action whose condition evaluates to false runs neither its operations nor its children and
    changes nothing: the whole run is `before a`, the EvalBool call, `after a nil`. -/
theorem when_false (n : Nat) (a : Action) (st : St) (t : String) (hw : a.when_ = some t)
    (hf : evalBool t st.data = some false) :
    exec (n + 2) a st = ⟨[.before a.label, .test t (some false), .after a.label none], st, none⟩ := by
  rw [exec_shape]; simp [guardWhen, hw, hf, wrap]

/-- a condition that cannot be evaluated stops the run with an error, again without running anything -/
theorem when_error (n : Nat) (a : Action) (st : St) (t : String) (hw : a.when_ = some t)
    (hf : evalBool t st.data = none) :
    exec (n + 2) a st = ⟨[.before a.label, .test t none, .after a.label (some .cond)], st, some .cond⟩ := by
  rw [exec_shape]; simp [guardWhen, hw, hf, wrap]

/-! ### fail-fast -/

/-- If a run returns no error, no OnAfter carried one.  If it returns `e`, the trace is a prefix without
    any failing OnAfter followed ONLY by OnAfter notifications that all carry `e`: after the first failing
    operation nothing executes (no before / ran / log / test event), and its error is what is returned. -/
theorem fail_fast (n : Nat) (t : Task) (st : St) : FailFast (run n t st) := run_ind closed_FailFast n t st

theorem fail_fast_exec (n : Nat) (a : Action) (st : St) :
    ((exec n a st).err = none → Clean (exec n a st).tr) ∧
    (∀ e, (exec n a st).err = some e → FailTail e (exec n a st).tr) := fail_fast n (.act a) st

/-! ### nesting -/

/-- the listener's event sequence is a well-nested word: every `before l` is closed by exactly one
    `after l _`, pairs properly nested -/
theorem well_nested (n : Nat) (t : Task) (st : St) : WN (run n t st).tr :=
  run_ind closed_WN n t st

/-- … which an on-line stack check accepts -/
theorem well_nested_balanced (n : Nat) (a : Action) (st : St) : balanced [] (exec n a st).tr = true :=
  (well_nested n (.act a) st).balanced

/-- the OnAfter of an action carries the error the action returned (`wrap` is the only producer of
    before/after pairs, for every nested action alike) -/
theorem getLast?_cons_concat {α : Type} (a x : α) (l : List α) : (a :: (l ++ [x])).getLast? = some x := by
  rw [← List.cons_append, List.getLast?_concat]

theorem after_carries_error (l : String) (r : Res) :
    (wrap l r).tr.getLast? = some (.after l r.err) ∧ (wrap l r).err = r.err ∧ (wrap l r).tr.head? = some (.before l) := by
  simp [wrap, getLast?_cons_concat]

theorem exec_after_carries_error (n : Nat) (a : Action) (st : St) :
    (exec (n + 1) a st).tr.getLast? = some (.after a.label (exec (n + 1) a st).err) := by
  simp [exec, run, wrap, getLast?_cons_concat]

/-! ### independence of Go's map iteration order -/

/-- ChildActions is a Go map: whatever order its values come out in, with distinct order values the
    execution is the same. -/
theorem children_perm (n : Nat) (name : String) (order : Int) (w : Option String) (ops : List Op)
    (cs cs' : List Action) (h : cs.Perm cs') (hd : (cs.map Action.order).Nodup) (st : St) :
    exec n (.mk name order w ops cs) st = exec n (.mk name order w ops cs') st := by
  cases n with
  | zero => rfl
  | succ n =>
    cases n with
    | zero => rfl
    | succ n =>
      rw [exec_shape, exec_shape]
      simp only [Action.children, Action.when_, Action.label, Action.name, opsOf, Action.ops, sortActs_perm_eq h hd]

/-- the order of the `ops` list (which OpSpec field was filled first) is irrelevant as well: only the
    declared order counts — `opsOf` looks every kind up in the table's order -/
theorem opsOf_eq_table_lookup (a : Action) :
    opsOf a = Generated.opOrder.filterMap (fun e => a.ops.find? (fun o => o.kind == e.1)) := rfl

/-! ### non-vacuity -/

def exData : AMap Node := [("flagF", .leaf ⟨"bool", "false"⟩), ("flagT", .leaf ⟨"bool", "true"⟩)]

/-- root: abort listed before log (declared order: Log, then Abort); children listed as (order 2, order 1),
    the order-1 child has a false condition -/
def exProg : Action :=
  .mk "r" 0 (some "{{ .flagT }}") [.abort "A", .log "L-{{ .flagF }}"]
    [.mk "c2" 2 none [.ext "trace" "x" 0] [], .mk "c1" 1 (some "false") [.log "never"] []]

def exProgNoAbort : Action :=
  .mk "r" 0 (some "{{ .flagT }}") [.log "L-{{ .flagF }}"]
    [.mk "c2" 2 none [.ext "trace" "x" 0] [], .mk "c1" 1 (some "false") [.log "never"] []]

theorem nonvacuous_fail_fast :
    (exec 20 exProg ⟨exData, []⟩).err = some (.abort "A") ∧
    (exec 20 exProg ⟨exData, []⟩).tr =
      [.before "act:r", .test "{{ .flagT }}" (some true), .before "ops",
       .before "log:L-{{ .flagF }}", .log "L-false", .after "log:L-{{ .flagF }}" none,
       .before "abort:A", .after "abort:A" (some (.abort "A")), .after "ops" (some (.abort "A")),
       .after "act:r" (some (.abort "A"))] := by
  decide

theorem nonvacuous_order_and_when :
    (exec 20 exProgNoAbort ⟨exData, []⟩).err = none ∧
    (exec 20 exProgNoAbort ⟨exData, []⟩).tr =
      [.before "act:r", .test "{{ .flagT }}" (some true), .before "ops",
       .before "log:L-{{ .flagF }}", .log "L-false", .after "log:L-{{ .flagF }}" none, .after "ops" none,
       .test "{{ .flagT }}" (some true), .before "steps",
       .before "act:c1", .test "false" (some false), .after "act:c1" none,
       .before "act:c2", .before "ops", .before "ext:trace", .before "xact:trace:x", .ran "x",
       .after "xact:trace:x" none, .after "ext:trace" none, .after "ops" none, .before "steps", .after "steps" none,
       .after "act:c2" none, .after "steps" none, .after "act:r" none] := by
  decide

theorem nonvacuous_children_perm :
    ([Action.mk "c2" 2 none [] [], Action.mk "c1" 1 none [] []].map Action.order).Nodup ∧
    (sortActs [Action.mk "c2" 2 none [] [], Action.mk "c1" 1 none [] []]).map Action.name = ["c1", "c2"] := by
  decide

/-! ### round 8 (lean/CLAUSES_B.md, clauses C12.6 and C12.9) -/

/-- C12.6 at full strength: in the listener's event sequence EVERY before/after pair — the action's own,
    the `ops` / `steps` wrappers, every operation, every nested action at any depth — is closed by an
    `after` whose error is the error of what ran inside the pair: `none` iff no `after` inside carries an
    error, `some e` iff the inside is an error-free prefix followed only by `after _ (some e)` events
    (`WNE`, YtkProofs/GapPipeline.lean).  `well_nested` (`WN`) accepted ANY error in a nested `after`. -/
theorem well_nested_errors (n : Nat) (t : Task) (st : St) : WNE (run n t st).tr := run_wne n t st

theorem well_nested_errors_exec (n : Nat) (a : Action) (st : St) : WNE (exec n a st).tr :=
  run_wne n (.act a) st

/-- it refines `well_nested` -/
theorem well_nested_of_errors {tr : List Event} (h : WNE tr) : WN tr := h.wn

/-- one pair read off `WNE`: the error carried by the closing `after` against the events inside -/
theorem pair_error_consistent (l : String) (e : Option Err) (tr : List Event)
    (hc : e = none → Clean tr) (hf : ∀ x, e = some x → FailTail x tr) (h : WNE tr) :
    WNE (.before l :: tr ++ [.after l e]) := .wrap l e h hc hf

/-- a nested pair whose `after` claims success although an inner `after` failed is NOT such a word, nor
    is a pair that reports a different error than the one inside (both are `WN`) -/
theorem nonvacuous_well_nested_errors :
    WN [.before "a", .before "b", .after "b" (some .cond), .after "a" none] ∧
    ¬ Clean [Event.before "b", .after "b" (some .cond)] ∧
    ¬ FailTail (.abort "x") [Event.before "b", .after "b" (some .cond)] := by
  refine ⟨WN.wrap "a" none (tr := [.before "b", .after "b" (some .cond)])
      (WN.wrap "b" (some .cond) (tr := []) .nil), ?_, ?_⟩
  · intro h
    have := h (.after "b" (some .cond)) (by simp)
    simp [Event.isOk] at this
  · rintro ⟨pre, post, htr, hp, hq⟩
    have hmem : Event.after "b" (some .cond) ∈ pre ++ post := by rw [← htr]; simp
    rcases List.mem_append.mp hmem with h | h
    · have := hp _ h
      simp [Event.isOk] at this
    · obtain ⟨l, hl⟩ := hq _ h
      cases hl

/-- C12.9, fuel adequacy.  Every trace theorem of this file holds "for every fuel" because running out
    of fuel is an ordinary error — also for fuel 0, where nothing runs.  For the programs of the property
    (action trees, any depth and fan-out, whose operations are set / template / log / ext / abort:
    `Action.basic`) a fuel EXISTS from which on the run is never cut short, in any state … -/
theorem run_no_fuel_error (a : Action) (h : a.basic = true) :
    ∃ N, ∀ n, N ≤ n → ∀ st, (exec n a st).err ≠ some .fuel :=
  act_basic_fuel a h

/-- … and from there on the result does not depend on the fuel at all: trace, final data and error are
    those of ONE run, which is the run the theorems above describe. -/
theorem exec_fuel_sufficient (a : Action) (h : a.basic = true) :
    ∃ N, ∀ n, N ≤ n → ∀ st, exec n a st = exec N a st ∧ (exec n a st).err ≠ some .fuel := by
  obtain ⟨N, hN⟩ := act_basic_fuel a h
  exact ⟨N, fun n hn st => ⟨run_mono hn (.act a) st (hN N (Nat.le_refl N) st), hN n hn st⟩⟩

/-- the example programs of this file are in the fragment, and fuel 20 was enough for them -/
theorem nonvacuous_fuel_sufficient :
    exProg.basic = true ∧ exProgNoAbort.basic = true ∧
    (exec 20 exProgNoAbort ⟨exData, []⟩).err ≠ some .fuel ∧ (exec 3 exProgNoAbort ⟨exData, []⟩).err = some .fuel := by
  decide

end Ytk.C12
