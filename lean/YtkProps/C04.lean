/-
  C04 — Merge: union of keys, the other side wins (unless it is null), inputs untouched.

  `mergeC o a b` is the children map of `A.Merge(B, opts)` (`a`, `b` the children maps of A, B;
  `o` the list strategy selected by the options).  Documents are WF nodes: every container's
  keys strictly sorted (= a Go map).  "Merging never modifies A or B" has no counterpart in the
  value model (a function cannot modify its arguments); it is stated and proved on the
  heap-level model (section "Pointer level" below: `heap_merge_prefix`, `heap_merge_abs`,
  `heap_merge_sharing`, `heap_merge_spine_path`) and tied to the code by the harness's
  sharing-map correspondence and pointer-level before/after snapshots (harness/heap_share.go).
-/
import YtkProofs.Merge
import YtkProofs.Heap
import YtkProofs.Decisions
import YtkProofs.Decisions2
import YtkProofs.Fluent
import YtkProofs.FuncsDomMerge

namespace Ytk.C04

/-! ## decision tables regenerated from the source (extract/tables2.go) -/
section DecisionTables2
open Ytk.TableT

/-- (i) The predicates the merge rests on, regenerated from dom/overlay.go and dom/merge.go: the ordered
    guards of hasValue, the body of coalesce (reverse, first node with a value, else the nil leaf), the
    body of firstValidListItem (the lists in the order given, the first long enough supplies the item)
    and the argument order of their calls in mergeContainers / mergeListsMeld are the model's; and the
    model's `hasValue`, `coalesceList`, `firstValidListItem` equal the functions DRIVEN BY the regenerated
    tables, on all nodes / node lists. -/
theorem coalesce_table_matches_model :
    Generated.hasValueCases = hasValueTable ∧ Generated.coalesceSteps = coalesceStepsM ∧
    Generated.firstValidListItemSteps = firstValidStepsM ∧ Generated.coalesceCalls = coalesceCallsM ∧
    (∀ n, hasValue n = hasValueBy Generated.hasValueCases n) ∧
    (∀ nodes, coalesceList nodes = coalesceListBy Generated.coalesceSteps nodes) ∧
    (∀ i lists, firstValidListItem i lists = firstValidBy Generated.firstValidListItemSteps i lists) := by
  have h1 : Generated.hasValueCases = hasValueTable := by decide +kernel
  have h2 : Generated.coalesceSteps = coalesceStepsM := by decide +kernel
  have h3 : Generated.firstValidListItemSteps = firstValidStepsM := by decide +kernel
  refine ⟨h1, h2, h3, by decide +kernel, ?_, ?_, ?_⟩
  · intro n; rw [h1]; exact hasValue_eq_table n
  · intro nodes; rw [h2]; exact coalesceList_eq_table nodes
  · intro i lists; rw [h3]; exact firstValidListItem_eq_table i lists

/-- a node with a value, one of each kind, and the null leaf -/
def sampleA : Node := .leaf ⟨"string", "a"⟩
def sampleB : Node := .leaf ⟨"int", "2"⟩

/-- (ii) The rule of the property on the regenerated tables: "where both have a key … otherwise B's
    value wins unless it is null, in which case A's value is kept".  hasValue is false for a missing
    node, for the nil leaf and for a leaf holding nil, and true for everything else — an EMPTY list or
    container has a value; coalesce run from the regenerated statement list returns the right node when
    it has a value, the left one when the right is null, null when both are; both merge functions call
    it as (left, right); the tail of the longer list is taken from the left list first. -/
theorem coalesce_table_rule :
    (Generated.hasValueCases.map fun a => (a.cond, a.steps)) =
      [("arg0==nil", ["return false"]), ("arg0==nilLeaf", ["return false"]),
       ("!arg0.IsList()&&!arg0.IsContainer()&&arg0.(Leaf).Value()==nil", ["return false"]),
       ("otherwise", ["return true"])] ∧
    hasValueBy Generated.hasValueCases Node.null = false ∧
    hasValueBy Generated.hasValueCases sampleA = true ∧
    hasValueBy Generated.hasValueCases (.list []) = true ∧ hasValueBy Generated.hasValueCases (.cont []) = true ∧
    coalesceListBy Generated.coalesceSteps [sampleA, sampleB] = sampleB ∧
    coalesceListBy Generated.coalesceSteps [sampleA, Node.null] = sampleA ∧
    coalesceListBy Generated.coalesceSteps [Node.null, sampleB] = sampleB ∧
    coalesceListBy Generated.coalesceSteps [Node.null, Node.null] = Node.null ∧
    coalesceListBy Generated.coalesceSteps [sampleA, .list []] = .list [] ∧
    firstValidBy Generated.firstValidListItemSteps 1 [[sampleA, sampleB], [sampleB]] = sampleB ∧
    firstValidBy Generated.firstValidListItemSteps 1 [[sampleB], [sampleA, sampleA]] = sampleA ∧
    firstValidBy Generated.firstValidListItemSteps 5 [[sampleB], [sampleA]] = Node.null ∧
    Generated.coalesceCalls = ["mergeListsMeld:coalesce(left,right)",
      "mergeListsMeld:firstValidListItem(idx,left,right)", "mergeContainers:coalesce(left,right)"] := by
  decide +kernel

/-- (iii) the tables are not empty: four guards with distinct conditions ending in the final return,
    three statements of coalesce, the three call sites -/
theorem nonvacuous_coalesce_tables :
    Generated.hasValueCases.length = 4 ∧ (conds Generated.hasValueCases).Nodup ∧
    Generated.hasValueCases.getLast?.map (·.cond) = some "otherwise" ∧
    Generated.coalesceSteps.length = 3 ∧ Generated.firstValidListItemSteps.length = 2 ∧
    Generated.coalesceCalls.length = 3 := by
  decide +kernel

end DecisionTables2

/-! ## decision tables regenerated from the source (extract/tables.go) -/
section DecisionTables
open Ytk.TableT

def shapeOfName (s : String) : Option Shape :=
  if s = "container" then some .container else if s = "list" then some .list
  else if s = "leaf" then some .leaf else none

/-- the action the regenerated (ordered) chain takes for a pair of node kinds: first matching arm -/
def decideG : List MergeCase → Shape → Shape → String
  | [], _, _ => "none"
  | c :: rest, x, y =>
    if (c.left == "any" || shapeOfName c.left == some x) && (c.right == "any" || shapeOfName c.right == some y)
    then c.action else decideG rest x y

def allShapes : List Shape := [.container, .list, .leaf]

/-- (i) The kind dispatch of merger.mergeContainers (a key present on both sides) and of
    merger.mergeListsMeld (an index present in both lists), regenerated from dom/merge.go as ORDERED case
    tables, decide as the case table of the model's `mergeNode` does: for every pair of node kinds the
    first matching arm of the regenerated chain takes the action the first matching arm of the model's
    table takes (stated on the decisions, not on the spelling of the chain, so that reordering disjoint
    arms is harmless); and `mergeNode` does what that table says on all nodes and under both list
    strategies. -/
theorem merge_cases_table_matches_model :
    (∀ x ∈ allShapes, ∀ y ∈ allShapes,
      decideG Generated.mergeContainersCases x y = (mergeDecision x y).goName ∧
      decideG Generated.mergeListsMeldCases x y = (mergeDecision x y).goName) ∧
    (∀ (o : ListStrategy) (n v : Node),
      match mergeDecision n.shape v.shape with
      | .recurse => ∃ ka kb, n = .cont ka ∧ v = .cont kb ∧ mergeNode o n v = .cont (mergeKvs o ka kb)
      | .lists => ∃ xa yb, n = .list xa ∧ v = .list yb ∧ mergeNode o n v = .list (mergeList o xa yb)
      | .coalesce => mergeNode o n v = coalesce n v) :=
  ⟨by decide +kernel, mergeNode_decision⟩

/-- (ii) the rule of the property on the regenerated chains: where both sides have the key (index),
    two containers merge recursively, two lists combine by the selected list strategy, and in every other
    combination of kinds — a kind conflict or two leaves — the values are coalesced (the other side wins
    unless it is null); the same in mergeContainers and in mergeListsMeld. -/
theorem merge_cases_table_rule :
    ∀ t ∈ [Generated.mergeContainersCases, Generated.mergeListsMeldCases],
      decideG t .container .container = "mergeContainers" ∧
      decideG t .list .list = "listMergeFn" ∧
      (∀ x ∈ allShapes, ∀ y ∈ allShapes, ¬(x = .container ∧ y = .container) → ¬(x = .list ∧ y = .list) →
        decideG t x y = "coalesce") := by
  decide +kernel

/-- (iii) the chains are not empty, end in a catch-all arm, and no arm is shadowed by an earlier one
    (every arm is the first match for some pair of kinds) -/
theorem nonvacuous_merge_cases :
    ∀ t ∈ [Generated.mergeContainersCases, Generated.mergeListsMeldCases],
      t ≠ [] ∧ t.getLast? = some ⟨"any", "any", "coalesce"⟩ ∧
      (t.map (fun c => (c.left, c.right))).Nodup ∧
      (∀ c ∈ t, ∃ x ∈ allShapes, ∃ y ∈ allShapes, decideG t x y = c.action) := by
  decide +kernel

end DecisionTables

/-! ### every key of either -/

/-- A key is present in the result iff it is present in A or in B (no assumption at all). -/
theorem merge_keys (o : ListStrategy) (a b : AMap Node) (k : String) :
    k ∈ AMap.keys (mergeC o a b) ↔ k ∈ AMap.keys a ∨ k ∈ AMap.keys b := by
  simp only [AMap.keys, mem_keys_iff, mergeC, isSome_get?_mergeKvs, Bool.or_eq_true]

/-! ### the per-key case table -/

/-- What a key holds in the result, from what it holds in A and in B:
    both present → `mergeNode` (below); one side only → that side's node; neither → absent. -/
theorem merge_lookup (o : ListStrategy) (a b : AMap Node) (hb : AMap.Sorted b) (k : String) :
    AMap.get? (mergeC o a b) k =
      match AMap.get? a k, AMap.get? b k with
      | some x, some y => some (mergeNode o x y)
      | some x, none => some x
      | none, some y => some y
      | none, none => none := by
  rw [mergeC, get?_mergeKvs o a b (keys_nodup_of_sorted hb)]
  cases AMap.get? a k <;> cases AMap.get? b k <;> rfl

/-- both containers: merged recursively -/
theorem merge_both_containers (o : ListStrategy) (x y : AMap Node) :
    mergeNode o (.cont x) (.cont y) = .cont (mergeC o x y) := mergeNode_cont_cont o x y

/-- both lists: the selected list strategy -/
theorem merge_both_lists (o : ListStrategy) (xs ys : List Node) :
    mergeNode o (.list xs) (.list ys) = .list (mergeList o xs ys) := mergeNode_list_list o xs ys

/-- any other combination (leaf on either side, or container against list): coalesce -/
theorem merge_otherwise (o : ListStrategy) (x y : Node)
    (h : ¬ (x.isCont = true ∧ y.isCont = true)) (h' : ¬ (x.isList = true ∧ y.isList = true)) :
    mergeNode o x y = coalesce x y := mergeNode_other o x y h h'

/-- B's value wins unless it is null, in which case A's value is kept (null if that is null too). -/
theorem coalesce_spec (x y : Node) :
    coalesce x y = if hasValue y then y else if hasValue x then x else Node.null := coalesce_eq x y

/-- "has a value" = is not the null leaf -/
theorem hasValue_spec (x : Node) : hasValue x = false ↔ x = Node.null := hasValue_false_iff x

/-! ### list strategies -/

/-- position-wise (meld): the result is as long as the longer list … -/
theorem meld_length (xs ys : List Node) :
    (mergeList .meld xs ys).length = max xs.length ys.length := length_meldList .meld xs ys

/-- … a common position is merged by the same three-way rule as a common key, a position of the
    longer list alone is kept -/
theorem meld_get (xs ys : List Node) (i : Nat) :
    (mergeList .meld xs ys)[i]? =
      match xs[i]?, ys[i]? with
      | some x, some y => some (mergeNode .meld x y)
      | some x, none => some x
      | none, some y => some y
      | none, none => none := by
  simp only [mergeList]
  rw [getElem?_meldList]
  cases xs[i]? <;> cases ys[i]? <;> rfl

/-- … and beyond the common prefix this is `firstValidListItem(i, l1, l2)` of the code -/
theorem meld_get_tail (xs ys : List Node) (i : Nat)
    (hmin : min xs.length ys.length ≤ i) (hmax : i < max xs.length ys.length) :
    (mergeList .meld xs ys)[i]? = some (firstValidListItem i [xs, ys]) :=
  getElem?_meldList_tail .meld xs ys i hmin hmax

/-- concatenation with the append option -/
theorem append_eq (xs ys : List Node) : mergeList .append xs ys = xs ++ ys := rfl

/-! ### identity laws -/

theorem merge_empty_right (o : ListStrategy) (a : AMap Node) : mergeC o a [] = a := rfl

theorem merge_empty_left (o : ListStrategy) (a : AMap Node) (ha : (Node.cont a).WF) : mergeC o [] a = a :=
  mergeKvs_nil_left o ha.sorted

/-- position-wise merging a document with itself changes nothing -/
theorem merge_self_meld (a : AMap Node) (ha : (Node.cont a).WF) : mergeC .meld a a = a := by
  have := mergeNode_self (.cont a) ha
  rw [mergeNode_cont_cont] at this
  exact Node.cont.inj this

/-! ### the result is a document again; Go's map order does not matter -/

theorem merge_wf (o : ListStrategy) (a b : AMap Node) (ha : (Node.cont a).WF) (hb : (Node.cont b).WF) :
    (Node.cont (mergeC o a b)).WF := by
  have := wf_mergeNode o (.cont a) (.cont b) ha hb
  rwa [mergeNode_cont_cont] at this

/-- … and a constructible one (`Valid`: additionally no key ends in an index group, the
    invariant of every container built through the public API — DESIGN.md section 2, D26) -/
theorem merge_valid (o : ListStrategy) (a b : AMap Node) (ha : (Node.cont a).Valid) (hb : (Node.cont b).Valid) :
    (Node.cont (mergeC o a b)).Valid := by
  refine ⟨merge_wf o a b ha.1 hb.1, ?_⟩
  have := keysOk_mergeNode o (.cont a) (.cont b) ha.2 hb.2
  rwa [mergeNode_cont_cont] at this

/-- `mergeContainers` ranges over B's children in Go map order: every visiting order of B's
    entries gives the same result. -/
theorem merge_order_independent (o : ListStrategy) (a b b' : AMap Node) (ha : AMap.Sorted a)
    (hb : AMap.Sorted b) (hp : List.Perm b b') : mergeKvs o a b' = mergeC o a b :=
  (mergeKvs_perm o ha hp (keys_nodup_of_sorted hb)).symm

/-! ### non-vacuity: concrete documents with kind conflicts, a null override, unequal lists -/

def i (n : Nat) : Node := .leaf ⟨"int", toString n⟩
def exA : AMap Node := [("a", i 1), ("b", .cont [("x", i 1)]), ("c", .list [i 1, .cont [("p", i 1)], i 3]), ("d", i 4)]
def exB : AMap Node := [("a", Node.null), ("b", .list [i 9]), ("c", .list [Node.null, .cont [("q", i 2)]]), ("e", i 5)]

theorem nonvacuous_wf : (Node.cont exA).WF ∧ (Node.cont exB).WF :=
  ⟨wf_of_wfb _ (by decide), wf_of_wfb _ (by decide)⟩

theorem nonvacuous_meld : mergeC .meld exA exB =
    [("a", i 1), ("b", .list [i 9]), ("c", .list [i 1, .cont [("p", i 1), ("q", i 2)], i 3]), ("d", i 4), ("e", i 5)] := by
  decide

theorem nonvacuous_append : mergeC .append exA exB =
    [("a", i 1), ("b", .list [i 9]),
     ("c", .list [i 1, .cont [("p", i 1)], i 3, Node.null, .cont [("q", i 2)]]), ("d", i 4), ("e", i 5)] := by
  decide

/-! ## Pointer level: Merge on the heap model (YtkModel/Heap.lean)

  "Merging never modifies A or B" at the level the sentence is about: a document is a root
  address in a heap of cells, allocation appends, so "no existing object was written" is "the
  old heap is a prefix of the new one".  `mergeContainersF o f h c1 c2` is
  `A.Merge(B, opts)` for the containers at addresses `c1`, `c2` (`o` = list strategy, `f` = fuel). -/

section heap
open Ytk.Heap

/-- Merge (either list strategy) never writes an existing cell: the old heap is a prefix of the
    new one, cell for cell — so EVERY root of the old heap, A and B in particular, abstracts to
    exactly the document it did before. -/
theorem heap_merge_prefix (o : ListStrategy) (f : Nat) (h h' : Heap) (c1 c2 r : Addr)
    (hm : mergeContainersF o f h c1 c2 = some (h', r)) :
    h ≤ h' ∧ (∀ b, b < h.size → h'.get? b = h.get? b) ∧
      ∀ (g : Nat) (x : Addr) (n : Node), absH g h x = some n → absH g h' x = some n :=
  ⟨mergeContainersF_le hm, fun _ hb => Heap.get?_eq_of_le (mergeContainersF_le hm) hb,
   fun g x n hn => absH_mono (mergeContainersF_le hm) g x n hn⟩

/-- the same for OverlayDocument.Merged (a fold of Merge over the layers) -/
theorem heap_mergeAll_prefix (o : ListStrategy) (h h' : Heap) (layers : List Addr) (r : Addr)
    (hm : Ytk.Heap.mergeAll o h layers = some (h', r)) :
    h ≤ h' ∧ ∀ (g : Nat) (x : Addr) (n : Node), absH g h x = some n → absH g h' x = some n := by
  have hl : h ≤ h' := by
    unfold Ytk.Heap.mergeAll at hm
    exact Heap.le_trans (Heap.le_alloc h (.cont [])) (mergeAllF_le layers _ h' _ r hm)
  exact ⟨hl, fun g x n hn => absH_mono hl g x n hn⟩

/-- REFINEMENT: for roots with defined abstractions `cont a`, `cont b`, the heap-level merge
    succeeds and its result abstracts to the value-level merge `mergeC o a b` of the
    abstractions (both list strategies); A and B still abstract to `a` and `b`. -/
theorem heap_merge_abs (o : ListStrategy) (f : Nat) (h : Heap) (hnil : h.NilOk) (c1 c2 : Addr)
    (a b : AMap Node) (ha : absH f h c1 = some (.cont a)) (hb : absH f h c2 = some (.cont b)) :
    ∃ h' r, mergeContainersF o f h c1 c2 = some (h', r) ∧
      absH f h' r = some (.cont (mergeC o a b)) ∧
      absH f h' c1 = some (.cont a) ∧ absH f h' c2 = some (.cont b) := by
  obtain ⟨ka, h1⟩ := get?_cont_of_absH ha
  obtain ⟨kb, h2⟩ := get?_cont_of_absH hb
  obtain ⟨h', r, hm, hr⟩ := mergeNodeF_abs o f h c1 c2 _ _ hnil ha hb
  have hl := mergeNodeF_le o f h c1 c2 h' r hm
  refine ⟨h', r, by rw [mergeContainersF_eq h1 h2]; exact hm, ?_, absH_mono hl f c1 _ ha,
    absH_mono hl f c2 _ hb⟩
  rw [hr, mergeNode_cont_cont]; rfl

/-- … in particular on a closed, acyclic heap for any two container cells and any fuel above
    their ranks. -/
theorem heap_merge_abs_closed (o : ListStrategy) (h : Heap) (hc : h.Closed) (rank : Addr → Nat)
    (hr : h.RankedBy rank) (hnil : h.NilOk) (c1 c2 : Addr) (ka kb : AMap Addr)
    (h1 : h.get? c1 = some (.cont ka)) (h2 : h.get? c2 = some (.cont kb))
    (f : Nat) (hf1 : rank c1 < f) (hf2 : rank c2 < f) :
    ∃ a b h' r, absH f h c1 = some (.cont a) ∧ absH f h c2 = some (.cont b) ∧
      mergeContainersF o f h c1 c2 = some (h', r) ∧
      absH f h' r = some (.cont (mergeC o a b)) ∧
      absH f h' c1 = some (.cont a) ∧ absH f h' c2 = some (.cont b) := by
  obtain ⟨d, rfl⟩ : ∃ d, f = d + 1 := ⟨f - 1, by omega⟩
  obtain ⟨n1, hn1⟩ := absH_of_ranked hc hr d c1 (Nat.le_of_lt_succ hf1) (Heap.get?_lt h1)
  obtain ⟨n2, hn2⟩ := absH_of_ranked hc hr d c2 (Nat.le_of_lt_succ hf2) (Heap.get?_lt h2)
  have k1 := absH_kind hn1 h1
  have k2 := absH_kind hn2 h2
  cases n1 with
  | leaf _ => simp [Node.isCont, Cell.isCont] at k1
  | list _ => simp [Node.isCont, Cell.isCont] at k1
  | cont a =>
    cases n2 with
    | leaf _ => simp [Node.isCont, Cell.isCont] at k2
    | list _ => simp [Node.isCont, Cell.isCont] at k2
    | cont b =>
      obtain ⟨h', r, hm, e1, e2, e3⟩ := heap_merge_abs o (d + 1) h hnil c1 c2 a b hn1 hn2
      exact ⟨a, b, h', r, hn1, hn2, hm, e1, e2, e3⟩

/-- The driver's entry points (`mergeContainers`, `abs`: fuel = heap size): on every closed
    acyclic heap the merge of any two container cells succeeds and refines the value-level merge. -/
theorem heap_merge_total (o : ListStrategy) (h : Heap) (hc : h.Closed) (hac : h.Acyclic)
    (hnil : h.NilOk) (c1 c2 : Addr) (ka kb : AMap Addr)
    (h1 : h.get? c1 = some (.cont ka)) (h2 : h.get? c2 = some (.cont kb)) :
    ∃ a b h' r, abs h c1 = some (.cont a) ∧ abs h c2 = some (.cont b) ∧
      mergeContainers o h c1 c2 = some (h', r) ∧
      abs h' r = some (.cont (mergeC o a b)) ∧
      abs h' c1 = some (.cont a) ∧ abs h' c2 = some (.cont b) := by
  obtain ⟨n1, hn1⟩ := abs_defined hc hac (Heap.get?_lt h1)
  obtain ⟨n2, hn2⟩ := abs_defined hc hac (Heap.get?_lt h2)
  have k1 := absH_kind hn1 h1
  have k2 := absH_kind hn2 h2
  cases n1 with
  | leaf _ => simp [Node.isCont, Cell.isCont] at k1
  | list _ => simp [Node.isCont, Cell.isCont] at k1
  | cont a =>
    cases n2 with
    | leaf _ => simp [Node.isCont, Cell.isCont] at k2
    | list _ => simp [Node.isCont, Cell.isCont] at k2
    | cont b =>
      obtain ⟨h', r, hm, e1, e2, e3⟩ := heap_merge_abs o h.size h hnil c1 c2 a b hn1 hn2
      have hsz := Heap.size_le_of_le (mergeContainersF_le hm)
      exact ⟨a, b, h', r, hn1, hn2, hm, absH_fuel_le hsz e1, absH_fuel_le hsz e2,
        absH_fuel_le hsz e3⟩

/-- SHARING: on a closed heap the result root is a newly allocated cell, and every cell
    reachable from it is either newly allocated, or reachable from A, or reachable from B, or
    the shared nil leaf (what `coalesce` returns when neither side has a value) — nothing else.
    (It does NOT say the result shares nothing with its inputs: members present on one side
    only, list items and coalesced values ARE the input objects.) -/
theorem heap_merge_sharing (o : ListStrategy) (f : Nat) (h h' : Heap) (hc : h.Closed)
    (hnil : h.NilOk) (c1 c2 r : Addr) (hm : mergeContainersF o f h c1 c2 = some (h', r)) :
    (h.size ≤ r ∧ r < h'.size) ∧
    ∀ b, Reach h' r b →
      (h.size ≤ b ∧ b < h'.size) ∨ Reach h c1 b ∨ Reach h c2 b ∨ b = nilAddr := by
  obtain ⟨ka, kb, h1, h2, hm'⟩ := mergeContainersF_inv hm
  have ctx := shareCtx_of_closed hc hnil (Heap.get?_lt h1) (Heap.get?_lt h2)
  have hs := mergeNodeF_spine_fresh hm' h1 h2 (Or.inl ⟨rfl, rfl⟩)
  refine ⟨⟨hs.1, hs.2.1⟩, ?_⟩
  obtain ⟨_, hi, hg⟩ := mergeNodeF_share ctx o f h c1 c2 h' r (MInv.init h _)
    (Or.inl (Or.inl (.refl _))) (Or.inl (Or.inr (Or.inl (.refl _)))) hm'
  intro b hb
  rcases Good.reach ctx hi hb hg with hS | hnew
  · exact Or.inr hS
  · exact Or.inl hnew

/-- The same two statements for OverlayDocument.Merged (`mergeAll`: a new empty container, then
    Merge with every layer in order): the result abstracts to the value-level `mergeAll` of the
    layers' abstractions … -/
theorem heap_mergeAll_abs (o : ListStrategy) (f : Nat) (h : Heap) (hnil : h.NilOk)
    (layers : List Addr) (lsN : List (AMap Node))
    (hl : optMapM (absH f h) layers = some (lsN.map Node.cont)) (hf : 0 < f) :
    ∃ h' r, mergeAllF o f (h.alloc (.cont [])).1 h.size layers = some (h', r) ∧
      absH f h' r = some (.cont (Ytk.mergeAll o lsN)) := by
  obtain ⟨d, rfl⟩ : ∃ d, f = d + 1 := ⟨f - 1, by omega⟩
  have hl0 := Heap.le_alloc h (.cont [])
  exact mergeAllF_abs o (d + 1) layers _ h.size [] lsN (nilOk_mono hnil hl0)
    (absH_alloc_cont (f := d) (h := h) (ys := []) (ns := []) rfl) (optMapM_mono hl0 hl)

/-- … and everything reachable from the (new) result root is new, or reachable from one of the
    layers, or the shared nil leaf. -/
theorem heap_mergeAll_sharing (o : ListStrategy) (h h' : Heap) (hc : h.Closed) (hnil : h.NilOk)
    (layers : List Addr) (hl : ∀ l ∈ layers, l < h.size) (r : Addr)
    (hm : Ytk.Heap.mergeAll o h layers = some (h', r)) :
    h.size ≤ r ∧ ∀ b, Reach h' r b →
      (h.size ≤ b ∧ b < h'.size) ∨ (∃ l ∈ layers, Reach h l b) ∨ b = nilAddr := by
  let S : Addr → Prop := fun b => (∃ l ∈ layers, Reach h l b) ∨ b = nilAddr
  have ctx : ShareCtx h S := shareCtx_of_layers hc hnil hl
  have hm' : mergeAllF o (h.alloc (.cont [])).1.size (h.alloc (.cont [])).1 h.size layers =
      some (h', r) := hm
  have hi0 : MInv h S (h.alloc (.cont [])).1 :=
    (MInv.init h S).alloc (c := .cont []) (by intro k hk; simp [Cell.kids] at hk)
  obtain ⟨_, hi, hg, hr⟩ := mergeAllF_share ctx o _ layers _ h' h.size r hi0
    (Good.alloc_new (MInv.init h S) _) (Nat.le_refl _)
    (fun l hl' => Or.inl (Or.inl ⟨l, hl', .refl _⟩)) hm'
  refine ⟨hr, fun b hb => ?_⟩
  rcases Good.reach ctx hi hb hg with hS | hnew
  · exact Or.inr hS
  · exact Or.inl hnew

/-- SPINE: whenever two containers (two lists) are merged — at the root and at every recursive
    call, i.e. at every node of the merged spine — the result is a newly allocated container
    (list), never one of the inputs' cells. -/
theorem heap_merge_spine_fresh (o : ListStrategy) (f : Nat) (h h' : Heap) (n v r : Addr)
    (cn cv : Cell) (hm : mergeNodeF o f h n v = some (h', r))
    (hn : h.get? n = some cn) (hv : h.get? v = some cv)
    (hk : (cn.isCont = true ∧ cv.isCont = true) ∨ (cn.isList = true ∧ cv.isList = true)) :
    h.size ≤ r ∧ r < h'.size ∧
      ∃ c, h'.get? r = some c ∧ c.isCont = cn.isCont ∧ c.isList = cn.isList :=
  mergeNodeF_spine_fresh hm hn hv hk

/-- SPINE, path by path: on a closed heap whose children maps are Go maps (unique keys), for
    every path `ks` of member names that leads to a container both in A and in B, the result
    has a container at `ks` that was allocated by this Merge call — the root (`ks = []`) and
    every container on the merged spine is a new object, for both list strategies. -/
theorem heap_merge_spine_path (o : ListStrategy) (f : Nat) (h h' : Heap) (hc : h.Closed)
    (hs : h.MapsOk) (c1 c2 r : Addr) (hm : mergeContainersF o f h c1 c2 = some (h', r))
    (ks : List String) (x y : Addr) (kx ky : AMap Addr)
    (hx : lookupKeys h c1 ks = some x) (hy : lookupKeys h c2 ks = some y)
    (cx : h.get? x = some (.cont kx)) (cy : h.get? y = some (.cont ky)) :
    ∃ z m, lookupKeys h' r ks = some z ∧ h.size ≤ z ∧ z < h'.size ∧ h'.get? z = some (.cont m) := by
  obtain ⟨ka, kb, h1, h2, hm'⟩ := mergeContainersF_inv hm
  exact mergeNodeF_spine_path o hc hs ks f h c1 c2 h' r x y (Heap.le_refl _) (Heap.get?_lt h1)
    (Heap.get?_lt h2) hm' hx hy ⟨kx, cx⟩ ⟨ky, cy⟩

/-- Any other combination of kinds (a leaf on either side, container against list): nothing is
    allocated, the heap is returned as it is, and the result IS one of the two input nodes or the
    shared nil leaf (`coalesce` returns an existing node). -/
theorem heap_merge_otherwise (o : ListStrategy) (f : Nat) (h : Heap) (n v : Addr) (cn cv : Cell)
    (hn : h.get? n = some cn) (hv : h.get? v = some cv)
    (h1 : ¬ (cn.isCont = true ∧ cv.isCont = true)) (h2 : ¬ (cn.isList = true ∧ cv.isList = true)) :
    mergeNodeF o (f + 1) h n v = some (h, coalesceH h n v) ∧
      (coalesceH h n v = v ∨ coalesceH h n v = n ∨ coalesceH h n v = nilAddr) := by
  refine ⟨mergeNodeF_other hn hv h1 h2, ?_⟩
  unfold coalesceH
  split
  · exact Or.inl rfl
  · split
    · exact Or.inr (Or.inl rfl)
    · exact Or.inr (Or.inr rfl)

/-- List strategies at pointer level. Append: the new list holds the ITEMS of the two input
    lists themselves (the same addresses), A's then B's — nothing is copied. -/
theorem heap_append_items (f : Nat) (h h' : Heap) (n v r : Addr) (xs ys : List Addr)
    (hn : h.get? n = some (.list xs)) (hv : h.get? v = some (.list ys))
    (hm : mergeNodeF .append (f + 1) h n v = some (h', r)) :
    r = h.size ∧ h'.get? r = some (.list (xs ++ ys)) := by
  rw [mergeNodeF_list_append hn hv] at hm
  simp only [Option.some.injEq] at hm
  have e1 : h' = (h.alloc (.list (xs ++ ys))).1 := (congrArg Prod.fst hm).symm
  have e2 : r = h.size := (congrArg Prod.snd hm).symm
  subst e1; subst e2
  exact ⟨rfl, Heap.get?_alloc_new _ _⟩

/-- Meld: beyond the common prefix the new list holds exactly what
    `firstValidListItem(i, l1, l2)` returns — the existing item of the longer list. -/
theorem heap_meld_tail (f : Nat) (h h' : Heap) (n v r : Addr) (xs ys : List Addr)
    (hn : h.get? n = some (.list xs)) (hv : h.get? v = some (.list ys))
    (hm : mergeNodeF .meld (f + 1) h n v = some (h', r)) :
    ∃ zs, h'.get? r = some (.list zs) ∧
      ∀ i, min xs.length ys.length ≤ i → zs.getD i nilAddr = firstValidListItemH i [xs, ys] := by
  rw [mergeNodeF_list_meld hn hv] at hm
  cases hf : meldItems (mergeNodeF .meld f) h xs ys with
  | none => simp [hf] at hm
  | some q =>
    obtain ⟨h1, zs⟩ := q
    simp only [hf, Option.bind_some, Option.some.injEq] at hm
    have e1 : h' = (h1.alloc (.list zs)).1 := (congrArg Prod.fst hm).symm
    have e2 : r = h1.size := (congrArg Prod.snd hm).symm
    subst e1; subst e2
    exact ⟨zs, Heap.get?_alloc_new _ _, meldItems_tail xs ys h h1 zs hf⟩

/-- … and writes to those new cells (and allocations) afterwards leave every root of the old
    heap — A and B — unchanged. -/
theorem heap_merge_result_writes (o : ListStrategy) (f : Nat) (h h1 h2 : Heap) (c1 c2 r : Addr)
    (hm : mergeContainersF o f h c1 c2 = some (h1, r))
    (hw : Writes (fun _ b => h.size ≤ b) h1 h2) :
    h ≤ h2 ∧ ∀ (g : Nat) (x : Addr) (n : Node), absH g h x = some n → absH g h2 x = some n := by
  have hl := hw.le_of_fresh (mergeContainersF_le hm)
  exact ⟨hl, fun g x n hn => absH_mono hl g x n hn⟩

/-- … for literal builder histories (`Op`, `applyOps`) on the new cells. -/
theorem heap_merge_result_ops (o : ListStrategy) (f : Nat) (h h1 h2 : Heap) (c1 c2 r : Addr)
    (ops : List Op) (hm : mergeContainersF o f h c1 c2 = some (h1, r))
    (hq : ∀ op ∈ ops, h.size ≤ op.target) (he : applyOps h1 ops = some h2) :
    ∀ (g : Nat) (x : Addr) (n : Node), absH g h x = some n → absH g h2 x = some n :=
  (heap_merge_result_writes o f h h1 h2 c1 c2 r hm (applyOps_writes hq he)).2

/-! ### Non-vacuity on a concrete heap

  0 nilLeaf · 1 leaf 1 · 2 leaf nil (not the shared one) · 3 [#1, nilLeaf] · 4 {x: #1} ·
  5 A = {c: #4, l: #3, n: nilLeaf, p: #1} · 6 leaf 2 · 7 [#2, #6, #6] · 8 {y: #6} ·
  9 B = {c: #8, l: #7, n: #2, q: #6} -/
def exMHeap : Heap := ⟨[.leaf Scalar.null, .leaf ⟨"int", "1"⟩, .leaf Scalar.null, .list [1, 0],
  .cont [("x", 1)], .cont [("c", 4), ("l", 3), ("n", 0), ("p", 1)], .leaf ⟨"int", "2"⟩,
  .list [2, 6, 6], .cont [("y", 6)], .cont [("c", 8), ("l", 7), ("n", 2), ("q", 6)]]⟩

def exMRank : Addr → Nat | 5 => 2 | 9 => 2 | 3 => 1 | 4 => 1 | 7 => 1 | 8 => 1 | _ => 0

theorem nonvacuous_heap_wf :
    exMHeap.Closed ∧ exMHeap.RankedBy exMRank ∧ exMHeap.NilOk ∧ exMHeap.MapsOk :=
  ⟨closed_of_all (by decide), rankedBy_of_all (by decide), rfl, mapsOk_of_all (by decide)⟩

/-- the path ["c"] leads to a container on both sides (#4, #8); in the result it leads to the
    new cell #10 -/
theorem nonvacuous_heap_spine :
    lookupKeys exMHeap 5 ["c"] = some 4 ∧ lookupKeys exMHeap 9 ["c"] = some 8 ∧
    ((mergeContainers .meld exMHeap 5 9).bind fun p => lookupKeys p.1 p.2 ["c"]) = some 10 := by
  decide

/-- meld: three new cells (merged `c`, melded `l`, the root), the old ten cells untouched, the
    result abstracts to the value-level merge of the abstractions -/
theorem nonvacuous_heap_merge_meld :
    (mergeContainers .meld exMHeap 5 9).map (fun p => (p.1.size, p.2)) = some (13, 12) ∧
    (mergeContainers .meld exMHeap 5 9).map (fun p => p.1.cells.take 10) = some exMHeap.cells ∧
    (mergeContainers .meld exMHeap 5 9).map (fun p => p.1.cells.drop 10) =
      some [.cont [("x", 1), ("y", 6)], .list [1, 6, 6],
            .cont [("c", 10), ("l", 11), ("n", 0), ("p", 1), ("q", 6)]] ∧
    ((mergeContainers .meld exMHeap 5 9).bind fun p => abs p.1 p.2) =
      (match abs exMHeap 5, abs exMHeap 9 with
       | some (.cont a), some (.cont b) => some (.cont (mergeC .meld a b))
       | _, _ => none) := by
  decide

theorem nonvacuous_heap_merge_append :
    (mergeContainers .append exMHeap 5 9).map (fun p => p.1.cells.drop 10) =
      some [.cont [("x", 1), ("y", 6)], .list [1, 0, 2, 6, 6],
            .cont [("c", 10), ("l", 11), ("n", 0), ("p", 1), ("q", 6)]] ∧
    ((mergeContainers .append exMHeap 5 9).bind fun p => abs p.1 p.2) =
      (match abs exMHeap 5, abs exMHeap 9 with
       | some (.cont a), some (.cont b) => some (.cont (mergeC .append a b))
       | _, _ => none) := by
  decide

end heap

end Ytk.C04

/-! ## gap7a: self-merge is the identity under meld ONLY -/
namespace Ytk.C04

/-- `A.Merge(A) == A` is claimed (and proved: `merge_self_meld`) for the position-wise strategy; with
    `ListsMergeAppend` it fails as soon as A has a non-empty list: the list is doubled. -/
theorem merge_self_append_counterexample :
    (Node.cont [("l", .list [i 1])]).WF ∧
    mergeC .append [("l", .list [i 1])] [("l", .list [i 1])] = [("l", .list [i 1, i 1])] ∧
    mergeC .meld [("l", .list [i 1])] [("l", .list [i 1])] = [("l", .list [i 1])] :=
  ⟨wf_of_wfb _ (by decide), by decide, by decide⟩

/-! ## fluent.ConfigHelper (fluent/fluent.go; model YtkModel/Fluent.lean) — "the same law observed end-to-end
    through fluent.ConfigHelper" -/
end Ytk.C04

namespace Ytk.C04
section fluent
open Ytk.Fluent
variable {α Γ : Type}

/-- A history of Adds (maps, dom containers, anything yaml.v3 turns into a map) on a new helper accumulates the
    LEFT FOLD of Merge (default list strategy) over the documents' containers, from the empty document — i.e.
    `OverlayDocument.Merged` of the same documents as layers (`mergeAll`).  Hence all laws of this file apply to
    every step (`merge_keys`, `merge_lookup`: a later document wins unless its value is null …). -/
theorem fluent_adds_fold (vy : α → Option (List (String × Val))) (fl : TplFuncs.Files Γ)
    (ds : List (Doc α)) (cs : List (AMap Node)) (h : ds.map (Doc.toDom? vy) = cs.map some) :
    run vy fl Fluent.init (ds.map .add) = cs.foldl (mergeC .meld) [] ∧
    run vy fl Fluent.init (ds.map .add) = mergeAll .meld cs :=
  ⟨run_adds vy fl ds cs _ h, run_adds vy fl ds cs _ h⟩

/-- one more Add: per key, what `merge_lookup` says of the accumulated document and the new one -/
theorem fluent_add_lookup (vy : α → Option (List (String × Val))) (s : State) (d : Doc α) (c : AMap Node)
    (hd : Doc.toDom? vy d = some c) (hc : AMap.Sorted c) (k : String) :
    ∃ s', Fluent.add vy s d = .ok s' ∧ AMap.get? s' k =
      match AMap.get? s k, AMap.get? c k with
      | some x, some y => some (mergeNode .meld x y)
      | some x, none => some x
      | none, some y => some y
      | none, none => none :=
  ⟨_, add_of_toDom vy s d c hd, merge_lookup .meld s c hc k⟩

/-- Load(file) is Add of the decoded file; any failure on the way (open, unrecognised suffix, decoder) is a panic -/
theorem fluent_load_spec (fl : TplFuncs.Files Γ) (s : State) (f : String) :
    load fl s f = match TplFuncs.loadFile fl f with
      | .ok c => .ok (mergeC .meld s c)
      | _ => .panic := by
  unfold load; cases TplFuncs.loadFile fl f <;> rfl

/-- a panicking Add / Load leaves the helper as it was: the sources after it merge over what was there before -/
theorem fluent_failed_call_keeps_state (vy : α → Option (List (String × Val))) (fl : TplFuncs.Files Γ)
    (s : State) (op : Op α) (hop : ∀ es, op ≠ .mutate es) (hp : (step vy fl s op).2 = true) :
    (step vy fl s op).1 = s := step_panic_keeps vy fl s op hop hp

/-- INPUTS UNTOUCHED, pointer level: along a chain `Add(d1)…Add(dn)` of dom containers no existing cell is written —
    every document of the heap before the chain (each input `di`, every earlier accumulated document) abstracts to
    exactly the value it had, after the chain. -/
theorem fluent_inputs_untouched (f : Nat) (ds : List Ytk.Heap.Addr) (h h' : Ytk.Heap.Heap) (acc r : Ytk.Heap.Addr)
    (hm : addAllH f h acc ds = some (h', r)) :
    h ≤ h' ∧ ∀ (g : Nat) (x : Ytk.Heap.Addr) (n : Node), Ytk.Heap.absH g h x = some n → Ytk.Heap.absH g h' x = some n :=
  ⟨addAllH_le f ds h h' acc r hm, fun g x n hn => Ytk.Heap.absH_mono (addAllH_le f ds h h' acc r hm) g x n hn⟩

/-- Mutate is the history of builder calls applied to the accumulated document (C03's `bstep`), and Result reads
    the document that history left: edits are visible in Result. -/
theorem fluent_mutate_visible {τ : Type} (rt : List (String × Val) → Option τ) (s : State) (es : List BOp) (s' : State)
    (h : brun s es = .ok s') : mutate s es = (s', false) ∧ result rt s' = (match rt (asMap s') with
      | some t => .ok t | none => .panic) := by
  refine ⟨?_, by unfold result; cases rt (asMap s') <;> rfl⟩
  induction es generalizing s with
  | nil => simp only [brun, Outcome.ok.injEq] at h; subst h; rfl
  | cons e es ih =>
    simp only [brun] at h
    simp only [mutate]
    cases hb : bstep s e with
    | ok s1 => rw [hb] at h; simp only; exact ih s1 h
    | err => rw [hb] at h; cases h
    | panic => rw [hb] at h; cases h

/-- Result round trip under the codec contract (yaml.v3: decode ∘ encode = id on the value): a new helper given
    one map returns that map. -/
theorem fluent_result_roundtrip (vy : α → Option (List (String × Val)))
    (rt : List (String × Val) → Option (List (String × Val))) (hrt : ∀ v, rt v = some v)
    (m : List (String × Val)) (hw : (Val.obj m).WF) (hn : Val.noIdxKeys (.obj m) = true) :
    (Fluent.add vy Fluent.init (.map m)).bind (result rt) = .ok m := result_add_map vy rt hrt m hw hn

/-- Result is the codec applied to AsMap of the accumulated document; when the codec fails, a panic -/
theorem fluent_result_spec {τ : Type} (rt : List (String × Val) → Option τ) (s : State) :
    result rt s = match rt (asMap s) with | some t => .ok t | none => .panic := by
  unfold result; cases rt (asMap s) <;> rfl

/-- Save hands AsMap of the accumulated document to the suffix's encoder, creates the file BEFORE an unrecognised
    suffix makes it panic, and never changes the helper (it returns no state). -/
theorem fluent_save_spec (ext : String) (canOpen : Bool) (ef : FileCodec.Fmt → List (String × Val) → Bool) (s : State) :
    (canOpen = false → save ext canOpen ef s = ⟨true, false, none⟩) ∧
    (canOpen = true → FileCodec.ofSuffix ext = none → save ext canOpen ef s = ⟨true, true, none⟩) ∧
    (∀ fmt, canOpen = true → FileCodec.ofSuffix ext = some fmt →
      save ext canOpen ef s = ⟨ef fmt (asMap s), true, some (fmt, asMap s)⟩) := by
  refine ⟨?_, ?_, ?_⟩
  · intro h; simp [save, h]
  · intro h h2; simp [save, h, h2]
  · intro fmt h h2; simp [save, h, h2]

def exF1 : List (String × Val) := [("a", .sc ⟨"int", "1"⟩), ("l", .arr [.sc ⟨"int", "1"⟩])]
def exF2 : AMap Node := [("a", .leaf Scalar.null), ("b", .leaf ⟨"string", "x"⟩), ("l", .list [.leaf ⟨"int", "7"⟩, .leaf ⟨"int", "8"⟩])]

/-- concrete non-trivial history: a map, then a dom container whose `a` is null (kept from the first), then an edit -/
theorem nonvacuous_fluent :
    run (fun (x : Unit) => none) (⟨fun _ => "", fun _ => (none : Option Unit), fun _ _ => none⟩ : TplFuncs.Files Unit)
        Fluent.init [.add (.map exF1), .add (.dom exF2), .mutate [.addValueAt "c.d" (.leaf ⟨"bool", "true"⟩)], .load "nosuch.yaml"] =
      [("a", .leaf ⟨"int", "1"⟩), ("b", .leaf ⟨"string", "x"⟩), ("c", .cont [("d", .leaf ⟨"bool", "true"⟩)]),
       ("l", .list [.leaf ⟨"int", "7"⟩, .leaf ⟨"int", "8"⟩])] ∧
    (Val.obj exF1).WF ∧ Val.noIdxKeys (.obj exF1) = true := by
  refine ⟨by decide +kernel, ?_, by decide⟩
  have hs : AMap.Sorted exF1 :=
    .cons (fun p hp => by
      simp only [List.mem_cons, List.mem_nil_iff, or_false] at hp
      subst hp; decide) (.cons (fun _ hp => by cases hp) .nil)
  refine .obj hs ?_
  intro p hp
  simp only [exF1, List.mem_cons, List.mem_nil_iff, or_false] at hp
  rcases hp with rfl | rfl
  · exact .sc _
  · exact .arr (fun x hx => by
      simp only [List.mem_cons, List.mem_nil_iff, or_false] at hx
      subst hx; exact .sc _)

end fluent
end Ytk.C04

/-! ## xlate7c: dom/merge.go REGENERATED from the source (YtkModel/Generated/FuncsDom.lean) equals the model

  `extract/translate_dom.go` translates `hasValue`, `coalesce`, `firstValidListItem`, `mergeListsAppend`,
  `(*merger).mergeContainers` and `(*merger).mergeListsMeld` from /repo's working tree on every run, over the
  trusted DOM primitives of YtkModel/DomPrelude.lean.  The theorems below say, for ALL inputs, that the
  translation returns (`Go.Res.ok`: no panic, recursion / loop fuel not exhausted) exactly what the
  hand-written model of YtkModel/Merge.lean returns — on well-formed documents where the model's map
  representation needs it.  An edit of one of these Go functions changes the generated definition and the
  theorem of that function stops checking.  Proofs: YtkProofs/FuncsDomMerge.lean. -/
namespace Ytk.C04
open Ytk.Generated

/-- hasValue(n) for a non-nil node; `hasValue(nil) = false` -/
theorem hasValue_generated_eq_model (n : Node) :
    FuncsDom.hasValue (some n) = .ok (hasValue n) ∧ FuncsDom.hasValue none = .ok false :=
  ⟨FuncsDomMerge.hasValue_generated_eq_model n, FuncsDomMerge.hasValue_generated_nil⟩

/-- coalesce(nodes...) — any number of arguments, in the order of the call -/
theorem coalesce_generated_eq_model (nodes : List Node) : FuncsDom.coalesce nodes = .ok (coalesceList nodes) :=
  FuncsDomMerge.coalesce_generated_eq_model nodes

/-- firstValidListItem(idx, lists...) for a non-negative index -/
theorem firstValidListItem_generated_eq_model (i : Nat) (lists : List (List Node)) :
    FuncsDom.firstValidListItem (i : Int) lists = .ok (firstValidListItem i lists) :=
  FuncsDomMerge.firstValidListItem_generated_eq_model i lists

theorem mergeListsAppend_generated_eq_model (l1 l2 : List Node) :
    FuncsDom.mergeListsAppend l1 l2 = .ok (appendList l1 l2) :=
  FuncsDomMerge.mergeListsAppend_generated_eq_model l1 l2

/-- merger.mergeContainers with the field `mg.listMergeFn` as the parameter `f`: for every `f` that behaves as
    the model's list strategy `o` on the (well-formed) lists inside `c2` -/
theorem mergeContainers_generated_eq_model (o : ListStrategy) (f : List Node → List Node → Go.Res (List Node))
    (c1 c2 : AMap Node)
    (hf : ∀ a b, (Node.list a).WF → (Node.list b).WF → Node.sizeList b < Node.sizeKvs c2 → f a b = .ok (mergeList o a b))
    (h1 : (Node.cont c1).WF) (h2 : (Node.cont c2).WF) :
    FuncsDom.mergeContainers f c1 (some c2) = .ok (mergeKvs o c1 c2) :=
  FuncsDomMerge.mergeContainers_generated_eq_model o f c1 c2 hf h1 h2

/-- merger.mergeListsMeld, likewise -/
theorem mergeListsMeld_generated_eq_model (o : ListStrategy) (f : List Node → List Node → Go.Res (List Node))
    (l1 l2 : List Node)
    (hf : ∀ a b, (Node.list a).WF → (Node.list b).WF → Node.sizeList b < Node.sizeList l2 → f a b = .ok (mergeList o a b))
    (h1 : (Node.list l1).WF) (h2 : (Node.list l2).WF) :
    FuncsDom.mergeListsMeld f l1 l2 = .ok (meldList o l1 l2) :=
  FuncsDomMerge.mergeListsMeld_generated_eq_model o f l1 l2 hf h1 h2

/-- `Merge(other, ListsMergeAppend())`: the field is the translated `mergeListsAppend` -/
theorem merge_append_generated_eq_model (c1 c2 : AMap Node) (h1 : (Node.cont c1).WF) (h2 : (Node.cont c2).WF) :
    FuncsDom.mergeContainers FuncsDom.mergeListsAppend c1 (some c2) = .ok (mergeC .append c1 c2) :=
  FuncsDomMerge.mergeContainers_generated_eq_model .append _ c1 c2 (FuncsDomMerge.listFnOk_append _) h1 h2

/-- `Merge(other)` with the default option: the field is the translated `mergeListsMeld` of the same merger
    (`meldKnot`: that self-reference, unrolled as often as `c2` is deep) -/
theorem merge_meld_generated_eq_model (c1 c2 : AMap Node) (h1 : (Node.cont c1).WF) (h2 : (Node.cont c2).WF) :
    FuncsDom.mergeContainers (FuncsDomMerge.meldKnot (Node.sizeKvs c2)) c1 (some c2) = .ok (mergeC .meld c1 c2) :=
  FuncsDomMerge.mergeContainers_generated_eq_model .meld _ c1 c2 (FuncsDomMerge.listFnOk_meld _) h1 h2

/-- the translated code, RUN on a document with nested containers, lists of different lengths, a null that
    does not overwrite and a kind conflict -/
theorem nonvacuous_merge_generated :
    FuncsDom.mergeContainers (FuncsDomMerge.meldKnot 20)
        [("a", .cont [("x", i 1)]), ("l", .list [i 1, .cont [("p", i 1)]]), ("n", i 5), ("z", i 0)]
        (some [("a", .cont [("y", i 2)]), ("l", .list [Node.null, .cont [("q", i 2)], i 3]), ("n", Node.null), ("z", .list [])])
      = .ok [("a", .cont [("x", i 1), ("y", i 2)]), ("l", .list [i 1, .cont [("p", i 1), ("q", i 2)], i 3]),
             ("n", i 5), ("z", .list [])] ∧
    FuncsDom.mergeContainers FuncsDom.mergeListsAppend [("l", .list [i 1])] (some [("l", .list [i 2])])
      = .ok [("l", .list [i 1, i 2])] := by
  decide

end Ytk.C04
