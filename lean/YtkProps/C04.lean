/-
  C04 — Merge: union of keys, the other side wins (unless null), inputs untouched.
-/
import YtkModel.Merge

namespace Ytk.C04

/-- merging with the empty document on the right is the identity -/
theorem merge_empty_right (o : ListStrategy) (a : AMap Node) : mergeC o a [] = a := rfl

/-- concatenation under the append strategy -/
theorem append_eq (xs ys : List Node) : mergeList .append xs ys = xs ++ ys := rfl

end Ytk.C04
