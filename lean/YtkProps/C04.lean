/-
  C04 — Merge: union of keys, the other side wins (unless it is null), inputs untouched.

  `mergeC o a b` is the children map of `A.Merge(B, opts)` (`a`, `b` the children maps of A, B;
  `o` the list strategy selected by the options).  Documents are WF nodes: every container's
  keys strictly sorted (= a Go map).  "Merging never modifies A or B" has no counterpart in the
  value model (a function cannot modify its arguments); it is carried by the harness's
  before/after snapshots.
-/
import YtkProofs.Merge

namespace Ytk.C04

/-! ### every key of either -/

/-- A key is present in the result iff it is present in A or in B (no assumption at all). -/
theorem merge_keys (o : ListStrategy) (a b : AMap Node) (k : String) :
    k ∈ AMap.keys (mergeC o a b) ↔ k ∈ AMap.keys a ∨ k ∈ AMap.keys b := by
  simp only [AMap.keys, mem_keys_iff, mergeC, isSome_get?_mergeKvs, Bool.or_eq_true]

/-! ### the per-key case table -/

/-- What a key holds in the result, from what it holds in A and in B:
    both present → `mergeNode` (below); one side only → that side's node; neither → absent. -/
theorem merge_lookup (o : ListStrategy) (a b : AMap Node) (hb : AMap.Sorted b) (k : String) :
    AMap.get? (mergeC o a b) k =
      match AMap.get? a k, AMap.get? b k with
      | some x, some y => some (mergeNode o x y)
      | some x, none => some x
      | none, some y => some y
      | none, none => none := by
  rw [mergeC, get?_mergeKvs o a b (keys_nodup_of_sorted hb)]
  cases AMap.get? a k <;> cases AMap.get? b k <;> rfl

/-- both containers: merged recursively -/
theorem merge_both_containers (o : ListStrategy) (x y : AMap Node) :
    mergeNode o (.cont x) (.cont y) = .cont (mergeC o x y) := mergeNode_cont_cont o x y

/-- both lists: the selected list strategy -/
theorem merge_both_lists (o : ListStrategy) (xs ys : List Node) :
    mergeNode o (.list xs) (.list ys) = .list (mergeList o xs ys) := mergeNode_list_list o xs ys

/-- any other combination (leaf on either side, or container against list): coalesce -/
theorem merge_otherwise (o : ListStrategy) (x y : Node)
    (h : ¬ (x.isCont = true ∧ y.isCont = true)) (h' : ¬ (x.isList = true ∧ y.isList = true)) :
    mergeNode o x y = coalesce x y := mergeNode_other o x y h h'

/-- B's value wins unless it is null, in which case A's value is kept (null if that is null too). -/
theorem coalesce_spec (x y : Node) :
    coalesce x y = if hasValue y then y else if hasValue x then x else Node.null := coalesce_eq x y

/-- "has a value" = is not the null leaf -/
theorem hasValue_spec (x : Node) : hasValue x = false ↔ x = Node.null := hasValue_false_iff x

/-! ### list strategies -/

/-- position-wise (meld): the result is as long as the longer list … -/
theorem meld_length (xs ys : List Node) :
    (mergeList .meld xs ys).length = max xs.length ys.length := length_meldList .meld xs ys

/-- … a common position is merged by the same three-way rule as a common key, a position of the
    longer list alone is kept -/
theorem meld_get (xs ys : List Node) (i : Nat) :
    (mergeList .meld xs ys)[i]? =
      match xs[i]?, ys[i]? with
      | some x, some y => some (mergeNode .meld x y)
      | some x, none => some x
      | none, some y => some y
      | none, none => none := by
  simp only [mergeList]
  rw [getElem?_meldList]
  cases xs[i]? <;> cases ys[i]? <;> rfl

/-- … and beyond the common prefix this is `firstValidListItem(i, l1, l2)` of the code -/
theorem meld_get_tail (xs ys : List Node) (i : Nat)
    (hmin : min xs.length ys.length ≤ i) (hmax : i < max xs.length ys.length) :
    (mergeList .meld xs ys)[i]? = some (firstValidListItem i [xs, ys]) :=
  getElem?_meldList_tail .meld xs ys i hmin hmax

/-- concatenation with the append option -/
theorem append_eq (xs ys : List Node) : mergeList .append xs ys = xs ++ ys := rfl

/-! ### identity laws -/

theorem merge_empty_right (o : ListStrategy) (a : AMap Node) : mergeC o a [] = a := rfl

theorem merge_empty_left (o : ListStrategy) (a : AMap Node) (ha : (Node.cont a).WF) : mergeC o [] a = a :=
  mergeKvs_nil_left o ha.sorted

/-- position-wise merging a document with itself changes nothing -/
theorem merge_self_meld (a : AMap Node) (ha : (Node.cont a).WF) : mergeC .meld a a = a := by
  have := mergeNode_self (.cont a) ha
  rw [mergeNode_cont_cont] at this
  exact Node.cont.inj this

/-! ### the result is a document again; Go's map order does not matter -/

theorem merge_wf (o : ListStrategy) (a b : AMap Node) (ha : (Node.cont a).WF) (hb : (Node.cont b).WF) :
    (Node.cont (mergeC o a b)).WF := by
  have := wf_mergeNode o (.cont a) (.cont b) ha hb
  rwa [mergeNode_cont_cont] at this

/-- … and a constructible one (`Valid`: additionally no key ends in an index group, the
    invariant of every container built through the public API — DESIGN.md section 2, D26) -/
theorem merge_valid (o : ListStrategy) (a b : AMap Node) (ha : (Node.cont a).Valid) (hb : (Node.cont b).Valid) :
    (Node.cont (mergeC o a b)).Valid := by
  refine ⟨merge_wf o a b ha.1 hb.1, ?_⟩
  have := keysOk_mergeNode o (.cont a) (.cont b) ha.2 hb.2
  rwa [mergeNode_cont_cont] at this

/-- `mergeContainers` ranges over B's children in Go map order: every visiting order of B's
    entries gives the same result. -/
theorem merge_order_independent (o : ListStrategy) (a b b' : AMap Node) (ha : AMap.Sorted a)
    (hb : AMap.Sorted b) (hp : List.Perm b b') : mergeKvs o a b' = mergeC o a b :=
  (mergeKvs_perm o ha hp (keys_nodup_of_sorted hb)).symm

/-! ### non-vacuity: concrete documents with kind conflicts, a null override, unequal lists -/

def i (n : Nat) : Node := .leaf ⟨"int", toString n⟩
def exA : AMap Node := [("a", i 1), ("b", .cont [("x", i 1)]), ("c", .list [i 1, .cont [("p", i 1)], i 3]), ("d", i 4)]
def exB : AMap Node := [("a", Node.null), ("b", .list [i 9]), ("c", .list [Node.null, .cont [("q", i 2)]]), ("e", i 5)]

theorem nonvacuous_wf : (Node.cont exA).WF ∧ (Node.cont exB).WF :=
  ⟨wf_of_wfb _ (by decide), wf_of_wfb _ (by decide)⟩

theorem nonvacuous_meld : mergeC .meld exA exB =
    [("a", i 1), ("b", .list [i 9]), ("c", .list [i 1, .cont [("p", i 1), ("q", i 2)], i 3]), ("d", i 4), ("e", i 5)] := by
  decide

theorem nonvacuous_append : mergeC .append exA exB =
    [("a", i 1), ("b", .list [i 9]),
     ("c", .list [i 1, .cont [("p", i 1)], i 3, Node.null, .cont [("q", i 2)]]), ("d", i 4), ("e", i 5)] := by
  decide

end Ytk.C04
