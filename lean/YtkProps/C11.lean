/-
  C11 — placeholder resolution: substitution, defaults, termination, true cycles only.

  Model: YtkModel/Resolver.lean (token lists; `norm` = re-lexing of the resolved placeholder
  text, arbitrary in every theorem below; `tbl` any lookup table; `seen` any expansion stack).
  `Resolves norm tbl s seen r` : some fuel suffices and the result is `r` (ok / cycle);
  by `fuel_mono` every larger fuel gives the same `r`.

  Proved here: no-prefix identity, fuel monotonicity, the case table of one placeholder
  (`resolve_one` + `resolvePlaceholder_*` + `resolve_unterminated`), the concatenation
  homomorphism for delimiter-balanced lists with its corollaries `resolve_dup` (a repeated
  template is circular only if one copy is — the D16 clause) and `resolve_text_preserved`.

  Also proved (see the sections below and the status block at the end of the file):
  `cycle_iff_onStack` (true cycles only), termination for delimiter-balanced tables and under
  the finite-reach hypothesis, the REFUTATION of general termination
  (`resolve_diverges_counterexample`: a 2-entry table with unbalanced values on which no fuel
  suffices; the Go code overflows its stack), `resolve_refines_evalT` on the flat fragment and, under the
  key-safety hypothesis, for nested keys (both directions: `resolve_iff_evalT_nested_partial`); the
  real `norm` (re-lexing): irrelevant on inputs without
  partial delimiters and, per run, whenever it is stable on the texts the run looks up
  (`stableRun`); divergent on a balanced table with a partial delimiter.
-/
import YtkProofs.Resolver
import YtkProofs.ResolverSem
import YtkProofs.ResolverTerm
import YtkProofs.ResolverDiverge
import YtkProofs.ResolverEval
import YtkProofs.ResolverNested
import YtkProofs.ResolverRelex
import YtkProofs.ResolverNestedConv
import YtkProofs.ResolverStable
import YtkProofs.FuncsLemmas
import YtkProofs.FuncsResolver
import YtkProofs.GapResolverStr

namespace Ytk.C11
open Ytk.Resolver

def tA : Toks := [.ch 'a']
def phA : Toks := [.pre, .ch 'a', .suf]

variable (norm : Toks → Toks) (tbl : Table)

/-- Resolve(s) == s when s has no prefix. -/
theorem resolve_noPre (n : Nat) (s : Toks) (seen : List Toks) (h : Tok.pre ∉ s) :
    resolve norm (n + 1) tbl s seen = .ok s :=
  resolve_noPre' norm n tbl seen h

/-- More fuel never changes a result that was reached. -/
theorem fuel_mono {n m : Nat} (hnm : n ≤ m) (s : Toks) (seen : List Toks)
    (h : resolve norm n tbl s seen ≠ .outOfFuel) :
    resolve norm m tbl s seen = resolve norm n tbl s seen :=
  resolve_fuel_mono norm tbl hnm s seen h

/-- The result (ok text or circular reference) is unique, whatever the fuel. -/
theorem resolves_unique {s : Toks} {seen : List Toks} {r r' : Res}
    (h : Resolves norm tbl s seen r) (h' : Resolves norm tbl s seen r') : r = r' :=
  h.unique h'

/-- `resolvePlaceholder`: exact key known. -/
theorem resolvePlaceholder_known {ph v : Toks} (h : tbl.get ph = some v) :
    resolvePlaceholder tbl ph = some v := by
  simp [resolvePlaceholder, h]

/-- `resolvePlaceholder`: whole text unknown, key before the FIRST separator known. -/
theorem resolvePlaceholder_key {k d v : Toks} (hs : Tok.sep ∉ k)
    (h : tbl.get (k ++ Tok.sep :: d) = none) (hk : tbl.get k = some v) :
    resolvePlaceholder tbl (k ++ Tok.sep :: d) = some v := by
  simp [resolvePlaceholder, h, findSep_append_of_not_mem d hs, hk]

/-- `resolvePlaceholder`: unknown key with separator → the text after the first separator. -/
theorem resolvePlaceholder_default {k d : Toks} (hs : Tok.sep ∉ k)
    (h : tbl.get (k ++ Tok.sep :: d) = none) (hk : tbl.get k = none) :
    resolvePlaceholder tbl (k ++ Tok.sep :: d) = some d := by
  simp [resolvePlaceholder, h, findSep_append_of_not_mem d hs, hk]

/-- `resolvePlaceholder`: unknown, no separator → unresolvable. -/
theorem resolvePlaceholder_none {ph : Toks} (hs : Tok.sep ∉ ph) (h : tbl.get ph = none) :
    resolvePlaceholder tbl ph = none := by
  simp [resolvePlaceholder, h, findSep_none_of_not_mem hs]

/-- Case table for the first placeholder `before ++ pre :: ph ++ suf :: after` (`ph` closed by
    that suffix): circular iff `ph` is on the expansion stack; otherwise nested placeholders in
    `ph` are resolved first, a known key / default is resolved recursively and substituted, an
    unresolvable placeholder stays verbatim (in its ORIGINAL form); text before it is copied;
    scanning continues behind it with the SAME stack `seen` (the D16 repair). -/
theorem resolve_one (n : Nat) (before ph after : Toks) (seen : List Toks) (hb : Tok.pre ∉ before)
    (hph : findEnd 0 (ph ++ Tok.suf :: after) = some (ph, after)) :
    resolve norm (n + 1) tbl (before ++ Tok.pre :: (ph ++ Tok.suf :: after)) seen =
      if seen.contains ph then .cycle ph
      else
        match resolve norm n tbl ph (seen ++ [ph]) with
        | .ok ph' =>
          match resolvePlaceholder tbl (norm ph') with
          | some pv =>
            match resolve norm n tbl pv (seen ++ [ph]) with
            | .ok pv' => (resolve norm n tbl after seen).prepend (before ++ pv')
            | e => e
          | none => (resolve norm n tbl after seen).prepend (before ++ Tok.pre :: ph ++ [Tok.suf])
        | e => e := by
  rw [resolve_succ]; unfold step
  rw [findPre_append_of_not_mem _ hb]
  simp only [hph]
  by_cases hc : seen.contains ph = true
  · simp only [hc, ↓reduceIte]
  · have hc' : seen.contains ph = false := by simpa using hc
    simp only [hc', Bool.false_eq_true, ↓reduceIte, seen_restore hc']
    rfl

/-- the hypothesis of `resolve_one` holds for every flat placeholder text -/
theorem resolve_one_flat_hyp (ph after : Toks) (h1 : Tok.pre ∉ ph) (h2 : Tok.suf ∉ ph) :
    findEnd 0 (ph ++ Tok.suf :: after) = some (ph, after) :=
  findEnd_flat after h1 h2

/-- Unterminated placeholder: verbatim, and scanning stops. -/
theorem resolve_unterminated (n : Nat) (before afterPre : Toks) (seen : List Toks)
    (hb : Tok.pre ∉ before) (h : findEnd 0 afterPre = none) :
    resolve norm (n + 1) tbl (before ++ Tok.pre :: afterPre) seen = .ok (before ++ Tok.pre :: afterPre) := by
  rw [resolve_succ]; unfold step
  rw [findPre_append_of_not_mem _ hb]
  simp only [h]

/-- Resolve(s₁ ++ s₂) = Resolve(s₁) ⊕ Resolve(s₂) for delimiter-balanced s₁ (⊕ concatenates and
    lets the first circular reference win). -/
theorem resolve_append_balanced {s₁ s₂ : Toks} {seen : List Toks} {r₁ r₂ : Res} (hb : Balanced s₁)
    (h₁ : Resolves norm tbl s₁ seen r₁) (h₂ : Resolves norm tbl s₂ seen r₂) :
    Resolves norm tbl (s₁ ++ s₂) seen (r₁.seq r₂) := by
  obtain ⟨n, hn, hr⟩ := h₁
  subst hn
  exact resolves_append_aux norm tbl s₂ n s₁ seen r₂ hb hr h₂

/-- A template written twice resolves to its result twice; in particular … -/
theorem resolve_dup {s : Toks} {seen : List Toks} {r : Res} (hb : Balanced s)
    (h : Resolves norm tbl s seen r) : Resolves norm tbl (s ++ s) seen (r.seq r) :=
  resolve_append_balanced norm tbl hb h h

/-- … the doubled template reports a circular reference only if the single one does
    (never merely because a placeholder occurs twice). -/
theorem resolve_dup_cycle_only_if {s : Toks} {seen : List Toks} {r r' : Res} {o : Toks} (hb : Balanced s)
    (h : Resolves norm tbl s seen r) (h' : Resolves norm tbl (s ++ s) seen r') (hc : r' = .cycle o) :
    r = .cycle o := by
  have e := (resolve_dup norm tbl hb h).unique h'
  subst hc
  cases r <;> simp_all [Res.seq]

/-- Text outside placeholders is never altered: plain text around a balanced template is copied. -/
theorem resolve_text_preserved {t₁ s t₂ : Toks} {seen : List Toks} {r : Res} (h₁ : Tok.pre ∉ t₁)
    (h₂ : Tok.pre ∉ t₂) (hb : Balanced s) (h : Resolves norm tbl s seen r) :
    Resolves norm tbl (t₁ ++ (s ++ t₂)) seen (((r.seq (.ok t₂))).prepend t₁) := by
  have ht₂ : Resolves norm tbl t₂ seen (.ok t₂) := ⟨1, resolve_noPre' norm 0 tbl seen h₂, by simp⟩
  obtain ⟨n, hn, hr⟩ := resolve_append_balanced norm tbl hb h ht₂
  refine ⟨n + 1, ?_, prepend_ne_outOfFuel.mpr hr⟩
  rw [resolve_text_prepend norm n tbl _ seen h₁,
    resolve_fuel_mono norm tbl (Nat.le_succ n) _ _ (by rw [hn]; exact hr), hn]

/-! ## circular references are true cycles (`Reaches`, `Dep`: YtkProofs/ResolverSem.lean) -/

/-- `cycle o` is returned only if the scanner arrives at a placeholder with text `o` while a
    placeholder with text `o` is still being expanded (`o` on the expansion stack) — for every
    fuel, stack, table and `norm`.  `Reaches` never looks at how often a text occurs: its stack
    is extended exactly for the expansion of a placeholder's key part and value, and is back to
    the old stack behind the placeholder. -/
theorem cycle_only_if_onStack (n : Nat) (s : Toks) (seen : List Toks) (o : Toks)
    (h : resolve norm n tbl s seen = .cycle o) : Reaches norm tbl seen s o :=
  reaches_of_cycle n s seen o h

/-- conversely, with enough fuel a placeholder met on the stack is reported (and stays reported
    for every larger fuel) -/
theorem cycle_if_onStack {s : Toks} {seen : List Toks} {o : Toks} (h : Reaches norm tbl seen s o) :
    ∃ n, ∀ m, n ≤ m → resolve norm m tbl s seen = .cycle o :=
  (cycle_of_reaches h).fuel

/-- `cycle_iff_onStack` of DESIGN §6 (the fuel is quantified: for a FIXED fuel the direction
    from right to left is false, small fuel gives `outOfFuel`). -/
theorem cycle_iff_onStack (s : Toks) (seen : List Toks) (o : Toks) :
    (∃ n, resolve norm n tbl s seen = .cycle o) ↔ Reaches norm tbl seen s o :=
  ⟨fun ⟨n, h⟩ => reaches_of_cycle n s seen o h, fun h => ⟨_, (cycle_of_reaches h).choose_spec.1⟩⟩

/-- True cycles only, in terms of the dependency relation between placeholder texts
    (`Dep p q`: `q` is a placeholder in the text `p` or in the value / default `p` is replaced by):
    a circular reference reported by `Resolve(s)` (empty initial stack) names a text `o` that is
    reached from a placeholder of `s` and DEPENDS ON ITSELF through at least one expansion step. -/
theorem cycle_is_true_cycle (n : Nat) (s o : Toks) (h : resolveTop norm n tbl s = .cycle o) :
    (∃ p, TopPh s p ∧ (p = o ∨ Relation.TransGen (Dep norm tbl) p o)) ∧
      Relation.TransGen (Dep norm tbl) o o := by
  obtain ⟨p, hp, hpo, hc⟩ := reaches_dep (reaches_of_cycle n s [] o h)
  exact ⟨⟨p, hp, hpo⟩, by simpa using hc⟩

/-- the same for an arbitrary initial stack: on the stack already, or a true cycle -/
theorem cycle_onStack_or_true_cycle (n : Nat) (s : Toks) (seen : List Toks) (o : Toks)
    (h : resolve norm n tbl s seen = .cycle o) :
    o ∈ seen ∨ Relation.TransGen (Dep norm tbl) o o :=
  (reaches_dep (reaches_of_cycle n s seen o h)).choose_spec.2.2

/-! ## termination (YtkProofs/ResolverTerm.lean) and its failure (YtkProofs/ResolverDiverge.lean)

  The general statement of DESIGN §6

      resolve_terminates : ∀ finite tbl s, ∃ n, ∀ m ≥ n, resolve id m tbl s [] ≠ .outOfFuel      -- REFUTED

  is FALSE (`resolve_diverges_counterexample`, `resolve_terminates_refuted`): values that are not
  delimiter-balanced (an unterminated `${`, a stray `}`) glue into placeholder texts that occur
  nowhere in the table or the input, the re-scanned default produces a new text in every round
  and the stack test never fires.  The Go code dies with "fatal error: stack overflow" on the
  same table (not the Circular-placeholder panic; not recoverable).

  What IS proved: termination under the finite-reach hypothesis (every placeholder text met lies
  in one finite list), and — the instance that matters — for every table whose values are all
  delimiter-balanced, for every input (balanced or not) and every stack. -/

/-- Termination under the precise extra hypothesis: an invariant `Inv` of the strings the
    resolver is called on (closed under placeholder texts, rests, looked-up values / defaults:
    `FiniteReach`) such that the text of every placeholder found in such a string lies in the
    finite list `W`.  Measure: (entries of `W` not on the stack, token count), lexicographic. -/
theorem resolve_terminates_of_finite_reach_partial {Inv : Toks → Prop} {W : List Toks}
    (H : FiniteReach norm tbl Inv W) (s : Toks) (seen : List Toks) (hs : Inv s) :
    ∃ n, ∀ m, n ≤ m → resolve norm m tbl s seen ≠ .outOfFuel := by
  obtain ⟨r, hr⟩ := resolves_of_finiteReach H s seen hs
  obtain ⟨n, hn⟩ := hr.fuel
  exact ⟨n, fun m hm => by rw [hn m hm]; exact hr.ne⟩

/-- `resolve_terminates` for GRAMMAR TABLES: if every table value is delimiter-balanced (every
    prefix is closed inside the value; `norm = id`), resolution of ANY token list `s` — balanced
    or with an unterminated tail — on ANY stack ends: with a text or with a circular reference.
    `_partial`: the statement for arbitrary finite tables is refuted below; `norm` is `id`
    (no re-lexing of glued delimiter halves). -/
theorem resolve_terminates_balanced_partial (tbl : Table) (hb : ∀ kv ∈ tbl, Balanced kv.2)
    (s : Toks) (seen : List Toks) :
    ∃ n, ∀ m, n ≤ m → resolve id m tbl s seen ≠ .outOfFuel := by
  obtain ⟨r, hr⟩ := resolves_balanced tbl hb s seen
  obtain ⟨n, hn⟩ := hr.fuel
  exact ⟨n, fun m hm => by rw [hn m hm]; exact hr.ne⟩

/-- the flat fragment as a corollary: table values without any prefix token (plain text values;
    the input may nest placeholders and defaults arbitrarily) -/
theorem resolve_terminates_flat_partial (tbl : Table) (hflat : ∀ kv ∈ tbl, Tok.pre ∉ kv.2)
    (s : Toks) (seen : List Toks) :
    ∃ n, ∀ m, n ≤ m → resolve id m tbl s seen ≠ .outOfFuel :=
  resolve_terminates_balanced_partial tbl (fun kv h => Balanced.of_noPre (hflat kv h)) s seen

/-- the placeholder texts a balanced table can ever make the resolver look at: those present in
    the input and in the table values (`allPhs`) — the content of the finite-reach hypothesis -/
theorem balanced_finite_reach (tbl : Table) (hb : ∀ kv ∈ tbl, Balanced kv.2) (s : Toks) :
    FiniteReach id tbl (fun t => allPhs t ⊆ allPhs s ++ tbl.flatMap fun kv => allPhs kv.2)
      (allPhs s ++ tbl.flatMap fun kv => allPhs kv.2) :=
  finiteReach_balanced hb fun kv hkv _ hq =>
    List.mem_append_right _ (List.mem_flatMap.mpr ⟨kv, hkv, hq⟩)

/-- COUNTEREXAMPLE to general termination.  Table  o = "${",  a = "${o}a}}${:${a}w",
    input "${:${a}${a}}" (default delimiters; the empty key is unknown): NO fuel suffices. -/
theorem resolve_diverges_counterexample (fuel : Nat) :
    resolveTop id fuel
      [([.ch 'o'], [.pre]),
       ([.ch 'a'], [.pre, .ch 'o', .suf, .ch 'a', .suf, .suf, .pre, .sep, .pre, .ch 'a', .suf, .ch 'w'])]
      [.pre, .sep, .pre, .ch 'a', .suf, .pre, .ch 'a', .suf, .suf] = .outOfFuel :=
  Div.diverges fuel

/-- the first witness found (4 keys: o = "${", c = "}", b = "${o}u:${o}b${c}",
    e = "w${o}e${c}${o}c${c}", input "${u:${b}${e}${c}}"), kernel-evaluated for ONE fuel only
    (every terminating case of the harness' exhaustive streams ends within 13 calls); the proof
    for all fuels is given for the 2-key witness above -/
theorem resolve_diverges_witness4 :
    resolveTop id 40
      [([.ch 'o'], [.pre]), ([.ch 'c'], [.suf]),
       ([.ch 'b'], [.pre, .ch 'o', .suf, .ch 'u', .sep, .pre, .ch 'o', .suf, .ch 'b', .pre, .ch 'c', .suf]),
       ([.ch 'e'], [.ch 'w', .pre, .ch 'o', .suf, .ch 'e', .pre, .ch 'c', .suf, .pre, .ch 'o', .suf,
          .ch 'c', .pre, .ch 'c', .suf])]
      [.pre, .ch 'u', .sep, .pre, .ch 'b', .suf, .pre, .ch 'e', .suf, .pre, .ch 'c', .suf, .suf]
      = .outOfFuel := by
  decide +kernel

/-- hence the general `resolve_terminates` is refuted -/
theorem resolve_terminates_refuted :
    ¬ ∀ (tbl : Table) (s : Toks), ∃ n, ∀ m, n ≤ m → resolve id m tbl s [] ≠ .outOfFuel := by
  intro h
  obtain ⟨n, hn⟩ := h Div.tblD (Div.D 0)
  exact hn n (Nat.le_refl n) (Div.diverges n)

/-- the token lists of the witness are what the lexer makes of the Go-side strings -/
theorem nonvacuous_witness_lex :
    let d : Delims := ⟨['$', '{'], ['}'], [':']⟩
    lex d ['$', '{'] = [.pre] ∧
    lex d ['$', '{', 'o', '}', 'a', '}', '}', '$', '{', ':', '$', '{', 'a', '}', 'w'] =
      [.pre, .ch 'o', .suf, .ch 'a', .suf, .suf, .pre, .sep, .pre, .ch 'a', .suf, .ch 'w'] ∧
    lex d ['$', '{', ':', '$', '{', 'a', '}', '$', '{', 'a', '}', '}'] =
      [.pre, .sep, .pre, .ch 'a', .suf, .pre, .ch 'a', .suf, .suf] := by
  decide

/-- the witness is outside the balanced domain (both values), the cyclic tables used above are
    inside it -/
theorem nonvacuous_balanced_domain :
    ¬ Balanced [Tok.pre] ∧
    ¬ Balanced [.pre, .ch 'o', .suf, .ch 'a', .suf, .suf, .pre, .sep, .pre, .ch 'a', .suf, .ch 'w'] ∧
    (∀ kv ∈ [(tA, [Tok.pre, .ch 'b', .suf]), ([.ch 'b'], phA)], Balanced kv.2) := by
  refine ⟨by decide, by decide, ?_⟩
  intro kv h
  simp only [List.mem_cons, List.not_mem_nil, or_false] at h
  rcases h with rfl | rfl <;> decide

/-! ## agreement with a recursive-descent evaluator (YtkProofs/ResolverEval.lean)

  `Tmpl` is the AST of the FLAT fragment of the grammar (`done | lit text rest | ph key rest |
  phd key default rest`: keys are plain text, defaults and table values are templates of the
  fragment, table keys are plain text), `render` its token list, `evalT` the reference semantics
  (known key → evaluated value; unknown key → evaluated default, else verbatim; circular iff the
  placeholder text is being expanded; the default is evaluated before the key is looked up).

  Full statement (NOT proved): the same for templates whose keys are templates themselves
  (`ph (key : Tmpl) …`).  With
  nested keys the resolved key text can contain separators that come out of substituted values
  or of verbatim blocks, so the resolver's split at the FIRST separator of the resolved text no
  longer follows the AST; an extra hypothesis on the table (separator-free outputs) is needed. -/

/-- `resolve_refines_evalT`, flat fragment: whenever the reference evaluator ends — with a text or
    with a circular reference — the resolver ends with the SAME result on the rendered template
    (for every fuel from some point on, for every stack).  Note that the resolver scans an
    evaluated default a second time; the proof shows that evaluated texts are inert (`Inert`). -/
theorem resolve_refines_evalT_flat_partial {tt : TTable} (hT : tt.WF) (n : Nat) (t : Tmpl)
    (st : List Toks) (ht : t.WF) (h : evalT tt n t st ≠ .outOfFuel) :
    ∃ k, ∀ m, k ≤ m → resolve id m (toTable tt) (render t) st = evalT tt n t st :=
  (evalT_refines hT n t st _ ht rfl h).1.fuel

/-- both directions, fuel-free: the resolver ends with `r` (a text or a circular reference) on
    the rendered template iff the reference evaluator ends with `r` -/
theorem resolve_iff_evalT_flat_partial {tt : TTable} (hT : tt.WF) (t : Tmpl) (st : List Toks)
    (ht : t.WF) (r : Res) :
    Resolves id (toTable tt) (render t) st r ↔ ∃ m, evalT tt m t st = r ∧ r ≠ .outOfFuel :=
  resolves_iff_evalT hT t st ht r

/-- same string, or both circular (with the same text) -/
theorem resolve_refines_evalT_flat_cases_partial {tt : TTable} (hT : tt.WF) (n : Nat) (t : Tmpl)
    (st : List Toks) (ht : t.WF) :
    (∀ out, evalT tt n t st = .ok out → Resolves id (toTable tt) (render t) st (.ok out)) ∧
    (∀ o, evalT tt n t st = .cycle o → Resolves id (toTable tt) (render t) st (.cycle o)) :=
  ⟨fun _ e => (evalT_refines hT n t st _ ht e (by simp)).1,
   fun _ e => (evalT_refines hT n t st _ ht e (by simp)).1⟩

/-- the evaluated text of a template contains nothing a further scan would change -/
theorem evalT_idempotent_partial {tt : TTable} (hT : tt.WF) (n : Nat) (t : Tmpl) (st : List Toks)
    (ht : t.WF) {out : Toks} (h : evalT tt n t st = .ok out) :
    Resolves id (toTable tt) out st (.ok out) :=
  ((evalT_refines hT n t st _ ht h (by simp)).2 out rfl).resolves

/-! ## nested keys: agreement with the recursive-descent evaluator (YtkProofs/ResolverNested.lean)

  `Tmpl2` is the AST of the FULL grammar (`done | lit text rest | ph key rest | phd key default rest`
  where `key` and `default` are templates again: `${a${b}}`, `${${k}:dflt}`; literal text is free of
  prefix / suffix tokens but may contain separators), `render2` its token list, `evalT2` the
  reference semantics read off the Go code: the key template is evaluated (and then the default,
  both with the placeholder's ORIGINAL text on the stack), the evaluated key text is looked up;
  known → evaluated value; unknown → evaluated default, else the placeholder stays verbatim in its
  original form; circular iff the placeholder's original text is being expanded.
  Table: keys are separator-free token lists, values are templates (`TTable2.WF`).

  FULL (unconditional) statement — FALSE, see `nested_needs_sepfree_counterexample`:

      ∀ tt n t st, tt.WF → t.WF → evalT2 tt n t st ≠ .outOfFuel →
        Resolves id (toTable2 tt) (render2 t) st (evalT2 tt n t st)

  The resolver splits the RESOLVED placeholder text at its FIRST separator; a separator that comes
  out of a substituted value (or of literal key text, or of a verbatim block) in key position moves
  the split away from the one in the AST.  Hypothesis that makes it true (`keySafe tt n t st`,
  a decidable Boolean with the recursion of `evalT2`): every key text that this run evaluates and
  looks up is separator-free.  Nothing is required of prefix / suffix tokens in key texts (verbatim
  blocks of unknown inner keys are fine), nothing of values that never reach a key position, and
  nothing of the parts of the template that the run does not execute. -/

/-- `resolve_refines_evalT`, nested keys: whenever the reference evaluator ends — with a text or
    with a circular reference — on a run whose evaluated key texts are separator-free, the resolver
    ends with the SAME result on the rendered template (for every fuel from some point on, for
    every stack). -/
theorem resolve_refines_evalT_nested_partial {tt : TTable2} (hT : tt.WF) (n : Nat) (t : Tmpl2)
    (st : List Toks) (ht : t.WF) (h : evalT2 tt n t st ≠ .outOfFuel) (hk : keySafe tt n t st = true) :
    ∃ k, ∀ m, k ≤ m → resolve id m (toTable2 tt) (render2 t) st = evalT2 tt n t st :=
  (evalT2_refines hT n t st _ ht rfl h hk).1.fuel

/-- same string, or both circular (with the same text) -/
theorem resolve_refines_evalT_nested_cases_partial {tt : TTable2} (hT : tt.WF) (n : Nat) (t : Tmpl2)
    (st : List Toks) (ht : t.WF) (hk : keySafe tt n t st = true) :
    (∀ out, evalT2 tt n t st = .ok out → Resolves id (toTable2 tt) (render2 t) st (.ok out)) ∧
    (∀ o, evalT2 tt n t st = .cycle o → Resolves id (toTable2 tt) (render2 t) st (.cycle o)) :=
  ⟨fun _ e => (evalT2_refines hT n t st _ ht e (by simp) hk).1,
   fun _ e => (evalT2_refines hT n t st _ ht e (by simp) hk).1⟩

/-- the evaluated text of a template contains nothing a further scan would change (verbatim
    blocks `${a${b}}` of unknown keys included: they are re-evaluated to themselves) -/
theorem evalT2_idempotent_partial {tt : TTable2} (hT : tt.WF) (n : Nat) (t : Tmpl2) (st : List Toks)
    (ht : t.WF) (hk : keySafe tt n t st = true) {out : Toks} (h : evalT2 tt n t st = .ok out) :
    Resolves id (toTable2 tt) out st (.ok out) :=
  ((evalT2_refines hT n t st _ ht h (by simp) hk).2 out rfl).2

/-- the hypothesis in STATIC, table-level form (decidable, syntactic): every table value has
    separator-free output (`Tmpl2.SepFreeOut`: literal text without separator; a placeholder
    without default, which may stay verbatim, has separator-free text; a placeholder with default
    has a `SepFreeOut` default) and safe keys, and every key sub-template of the template and of the
    values is `SepFreeOut` (`Tmpl2.KeysOK`, `TTable2.KeySafe`).  Then EVERY run is key-safe. -/
theorem keySafe_of_static_table {tt : TTable2} (hS : tt.KeySafe) (n : Nat) (t : Tmpl2)
    (st : List Toks) (hk : t.KeysOK) : keySafe tt n t st = true :=
  keySafe_of_static hS n t st hk

/-- `resolve_refines_evalT`, nested keys, under the static table hypothesis -/
theorem resolve_refines_evalT_nested_static_partial {tt : TTable2} (hT : tt.WF) (hS : tt.KeySafe)
    (n : Nat) (t : Tmpl2) (st : List Toks) (ht : t.WF) (hk : t.KeysOK)
    (h : evalT2 tt n t st ≠ .outOfFuel) :
    ∃ k, ∀ m, k ≤ m → resolve id m (toTable2 tt) (render2 t) st = evalT2 tt n t st :=
  resolve_refines_evalT_nested_partial hT n t st ht h (keySafe_of_static hS n t st hk)

/-- the static hypotheses hold for the table and template of `nonvacuous_nested` and for
    `${${k}:d${b}}` (nested key with default); they fail for the table of the counterexample
    (a = `k:z`), and the per-run hypothesis is strictly weaker: the table of
    `nonvacuous_nested_default` (a1 = `x:y`, never in key position) is not `KeySafe` -/
theorem nonvacuous_nested_static :
    let tt : TTable2 := [([.ch 'b'], .lit [.ch '1'] .done), ([.ch 'a', .ch '1'], .lit [.ch 'x'] .done),
      ([.ch 'k'], .lit [.ch 'u'] .done)]
    let phB : Tmpl2 := .ph (.lit [.ch 'b'] .done) .done
    tt.WF ∧ tt.KeySafe ∧ (Tmpl2.ph (.lit tA phB) .done).KeysOK ∧
    (Tmpl2.phd (.ph (.lit [.ch 'k'] .done) .done) (.lit [.ch 'd'] phB) .done).KeysOK ∧
    ¬ TTable2.KeySafe [(tA, .lit [.ch 'k', .sep, .ch 'z'] .done)] ∧
    ¬ TTable2.KeySafe [([.ch 'a', .ch '1'], .lit [.ch 'x', .sep, .ch 'y'] .done)] := by
  decide

/-- a genuinely nested key: `${a${b}}` with b = `1`, a1 = `x`  →  `x` (hypotheses satisfied, the
    evaluator and the resolver agree) -/
theorem nonvacuous_nested :
    let tt : TTable2 := [([.ch 'b'], .lit [.ch '1'] .done), ([.ch 'a', .ch '1'], .lit [.ch 'x'] .done)]
    let t : Tmpl2 := .ph (.lit tA (.ph (.lit [.ch 'b'] .done) .done)) .done
    tt.WF ∧ t.WF ∧ keySafe tt 10 t [] = true ∧
    render2 t = [.pre, .ch 'a', .pre, .ch 'b', .suf, .suf] ∧
    evalT2 tt 10 t [] = .ok [.ch 'x'] ∧
    resolveTop id 10 (toTable2 tt) (render2 t) = .ok [.ch 'x'] := by
  decide

/-- nested keys with defaults, known and unknown, and a verbatim nested block:
    `${${k}:d${b}}|${a${b}:z:z}|${q${b}}|${a${u}:${b}}` with b = `1`, a1 = `x:y` (a value with a
    separator, NOT in key position), k = `u`  →  `d1|x:y|${q${b}}|1` -/
theorem nonvacuous_nested_default :
    let tt : TTable2 := [([.ch 'b'], .lit [.ch '1'] .done),
      ([.ch 'a', .ch '1'], .lit [.ch 'x', .sep, .ch 'y'] .done), ([.ch 'k'], .lit [.ch 'u'] .done)]
    let phB : Tmpl2 := .ph (.lit [.ch 'b'] .done) .done
    let t : Tmpl2 :=
      .phd (.ph (.lit [.ch 'k'] .done) .done) (.lit [.ch 'd'] phB)
        (.lit [.ch '|'] (.phd (.lit tA phB) (.lit [.ch 'z', .sep, .ch 'z'] .done)
          (.lit [.ch '|'] (.ph (.lit [.ch 'q'] phB)
            (.lit [.ch '|'] (.phd (.lit tA (.ph (.lit [.ch 'u'] .done) .done)) phB .done))))))
    tt.WF ∧ t.WF ∧ keySafe tt 12 t [] = true ∧
    evalT2 tt 12 t [] = .ok [.ch 'd', .ch '1', .ch '|', .ch 'x', .sep, .ch 'y', .ch '|',
      .pre, .ch 'q', .pre, .ch 'b', .suf, .suf, .ch '|', .ch '1'] ∧
    resolveTop id 12 (toTable2 tt) (render2 t) = evalT2 tt 12 t [] := by
  decide

/-- … and a circular one through a nested key: a1 = `${a${b}}`, b = `1` -/
theorem nonvacuous_nested_cycle :
    let t : Tmpl2 := .ph (.lit tA (.ph (.lit [.ch 'b'] .done) .done)) .done
    let tt : TTable2 := [([.ch 'b'], .lit [.ch '1'] .done), ([.ch 'a', .ch '1'], t)]
    tt.WF ∧ t.WF ∧ keySafe tt 10 t [] = true ∧
    evalT2 tt 10 t [] = .cycle [.ch 'a', .pre, .ch 'b', .suf] ∧
    resolveTop id 10 (toTable2 tt) (render2 t) = .cycle [.ch 'a', .pre, .ch 'b', .suf] := by
  decide

/-- WHY the hypothesis is needed: `${${a}}` with a = `k:z`.  The AST says: the key `${a}` evaluates
    to the text `k:z`, which is unknown, and the placeholder has no default → verbatim `${${a}}`.
    The resolver splits the resolved text `k:z` at its separator: key `k` unknown, default `z`. -/
theorem nested_needs_sepfree_counterexample :
    let tt : TTable2 := [(tA, .lit [.ch 'k', .sep, .ch 'z'] .done)]
    let t : Tmpl2 := .ph (.ph (.lit tA .done) .done) .done
    tt.WF ∧ t.WF ∧ keySafe tt 10 t [] = false ∧
    evalT2 tt 10 t [] = .ok [.pre, .pre, .ch 'a', .suf, .suf] ∧
    resolveTop id 10 (toTable2 tt) (render2 t) = .ok [.ch 'z'] := by
  decide

/-- hence the unconditional statement is refuted -/
theorem resolve_refines_evalT_nested_unconditional_refuted :
    ¬ ∀ (tt : TTable2) (n : Nat) (t : Tmpl2) (st : List Toks), tt.WF → t.WF →
        evalT2 tt n t st ≠ .outOfFuel → Resolves id (toTable2 tt) (render2 t) st (evalT2 tt n t st) := by
  intro h
  have h₁ := h [(tA, .lit [.ch 'k', .sep, .ch 'z'] .done)] 10 (.ph (.ph (.lit tA .done) .done) .done) []
    (by decide) (by decide) (by decide)
  have h₂ : Resolves id (toTable2 [(tA, .lit [.ch 'k', .sep, .ch 'z'] .done)])
      (render2 (.ph (.ph (.lit tA .done) .done) .done)) [] (.ok [.ch 'z']) := ⟨10, by decide, by simp⟩
  have := h₁.unique h₂
  revert this
  decide

/-! ### nested keys: the CONVERSE direction (YtkProofs/ResolverNestedConv.lean)

  `resolve_refines_evalT_nested_partial` says: the evaluator ends ⇒ the resolver ends, same result.
  Here: the resolver ends (with a text or a circular reference) ⇒ the evaluator ends, same result;
  together a fuel-free equivalence.

  FULL (unconditional) statement — FALSE (`resolve_iff_evalT_nested_unconditional_refuted`, same
  witness as `nested_needs_sepfree_counterexample`):

      ∀ tt t st r, tt.WF → t.WF →
        (Resolves id (toTable2 tt) (render2 t) st r ↔ ∃ m, evalT2 tt m t st = r ∧ r ≠ .outOfFuel)

  Hypothesis: key-safety of the evaluator's run.  `keySafe tt m t st` inspects exactly what
  `evalT2 tt m t st` executes and therefore depends on the fuel `m`; in the converse direction no
  run of the evaluator that ends is known beforehand, so the hypothesis is stated for every
  sufficiently large fuel:  `∃ m0, ∀ m ≥ m0, keySafe tt m t st = true`  (`KeySafeEv`).  It follows
  * from ONE run that ends and is key-safe (`keySafe_stable`: more fuel repeats the run) — the
    hypotheses of `resolve_refines_evalT_nested_partial`, see `resolve_iff_evalT_nested_run_partial`;
  * from the static table-level predicate (`resolve_iff_evalT_nested_static_partial`);
  and, the evaluator being total (`evalT2_total_nested`), it says exactly: the run is key-safe when
  it has ended (`keySafe_eventually_iff_ended`, `resolve_iff_evalT_nested_ended_partial`).
  Proof of the converse: induction on the resolver's fuel; the text `key:default` of a placeholder
  is a concatenation, so "fuel n suffices for s₁ ++ s₂" is inverted into "fuel n suffices for the
  balanced s₁" and "… for s₂ if s₁ gives a text" (`Ends.append_left/right`); sub-runs inherit
  key-safety; results are combined by fuel monotonicity of `evalT2`. -/

/-- more fuel never changes a result of the reference evaluator that was reached -/
theorem evalT2_fuel_mono_nested {tt : TTable2} {n m : Nat} (hnm : n ≤ m) (t : Tmpl2) (st : List Toks)
    (h : evalT2 tt n t st ≠ .outOfFuel) : evalT2 tt m t st = evalT2 tt n t st :=
  evalT2_fuel_mono tt hnm t st h

/-- once the run has ended, more fuel does not change its key-safety (the same sub-runs are
    inspected) -/
theorem keySafe_stable {tt : TTable2} {n m : Nat} (hnm : n ≤ m) (t : Tmpl2) (st : List Toks)
    (h : evalT2 tt n t st ≠ .outOfFuel) : keySafe tt m t st = keySafe tt n t st :=
  keySafe_fuel_mono tt hnm t st h

/-- the two "Ends of a concatenation" inversions, at a FIXED fuel, any `norm`, any table: if fuel
    `n` suffices for `s₁ ++ s₂` and `s₁` is delimiter-balanced, then fuel `n` suffices for `s₁`, and,
    if `s₁` resolves to a text, for `s₂` (the converse of `resolve_append_balanced`) -/
theorem resolve_append_balanced_inv {s₁ s₂ : Toks} {seen : List Toks} (n : Nat) (hb : Balanced s₁)
    (h : resolve norm n tbl (s₁ ++ s₂) seen ≠ .outOfFuel) :
    resolve norm n tbl s₁ seen ≠ .outOfFuel ∧
      ∀ t, resolve norm n tbl s₁ seen = .ok t → resolve norm n tbl s₂ seen ≠ .outOfFuel :=
  Ends.append_inv s₂ n s₁ seen hb h

/-- `resolve_iff_evalT`, nested keys, both directions, fuel-free: on runs that are key-safe for
    every sufficiently large fuel, the resolver ends with `r` (a text or a circular reference) on
    the rendered template iff the reference evaluator ends with `r`, for every stack.
    `_partial`: the key-safety hypothesis cannot be dropped (refuted below). -/
theorem resolve_iff_evalT_nested_partial {tt : TTable2} (hT : tt.WF) (t : Tmpl2) (st : List Toks)
    (ht : t.WF) (hk : ∃ m0, ∀ m, m0 ≤ m → keySafe tt m t st = true) (r : Res) :
    Resolves id (toTable2 tt) (render2 t) st r ↔ ∃ m, evalT2 tt m t st = r ∧ r ≠ .outOfFuel :=
  resolves_iff_evalT2 hT t st ht hk r

/-- the converse direction on its own, with the fuels spelled out: if the resolver gives `r`
    (not `outOfFuel`) for SOME fuel, the evaluator gives `r` for every fuel from some point on -/
theorem evalT2_ends_of_resolve_nested_partial {tt : TTable2} (hT : tt.WF) (t : Tmpl2)
    (st : List Toks) (ht : t.WF) (hk : ∃ m0, ∀ m, m0 ≤ m → keySafe tt m t st = true) (n : Nat)
    (h : resolve id n (toTable2 tt) (render2 t) st ≠ .outOfFuel) :
    ∃ k, ∀ m, k ≤ m → evalT2 tt m t st = resolve id n (toTable2 tt) (render2 t) st := by
  obtain ⟨m, hm, hne⟩ := (resolves_iff_evalT2 hT t st ht hk _).mp ⟨n, rfl, h⟩
  exact ⟨m, evalT2_eventually hm hne⟩

/-- the same under exactly the hypotheses of `resolve_refines_evalT_nested_partial`: ONE run of the
    evaluator that ends and is key-safe -/
theorem resolve_iff_evalT_nested_run_partial {tt : TTable2} (hT : tt.WF) (n : Nat) (t : Tmpl2)
    (st : List Toks) (ht : t.WF) (h : evalT2 tt n t st ≠ .outOfFuel) (hk : keySafe tt n t st = true)
    (r : Res) :
    Resolves id (toTable2 tt) (render2 t) st r ↔ ∃ m, evalT2 tt m t st = r ∧ r ≠ .outOfFuel :=
  resolves_iff_evalT2 hT t st ht (KeySafeEv.of_run h hk) r

/-- the same under the static table hypothesis (nothing is assumed about any run) -/
theorem resolve_iff_evalT_nested_static_partial {tt : TTable2} (hT : tt.WF) (hS : tt.KeySafe)
    (t : Tmpl2) (st : List Toks) (ht : t.WF) (hk : t.KeysOK) (r : Res) :
    Resolves id (toTable2 tt) (render2 t) st r ↔ ∃ m, evalT2 tt m t st = r ∧ r ≠ .outOfFuel :=
  resolves_iff_evalT2 hT t st ht (KeySafeEv.of_static hS hk) r

/-- the reference evaluator is TOTAL — every table (well-formed or not), every template, every
    stack: from some fuel on it gives one and the same text or circular reference.  (Measure:
    placeholder texts of the template and the table values not yet on the stack, then the structure
    of the template; compare `resolve_diverges_counterexample`: the RESOLVER is not total.) -/
theorem evalT2_total_nested (tt : TTable2) (t : Tmpl2) (st : List Toks) :
    ∃ k r, r ≠ .outOfFuel ∧ ∀ m, k ≤ m → evalT2 tt m t st = r := by
  obtain ⟨k, hk⟩ := evalT2_total tt t st
  exact ⟨k, _, hk, evalT2_eventually rfl hk⟩

/-- hence the three forms of the key-safety hypothesis say the same thing — "the run of the
    evaluator, when it has ended, is key-safe": key-safe for every sufficiently large fuel ⇔
    key-safe at every fuel that suffices -/
theorem keySafe_eventually_iff_ended (tt : TTable2) (t : Tmpl2) (st : List Toks) :
    (∃ m0, ∀ m, m0 ≤ m → keySafe tt m t st = true) ↔
      ∀ m, evalT2 tt m t st ≠ .outOfFuel → keySafe tt m t st = true :=
  ⟨fun h _ hm => KeySafeEv.ended h hm, KeySafeEv.of_ended⟩

/-- `resolve_iff_evalT`, nested keys, with the hypothesis in that form -/
theorem resolve_iff_evalT_nested_ended_partial {tt : TTable2} (hT : tt.WF) (t : Tmpl2)
    (st : List Toks) (ht : t.WF)
    (hk : ∀ m, evalT2 tt m t st ≠ .outOfFuel → keySafe tt m t st = true) (r : Res) :
    Resolves id (toTable2 tt) (render2 t) st r ↔ ∃ m, evalT2 tt m t st = r ∧ r ≠ .outOfFuel :=
  resolves_iff_evalT2 hT t st ht (KeySafeEv.of_ended hk) r

/-- consequence: over a well-formed table the reference evaluator ENDS on every key-safe run — with
    the result of the resolver (which ends on every balanced table:
    `resolve_terminates_balanced_partial`) -/
theorem evalT2_terminates_nested_partial {tt : TTable2} (hT : tt.WF) (t : Tmpl2) (st : List Toks)
    (ht : t.WF) (hk : ∃ m0, ∀ m, m0 ≤ m → keySafe tt m t st = true) :
    ∃ r, r ≠ .outOfFuel ∧ (∃ k, ∀ m, k ≤ m → evalT2 tt m t st = r) ∧
      ∃ k, ∀ m, k ≤ m → resolve id m (toTable2 tt) (render2 t) st = r := by
  obtain ⟨r, ⟨m, hm, hne⟩, hr⟩ := evalT2_terminates hT ht hk
  exact ⟨r, hne, ⟨m, evalT2_eventually hm hne⟩, hr.fuel⟩

/-- `resolve_eq_evalT_nested`: the two directions as ONE EQUATION on the common domain.  Over a
    well-formed table, on a key-safe run, neither side needs a termination hypothesis (the evaluator
    is total, the resolver ends on balanced tables): from some fuel `k` on — independently for the
    two sides — the resolver on the rendered template and the reference evaluator on the AST return
    the same thing, a text or a circular reference, never `outOfFuel`.
    `_partial`: key-safety cannot be dropped (`resolve_iff_evalT_nested_unconditional_refuted`);
    full statement without it:
      ∀ tt t st, tt.WF → t.WF → ∃ k, ∀ m m', k ≤ m → k ≤ m' →
        resolve id m (toTable2 tt) (render2 t) st = evalT2 tt m' t st ∧ evalT2 tt m' t st ≠ .outOfFuel -/
theorem resolve_eq_evalT_nested_partial {tt : TTable2} (hT : tt.WF) (t : Tmpl2) (st : List Toks)
    (ht : t.WF) (hk : ∃ m0, ∀ m, m0 ≤ m → keySafe tt m t st = true) :
    ∃ k, ∀ m m', k ≤ m → k ≤ m' →
      resolve id m (toTable2 tt) (render2 t) st = evalT2 tt m' t st ∧
        evalT2 tt m' t st ≠ .outOfFuel := by
  obtain ⟨r, hne, ⟨k₁, h₁⟩, ⟨k₂, h₂⟩⟩ := evalT2_terminates_nested_partial hT t st ht hk
  refine ⟨max k₁ k₂, fun m m' hm hm' => ?_⟩
  rw [h₂ m (by omega), h₁ m' (by omega)]
  exact ⟨rfl, hne⟩

/-- the same with the hypothesis in its decidable one-run form (the hypotheses of
    `resolve_refines_evalT_nested_partial`): ONE run of the evaluator that ends and is key-safe
    fixes the result of both sides for every larger fuel -/
theorem resolve_eq_evalT_nested_run_partial {tt : TTable2} (hT : tt.WF) (n : Nat) (t : Tmpl2)
    (st : List Toks) (ht : t.WF) (h : evalT2 tt n t st ≠ .outOfFuel) (hk : keySafe tt n t st = true) :
    ∃ k, ∀ m m', k ≤ m → n ≤ m' →
      resolve id m (toTable2 tt) (render2 t) st = evalT2 tt m' t st ∧
        evalT2 tt m' t st = evalT2 tt n t st := by
  obtain ⟨k, hk'⟩ := resolve_refines_evalT_nested_partial hT n t st ht h hk
  refine ⟨k, fun m m' hm hm' => ?_⟩
  have e := evalT2_fuel_mono tt hm' t st h
  exact ⟨by rw [hk' m hm, e], e⟩

/-- the three ways the outcome kinds could differ are excluded: under the hypotheses of
    `resolve_eq_evalT_nested_partial` a text of one side is the text of the other, a circular
    reference of one side is the circular reference (same placeholder text) of the other — at ANY
    two fuels at which the two sides have ended -/
theorem resolve_evalT_nested_same_outcome_partial {tt : TTable2} (hT : tt.WF) (t : Tmpl2)
    (st : List Toks) (ht : t.WF) (hk : ∃ m0, ∀ m, m0 ≤ m → keySafe tt m t st = true) (n m : Nat)
    (hn : resolve id n (toTable2 tt) (render2 t) st ≠ .outOfFuel)
    (hm : evalT2 tt m t st ≠ .outOfFuel) :
    resolve id n (toTable2 tt) (render2 t) st = evalT2 tt m t st := by
  obtain ⟨m', hm', _⟩ := (resolves_iff_evalT2 hT t st ht hk _).mp ⟨n, rfl, hn⟩
  rw [← hm']
  exact evalT2_unique (by rw [hm']; exact hn) hm

/-- `resolve_eq_evalT_nested_partial` on concrete nested templates over the table b = `1`,
    a1 = `x`, k = `b`:  `${a${b}}` → `x` (the key text `a1` is assembled from literal text and a
    substituted value), `${${k}:d}` → `1` (the key is itself a placeholder; known, the default is
    not used), `${${q}:d}` → `d` (the inner placeholder stays verbatim, the key text `${q}` is
    unknown, the default is used).  Hypotheses hold; both sides give the stated result for EVERY
    fuel ≥ 10. -/
theorem nonvacuous_resolve_eq_evalT_nested :
    let tt : TTable2 := [([.ch 'b'], .lit [.ch '1'] .done), ([.ch 'a', .ch '1'], .lit [.ch 'x'] .done),
      ([.ch 'k'], .lit [.ch 'b'] .done)]
    let t₁ : Tmpl2 := .ph (.lit tA (.ph (.lit [.ch 'b'] .done) .done)) .done
    let t₂ : Tmpl2 := .phd (.ph (.lit [.ch 'k'] .done) .done) (.lit [.ch 'd'] .done) .done
    let t₃ : Tmpl2 := .phd (.ph (.lit [.ch 'q'] .done) .done) (.lit [.ch 'd'] .done) .done
    tt.WF ∧ t₁.WF ∧ t₂.WF ∧ t₃.WF ∧
    render2 t₁ = [.pre, .ch 'a', .pre, .ch 'b', .suf, .suf] ∧
    render2 t₂ = [.pre, .pre, .ch 'k', .suf, .sep, .ch 'd', .suf] ∧
    render2 t₃ = [.pre, .pre, .ch 'q', .suf, .sep, .ch 'd', .suf] ∧
    (∃ m0, ∀ m, m0 ≤ m → keySafe tt m t₁ [] = true) ∧
    (∃ m0, ∀ m, m0 ≤ m → keySafe tt m t₂ [] = true) ∧
    (∃ m0, ∀ m, m0 ≤ m → keySafe tt m t₃ [] = true) ∧
    (∀ m m', 10 ≤ m → 10 ≤ m' →
      resolve id m (toTable2 tt) (render2 t₁) [] = .ok [.ch 'x'] ∧ evalT2 tt m' t₁ [] = .ok [.ch 'x']) ∧
    (∀ m m', 10 ≤ m → 10 ≤ m' →
      resolve id m (toTable2 tt) (render2 t₂) [] = .ok [.ch '1'] ∧ evalT2 tt m' t₂ [] = .ok [.ch '1']) ∧
    (∀ m m', 10 ≤ m → 10 ≤ m' →
      resolve id m (toTable2 tt) (render2 t₃) [] = .ok [.ch 'd'] ∧ evalT2 tt m' t₃ [] = .ok [.ch 'd']) := by
  intro tt t₁ t₂ t₃
  have fuels : ∀ (t : Tmpl2) (out : Toks), resolve id 10 (toTable2 tt) (render2 t) [] = .ok out →
      evalT2 tt 10 t [] = .ok out → ∀ m m', 10 ≤ m → 10 ≤ m' →
        resolve id m (toTable2 tt) (render2 t) [] = .ok out ∧ evalT2 tt m' t [] = .ok out := by
    intro t out h₁ h₂ m m' hm hm'
    exact ⟨by rw [resolve_fuel_mono id _ hm _ _ (by rw [h₁]; simp), h₁],
      by rw [evalT2_fuel_mono tt hm' t [] (by rw [h₂]; simp), h₂]⟩
  refine ⟨by decide, by decide, by decide, by decide, by decide, by decide, by decide,
    KeySafeEv.of_run (n := 10) (by decide) (by decide),
    KeySafeEv.of_run (n := 10) (by decide) (by decide),
    KeySafeEv.of_run (n := 10) (by decide) (by decide),
    fuels t₁ _ (by decide) (by decide), fuels t₂ _ (by decide) (by decide),
    fuels t₃ _ (by decide) (by decide)⟩

/-- the unconditional equivalence is refuted: `${${a}}` with a = `k:z` (the resolver ends with `z`,
    the evaluator with the verbatim placeholder) -/
theorem resolve_iff_evalT_nested_unconditional_refuted :
    ¬ ∀ (tt : TTable2) (t : Tmpl2) (st : List Toks) (r : Res), tt.WF → t.WF →
        (Resolves id (toTable2 tt) (render2 t) st r ↔ ∃ m, evalT2 tt m t st = r ∧ r ≠ .outOfFuel) := by
  intro h
  have h₂ : Resolves id (toTable2 [(tA, .lit [.ch 'k', .sep, .ch 'z'] .done)])
      (render2 (.ph (.ph (.lit tA .done) .done) .done)) [] (.ok [.ch 'z']) := ⟨10, by decide, by simp⟩
  obtain ⟨m, hm, _⟩ := (h _ _ _ _ (by decide) (by decide)).mp h₂
  have e := evalT2_unique (tt := [(tA, .lit [.ch 'k', .sep, .ch 'z'] .done)])
    (t := .ph (.ph (.lit tA .done) .done) .done) (st := []) (n := m) (m := 10)
    (by rw [hm]; simp) (by decide)
  rw [hm] at e
  revert e
  decide

/-! ## the real `norm`: re-lexing of the resolved placeholder text (YtkProofs/ResolverRelex.lean)

  The driver runs the model with `norm = relex d` (`lex d ∘ unlex d`): the Go code sees the BYTES of
  the resolved placeholder text, in which two halves of a delimiter may have been glued together.

  Full statement — FALSE (`resolve_diverges_relex_counterexample`,
  `resolve_terminates_balanced_relex_refuted`):

      ∀ d tbl, (∀ kv ∈ tbl, Balanced kv.2) → ∀ s seen, ∃ n, ∀ m ≥ n, resolve (relex d) m tbl s seen ≠ .outOfFuel

  A balanced value may hold one half of a delimiter as plain text (o = `$`); next to a literal `{`
  the re-lexed text has a prefix token that is in no value and not in the input, and the run is
  the divergent one of D29 (same class: at BYTE level the value `${o}{a}}${o}{:${o}{a}w` is not
  balanced once `${o}{` has become `${`).  Hypothesis that makes it true: the delimiters are
  non-empty and start with three different characters (`Delims.LexOK`: all triples in use), and no
  character token of the table values and of the input is the FIRST character of a delimiter
  (`Over (CleanTok d)`: no partial delimiter; decidable).  On such inputs `relex d` is the identity
  on every text the resolver ever builds, and the model does not depend on `norm` at all. -/

/-- abstract form: if `norm` is the identity on all token lists over an alphabet `A` that contains
    the table values and the input, the resolver with `norm` is the resolver with `id` -/
theorem resolve_norm_irrelevant_of_stable {A : Tok → Prop} (hA : ∀ t, Over A t → norm t = t)
    (hT : ∀ kv ∈ tbl, Over A kv.2) (n : Nat) (s : Toks) (seen : List Toks) (hs : Over A s) :
    resolve norm n tbl s seen = resolve id n tbl s seen :=
  (resolve_norm_eq_id hA hT n s seen hs).1

/-- re-lexing is the identity on clean token lists -/
theorem relex_id_of_clean {d : Delims} (hd : d.LexOK) (t : Toks) (ht : Over (CleanTok d) t) :
    relex d t = t :=
  relex_clean hd t ht

/-- the model under the real `norm` equals the model under `id` on clean tables and inputs
    (same fuel, every stack): every `norm = id` theorem of this file transfers -/
theorem resolve_relex_eq_id_of_clean {d : Delims} (hd : d.LexOK)
    (hc : ∀ kv ∈ tbl, Over (CleanTok d) kv.2) (n : Nat) (s : Toks) (seen : List Toks)
    (hs : Over (CleanTok d) s) : resolve (relex d) n tbl s seen = resolve id n tbl s seen :=
  resolve_relex_eq_id hd hc n s seen hs

/-- `resolve_terminates_balanced` under the REAL `norm`: balanced clean table values, ANY clean
    input (balanced or with an unterminated tail), every stack.  `_partial`: the statement without
    the cleanliness hypothesis is refuted below. -/
theorem resolve_terminates_balanced_relex_partial (d : Delims) (hd : d.LexOK) (tbl : Table)
    (hb : ∀ kv ∈ tbl, Balanced kv.2) (hc : ∀ kv ∈ tbl, Over (CleanTok d) kv.2)
    (s : Toks) (hs : Over (CleanTok d) s) (seen : List Toks) :
    ∃ n, ∀ m, n ≤ m → resolve (relex d) m tbl s seen ≠ .outOfFuel := by
  obtain ⟨r, hr⟩ := resolves_balanced_relex hd hb hc s seen hs
  obtain ⟨n, hn⟩ := hr.fuel
  exact ⟨n, fun m hm => by rw [hn m hm]; exact hr.ne⟩

/-- the nested-key refinement under the real `norm` -/
theorem resolve_refines_evalT_nested_relex_partial {d : Delims} (hd : d.LexOK) {tt : TTable2}
    (hT : tt.WF) (hc : ∀ kv ∈ toTable2 tt, Over (CleanTok d) kv.2) (n : Nat) (t : Tmpl2)
    (st : List Toks) (ht : t.WF) (hs : Over (CleanTok d) (render2 t))
    (h : evalT2 tt n t st ≠ .outOfFuel) (hk : keySafe tt n t st = true) :
    ∃ k, ∀ m, k ≤ m → resolve (relex d) m (toTable2 tt) (render2 t) st = evalT2 tt n t st := by
  obtain ⟨k, hk'⟩ := resolve_refines_evalT_nested_partial hT n t st ht h hk
  exact ⟨k, fun m hm => by rw [resolve_relex_eq_id hd hc m _ st hs]; exact hk' m hm⟩

/-- `resolve_iff_evalT_nested_partial` under the real `norm` (clean tables and templates): the
    model as the driver runs it ends with `r` iff the reference evaluator ends with `r` -/
theorem resolve_iff_evalT_nested_relex_partial {d : Delims} (hd : d.LexOK) {tt : TTable2}
    (hT : tt.WF) (hc : ∀ kv ∈ toTable2 tt, Over (CleanTok d) kv.2) (t : Tmpl2) (st : List Toks)
    (ht : t.WF) (hs : Over (CleanTok d) (render2 t))
    (hk : ∃ m0, ∀ m, m0 ≤ m → keySafe tt m t st = true) (r : Res) :
    Resolves (relex d) (toTable2 tt) (render2 t) st r ↔
      ∃ m, evalT2 tt m t st = r ∧ r ≠ .outOfFuel :=
  (resolves_relex_iff_id hd hc hs st r).trans (resolves_iff_evalT2 hT t st ht hk r)

/-- … with the fuels spelled out: a result of the model under `relex d` at SOME fuel is the result
    of the evaluator at every fuel from some point on -/
theorem evalT2_ends_of_resolve_nested_relex_partial {d : Delims} (hd : d.LexOK) {tt : TTable2}
    (hT : tt.WF) (hc : ∀ kv ∈ toTable2 tt, Over (CleanTok d) kv.2) (t : Tmpl2) (st : List Toks)
    (ht : t.WF) (hs : Over (CleanTok d) (render2 t))
    (hk : ∃ m0, ∀ m, m0 ≤ m → keySafe tt m t st = true) (n : Nat)
    (h : resolve (relex d) n (toTable2 tt) (render2 t) st ≠ .outOfFuel) :
    ∃ k, ∀ m, k ≤ m → evalT2 tt m t st = resolve (relex d) n (toTable2 tt) (render2 t) st := by
  obtain ⟨m, hm, hne⟩ :=
    ((resolves_relex_iff_id hd hc hs st _).trans (resolves_iff_evalT2 hT t st ht hk _)).mp ⟨n, rfl, h⟩
  exact ⟨m, evalT2_eventually hm hne⟩

/-- the table of `nonvacuous_nested_default` (a1 = `x:y`: NOT statically key-safe) -/
def ttN : TTable2 := [([.ch 'b'], .lit [.ch '1'] .done),
  ([.ch 'a', .ch '1'], .lit [.ch 'x', .sep, .ch 'y'] .done), ([.ch 'k'], .lit [.ch 'u'] .done)]

/-- `${${k}:d${b}}|${a${b}:z:z}|${q${b}}|${a${u}:${b}}` -/
def tN : Tmpl2 :=
  .phd (.ph (.lit [.ch 'k'] .done) .done) (.lit [.ch 'd'] (.ph (.lit [.ch 'b'] .done) .done))
    (.lit [.ch '|'] (.phd (.lit tA (.ph (.lit [.ch 'b'] .done) .done)) (.lit [.ch 'z', .sep, .ch 'z'] .done)
      (.lit [.ch '|'] (.ph (.lit [.ch 'q'] (.ph (.lit [.ch 'b'] .done) .done))
        (.lit [.ch '|'] (.phd (.lit tA (.ph (.lit [.ch 'u'] .done) .done))
          (.ph (.lit [.ch 'b'] .done) .done) .done))))))

/-- `${a${b}}`, circular over the table b = `1`, a1 = `${a${b}}` -/
def tC : Tmpl2 := .ph (.lit tA (.ph (.lit [.ch 'b'] .done) .done)) .done

/-- the hypotheses of `resolve_iff_evalT_nested_partial` / `…_relex_partial` on non-trivial
    instances, and both sides of the equivalence:
    (1) nested keys with defaults, known and unknown, a verbatim nested block, a value with a
        separator outside key position — the table is well-formed, clean for `${ } :`, NOT statically
        key-safe, the run is key-safe from fuel 12 on; resolver (with `id` and with the real
        re-lexing) and evaluator end with `d1|x:y|${q${b}}|1`;
    (2) a circular reference through a nested key: both end with `cycle a${b}`. -/
theorem nonvacuous_nested_iff :
    ttN.WF ∧ tN.WF ∧ ¬ ttN.KeySafe ∧
    (∃ m0, ∀ m, m0 ≤ m → keySafe ttN m tN [] = true) ∧
    Delims.LexOK ⟨['$', '{'], ['}'], [':']⟩ ∧
    (∀ kv ∈ toTable2 ttN, Over (CleanTok ⟨['$', '{'], ['}'], [':']⟩) kv.2) ∧
    Over (CleanTok ⟨['$', '{'], ['}'], [':']⟩) (render2 tN) ∧
    Resolves id (toTable2 ttN) (render2 tN) []
      (.ok [.ch 'd', .ch '1', .ch '|', .ch 'x', .sep, .ch 'y', .ch '|',
        .pre, .ch 'q', .pre, .ch 'b', .suf, .suf, .ch '|', .ch '1']) ∧
    Resolves (relex ⟨['$', '{'], ['}'], [':']⟩) (toTable2 ttN) (render2 tN) []
      (.ok [.ch 'd', .ch '1', .ch '|', .ch 'x', .sep, .ch 'y', .ch '|',
        .pre, .ch 'q', .pre, .ch 'b', .suf, .suf, .ch '|', .ch '1']) ∧
    (∃ m, evalT2 ttN m tN [] = .ok [.ch 'd', .ch '1', .ch '|', .ch 'x', .sep, .ch 'y', .ch '|',
        .pre, .ch 'q', .pre, .ch 'b', .suf, .suf, .ch '|', .ch '1']) ∧
    (let ttC : TTable2 := [([.ch 'b'], .lit [.ch '1'] .done), ([.ch 'a', .ch '1'], tC)]
     ttC.WF ∧ tC.WF ∧ (∃ m0, ∀ m, m0 ≤ m → keySafe ttC m tC [] = true) ∧
     Resolves id (toTable2 ttC) (render2 tC) [] (.cycle [.ch 'a', .pre, .ch 'b', .suf]) ∧
     ∃ m, evalT2 ttC m tC [] = .cycle [.ch 'a', .pre, .ch 'b', .suf]) := by
  have hev : ∃ m0, ∀ m, m0 ≤ m → keySafe ttN m tN [] = true :=
    KeySafeEv.of_run (n := 12) (by decide) (by decide)
  have hid : Resolves id (toTable2 ttN) (render2 tN) []
      (.ok [.ch 'd', .ch '1', .ch '|', .ch 'x', .sep, .ch 'y', .ch '|',
        .pre, .ch 'q', .pre, .ch 'b', .suf, .suf, .ch '|', .ch '1']) := ⟨12, by decide, by simp⟩
  have hclT : ∀ kv ∈ toTable2 ttN, Over (CleanTok ⟨['$', '{'], ['}'], [':']⟩) kv.2 := by decide
  have hclS : Over (CleanTok ⟨['$', '{'], ['}'], [':']⟩) (render2 tN) := by decide
  refine ⟨by decide, by decide, by decide, hev, by decide, hclT, hclS, hid,
    (resolve_iff_evalT_nested_relex_partial (by decide) (by decide) hclT tN [] (by decide) hclS hev _).mpr
      ((resolve_iff_evalT_nested_partial (by decide) tN [] (by decide) hev _).mp hid),
    ⟨12, by decide⟩, ?_⟩
  intro ttC
  have hevC : ∃ m0, ∀ m, m0 ≤ m → keySafe ttC m tC [] = true :=
    KeySafeEv.of_run (n := 10) (by decide) (by decide)
  have hidC : Resolves id (toTable2 ttC) (render2 tC) [] (.cycle [.ch 'a', .pre, .ch 'b', .suf]) :=
    ⟨10, by decide, by simp⟩
  obtain ⟨m, hm, _⟩ := (resolve_iff_evalT_nested_partial (by decide) tC [] (by decide) hevC _).mp hidC
  exact ⟨by decide, by decide, hevC, hidC, m, hm⟩

/-- COUNTEREXAMPLE to termination for balanced tables under the real `norm`.  Table  o = "$",
    a = "${o}{a}}${o}{:${o}{a}w",  input "${:${a}${a}}" (default delimiters): NO fuel suffices.
    (With `norm = id` the same run ends: `nonvacuous_relex_witness`.) -/
theorem resolve_diverges_relex_counterexample (fuel : Nat) :
    resolveTop (relex ⟨['$', '{'], ['}'], [':']⟩) fuel
      [([.ch 'o'], [.ch '$']),
       ([.ch 'a'], [.pre, .ch 'o', .suf, .ch '{', .ch 'a', .suf, .suf, .pre, .ch 'o', .suf, .ch '{', .sep,
          .pre, .ch 'o', .suf, .ch '{', .ch 'a', .suf, .ch 'w'])]
      [.pre, .sep, .pre, .ch 'a', .suf, .pre, .ch 'a', .suf, .suf] = .outOfFuel :=
  DivR.diverges fuel

/-- hence balance of the table values alone does not give termination under the real `norm` -/
theorem resolve_terminates_balanced_relex_refuted :
    ¬ ∀ (tbl : Table), (∀ kv ∈ tbl, Balanced kv.2) → ∀ (s : Toks),
        ∃ n, ∀ m, n ≤ m → resolve (relex ⟨['$', '{'], ['}'], [':']⟩) m tbl s [] ≠ .outOfFuel := by
  intro h
  obtain ⟨n, hn⟩ := h DivR.tblR DivR.tblR_balanced (Div.D 0)
  exact hn n (Nat.le_refl n) (DivR.diverges n)

/-- the witness: its token lists are what the lexer makes of the Go-side strings, both values
    are balanced, the value of `o` is not clean (`$` starts the prefix), and with `norm = id` the
    run ends -/
theorem nonvacuous_relex_witness :
    let d : Delims := ⟨['$', '{'], ['}'], [':']⟩
    let vA : Toks := [.pre, .ch 'o', .suf, .ch '{', .ch 'a', .suf, .suf, .pre, .ch 'o', .suf, .ch '{', .sep,
          .pre, .ch 'o', .suf, .ch '{', .ch 'a', .suf, .ch 'w']
    lex d ['$'] = [.ch '$'] ∧
    lex d ['$', '{', 'o', '}', '{', 'a', '}', '}', '$', '{', 'o', '}', '{', ':', '$', '{', 'o', '}', '{',
      'a', '}', 'w'] = vA ∧
    Balanced [Tok.ch '$'] ∧ Balanced vA ∧ d.LexOK ∧ ¬ Over (CleanTok d) [Tok.ch '$'] ∧
    resolveTop id 20 [([.ch 'o'], [.ch '$']), ([.ch 'a'], vA)]
      [.pre, .sep, .pre, .ch 'a', .suf, .pre, .ch 'a', .suf, .suf] ≠ .outOfFuel := by
  decide

/-- the hypotheses of `resolve_terminates_balanced_relex_partial` on a non-trivial instance:
    all four delimiter triples of the harness are `LexOK`; the table a = `x${b:y}{`, b = `${c}`
    (values with the NON-first prefix character `{` as plain text) is balanced and clean, so is the
    input `${u:${a}-${u}}|${a` — and the model under `relex` gives `x${c}{-${u}|${a` -/
theorem nonvacuous_relex_clean :
    let d : Delims := ⟨['$', '{'], ['}'], [':']⟩
    let tbl : Table := [(tA, [.ch 'x', .pre, .ch 'b', .sep, .ch 'y', .suf, .ch '{']),
      ([.ch 'b'], [.pre, .ch 'c', .suf])]
    let s : Toks := [.pre, .ch 'u', .sep] ++ phA ++ [.ch '-', .pre, .ch 'u', .suf, .suf, .ch '|', .pre, .ch 'a']
    d.LexOK ∧ Delims.LexOK ⟨['#', '{'], ['}'], ['|']⟩ ∧ Delims.LexOK ⟨['<', '<'], ['>', '>'], [':', ':']⟩ ∧
    Delims.LexOK ⟨['%', '('], [')'], ['?']⟩ ∧
    (∀ kv ∈ tbl, Balanced kv.2) ∧ (∀ kv ∈ tbl, Over (CleanTok d) kv.2) ∧ Over (CleanTok d) s ∧
    resolveTop (relex d) 10 tbl s =
      .ok [.ch 'x', .pre, .ch 'c', .suf, .ch '{', .ch '-', .pre, .ch 'u', .suf, .ch '|', .pre, .ch 'a'] := by
  decide

/-! ### the real `norm`, PER RUN (YtkProofs/ResolverStable.lean)

  `resolve_terminates_balanced_relex_partial` asks that NO character token of the table values and
  of the input starts a delimiter — a static condition on the whole alphabet, far more than the run
  needs.  The hypothesis is weakened to a decidable condition on the run itself:

      `stableRun norm n tbl s seen`  —  every resolved placeholder text `ph'` that the run
      `resolve norm n tbl s seen` LOOKS UP is a fixed point of `norm` (`relex d ph' = ph'`)

  (a Boolean with the recursion of `resolve`).  Values that are never substituted, lone delimiter
  characters that never glue, and even glued delimiters that end up in the OUTPUT but never in a
  looked-up text (`nonvacuous_relex_stable`: o = `$`, a = `${o}{x}`, input `${a}` → the characters
  `${x}`) are all fine.  The static condition implies it (`stableRun_of_clean`), the divergent run
  of D31 violates it (`relex_counterexample_not_stable`), so it sits exactly between the two.  It is
  sufficient, not necessary: `relex_unstable_but_ends`.

  Full statement (no stability hypothesis) — FALSE: `resolve_terminates_balanced_relex_refuted`. -/

/-- a stable run of the model under `norm` IS the run of the `norm = id` model (same fuel, every
    table — balanced or not —, every stack) -/
theorem resolve_norm_irrelevant_of_stable_run (n : Nat) (s : Toks) (seen : List Toks)
    (h : stableRun norm n tbl s seen = true) :
    resolve norm n tbl s seen = resolve id n tbl s seen :=
  resolve_eq_id_of_stableRun n s seen h

/-- once the run has ended, more fuel inspects the same lookups; less fuel inspects fewer -/
theorem stableRun_stable {n m : Nat} (hnm : n ≤ m) (s : Toks) (seen : List Toks) :
    (resolve norm n tbl s seen ≠ .outOfFuel →
      stableRun norm m tbl s seen = stableRun norm n tbl s seen) ∧
    (stableRun norm m tbl s seen = true → stableRun norm n tbl s seen = true) :=
  ⟨stableRun_fuel_mono hnm s seen, stableRun_fuel_anti hnm s seen⟩

/-- hence the hypothesis has a one-run (decidable) form: ONE run that ends and is stable makes the
    check true for every fuel -/
theorem stableRun_all_of_ended {n : Nat} {s : Toks} {seen : List Toks}
    (hn : resolve norm n tbl s seen ≠ .outOfFuel) (h : stableRun norm n tbl s seen = true) :
    ∀ m, stableRun norm m tbl s seen = true :=
  stableRun_all_of_run hn h

/-- the static hypothesis of `resolve_terminates_balanced_relex_partial` implies the per-run one,
    for every fuel, input over the clean alphabet and stack -/
theorem stableRun_of_clean {d : Delims} (hd : d.LexOK) (hc : ∀ kv ∈ tbl, Over (CleanTok d) kv.2)
    (n : Nat) (s : Toks) (seen : List Toks) (hs : Over (CleanTok d) s) :
    stableRun (relex d) n tbl s seen = true :=
  stableRun_of_over (relex_clean hd) hc n s seen hs

/-- `resolve_terminates_balanced` under the REAL `norm`, per run: balanced table values (NOTHING is
    asked of their characters, nor of the delimiters), any input, any stack — if re-lexing is stable
    on every text the run looks up (for every sufficiently large fuel), the run ENDS, and with the
    result of the `norm = id` model.  `_partial`: without the hypothesis the statement is refuted
    (`resolve_terminates_balanced_relex_refuted`). -/
theorem resolve_terminates_balanced_relex_stable_partial (d : Delims) (tbl : Table)
    (hb : ∀ kv ∈ tbl, Balanced kv.2) (s : Toks) (seen : List Toks)
    (hst : ∃ n0, ∀ n, n0 ≤ n → stableRun (relex d) n tbl s seen = true) :
    ∃ n, ∀ m, n ≤ m → resolve (relex d) m tbl s seen ≠ .outOfFuel ∧
      resolve (relex d) m tbl s seen = resolve id m tbl s seen := by
  obtain ⟨r, hr, hi⟩ := resolves_balanced_stable hb s seen hst
  obtain ⟨n₁, h₁⟩ := hr.fuel
  obtain ⟨n₂, h₂⟩ := hi.fuel
  exact ⟨max n₁ n₂, fun m hm => by
    rw [h₁ m (by omega), h₂ m (by omega)]; exact ⟨hr.ne, rfl⟩⟩

/-- the one-run form, for ANY table: if the `norm = id` model ends with fuel `n` and the run under
    the real `norm` with that fuel is stable, the model under the real `norm` gives that result for
    every fuel `m ≥ n` -/
theorem resolve_relex_eq_id_of_stable_run_partial (d : Delims) (tbl : Table) (n : Nat) (s : Toks)
    (seen : List Toks) (hn : resolve id n tbl s seen ≠ .outOfFuel)
    (hst : stableRun (relex d) n tbl s seen = true) :
    ∀ m, n ≤ m → resolve (relex d) m tbl s seen = resolve id n tbl s seen := by
  intro m hm
  have e := resolve_eq_id_of_stableRun n s seen hst
  rw [resolve_fuel_mono (relex d) tbl hm s seen (by rw [e]; exact hn), e]

/-- fuel-free form, any table: on a run that is stable from some fuel on, the model under `norm`
    ends with `r` iff the `norm = id` model does -/
theorem resolves_norm_iff_id_of_stable_run {s : Toks} {seen : List Toks}
    (hst : ∃ n0, ∀ n, n0 ≤ n → stableRun norm n tbl s seen = true) (r : Res) :
    Resolves norm tbl s seen r ↔ Resolves id tbl s seen r :=
  resolves_norm_iff_id_of_stable hst r

/-- `resolve_iff_evalT_nested_relex_partial` with the per-run hypothesis instead of the clean
    alphabet: the model AS THE DRIVER RUNS IT (real re-lexing, any delimiter triple) ends with `r` on
    the rendered template iff the reference evaluator ends with `r`, on every run that is key-safe
    and on whose looked-up texts re-lexing is stable -/
theorem resolve_iff_evalT_nested_relex_stable_partial (d : Delims) {tt : TTable2} (hT : tt.WF)
    (t : Tmpl2) (st : List Toks) (ht : t.WF)
    (hk : ∃ m0, ∀ m, m0 ≤ m → keySafe tt m t st = true)
    (hst : ∃ n0, ∀ n, n0 ≤ n → stableRun (relex d) n (toTable2 tt) (render2 t) st = true) (r : Res) :
    Resolves (relex d) (toTable2 tt) (render2 t) st r ↔
      ∃ m, evalT2 tt m t st = r ∧ r ≠ .outOfFuel :=
  (resolves_norm_iff_id_of_stable hst r).trans (resolves_iff_evalT2 hT t st ht hk r)

/-- the old theorem is an instance of the new one -/
theorem resolve_terminates_balanced_relex_of_stable (d : Delims) (hd : d.LexOK) (tbl : Table)
    (hb : ∀ kv ∈ tbl, Balanced kv.2) (hc : ∀ kv ∈ tbl, Over (CleanTok d) kv.2)
    (s : Toks) (hs : Over (CleanTok d) s) (seen : List Toks) :
    ∃ n, ∀ m, n ≤ m → resolve (relex d) m tbl s seen ≠ .outOfFuel := by
  obtain ⟨n, hn⟩ := resolve_terminates_balanced_relex_stable_partial d tbl hb s seen
    ⟨0, fun n _ => stableRun_of_clean tbl hd hc n s seen hs⟩
  exact ⟨n, fun m hm => (hn m hm).1⟩

/-- the per-run hypothesis is STRICTLY weaker than the static one.  Table o = `$` (one half of the
    prefix `${` as plain text: not clean), a = `${o}{x}` (balanced); input `${a}`.  The value of `a`
    resolves to the CHARACTERS `$`,`{`,`x` and a suffix: a glued prefix in the output — which is
    never looked up.  The looked-up texts are `o` and `a`; the run is stable for every fuel and
    the model under the real re-lexing ends for every fuel ≥ 3. -/
theorem nonvacuous_relex_stable :
    let d : Delims := ⟨['$', '{'], ['}'], [':']⟩
    let tbl : Table := [([.ch 'o'], [.ch '$']), (tA, [.pre, .ch 'o', .suf, .ch '{', .ch 'x', .suf])]
    (∀ kv ∈ tbl, Balanced kv.2) ∧ ¬ (∀ kv ∈ tbl, Over (CleanTok d) kv.2) ∧
    (∀ n, stableRun (relex d) n tbl phA [] = true) ∧
    (∀ m, 3 ≤ m → resolve (relex d) m tbl phA [] = .ok [.ch '$', .ch '{', .ch 'x', .suf]) ∧
    relex d [.ch '$', .ch '{', .ch 'x', .suf] = [.pre, .ch 'x', .suf] := by
  intro d tbl
  have hst : ∀ n, stableRun (relex d) n tbl phA [] = true :=
    stableRun_all_of_run (n := 3) (by decide) (by decide)
  refine ⟨by decide, by decide, hst, fun m hm => ?_, by decide⟩
  rw [resolve_relex_eq_id_of_stable_run_partial d tbl 3 phA [] (by decide) (hst 3) m hm]
  decide

/-- the hypotheses of `resolve_iff_evalT_nested_relex_stable_partial` on an instance OUTSIDE the
    clean domain: template table o = `$`, k = `a`, a = `${o}{x` (not clean: `$` starts the prefix),
    template `${${k}}|${o}{`; the run is key-safe and stable; the model under the real re-lexing and
    the evaluator end with the characters `${x|${` -/
theorem nonvacuous_nested_relex_stable :
    let d : Delims := ⟨['$', '{'], ['}'], [':']⟩
    let tt : TTable2 := [([.ch 'o'], .lit [.ch '$'] .done), ([.ch 'k'], .lit tA .done),
      (tA, .ph (.lit [.ch 'o'] .done) (.lit [.ch '{', .ch 'x'] .done))]
    let t : Tmpl2 := .ph (.ph (.lit [.ch 'k'] .done) .done)
      (.lit [.ch '|'] (.ph (.lit [.ch 'o'] .done) (.lit [.ch '{'] .done)))
    let out : Toks := [.ch '$', .ch '{', .ch 'x', .ch '|', .ch '$', .ch '{']
    tt.WF ∧ t.WF ∧ ¬ (∀ kv ∈ toTable2 tt, Over (CleanTok d) kv.2) ∧
    (∃ m0, ∀ m, m0 ≤ m → keySafe tt m t [] = true) ∧
    (∃ n0, ∀ n, n0 ≤ n → stableRun (relex d) n (toTable2 tt) (render2 t) [] = true) ∧
    Resolves (relex d) (toTable2 tt) (render2 t) [] (.ok out) ∧
    (∃ m, evalT2 tt m t [] = .ok out) ∧ relex d out ≠ out := by
  intro d tt t out
  have hk : ∃ m0, ∀ m, m0 ≤ m → keySafe tt m t [] = true :=
    KeySafeEv.of_run (n := 10) (by decide) (by decide)
  have hst : ∃ n0, ∀ n, n0 ≤ n → stableRun (relex d) n (toTable2 tt) (render2 t) [] = true :=
    ⟨0, fun n _ => stableRun_all_of_run (n := 10) (by decide) (by decide) n⟩
  have hev : evalT2 tt 10 t [] = .ok out := by decide
  exact ⟨by decide, by decide, by decide, hk, hst,
    (resolve_iff_evalT_nested_relex_stable_partial d (by decide) t [] (by decide) hk hst _).mpr
      ⟨10, hev, by simp⟩, ⟨10, hev⟩, by decide⟩

/-- the divergent run of `resolve_diverges_relex_counterexample` (D31) is NOT stable: from fuel 7
    on the check fails (the looked-up text `:${a}}${:${a}w${a}}${:${a}w` re-lexes to other tokens),
    although the `norm = id` model ends on the same input with fuel 7 -/
theorem relex_counterexample_not_stable :
    let d : Delims := ⟨['$', '{'], ['}'], [':']⟩
    (∀ kv ∈ DivR.tblR, Balanced kv.2) ∧
    resolve id 7 DivR.tblR (Div.D 0) [] ≠ .outOfFuel ∧
    ∀ m, 7 ≤ m → stableRun (relex d) m DivR.tblR (Div.D 0) [] = false := by
  refine ⟨DivR.tblR_balanced, by decide +kernel, fun m hm => ?_⟩
  cases h : stableRun (relex ⟨['$', '{'], ['}'], [':']⟩) m DivR.tblR (Div.D 0) [] with
  | false => rfl
  | true =>
    have := stableRun_fuel_anti hm _ _ h
    revert this
    decide +kernel

/-- stability is sufficient, not necessary: the same table with the glued prefix IN KEY POSITION,
    input `${${a}}`.  The looked-up text `${x}` (characters) re-lexes to a placeholder: the run is
    not stable; it ends all the same, here even with the result of the `norm = id` model (the
    re-lexed text is unknown and has no separator: verbatim). -/
theorem relex_unstable_but_ends :
    let d : Delims := ⟨['$', '{'], ['}'], [':']⟩
    let tbl : Table := [([.ch 'o'], [.ch '$']), (tA, [.pre, .ch 'o', .suf, .ch '{', .ch 'x', .suf])]
    stableRun (relex d) 4 tbl (Tok.pre :: phA ++ [Tok.suf]) [] = false ∧
    resolve (relex d) 4 tbl (Tok.pre :: phA ++ [Tok.suf]) [] = .ok (Tok.pre :: phA ++ [Tok.suf]) ∧
    resolve id 4 tbl (Tok.pre :: phA ++ [Tok.suf]) [] = .ok (Tok.pre :: phA ++ [Tok.suf]) := by
  decide

/-! ## Non-vacuity and witnesses (norm = id) -/


/-- `${a}-${a}` with a = 1 resolves to `1-1` (the pinned tree reported a circular reference: D16). -/
theorem nonvacuous_dup_ok :
    resolveTop id 10 [(tA, [.ch '1'])] (phA ++ .ch '-' :: phA) = .ok [.ch '1', .ch '-', .ch '1'] := by
  decide

/-- a true cycle (a = `${a}`) is still reported, with the placeholder text -/
theorem nonvacuous_true_cycle : resolveTop id 10 [(tA, phA)] phA = .cycle tA := by decide

/-- mutual cycle a → b → a -/
theorem nonvacuous_mutual_cycle :
    resolveTop id 10 [(tA, [.pre, .ch 'b', .suf]), ([.ch 'b'], phA)] phA = .cycle tA := by decide

/-- defaults, nested keys, unresolvable and unterminated placeholders on one input:
    `${u:${a}}|${${k}}|${u}|${a` with a = 1, k = a  →  `1|1|${u}|${a` -/
theorem nonvacuous_case_table :
    resolveTop id 10 [(tA, [.ch '1']), ([.ch 'k'], tA)]
      ([.pre, .ch 'u', .sep] ++ phA ++ [.suf, .ch '|', .pre, .pre, .ch 'k', .suf, .suf, .ch '|',
        .pre, .ch 'u', .suf, .ch '|', .pre, .ch 'a'])
      = .ok [.ch '1', .ch '|', .ch '1', .ch '|', .pre, .ch 'u', .suf, .ch '|', .pre, .ch 'a'] := by
  decide

/-- the hypotheses of the concatenation theorems are satisfiable on a non-trivial input -/
theorem nonvacuous_balanced : Balanced (phA ++ .ch '-' :: phA) ∧ ¬ Balanced [.pre, .ch 'a'] ∧
    Resolves id [(tA, [.ch '1'])] phA [] (.ok [.ch '1']) := by
  refine ⟨by decide, by decide, ⟨5, by decide, by simp⟩⟩

/-- `Reaches` holds on the true cycle a = `${a}` … -/
theorem nonvacuous_reaches : Reaches id [(tA, phA)] [] phA tA :=
  cycle_only_if_onStack id _ 10 phA [] tA (by decide)

/-- … and on no text at all for the doubled placeholder `${a}-${a}` with a = 1 -/
theorem nonvacuous_dup_not_reaches (o : Toks) :
    ¬ Reaches id [(tA, [.ch '1'])] [] (phA ++ .ch '-' :: phA) o := by
  intro h
  have h₁ := cycle_of_reaches h
  have h₂ : Resolves id [(tA, [.ch '1'])] (phA ++ .ch '-' :: phA) [] (.ok [.ch '1', .ch '-', .ch '1']) :=
    ⟨10, by decide, by simp⟩
  cases h₁.unique h₂

/-- the flat fragment on a non-trivial instance: `${u:${a}-${u}}|${a}` with a = `x${b:y}`:
    the reference evaluator gives `xy-${u}|xy`, hence so does the resolver -/
theorem nonvacuous_evalT :
    let tt : TTable := [(tA, .lit [.ch 'x'] (.phd [.ch 'b'] (.lit [.ch 'y'] .done) .done))]
    let t : Tmpl := .phd [.ch 'u'] (.ph tA (.lit [.ch '-'] (.ph [.ch 'u'] .done)))
      (.lit [.ch '|'] (.ph tA .done))
    evalT tt 10 t [] = .ok [.ch 'x', .ch 'y', .ch '-', .pre, .ch 'u', .suf, .ch '|', .ch 'x', .ch 'y'] ∧
    resolveTop id 10 (toTable tt) (render t) =
      .ok [.ch 'x', .ch 'y', .ch '-', .pre, .ch 'u', .suf, .ch '|', .ch 'x', .ch 'y'] := by
  decide

/-- … and on a cyclic one: a = `${b:${a}}` -/
theorem nonvacuous_evalT_cycle :
    let tt : TTable := [(tA, .phd [.ch 'b'] (.ph tA .done) .done)]
    evalT tt 10 (.ph tA .done) [] = .cycle tA ∧
    resolveTop id 10 (toTable tt) (render (.ph tA .done)) = .cycle tA := by
  decide

/-
  STATUS of the statements of DESIGN §6 C11 that were open:

  * cycle_iff_onStack — PROVED (`cycle_only_if_onStack` for every fuel, `cycle_if_onStack`,
    `cycle_iff_onStack` with the fuel quantified, `cycle_is_true_cycle`).

  * resolve_terminates (arbitrary finite tables) — REFUTED (`resolve_diverges_counterexample`,
    `resolve_terminates_refuted`); proved for balanced tables (`resolve_terminates_balanced_partial`),
    plain-text tables (`resolve_terminates_flat_partial`) and under the finite-reach hypothesis
    (`resolve_terminates_of_finite_reach_partial`), all for every stack, `norm = id`.
    `norm = relex d` (the real one): balance of the values alone is NOT enough
    (`resolve_diverges_relex_counterexample`, `resolve_terminates_balanced_relex_refuted`: a value
    that is one half of a delimiter glues with literal text; D29 class at byte level); proved for
    balanced tables and inputs without partial delimiters (`resolve_terminates_balanced_relex_partial`;
    there the model does not depend on `norm`: `resolve_relex_eq_id_of_clean`); WEAKENED to a per-run,
    decidable hypothesis — re-lexing is stable on every text the run looks up (`stableRun`):
    `resolve_terminates_balanced_relex_stable_partial` (nothing asked of the characters of the values,
    of the input or of the delimiters; `stableRun_of_clean`: implied by the static condition;
    `nonvacuous_relex_stable`: strictly weaker; `relex_counterexample_not_stable`: violated by the D31
    run; `relex_unstable_but_ends`: sufficient, not necessary; `stableRun_all_of_ended`: one ended
    stable run decides it; `resolve_norm_irrelevant_of_stable_run`: a stable run is the `id` run;
    `resolve_iff_evalT_nested_relex_stable_partial`: the nested-key equivalence under the real `norm`
    with the per-run hypothesis instead of the clean alphabet).

  * resolve_refines_evalT — PROVED on the flat fragment (`resolve_refines_evalT_flat_partial`:
    plain keys, template defaults, template values; `resolve_iff_evalT_flat_partial` gives both
    directions) and for NESTED KEYS (`resolve_refines_evalT_nested_partial`, AST `Tmpl2`, evaluator
    `evalT2`) under the per-run hypothesis `keySafe` = every evaluated key text is separator-free;
    without it the statement is false (`nested_needs_sepfree_counterexample`,
    `resolve_refines_evalT_nested_unconditional_refuted`); static table-level form of the hypothesis:
    `resolve_refines_evalT_nested_static_partial` (`TTable2.KeySafe`, `Tmpl2.KeysOK`).  Under the real `norm`:
    `resolve_refines_evalT_nested_relex_partial` (clean tables and templates).  The CONVERSE
    direction for nested keys (resolver ends ⇒ `evalT2` ends, same result) — PROVED:
    `resolve_iff_evalT_nested_partial` (both directions, fuel-free; hypothesis: the run is key-safe
    for every sufficiently large fuel, which follows from one key-safe run that ends —
    `resolve_iff_evalT_nested_run_partial`, `keySafe_stable` — and from the static table predicate —
    `resolve_iff_evalT_nested_static_partial`), under the real `norm`
    `resolve_iff_evalT_nested_relex_partial`; `evalT2` is total (`evalT2_total_nested`); the
    unconditional equivalence is refuted (`resolve_iff_evalT_nested_unconditional_refuted`).
    As ONE EQUATION on the common domain: `resolve_eq_evalT_nested_partial` (from some fuel on, both
    sides return the same text / circular reference, never `outOfFuel`; no termination hypothesis),
    `resolve_evalT_nested_same_outcome_partial` (any two fuels at which both have ended),
    `nonvacuous_resolve_eq_evalT_nested` (`${a${b}}`, `${${k}:d}`, `${${q}:d}`, every fuel ≥ 10).
    The harness compares with an independently written Go recursive-descent reference on the full
    grammar.
-/

/-! ## Round 7b: STRING level (the lexer), every delimiter triple -/

/-- Rendering the lexed tokens gives the string back — for EVERY delimiter triple (empty,
    overlapping or equal delimiters included) and EVERY string.  (The driver only checks
    `unlex d (lex d s) == s` dynamically, field `rt`.) -/
theorem unlex_lex (d : Delims) (s : List Char) : unlex d (lex d s) = s := unlex_lex' d s

/-- If the prefix STRING does not occur in `s`, no prefix TOKEN is lexed. -/
theorem lex_no_pre_of_not_infix (d : Delims) (s : List Char) (h : ¬ d.pre <:+: s) : Tok.pre ∉ lex d s :=
  lex_no_pre' d s h

/-- Resolve(s) == s when s has no prefix — at STRING level, for every configured prefix, suffix
    and separator `d`, every lookup table, every `norm` and every positive fuel: the run of the
    driver (`lex d`, `resolveTop`, `unlex d`) on a string in which the prefix string does not
    occur ends with `ok` and renders to `s` itself. -/
theorem resolve_string_noPrefix (d : Delims) (n : Nat) (s : List Char) (h : ¬ d.pre <:+: s) :
    resolveTop norm (n + 1) tbl (lex d s) = .ok (lex d s) ∧
      ∀ t, resolveTop norm (n + 1) tbl (lex d s) = .ok t → unlex d t = s := by
  have h1 : resolveTop norm (n + 1) tbl (lex d s) = .ok (lex d s) :=
    resolve_noPre norm tbl n (lex d s) [] (lex_no_pre_of_not_infix d s h)
  refine ⟨h1, fun t ht => ?_⟩
  rw [h1] at ht
  cases ht
  exact unlex_lex d s

/-- the hypothesis of `resolve_string_noPrefix` on a string that holds BOTH characters of the
    two-character prefix `${`, but not next to each other (`a$b{c}:`): the lone `$` and `{` are
    lexed as plain characters, the suffix and the separator as tokens -/
theorem nonvacuous_resolve_string_noPrefix :
    let d : Delims := ⟨['$', '{'], ['}'], [':']⟩
    let s := ['a', '$', 'b', '{', 'c', '}', ':']
    ¬ d.pre <:+: s ∧ '$' ∈ s ∧ '{' ∈ s ∧
      lex d s = [.ch 'a', .ch '$', .ch 'b', .ch '{', .ch 'c', .suf, .sep] ∧
      resolveTop (relex d) 1 [(lex d ['b'], lex d ['X'])] (lex d s) = .ok (lex d s) := by
  decide +kernel

/-- Lexing is a homomorphism behind a string `s₁` that lexes to clean tokens (no lone first
    character of a delimiter; `d.LexOK` = non-empty delimiters with three different first
    characters): `lex (s₁ ++ s₂) = lex s₁ ++ lex s₂`. -/
theorem lex_append_of_clean {d : Delims} (hd : d.LexOK) (s₁ s₂ : List Char) (h : Over (CleanTok d) (lex d s₁)) :
    lex d (s₁ ++ s₂) = lex d s₁ ++ lex d s₂ := lex_append_of_clean' hd s₁ s₂ h

/-- Resolve(s₁ + s₂) = Resolve(s₁) ⊕ Resolve(s₂) at STRING level: `resolve_append_balanced` for
    the lexed concatenation of two strings, `s₁` lexing to a clean, delimiter-balanced token list. -/
theorem resolve_string_append_balanced {d : Delims} (hd : d.LexOK) {s₁ s₂ : List Char} {seen : List Toks}
    {r₁ r₂ : Res} (hc : Over (CleanTok d) (lex d s₁)) (hb : Balanced (lex d s₁))
    (h₁ : Resolves norm tbl (lex d s₁) seen r₁) (h₂ : Resolves norm tbl (lex d s₂) seen r₂) :
    Resolves norm tbl (lex d (s₁ ++ s₂)) seen (r₁.seq r₂) := by
  rw [lex_append_of_clean hd s₁ s₂ hc]
  exact resolve_append_balanced norm tbl hb h₁ h₂

/-- the cleanliness hypothesis of `lex_append_of_clean` is needed: `"$" ++ "{a}"` — the balanced
    (prefix-free) `$` glues with the `{` of the second string into a prefix token -/
theorem lex_append_needs_clean_counterexample :
    let d : Delims := ⟨['$', '{'], ['}'], [':']⟩
    d.LexOK ∧ Balanced (lex d ['$']) ∧ ¬ Over (CleanTok d) (lex d ['$']) ∧
      lex d (['$'] ++ ['{', 'a', '}']) = [.pre, .ch 'a', .suf] ∧
      lex d ['$'] ++ lex d ['{', 'a', '}'] = [.ch '$', .ch '{', .ch 'a', .suf] := by
  decide +kernel

/-- the hypotheses of `resolve_string_append_balanced` on `x${a}{` (a `{` that does not follow a
    `$` is a clean character) -/
theorem nonvacuous_string_append :
    let d : Delims := ⟨['$', '{'], ['}'], [':']⟩
    let s₁ := ['x', '$', '{', 'a', '}', '{']
    d.LexOK ∧ Over (CleanTok d) (lex d s₁) ∧ Balanced (lex d s₁) ∧
      lex d s₁ = [.ch 'x', .pre, .ch 'a', .suf, .ch '{'] := by
  decide +kernel

end Ytk.C11

/-! ## Translated functions (YtkModel/Generated/Funcs.lean, regenerated from the Go source on every
    run by extract/translate.go): the translation of the byte-level helpers of props/resolver.go
    EQUALS their list-level meaning, for all inputs of the stated domain, without panic and without
    running out of loop fuel.  (The token-level model `Resolver.resolve` uses `List.erase` for
    removeFromSlice and `isPrefixOfChars` for matchAt; indexAfter / replaceAt have no separate
    model function — their meaning is stated over `List.take/drop` and `strings.Index`.)
    An edit of the Go function changes the regenerated definition and these stop checking. -/
namespace Ytk.C11
open Ytk.Generated Ytk.Resolver

/-- props.removeFromSlice, as translated: the first occurrence is removed (`List.erase`, what the
    model's `resolve` does with `seen`); all inputs -/
theorem removeFromSlice_generated_eq_model (slice : List String) (x : String) :
    Funcs.removeFromSlice slice x = .ok (slice.erase x) := by
  unfold Funcs.removeFromSlice
  by_cases hm : x ∈ slice
  · obtain ⟨pre, suf, rfl, hn⟩ := List.eq_append_cons_of_mem hm
    have he : (pre ++ x :: suf).erase x = pre ++ suf := by
      rw [List.erase_append_right _ hn, List.erase_cons_head]
    have hne : ((pre.length : Int) != -1) = true := by simp
    simp only [Go.slicesIndex_append_cons pre x suf hn, hne, if_true, Go.sliceL_prefix, Go.sliceL_suffix,
      Go.Res.ok_bind, he, List.nil_append, Go.Res.pure_eq]
  · simp [Go.slicesIndex_of_notMem slice x hm, List.erase_of_not_mem hm]

theorem isPrefixOfChars_false_of_length : ∀ (as bs : List Char), bs.length < as.length →
    isPrefixOfChars as bs = false
  | [], _, h => by simp at h
  | _ :: _, [], _ => rfl
  | a :: as, b :: bs, h => by
    simp [isPrefixOfChars, isPrefixOfChars_false_of_length as bs (by simpa using h)]

theorem matchAt_loop1_eq (str sub : String) (index : Nat) (hlen : index + sub.toList.length ≤ str.toList.length) :
    ∀ (ssuf spre : List Char) (fuel : Nat), sub.toList = spre ++ ssuf → ssuf.length + 1 ≤ fuel →
    Funcs.matchAt_loop1 str (index : Int) sub fuel (spre.length : Int)
      = .ok (if isPrefixOfChars ssuf (str.toList.drop (index + spre.length)) then .next (sub.toList.length : Int) else .ret false) := by
  intro ssuf
  induction ssuf with
  | nil =>
    intro spre fuel hs hf
    cases fuel with
    | zero => omega
    | succ f =>
      simp at hs
      simp [Funcs.matchAt_loop1, Go.len_eq, hs, isPrefixOfChars]
  | cons c r ih =>
    intro spre fuel hs hf
    cases fuel with
    | zero => omega
    | succ f =>
      have hl : sub.toList.length = spre.length + (r.length + 1) := by simp [hs]
      have hlt : (spre.length : Int) < Go.len sub := by
        simp only [Go.len_eq, hl]; omega
      have hn : index + spre.length < str.toList.length := by omega
      have hb1 : Go.byteAt str ((index : Int) + (spre.length : Int)) = .ok str.toList[index + spre.length] := by
        have := Go.index_nat str.toList (index + spre.length) hn
        simpa [Go.byteAt] using this
      have hb2 : Go.byteAt sub (spre.length : Int) = .ok c := by
        simp only [Go.byteAt, hs]; exact Go.index_append_length spre c r
      have hd : str.toList.drop (index + spre.length) = str.toList[index + spre.length] :: str.toList.drop (index + spre.length + 1) :=
        List.drop_eq_getElem_cons hn
      have ih' := ih (spre ++ [c]) f (by simp [hs]) (by simp at hf; omega)
      simp only [List.length_append, List.length_singleton, Int.natCast_add, Int.natCast_one] at ih'
      simp only [Funcs.matchAt_loop1, hlt, decide_true, if_true, hb1, hb2, Go.Res.ok_bind, hd, isPrefixOfChars]
      by_cases hc : str.toList[index + spre.length] = c
      · simp [hc, ih', Nat.add_assoc]
      · have hc' : ¬ c = str.toList[index + spre.length] := fun e => hc e.symm
        simp [hc, hc']

/-- props.matchAt, as translated (index loop with fuel len(substring)+1): for 0 ≤ index ≤ len(str)
    it never panics and says whether `substring` is a prefix of `str[index:]` — the model's
    `isPrefixOfChars` (what `lex` scans with).  Outside that domain: a negative index panics
    (`matchAt_negative_index_panics`), and for index > len(str) the empty substring is NOT matched. -/
theorem matchAt_generated_eq_model (str sub : String) (index : Nat) (hidx : index ≤ str.toList.length) :
    Funcs.matchAt str (index : Int) sub = .ok (isPrefixOfChars sub.toList (str.toList.drop index)) := by
  unfold Funcs.matchAt
  by_cases h : index + sub.toList.length ≤ str.toList.length
  · have h1 : ¬ ((index : Int) + Go.len sub > Go.len str) := by
      simp only [Go.len_eq]; omega
    have hf : (Go.len sub + 1).toNat = sub.toList.length + 1 := by
      simp only [Go.len_eq]; omega
    have := matchAt_loop1_eq str sub index h sub.toList [] (sub.toList.length + 1) (by simp) (Nat.le_refl _)
    simp only [List.length_nil, Int.natCast_zero, Nat.add_zero] at this
    simp only [h1, decide_false, Bool.false_eq_true, if_false, hf, this, Go.Res.ok_bind]
    cases isPrefixOfChars sub.toList (List.drop index str.toList) <;> simp
  · have h1 : ((index : Int) + Go.len sub > Go.len str) := by
      simp only [Go.len_eq]; omega
    have : isPrefixOfChars sub.toList (str.toList.drop index) = false :=
      isPrefixOfChars_false_of_length _ _ (by simp; omega)
    simp [h1, this]

theorem nonvacuous_matchAt : Funcs.matchAt "a${b}" (1 : Nat) "${" = .ok true ∧ Funcs.matchAt "a${b}" (2 : Nat) "${" = .ok false := by
  decide

/-- outside the domain of `matchAt_generated_eq_model`: the Go code indexes `str[index+i]` -/
theorem matchAt_negative_index_panics : Funcs.matchAt "ab" (-1) "a" = .panic := by decide

/-- props.indexAfter, as translated: for offset ≥ 0 it never panics; −1 if offset > len(str), else
    strings.Index of `str[offset:]` counted from `offset` (absolute position of the first occurrence
    at or behind `offset`, −1 if none) -/
theorem indexAfter_generated_eq_model (str sub : String) (offset : Nat) :
    Funcs.indexAfter str sub (offset : Int)
      = .ok (if str.toList.length < offset then -1
             else Go.stringsIndexC sub.toList (str.toList.drop offset) offset) := by
  unfold Funcs.indexAfter
  by_cases h : str.toList.length < offset
  · have : (offset : Int) > Go.len str := by simp only [Go.len_eq]; omega
    simp [h, this]
  · have h1 : ¬ (offset : Int) > Go.len str := by simp only [Go.len_eq]; omega
    have hs := Go.slice_nat str offset str.toList.length (by omega) (Nat.le_refl _)
    rw [← Go.len_eq] at hs
    have ht : (str.toList.drop offset).take (str.toList.length - offset) = str.toList.drop offset := by
      apply List.take_of_length_le; simp
    simp only [h1, decide_false, Bool.false_eq_true, if_false, h, hs, ht, Go.Res.ok_bind, Go.stringsIndex,
      String.toList_ofList]
    rw [Go.stringsIndexC_shift sub.toList _ offset]
    split <;> simp_all

/-- props.replaceAt, as translated: for 0 ≤ start ≤ len(in), end ≥ 0 it never panics and is
    `in[:start] ++ replacement ++ in[end:]` (empty tail when end ≥ len(in)) -/
theorem replaceAt_generated_eq_model (s repl : String) (start stop : Nat) (h : start ≤ s.toList.length) :
    Funcs.replaceAt s (start : Int) (stop : Int) repl
      = .ok (String.ofList (s.toList.take start ++ repl.toList ++ s.toList.drop stop)) := by
  unfold Funcs.replaceAt
  have hs := Go.slice_nat s 0 start (by omega) h
  simp only [Int.natCast_zero, List.drop_zero, Nat.sub_zero] at hs
  simp only [hs, Go.Res.ok_bind]
  by_cases he : stop < s.toList.length
  · have h1 : (stop : Int) < Go.len s := by simp only [Go.len_eq]; omega
    have hs2 := Go.slice_nat s stop s.toList.length (by omega) (Nat.le_refl _)
    rw [← Go.len_eq] at hs2
    have ht : (s.toList.drop stop).take (s.toList.length - stop) = s.toList.drop stop := by
      apply List.take_of_length_le; simp
    simp only [h1, decide_true, if_true, hs2, ht, Go.Res.ok_bind, Go.Res.pure_eq]
    congr 1; apply String.toList_inj.mp; simp [String.toList_append]
  · have h1 : ¬ (stop : Int) < Go.len s := by simp only [Go.len_eq]; omega
    have hd : s.toList.drop stop = [] := List.drop_eq_nil_of_le (by omega)
    simp only [h1, decide_false, Bool.false_eq_true, if_false, hd, Go.Res.pure_eq, List.append_nil]
    congr 1; apply String.toList_inj.mp; simp [String.toList_append]

theorem indexAfter_negative_offset_panics : Funcs.indexAfter "ab" "a" (-1) = .panic := by decide

end Ytk.C11

/-! ## `propImpl.findEndIndex`, as translated (bytes), against `findEnd` (tokens)

    The translation flattens the receiver: `p.pl`, `p.b.suffix`, `p.sl`, `p.b.prefix` are parameters;
    `MustBuild` sets `pl = len(prefix)`, `sl = len(suffix)` and the theorem instantiates them so. -/
namespace Ytk.C11
open Ytk.Generated Ytk.Resolver

/-- what `findEndIndex` does with the outcome of its loop: `return index` inside, `return notFound` behind it -/
def feFinish : Go.Ctl Int (Int × Int) → Go.Res Int
  | .ret r => .ok r
  | .next _ => .ok (-1)

/-- the loop of the translated `findEndIndex` IS the character-level scan `scanEnd` (no panic, fuel suffices) -/
theorem findEndIndex_loop1_eq (d : Delims) (hp : d.pre ≠ []) (hs : d.suf ≠ []) (buf : String) :
    ∀ (fuel i n : Nat), buf.toList.length - i + 1 ≤ fuel →
      (Funcs.findEndIndex_loop1 (d.pre.length : Int) (String.ofList d.suf) (d.suf.length : Int)
          (String.ofList d.pre) buf fuel (i : Int) (n : Int) >>= feFinish)
        = .ok (match scanEnd d 0 n (buf.toList.drop i) with
               | some k => ((i + k : Nat) : Int)
               | none => -1) := by
  intro fuel
  induction fuel with
  | zero => intro i n h; omega
  | succ fuel ih =>
    intro i n hf
    unfold Funcs.findEndIndex_loop1
    have hpl : 1 ≤ d.pre.length := List.length_pos_iff.mpr hp
    have hsl : 1 ≤ d.suf.length := List.length_pos_iff.mpr hs
    by_cases hi : i < buf.toList.length
    · have h1 : ((i : Int) < Go.len buf) := by simp only [Go.len_eq]; omega
      have hm1 := matchAt_generated_eq_model buf (String.ofList d.suf) i (Nat.le_of_lt hi)
      have hm2 := matchAt_generated_eq_model buf (String.ofList d.pre) i (Nat.le_of_lt hi)
      rw [String.toList_ofList] at hm1 hm2
      have hne : buf.toList.drop i ≠ [] := by
        intro e; have := congrArg List.length e; simp at this; omega
      simp only [h1, decide_true, if_true, hm1, hm2, Go.Res.ok_bind]
      cases hS : isPrefixOfChars d.suf (buf.toList.drop i) with
      | true =>
        cases n with
        | zero => simp [scanEnd_suf_zero hne hS, feFinish]
        | succ m =>
          have hn : (((m + 1 : Nat) : Int) > 0) := by omega
          have e1 : (((m + 1 : Nat) : Int) - 1) = (m : Int) := by omega
          have e2 : (i : Int) + (d.suf.length : Int) = ((i + d.suf.length : Nat) : Int) := by omega
          simp only [hn, decide_true, if_true, e1, e2]
          rw [ih (i + d.suf.length) m (by omega), scanEnd_suf_succ m hs hS, List.drop_drop]
          cases scanEnd d 0 m (List.drop (i + d.suf.length) buf.toList) <;> simp <;> omega
      | false =>
        cases hP : isPrefixOfChars d.pre (buf.toList.drop i) with
        | true =>
          have e1 : ((n : Int) + 1) = ((n + 1 : Nat) : Int) := by omega
          have e2 : (i : Int) + (d.pre.length : Int) = ((i + d.pre.length : Nat) : Int) := by omega
          simp only [if_true, e1, e2, Bool.false_eq_true, if_false]
          rw [ih (i + d.pre.length) (n + 1) (by omega), scanEnd_pre n hp hS hP, List.drop_drop]
          cases scanEnd d 0 (n + 1) (List.drop (i + d.pre.length) buf.toList) <;> simp <;> omega
        | false =>
          have e2 : (i : Int) + 1 = ((i + 1 : Nat) : Int) := by omega
          simp only [e2, Bool.false_eq_true, if_false]
          rw [ih (i + 1) n (by omega)]
          obtain ⟨c, cs, hc⟩ := List.exists_cons_of_ne_nil hne
          have hcs : List.drop (i + 1) buf.toList = cs := by
            rw [← List.drop_drop, hc]; rfl
          rw [hc] at hS hP
          rw [hc, scanEnd_ch n hS hP, hcs]
          cases scanEnd d 0 n cs <;> simp <;> omega
    · have h1 : ¬ ((i : Int) < Go.len buf) := by simp only [Go.len_eq]; omega
      have hd : buf.toList.drop i = [] := List.drop_eq_nil_of_le (by omega)
      simp [h1, hd, scanEnd_nil, feFinish]

theorem findEndIndex_unfold (pl : Int) (suf : String) (sl : Int) (pre : String) (buf : String) (start : Int) :
    Funcs.findEndIndex pl suf sl pre buf start
      = (Funcs.findEndIndex_loop1 pl suf sl pre buf ((Go.len buf + 1).toNat) (start + pl) 0 >>= feFinish) := by
  unfold Funcs.findEndIndex
  dsimp only
  congr 1
  funext x
  rcases x with r | ⟨a, b⟩ <;> rfl

/-- props.propImpl.findEndIndex, as translated, on BYTES, for every string and every start index:
    no panic, loop fuel `len(buf)+1` suffices, and the result is the character-level scan `scanEnd`
    of the text behind the prefix (delimiters non-empty — `MustBuild` does not check that; with an
    empty suffix the Go loop would not advance). -/
theorem findEndIndex_generated_eq_scan (d : Delims) (hp : d.pre ≠ []) (hs : d.suf ≠ []) (buf : String) (start : Nat) :
    Funcs.findEndIndex (d.pre.length : Int) (String.ofList d.suf) (d.suf.length : Int) (String.ofList d.pre) buf
        (start : Int)
      = .ok (match scanEnd d 0 0 (buf.toList.drop (start + d.pre.length)) with
             | some k => ((start + d.pre.length + k : Nat) : Int)
             | none => -1) := by
  rw [findEndIndex_unfold]
  have e : (start : Int) + (d.pre.length : Int) = ((start + d.pre.length : Nat) : Int) := by omega
  have hf : (Go.len buf + 1).toNat = buf.toList.length + 1 := by simp only [Go.len_eq]; omega
  rw [e, hf]
  exact findEndIndex_loop1_eq d hp hs buf _ _ 0 (by omega)

/-- **BYTES ↔ TOKENS.**  props.propImpl.findEndIndex, as translated, started at the index `start` of a
    prefix (the Go code never looks at `buf[:start+pl]`), for EVERY string `buf` and every `start`:
    it does not panic, the fuel suffices, and with `rest = buf[start+pl:]`
      * it returns `-1` (notFound) iff the model's `findEnd 0 (lex d rest)` is `none`;
      * if the model returns `some (ph, after)` it returns `start + pl + |unlex d ph|`, the byte
        position that corresponds to the position of the closing suffix token in the token list:
        `rest = unlex d ph ++ suffix ++ unlex d after` (`findEndIndex_position`).
    Domain: `Delims.ScanOK` (non-empty delimiters with pairwise different first characters, no
    character of the separator starts the prefix or the suffix) — implied by the model's "no
    character shared between two delimiters"; `LexOK` alone is not enough
    (`findEndIndex_lexOK_not_enough_counterexample`). -/
theorem findEndIndex_generated_eq_model (d : Delims) (hd : d.ScanOK) (buf : String) (start : Nat) :
    Funcs.findEndIndex (d.pre.length : Int) (String.ofList d.suf) (d.suf.length : Int) (String.ofList d.pre) buf
        (start : Int)
      = .ok (match findEnd 0 (lex d (buf.toList.drop (start + d.pre.length))) with
             | some (ph, _) => ((start + d.pre.length + (unlex d ph).length : Nat) : Int)
             | none => -1) := by
  obtain ⟨a, as, b, bs, c, cs, hp, hs, _⟩ := hd.cases
  rw [findEndIndex_generated_eq_scan d (by rw [hp]; simp) (by rw [hs]; simp), scanEnd_eq_findEnd' hd]
  cases findEnd 0 (lex d (buf.toList.drop (start + d.pre.length))) <;> rfl

/-- the position statement behind `findEndIndex_generated_eq_model`: what the model's `findEnd`
    returns on the lexed text splits the BYTES at the returned index (every delimiter triple) -/
theorem findEndIndex_position (d : Delims) (rest : List Char) (ph after : Toks)
    (h : findEnd 0 (lex d rest) = some (ph, after)) :
    rest = unlex d ph ++ d.suf ++ unlex d after := by
  have e := (findEnd_some_spec h).1
  have := unlex_lex' d rest
  rw [e, DivR.unlex_append] at this
  rw [← this]; simp [unlex, unlexTok]

theorem nonvacuous_findEndIndex :
    DivR.dd.ScanOK ∧
    Funcs.findEndIndex 2 "}" 1 "${" "a${x${y}:d}z" (1 : Nat) = .ok 10 ∧
    findEnd 0 (lex DivR.dd "x${y}:d}z".toList) = some ([.ch 'x', .pre, .ch 'y', .suf, .sep, .ch 'd'], [.ch 'z']) ∧
    Funcs.findEndIndex 2 "}" 1 "${" "a${x${y}" (1 : Nat) = .ok (-1) := by
  decide

/-- `LexOK` (pairwise different FIRST characters) is not enough for bytes = tokens: with the
    separator `:}` and the suffix `}` the text `${a:}` has the placeholder `a:` for the Go code
    (index 4 is returned) while the lexer sees prefix, `a`, separator — no suffix token. -/
theorem findEndIndex_lexOK_not_enough_counterexample :
    let d : Delims := ⟨['$', '{'], ['}'], [':', '}']⟩
    d.LexOK ∧ ¬ d.ScanOK ∧
    Funcs.findEndIndex 2 "}" 1 "${" "${a:}" (0 : Nat) = .ok 4 ∧
    findEnd 0 (lex d "a:}".toList) = none := by
  decide

end Ytk.C11

/-! ## `propImpl.resolvePlaceholder` / `propImpl.resolve` / `Resolver.Resolve`, as translated (bytes;
    `resolve` is self-recursive: the translation carries a recursion fuel, its loop the fuel
    `len(value)+1`), against the token-level model.

    The lookup function is a parameter `String → Option String` of the translation (a pure total
    function: the Go callee is assumed neither to panic nor to have effects).  It corresponds to the
    model's table under the lexer: `LookupRel`. -/
namespace Ytk.C11
open Ytk.Generated Ytk.Resolver

/-- the byte-level lookup function and the token-level table describe the same map -/
def LookupRel (d : Delims) (lk : String → Option String) (tbl : Table) : Prop :=
  ∀ k : String, lk k = (tbl.get (lex d k.toList)).map (fun v => String.ofList (unlex d v))

/-- props.propImpl.resolvePlaceholder, as translated, on BYTES, for every placeholder text: no
    panic, and the result is the rendering of what the model's `resolvePlaceholder` returns on the
    lexed text (`nil` ↔ `none`): direct hit, else key before the first separator, else the default
    behind it.  Domain: `Delims.BytesOK`; lookup function and table related by `LookupRel`. -/
theorem resolvePlaceholder_generated_eq_model (d : Delims) (hd : d.BytesOK) (lk : String → Option String)
    (tbl : Table) (hlk : LookupRel d lk tbl) (ph : String) :
    Funcs.resolvePlaceholder (String.ofList d.sep) (d.sep.length : Int) lk ph
      = .ok ((Resolver.resolvePlaceholder tbl (lex d ph.toList)).map (fun v => String.ofList (unlex d v))) := by
  unfold Funcs.resolvePlaceholder Resolver.resolvePlaceholder
  rw [hlk ph]
  cases hg : tbl.get (lex d ph.toList) with
  | some v => simp
  | none =>
    simp only [Option.map_none, Option.isNone_none, if_true]
    rw [stringsIndex_sep hd ph]
    cases hs : findSep (lex d ph.toList) with
    | none => simp
    | some p =>
      obtain ⟨k, dflt⟩ := p
      have hT := findSep_some hs
      have hph : ph.toList = unlex d k ++ (d.sep ++ unlex d dflt) := by
        have := unlex_lex' d ph.toList
        rw [hT, DivR.unlex_append] at this
        rw [← this]; simp [unlex, unlexTok]
      have hk : lex d (unlex d k) = k := lex_unlex_prefix hd.1.1 _ _ (Nat.le_refl _) k (.sep :: dflt) hT
      have hne : ((((unlex d k).length : Nat) : Int) != -1) = true := by simp
      have hlen : ph.toList.length = (unlex d k).length + (d.sep.length + (unlex d dflt).length) := by
        rw [hph]; simp
      have s1 := Go.slice_nat ph 0 (unlex d k).length (Nat.zero_le _) (by omega)
      have s2 := Go.slice_nat ph ((unlex d k).length + d.sep.length) ph.toList.length (by omega) (Nat.le_refl _)
      rw [← Go.len_eq] at s2
      have e1 : (ph.toList.drop 0).take ((unlex d k).length - 0) = unlex d k := by
        rw [hph]; simp
      have e2 : (ph.toList.drop ((unlex d k).length + d.sep.length)).take
          (ph.toList.length - ((unlex d k).length + d.sep.length)) = unlex d dflt := by
        rw [List.take_of_length_le (by simp)]
        rw [hph, ← List.drop_drop, List.drop_left, List.drop_left]
      rw [e1] at s1
      rw [e2] at s2
      simp only [Int.natCast_zero] at s1
      have e3 : (((unlex d k).length : Nat) : Int) + (d.sep.length : Int)
          = (((unlex d k).length + d.sep.length : Nat) : Int) := by omega
      have hlk' := hlk (String.ofList (unlex d k))
      rw [String.toList_ofList, hk] at hlk'
      simp only [hne, if_true, s1, e3, s2, Go.Res.ok_bind, hlk']
      cases tbl.get k <;> simp

/-- the recursion of the translated `resolve` needs no loop iteration and no recursive call on a
    text without a prefix token: PLACEHOLDER-FREE texts are returned verbatim, as the model returns
    their tokens (whose rendering is the text), for every recursion fuel ≥ 1, every lookup function,
    every stack.

    Full statement (PROVED further down: `resolve_generated_eq_model`): for every text `s`, every fuel
    `n` at which the model has ended, `Funcs.resolve … m s lk seen` (m ≥ n) is the rendering of
    `Resolver.resolve (relex d) n tbl (lex d s) (seen.map lex)` — `.ok t ↦ .ok (some (unlex t))`,
    `.cycle _ ↦ .panic` — under `BytesOK`, `LookupRel` and table values that re-lex to themselves.
    This partial needs neither `LookupRel` nor a hypothesis on the table. -/
theorem resolve_generated_eq_model_plain_partial (d : Delims) (hd : d.BytesOK) (lk : String → Option String)
    (n : Nat) (norm : Toks → Toks) (tbl : Table) (s : String) (seen : List String) (seenT : List Toks)
    (hplain : findPre (lex d s.toList) = none) :
    Funcs.resolve (String.ofList d.pre) (d.pre.length : Int) (String.ofList d.suf) (d.suf.length : Int)
        (String.ofList d.sep) (d.sep.length : Int) (n + 1) s lk seen = .ok (some s)
    ∧ Resolver.resolve norm (n + 1) tbl (lex d s.toList) seenT = .ok (lex d s.toList)
    ∧ String.ofList (unlex d (lex d s.toList)) = s := by
  refine ⟨?_, ?_, ?_⟩
  · unfold Funcs.resolve
    simp [stringsIndex_pre hd s, hplain]
  · simp [Resolver.resolve, hplain]
  · rw [unlex_lex']; exact String.ofList_toList

/-- `Resolver.Resolve`, as translated: placeholder-free texts are returned unchanged -/
theorem Resolve_generated_eq_model_plain_partial (d : Delims) (hd : d.BytesOK) (lk : String → Option String)
    (n : Nat) (s : String) (hplain : findPre (lex d s.toList) = none) :
    Funcs.Resolve (n + 1) lk (String.ofList d.pre) (d.pre.length : Int) (String.ofList d.suf) (d.suf.length : Int)
        (String.ofList d.sep) (d.sep.length : Int) s = .ok s := by
  unfold Funcs.Resolve
  rw [(resolve_generated_eq_model_plain_partial d hd lk n id [] s [] [] hplain).1]
  simp [Go.deref]

/-- the translated resolver RUNS (kernel evaluation of the regenerated definitions, default
    delimiters): substitution, default, unresolved placeholder kept, nested key, circular reference
    = panic, unterminated placeholder kept, recursion fuel exhausted -/
theorem nonvacuous_resolve_generated :
    let lk : String → Option String := fun k =>
      if k = "x" then some "1" else if k = "y" then some "${x}" else if k = "k1" then some "K"
      else if k = "c" then some "${e}" else if k = "e" then some "${c}" else none
    let R := fun (fuel : Nat) (s : String) => Funcs.Resolve fuel lk "${" 2 "}" 1 ":" 1 s
    DivR.dd.BytesOK ∧
    R 5 "a${x}b${q:dflt}${nope}" = .ok "a1bdflt${nope}" ∧
    R 5 "${k${x}}-${y}" = .ok "K-1" ∧
    R 9 "a${c}" = .panic ∧
    R 5 "a${x" = .ok "a${x" ∧
    R 1 "${y}" = .fuel := by
  decide

end Ytk.C11

/-! ## `propImpl.resolve`, as translated, against the model: the general case -/
namespace Ytk.C11
open Ytk.Generated Ytk.Resolver

/-- lexing a Go string -/
def lexS (d : Delims) (s : String) : Toks := lex d s.toList
/-- rendering tokens as a Go string -/
def render (d : Delims) (t : Toks) : String := String.ofList (unlex d t)

/-- the translated `resolve` for the delimiter triple `d` and the lookup function `lk` -/
abbrev genResolve (d : Delims) (lk : String → Option String) (m : Nat) (s : String) (lk' : String → Option String)
    (seen : List String) : Go.Res (Option String) :=
  Funcs.resolve (String.ofList d.pre) (d.pre.length : Int) (String.ofList d.suf) (d.suf.length : Int)
    (String.ofList d.sep) (d.sep.length : Int) m s lk' seen

/-- the loop of the translated `resolve`, its recursive calls going to `rec_` -/
abbrev genLoop (d : Delims) (lk : String → Option String)
    (rec_ : String → (String → Option String) → List String → Go.Res (Option String))
    (lf : Nat) (seen : List String) (si : Int) (result : String) : Go.Res (List String × Int × String) :=
  Funcs.resolve_loop1 rec_ (String.ofList d.pre) (d.pre.length : Int) (String.ofList d.suf) (d.suf.length : Int)
    (String.ofList d.sep) (d.sep.length : Int) lk lf seen si result

/-- outcome kinds: ok ↦ ok (pointer to the rendering), circular reference ↦ panic, out of fuel ↦ out of fuel -/
def conv (d : Delims) : Resolver.Res → Go.Res (Option String)
  | .ok t => .ok (some (render d t))
  | .cycle _ => .panic
  | .outOfFuel => .fuel

/-- the same with the already finished part `done` of `result` in front -/
def convL (d : Delims) (done : List Char) : Resolver.Res → Go.Res (Option String)
  | .ok t => .ok (some (String.ofList (done ++ unlex d t)))
  | .cycle _ => .panic
  | .outOfFuel => .fuel

/-- what `resolve` does with the outcome of its loop: `return &result` -/
def rsFinish : (List String × Int × String) → Go.Res (Option String)
  | (_, _, result) => .ok (some result)

/-- Go's `si` while `result = done ++ rest`: position of the first prefix in `rest`, or notFound -/
def siOf (d : Delims) (done rest : List Char) : Int :=
  match findPre (lex d rest) with
  | none => -1
  | some (b, _) => ((done.length + (unlex d b).length : Nat) : Int)

theorem convL_nil (d : Delims) (r : Resolver.Res) : convL d [] r = conv d r := by
  cases r <;> simp [convL, conv, render]

theorem lexS_render_inj (d : Delims) {a b : String} (h : lexS d a = lexS d b) : a = b := by
  have := congrArg (unlex d) h
  simp only [lexS, unlex_lex'] at this
  exact String.toList_inj.mp this

theorem contains_map_lexS (d : Delims) (seen : List String) (x : String) :
    (seen.map (lexS d)).contains (lexS d x) = seen.contains x := by
  induction seen with
  | nil => rfl
  | cons a r ih =>
    by_cases h : x = a
    · subst h; simp [List.contains_cons]
    · have h' : lexS d x ≠ lexS d a := fun e => h (lexS_render_inj d e)
      have b1 : (lexS d x == lexS d a) = false := by simpa using h'
      have b2 : (x == a) = false := by simpa using h
      simp only [List.map_cons, List.contains_cons, ih, b1, b2]

/-- the bytes around the first placeholder of a lexed text, and the segments that re-lex to themselves -/
theorem firstPh_bytes {d : Delims} (hd : d.LexOK) {rest : List Char} {before ph after : Toks}
    (h : firstPh (lex d rest) = some (before, ph, after)) :
    rest = unlex d before ++ (d.pre ++ (unlex d ph ++ (d.suf ++ unlex d after)))
    ∧ lex d (unlex d ph) = ph ∧ lex d (unlex d after) = after
    ∧ findPre (lex d rest) = some (before, ph ++ .suf :: after)
    ∧ lex d (unlex d (ph ++ .suf :: after)) = ph ++ .suf :: after := by
  obtain ⟨afterPre, h1, h2⟩ := firstPh_split h
  have e1 := (findPre_some h1).1
  have e2 := (findEnd_some_spec h2).1
  subst e2
  have hr := unlex_lex' d rest
  rw [e1] at hr
  have hsuf : lex d (unlex d (ph ++ .suf :: after)) = ph ++ .suf :: after :=
    lex_unlex_suffix hd _ rest (Nat.le_refl _) (before ++ [.pre]) _ (by rw [e1]; simp)
  refine ⟨?_, ?_, ?_, h1, hsuf⟩
  · rw [← hr]; simp [DivR.unlex_append, unlex, unlexTok]
  · exact lex_unlex_prefix hd _ _ (Nat.le_refl _) ph (.suf :: after) hsuf
  · exact lex_unlex_suffix hd _ rest (Nat.le_refl _) (before ++ .pre :: ph ++ [.suf]) after (by rw [e1]; simp)

theorem genLoop_exit (d : Delims) (lk : String → Option String)
    (rec_ : String → (String → Option String) → List String → Go.Res (Option String))
    (f : Nat) (seen : List String) (result : String) :
    genLoop d lk rec_ (f + 1) seen (-1) result = .ok (seen, -1, result) := by
  simp [genLoop, Funcs.resolve_loop1]

end Ytk.C11

namespace Ytk.C11
open Ytk.Generated Ytk.Resolver

/-- the recursive calls of the translated `resolve` with fuel `m` agree with the model at fuel `n` -/
def SubOK (d : Delims) (lk : String → Option String) (tbl : Table) (m n : Nat) : Prop :=
  ∀ (s : String) (seen : List String),
    Resolver.resolve (relex d) n tbl (lexS d s) (seen.map (lexS d)) ≠ .outOfFuel →
    genResolve d lk m s lk seen = conv d (Resolver.resolve (relex d) n tbl (lexS d s) (seen.map (lexS d)))

/-- the loop of the translated `resolve` (recursive calls with fuel `m`), continued on the unscanned
    rest of `result`, agrees with the model at fuel `n` on the tokens of that rest -/
def LoopOK (d : Delims) (lk : String → Option String) (tbl : Table) (m n : Nat) : Prop :=
  ∀ (done rest : List Char) (seen : List String) (lf : Nat), rest.length + 1 ≤ lf →
    Resolver.resolve (relex d) n tbl (lex d rest) (seen.map (lexS d)) ≠ .outOfFuel →
    (genLoop d lk (genResolve d lk m) lf seen (siOf d done rest) (String.ofList (done ++ rest)) >>= rsFinish)
      = convL d done (Resolver.resolve (relex d) n tbl (lex d rest) (seen.map (lexS d)))

theorem siOf_eq_stringsIndexC {d : Delims} (hd : d.BytesOK) (done rest : List Char) :
    siOf d done rest = Go.stringsIndexC d.pre rest done.length := by
  rw [stringsIndexC_pre hd]; rfl

/-- the resolved value that replaces a placeholder re-lexes to itself -/
theorem relex_value {d : Delims} (hd : d.LexOK) {tbl : Table} (hT : ∀ kv ∈ tbl, relex d kv.2 = kv.2)
    {x : List Char} {pv : Toks} (h : Resolver.resolvePlaceholder tbl (lex d x) = some pv) : lex d (unlex d pv) = pv := by
  rcases resolvePlaceholder_cases h with ⟨k, hk⟩ | ⟨k, hk⟩
  · exact hT _ hk
  · have e := findSep_some hk
    exact lex_unlex_suffix hd _ x (Nat.le_refl _) (k ++ [.sep]) pv (by rw [e]; simp)

end Ytk.C11

namespace Ytk.C11
open Ytk.Generated Ytk.Resolver

/-- ONE ITERATION of the loop of the translated `resolve` against one unfolding of the model -/
theorem loop_iter (d : Delims) (hd : d.BytesOK) (lk : String → Option String) (tbl : Table)
    (hlk : LookupRel d lk tbl) (hT : ∀ kv ∈ tbl, relex d kv.2 = kv.2) (m n : Nat)
    (H : SubOK d lk tbl m n) (K : LoopOK d lk tbl m n) : LoopOK d lk tbl m (n + 1) := by
  intro done rest seen lf hlf hne
  have hlex := hd.1.1
  obtain ⟨pa, pas, sa, sas, va, vas, hpre, hsuf, _⟩ := hd.1.cases
  have hpl : 1 ≤ d.pre.length := by rw [hpre]; simp
  have hsl : 1 ≤ d.suf.length := by rw [hsuf]; simp
  cases lf with
  | zero => omega
  | succ f =>
  have plain : ∀ (si : Int), firstPh (lex d rest) = none →
      (genLoop d lk (genResolve d lk m) (f + 1) seen si (String.ofList (done ++ rest)) >>= rsFinish)
        = .ok (some (String.ofList (done ++ rest))) →
      (genLoop d lk (genResolve d lk m) (f + 1) seen si (String.ofList (done ++ rest)) >>= rsFinish)
        = convL d done (Resolver.resolve (relex d) (n + 1) tbl (lex d rest) (seen.map (lexS d))) := by
    intro si hfp hgo
    rw [hgo, resolve_succ_none n _ hfp]
    simp [convL, unlex_lex']
  cases hp : findPre (lex d rest) with
  | none =>
    apply plain _ (by simp [firstPh, hp])
    have : siOf d done rest = -1 := by simp [siOf, hp]
    rw [this, genLoop_exit]; rfl
  | some p =>
    obtain ⟨b, afterPre⟩ := p
    have e1 := (findPre_some hp).1
    have hrest : rest = unlex d b ++ (d.pre ++ unlex d afterPre) := by
      have := unlex_lex' d rest
      rw [e1, DivR.unlex_append] at this
      rw [← this]; simp [unlex, unlexTok]
    have hAP : lex d (unlex d afterPre) = afterPre :=
      lex_unlex_suffix hlex _ rest (Nat.le_refl _) (b ++ [.pre]) afterPre (by rw [e1]; simp)
    have hsi : siOf d done rest = ((done.length + (unlex d b).length : Nat) : Int) := by simp [siOf, hp]
    have hsine : ((((done.length + (unlex d b).length : Nat) : Int)) != -1) = true := by
      simp; omega
    have hres : (String.ofList (done ++ rest)).toList = done ++ rest := String.toList_ofList
    have hdrop : (done ++ rest).drop (done.length + (unlex d b).length + d.pre.length) = unlex d afterPre := by
      rw [hrest]
      have : done ++ (unlex d b ++ (d.pre ++ unlex d afterPre)) = (done ++ unlex d b ++ d.pre) ++ unlex d afterPre := by simp
      rw [this, List.drop_left' (by simp only [List.length_append]; first | done | omega)]
    have hfe := findEndIndex_generated_eq_model d hd.1 (String.ofList (done ++ rest)) (done.length + (unlex d b).length)
    rw [hres, hdrop, hAP] at hfe
    rw [hsi]
    cases he : findEnd 0 afterPre with
    | none =>
      rw [← hsi]
      apply plain _ (by simp [firstPh, hp, he])
      rw [hsi]
      rw [he] at hfe
      have hf1 : 1 ≤ f := by
        have : rest.length = (unlex d b).length + (d.pre.length + (unlex d afterPre).length) := by
          rw [hrest]; simp
        omega
      obtain ⟨f', rfl⟩ : ∃ f', f = f' + 1 := ⟨f - 1, by omega⟩
      simp only [genLoop, Funcs.resolve_loop1, hsine, if_true, hfe, Go.Res.ok_bind, bne_self_eq_false,
        Bool.false_eq_true, if_false]
      rfl
    | some q =>
      obtain ⟨ph, after⟩ := q
      rw [he] at hfe
      have hfirst : firstPh (lex d rest) = some (b, ph, after) := firstPh_of hp he
      obtain ⟨hbytes, hphL, hafterL, _, _⟩ := firstPh_bytes hlex hfirst
      have hlen : rest.length = (unlex d b).length + (d.pre.length + ((unlex d ph).length + (d.suf.length + (unlex d after).length))) := by
        rw [hbytes]; simp
      -- the placeholder text
      have heine : ((((done.length + (unlex d b).length + d.pre.length + (unlex d ph).length : Nat) : Int)) != -1) = true := by
        simp; omega
      have e_sipl : (((done.length + (unlex d b).length : Nat) : Int)) + (d.pre.length : Int)
          = ((done.length + (unlex d b).length + d.pre.length : Nat) : Int) := by omega
      have hslice := Go.slice_nat (String.ofList (done ++ rest)) (done.length + (unlex d b).length + d.pre.length)
        (done.length + (unlex d b).length + d.pre.length + (unlex d ph).length) (by omega) (by rw [hres]; simp; omega)
      have hphbytes : ((done ++ rest).drop (done.length + (unlex d b).length + d.pre.length)).take
          (done.length + (unlex d b).length + d.pre.length + (unlex d ph).length - (done.length + (unlex d b).length + d.pre.length))
          = unlex d ph := by
        rw [hbytes]
        have : done ++ (unlex d b ++ (d.pre ++ (unlex d ph ++ (d.suf ++ unlex d after))))
            = (done ++ unlex d b ++ d.pre) ++ (unlex d ph ++ (d.suf ++ unlex d after)) := by simp
        rw [this, List.drop_left' (by simp only [List.length_append]; first | done | omega)]
        simp
      rw [hres, hphbytes, show String.ofList (unlex d ph) = render d ph from rfl] at hslice
      have hphS : lexS d (render d ph) = ph := by simp [lexS, render, hphL]
      have hcont : Go.slicesContains seen (render d ph) = (seen.map (lexS d)).contains ph := by
        rw [← hphS, contains_map_lexS, hphS]; rfl
      simp only [genLoop, Funcs.resolve_loop1, hsine, if_true, hfe, Go.Res.ok_bind, heine, e_sipl, hslice]
      show (if Go.slicesContains seen (render d ph) = true then _ else _) >>= rsFinish = _
      rw [hcont]
      by_cases hc : ph ∈ seen.map (lexS d)
      · have hc' : (seen.map (lexS d)).contains ph = true := by simpa using hc
        rw [resolve_succ_here n hfirst hc, hc']
        simp only [if_true, Go.Res.panic_bind, convL]
      · have hc' : (seen.map (lexS d)).contains ph = false := by simpa using hc
        have hnotin : render d ph ∉ seen := by
          intro hm
          apply hc
          rw [← hphS]
          exact List.mem_map_of_mem hm
        rw [resolve_succ_some n hfirst hc] at hne ⊢
        have hseen1 : (seen ++ [render d ph]).map (lexS d) = seen.map (lexS d) ++ [ph] := by simp [hphS]
        have hrm : Funcs.removeFromSlice (seen ++ [render d ph]) (render d ph) = .ok seen := by
          rw [removeFromSlice_generated_eq_model, List.erase_append_right _ hnotin]; simp
        simp only [hc', Bool.false_eq_true, if_false]
        unfold body at hne ⊢
        -- first recursive call: the placeholder text
        have h1 := H (render d ph) (seen ++ [render d ph])
        rw [hseen1, hphS] at h1
        cases hr1 : Resolver.resolve (relex d) n tbl ph (seen.map (lexS d) ++ [ph]) with
        | outOfFuel => rw [hr1] at hne; exact absurd rfl hne
        | cycle o =>
          rw [hr1] at h1
          simp only [genResolve] at h1
          simp [h1 (by simp), conv, convL]
        | ok ph' =>
          rw [hr1] at h1 hne
          simp only [genResolve] at h1
          have hrp := resolvePlaceholder_generated_eq_model d hd lk tbl hlk (render d ph')
          have hrl : lex d (render d ph').toList = relex d ph' := by simp [render, relex]
          rw [hrl] at hrp
          simp only [h1 (by simp), conv, Go.Res.ok_bind, Go.deref, hrp]
          cases hpv : Resolver.resolvePlaceholder tbl (relex d ph') with
          | none =>
            simp only [hpv] at hne
            simp only [Option.map_none, Option.isSome_none, Bool.false_eq_true, if_false]
            -- indexAfter(result, prefix, ei+sl)
            have e_eisl : (((done.length + (unlex d b).length + d.pre.length + (unlex d ph).length : Nat) : Int)) + (d.suf.length : Int)
                = ((done.length + (unlex d b).length + d.pre.length + (unlex d ph).length + d.suf.length : Nat) : Int) := by omega
            have hia := indexAfter_generated_eq_model (String.ofList (done ++ rest)) (String.ofList d.pre)
              (done.length + (unlex d b).length + d.pre.length + (unlex d ph).length + d.suf.length)
            have hnl : ¬ (String.ofList (done ++ rest)).toList.length
                < done.length + (unlex d b).length + d.pre.length + (unlex d ph).length + d.suf.length := by
              rw [hres]; simp; omega
            have hdone' : done ++ rest = (done ++ unlex d b ++ d.pre ++ unlex d ph ++ d.suf) ++ unlex d after := by
              rw [hbytes]; simp
            have hdrop2 : (done ++ rest).drop (done.length + (unlex d b).length + d.pre.length + (unlex d ph).length + d.suf.length)
                = unlex d after := by
              rw [hdone', List.drop_left' (by simp only [List.length_append]; first | done | omega)]
            rw [if_neg hnl, hres, hdrop2, String.toList_ofList] at hia
            have hsi' : Go.stringsIndexC d.pre (unlex d after)
                (done.length + (unlex d b).length + d.pre.length + (unlex d ph).length + d.suf.length)
                = siOf d (done ++ unlex d b ++ d.pre ++ unlex d ph ++ d.suf) (unlex d after) := by
              rw [siOf_eq_stringsIndexC hd]; congr 1; simp only [List.length_append]
            rw [hsi'] at hia
            simp only [e_eisl, hia, Go.Res.ok_bind, hrm]
            have hk := K (done ++ unlex d b ++ d.pre ++ unlex d ph ++ d.suf) (unlex d after) seen f (by omega)
            rw [hafterL] at hk
            have hne' : Resolver.resolve (relex d) n tbl after (seen.map (lexS d)) ≠ .outOfFuel :=
              prepend_ne_outOfFuel.mp hne
            rw [← hdone'] at hk
            show genLoop d lk (genResolve d lk m) f seen _ _ >>= rsFinish = _
            rw [hk hne']
            cases Resolver.resolve (relex d) n tbl after (seen.map (lexS d)) <;>
              simp [convL, Res.prepend, DivR.unlex_append, unlex, unlexTok]
          | some pv =>
            simp only [hpv] at hne
            simp only [Option.map_some, Option.isSome_some, if_true]
            have hpvL : lex d (unlex d pv) = pv := by
              have hh : Resolver.resolvePlaceholder tbl (lex d (unlex d ph')) = some pv := hpv
              exact relex_value hlex hT hh
            have hpvS : lexS d (render d pv) = pv := by simp [lexS, render, hpvL]
            have h2 := H (render d pv) (seen ++ [render d ph])
            rw [hseen1, hpvS] at h2
            cases hr2 : Resolver.resolve (relex d) n tbl pv (seen.map (lexS d) ++ [ph]) with
            | outOfFuel => rw [hr2] at hne; exact absurd rfl hne
            | cycle o =>
              rw [hr2] at h2
              simp only [genResolve] at h2
              show (genResolve d lk m (render d pv) lk (seen ++ [render d ph]) >>= _) >>= rsFinish = _
              simp [genResolve, h2 (by simp), conv, convL]
            | ok pv' =>
              rw [hr2] at h2 hne
              simp only [genResolve] at h2
              show (genResolve d lk m (render d pv) lk (seen ++ [render d ph]) >>= _) >>= rsFinish = _
              simp only [genResolve, h2 (by simp), conv, Go.Res.ok_bind, Go.deref]
              -- replaceAt(result, si, ei+sl, *pv)
              have e_eisl : (((done.length + (unlex d b).length + d.pre.length + (unlex d ph).length : Nat) : Int)) + (d.suf.length : Int)
                  = ((done.length + (unlex d b).length + d.pre.length + (unlex d ph).length + d.suf.length : Nat) : Int) := by omega
              have hra := replaceAt_generated_eq_model (String.ofList (done ++ rest)) (render d pv')
                (done.length + (unlex d b).length)
                (done.length + (unlex d b).length + d.pre.length + (unlex d ph).length + d.suf.length)
                (by rw [hres]; simp; omega)
              have hdone' : done ++ rest = (done ++ unlex d b ++ d.pre ++ unlex d ph ++ d.suf) ++ unlex d after := by
                rw [hbytes]; simp
              have hdrop2 : (done ++ rest).drop (done.length + (unlex d b).length + d.pre.length + (unlex d ph).length + d.suf.length)
                  = unlex d after := by
                rw [hdone', List.drop_left' (by simp only [List.length_append]; first | done | omega)]
              have htake : (done ++ rest).take (done.length + (unlex d b).length) = done ++ unlex d b := by
                have : done ++ rest = (done ++ unlex d b) ++ (d.pre ++ (unlex d ph ++ (d.suf ++ unlex d after))) := by
                  rw [hbytes]; simp
                rw [this, List.take_left' (by simp only [List.length_append])]
              rw [hres, htake, hdrop2] at hra
              have hrt : (render d pv').toList = unlex d pv' := by simp [render]
              rw [hrt] at hra
              -- indexAfter(result, prefix, si+len(*pv))
              have e_len : (((done.length + (unlex d b).length : Nat) : Int)) + Go.len (render d pv')
                  = ((done.length + (unlex d b).length + (unlex d pv').length : Nat) : Int) := by
                rw [Go.len_eq, hrt]; omega
              have hia := indexAfter_generated_eq_model
                (String.ofList (done ++ unlex d b ++ unlex d pv' ++ unlex d after)) (String.ofList d.pre)
                (done.length + (unlex d b).length + (unlex d pv').length)
              simp only [String.toList_ofList] at hia
              have hnl : ¬ (done ++ unlex d b ++ unlex d pv' ++ unlex d after).length
                  < done.length + (unlex d b).length + (unlex d pv').length := by
                simp only [List.length_append]; omega
              have hdrop3 : (done ++ unlex d b ++ unlex d pv' ++ unlex d after).drop
                  (done.length + (unlex d b).length + (unlex d pv').length) = unlex d after := by
                rw [List.drop_left' (by simp only [List.length_append]; first | done | omega)]
              rw [if_neg hnl, hdrop3] at hia
              have hsi' : Go.stringsIndexC d.pre (unlex d after)
                  (done.length + (unlex d b).length + (unlex d pv').length)
                  = siOf d (done ++ unlex d b ++ unlex d pv') (unlex d after) := by
                rw [siOf_eq_stringsIndexC hd]; congr 1; simp only [List.length_append]
              rw [hsi'] at hia
              simp only [e_eisl, hra, Go.Res.ok_bind, e_len, hia, hrm]
              have hk := K (done ++ unlex d b ++ unlex d pv') (unlex d after) seen f (by omega)
              rw [hafterL] at hk
              have hne' : Resolver.resolve (relex d) n tbl after (seen.map (lexS d)) ≠ .outOfFuel :=
                prepend_ne_outOfFuel.mp hne
              show genLoop d lk (genResolve d lk m) f seen _ _ >>= rsFinish = _
              rw [hk hne']
              cases Resolver.resolve (relex d) n tbl after (seen.map (lexS d)) <;>
                simp [convL, Res.prepend, DivR.unlex_append]

end Ytk.C11

namespace Ytk.C11
open Ytk.Generated Ytk.Resolver

theorem loopOK_of_sub (d : Delims) (hd : d.BytesOK) (lk : String → Option String) (tbl : Table)
    (hlk : LookupRel d lk tbl) (hT : ∀ kv ∈ tbl, relex d kv.2 = kv.2) (m : Nat) :
    ∀ n, (∀ n', n' < n → SubOK d lk tbl m n') → LoopOK d lk tbl m n := by
  intro n
  induction n with
  | zero => intro _ done rest seen lf _ hne; exact absurd rfl hne
  | succ n ih =>
    intro Hs
    exact loop_iter d hd lk tbl hlk hT m n (Hs n (Nat.lt_succ_self n)) (ih (fun n' h => Hs n' (Nat.lt_succ_of_lt h)))

theorem subOK_all (d : Delims) (hd : d.BytesOK) (lk : String → Option String) (tbl : Table)
    (hlk : LookupRel d lk tbl) (hT : ∀ kv ∈ tbl, relex d kv.2 = kv.2) :
    ∀ m n, n ≤ m → SubOK d lk tbl m n := by
  intro m
  induction m with
  | zero =>
    intro n hn s seen hne
    have : n = 0 := by omega
    subst this
    exact absurd rfl hne
  | succ m ih =>
    intro n hn s seen hne
    cases n with
    | zero => exact absurd rfl hne
    | succ n =>
      have hL := loopOK_of_sub d hd lk tbl hlk hT m (n + 1) (fun n' h => ih n' (by omega))
      have hloop := hL [] s.toList seen (s.toList.length + 1) (Nat.le_refl _) hne
      simp only [List.nil_append, String.ofList_toList, convL_nil] at hloop
      have hsi := stringsIndex_pre hd s
      have hfuel : (Go.len s + 1).toNat = s.toList.length + 1 := by simp only [Go.len_eq]; omega
      unfold genResolve Funcs.resolve
      simp only [hfuel]
      cases hp : findPre (lex d s.toList) with
      | none =>
        rw [hp] at hsi
        have : firstPh (lexS d s) = none := by simp [firstPh, lexS, hp]
        rw [resolve_succ_none n _ this]
        simp [hsi, conv, render, lexS, unlex_lex']
      | some p =>
        obtain ⟨b, afterPre⟩ := p
        rw [hp] at hsi
        have hso : siOf d [] s.toList = (((unlex d b).length : Nat) : Int) := by simp [siOf, hp]
        rw [hso] at hloop
        have hne1 : ((((unlex d b).length : Nat) : Int) == -1) = false := by
          rw [beq_eq_false_iff_ne]; omega
        simp only [hsi, hne1, Bool.false_eq_true, if_false]
        show _ = conv d (Resolver.resolve (relex d) (n + 1) tbl (lex d s.toList) (seen.map (lexS d)))
        rw [← hloop]
        show (_ >>= _) = (_ >>= _)
        congr 1

/-- **props.propImpl.resolve, as translated (BYTES), against the hand-written model (TOKENS).**
    For every delimiter triple in `Delims.BytesOK`, every lookup function `lk` and table `tbl` that
    describe the same map under the lexer (`LookupRel`), the table values re-lexing to themselves (true
    of every table obtained by lexing strings), every text `s`, every stack `seen`:
    whenever the model has ENDED with fuel `n` (`≠ outOfFuel`), the translated function run with any
    recursion fuel `m ≥ n` (its loop with the fuel `len(value)+1` the translator instantiates) neither
    runs out of fuel nor panics on a slice bound, and has the SAME OUTCOME KIND and text:
      model `.ok t`     ↦ `.ok (some (unlex t))`  (the Go result `&result`, result = rendering of `t`)
      model `.cycle _`  ↦ `.panic`                 (the "Circular placeholder reference" panic).
    The model runs with the real `norm = relex d` on `lex d s` and the lexed stack.
    (The model spends one unit of fuel per loop continuation as well, the translation only per
    recursive call: with EQUAL fuel the translation may still end where the model reports
    `outOfFuel`; hence the statement is this direction, for all `m ≥ n`.) -/
theorem resolve_generated_eq_model (d : Delims) (hd : d.BytesOK) (lk : String → Option String) (tbl : Table)
    (hlk : LookupRel d lk tbl) (hT : ∀ kv ∈ tbl, relex d kv.2 = kv.2) (n m : Nat) (hnm : n ≤ m)
    (s : String) (seen : List String)
    (hne : Resolver.resolve (relex d) n tbl (lex d s.toList) (seen.map fun x => lex d x.toList) ≠ .outOfFuel) :
    Funcs.resolve (String.ofList d.pre) (d.pre.length : Int) (String.ofList d.suf) (d.suf.length : Int)
        (String.ofList d.sep) (d.sep.length : Int) m s lk seen
      = (match Resolver.resolve (relex d) n tbl (lex d s.toList) (seen.map fun x => lex d x.toList) with
         | .ok t => .ok (some (String.ofList (unlex d t)))
         | .cycle _ => .panic
         | .outOfFuel => .fuel) := by
  have := subOK_all d hd lk tbl hlk hT m n hnm s seen hne
  show genResolve d lk m s lk seen = _
  rw [this]
  show conv d (Resolver.resolve (relex d) n tbl (lex d s.toList) (seen.map fun x => lex d x.toList)) = _
  generalize Resolver.resolve (relex d) n tbl (lex d s.toList) (seen.map fun x => lex d x.toList) = r
  cases r <;> rfl

/-- **`Resolver.Resolve(s)`, as translated, against `resolveTop`**: same outcome kind and text
    whenever the model has ended (hypotheses as in `resolve_generated_eq_model`) -/
theorem Resolve_generated_eq_model (d : Delims) (hd : d.BytesOK) (lk : String → Option String) (tbl : Table)
    (hlk : LookupRel d lk tbl) (hT : ∀ kv ∈ tbl, relex d kv.2 = kv.2) (n m : Nat) (hnm : n ≤ m) (s : String)
    (hne : Resolver.resolveTop (relex d) n tbl (lex d s.toList) ≠ .outOfFuel) :
    Funcs.Resolve m lk (String.ofList d.pre) (d.pre.length : Int) (String.ofList d.suf) (d.suf.length : Int)
        (String.ofList d.sep) (d.sep.length : Int) s
      = (match Resolver.resolveTop (relex d) n tbl (lex d s.toList) with
         | .ok t => .ok (String.ofList (unlex d t))
         | .cycle _ => .panic
         | .outOfFuel => .fuel) := by
  unfold Funcs.Resolve Resolver.resolveTop at *
  have := resolve_generated_eq_model d hd lk tbl hlk hT n m hnm s [] hne
  simp only [List.map_nil] at this
  rw [this]
  cases Resolver.resolve (relex d) n tbl (lex d s.toList) [] <;> simp [Go.deref]

/-- the lookup function that a token table describes -/
def lkOf (d : Delims) (tbl : Table) : String → Option String :=
  fun k => (tbl.get (lex d k.toList)).map (fun v => String.ofList (unlex d v))

theorem lookupRel_lkOf (d : Delims) (tbl : Table) : LookupRel d (lkOf d tbl) tbl := fun _ => rfl

/-- the hypotheses of `resolve_generated_eq_model` are satisfiable together on a non-trivial run
    (default delimiters; a value that is itself a placeholder, a default, kernel-evaluated on both sides) -/
theorem nonvacuous_resolve_generated_eq_model :
    let d := DivR.dd
    let tbl : Table := [(lex d "x".toList, lex d "${y}".toList), (lex d "y".toList, lex d "1".toList)]
    d.BytesOK ∧ (∀ kv ∈ tbl, relex d kv.2 = kv.2) ∧ LookupRel d (lkOf d tbl) tbl ∧
    Resolver.resolve (relex d) 6 tbl (lex d "a${x}${q:z}".toList) [] = .ok (lex d "a1z".toList) ∧
    Funcs.resolve "${" 2 "}" 1 ":" 1 6 "a${x}${q:z}" (lkOf d tbl) [] = .ok (some "a1z") := by
  refine ⟨by decide, by decide, fun _ => rfl, by decide, by decide⟩

end Ytk.C11
