/-
  C11 — placeholder resolution (model: YtkModel/Resolver.lean).
-/
import YtkModel.Resolver

namespace Ytk.C11
open Ytk.Resolver

/-- `${a}-${a}` with a = 1 resolves to `1-1` (the pinned tree reported a circular reference: D16). -/
theorem nonvacuous_dup_ok :
    resolveTop id 10 [([.ch 'a'], [.ch '1'])] [.pre, .ch 'a', .suf, .ch '-', .pre, .ch 'a', .suf]
      = .ok [.ch '1', .ch '-', .ch '1'] := by decide

end Ytk.C11
