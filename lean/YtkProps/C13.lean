import YtkModel.PipelineData

namespace Ytk.C13
open Ytk.PD

theorem nonvacuous_placeholder : possiblyTemplate "{{ .a }}" = true := by decide

end Ytk.C13
