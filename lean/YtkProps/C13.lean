/-
  C13 — pipeline data operations have their documented effect and only that effect.

  All statements are about the definitions of `YtkModel/PipelineData.lean` that the driver
  executes.  dom's Merge (`mergeC`), the template renderer (`render`, `r`), strings.TrimSpace,
  the YAML parser, patch.ParsePath / patch.Do, the file codecs and the regexp matchers are
  parameters; every theorem holds for ALL instantiations unless a contract is stated.

  `PathOk p`  : `p` is non-empty and no dotted component ends in an index group (key-only path).
  "What Lookup finds at the target afterwards" is proved for EVERY non-empty path, list-item
  components (`a.l[1]`) included.

  Frame ("only that effect").  `set_frame`, `template_frame`, `import_frame` are the full-strength
  statements, for ALL path strings — list-item components (`a.l[1].b`) included:
  * `pathSteps (splitPath p)` is the step sequence of a path (`a.l[1].b` ↦ key a, key l, idx 1,
    key b); "q is not under the target and not on the way to it" is: neither step sequence is a
    prefix of the other;
  * `Fits data (splitPath target)`: on the way to the target no key step lands on an existing
    list and no index step lands on an existing container — otherwise the write REPLACES that
    node together with everything below it, and paths into it that are not prefix-related to the
    target do change (`frame_needs_fits` is the concrete counterexample; so the unconditional
    statement formerly kept here in a comment is false);
  * conclusion: the node found at `q` is unchanged — or `q` is a slot freshly created by padding
    (a write at `l[3]` into a shorter list pads `l[1]`, `l[2]`): absent before, `null` now.
    Nothing else can change (`nonvacuous_frame_idx` shows the pad case occurs).
  `…_frame_diverge` are the same laws without `Fits`, for paths that part at two different keys
  or two different indices (`DivergeIdx`).  The older key-only versions are kept as `…_frame_partial`.
  `env_frame` / `env_frame_diverge` are the same laws for EnvOp (one write per selected variable, all
  below `<path>.Env`; `path` itself may carry index groups); `env_exact` keeps its key-only frame clause.
-/
import YtkProofs.PipelineFrame
import YtkProofs.GapPipelineOps
import YtkProofs.Codec
import YtkProofs.ValidB
import YtkProofs.EnvFrame
import YtkProofs.PipelineDataWF
import YtkProofs.MergeRel
import YtkProofs.HeapPatch
import YtkProofs.HeapSet
import YtkProofs.HeapPatchFold
import YtkProofs.Decisions
import YtkModel.Generated.Constants
import YtkProofs.Decisions2
import YtkProofs.FuncsLemmas
import YtkProofs.GapPipelineData
import YtkProofs.GapPipelinePatch
import YtkProofs.GapPatchFrame
import YtkProofs.TplFuncs
import YtkProofs.OpsExt

namespace Ytk.C13

/-! ## decision tables regenerated from the source (extract/tables2.go) -/
section DecisionTables2
open Ytk.TableT

/-- (i) The os.OpenFile call of ExportOp.Do as regenerated from pipeline/export_op.go (flags, mode) is
    the one the model assumes, and with these flags the exported file holds exactly what was written,
    whether or not it existed and whatever it held — `exportOp` reports a file as "opened (created /
    truncated)" and its content as what was handed to the encoder. -/
theorem export_open_table_matches_model :
    Generated.openCalls.find? (·.site == "pipeline.ExportOp.Do") =
      K8s.openTable.find? (·.site == "pipeline.ExportOp.Do") ∧
    (∀ (old : Option (List UInt8)) (new : List UInt8),
      K8s.fileAfterOpenWrite (K8s.flagsOf Generated.openCalls "pipeline.ExportOp.Do") old new = some new) :=
  ⟨by decide +kernel,
   fun old new => K8s.fileAfterOpenWrite_trunc _ old new (by decide +kernel) (by decide +kernel) (by decide +kernel)⟩

/-- (ii) the rule on the regenerated table: the export file is opened write-only, created when missing
    and TRUNCATED when present (an export that is shorter than the file's old content leaves no stale
    tail, so importing it back reads the exported subtree only), mode 0644 -/
theorem export_open_table_rule :
    K8s.flagsOf Generated.openCalls "pipeline.ExportOp.Do" = ["O_CREATE", "O_TRUNC", "O_WRONLY"] ∧
    (Generated.openCalls.find? (·.site == "pipeline.ExportOp.Do")).map (·.mode) = some 0o644 := by
  decide +kernel

/-- (iii) the call is there, once; and without O_TRUNC the same write would leave a stale tail -/
theorem nonvacuous_export_open_table :
    (Generated.openCalls.filter (·.site == "pipeline.ExportOp.Do")).length = 1 ∧
    K8s.fileAfterOpenWrite ["O_CREATE", "O_WRONLY"] (some [1, 2, 3]) [9] = some [9, 2, 3] := by
  decide +kernel

end DecisionTables2

open Ytk.PD

/-! ## decision tables regenerated from the source (extract/tables.go) -/
section DecisionTables
open Ytk.TableT

/-- a codec record whose three decoders give distinguishable documents -/
def probeCodecs : Codecs where
  yaml := fun _ => some [("codec", .leaf ⟨"string", "yaml"⟩)]
  json := fun _ => some [("codec", .leaf ⟨"string", "json"⟩)]
  props := fun _ => some [("codec", .leaf ⟨"string", "properties"⟩)]
  text := fun bs => String.ofList (bs.map Char.ofNat)

/-- what a class of the regenerated import table means, on the probe codecs and the bytes `hi` -/
def importClassResult (cls : String) : Option Node :=
  if cls = "leaf:string" then some (.leaf ⟨"string", "hi"⟩)
  else if cls = "leaf:base64" then some (.leaf ⟨"string", "aGk="⟩)
  else if cls = "decode:dom.DefaultYamlDecoder" then some (.cont [("codec", .leaf ⟨"string", "yaml"⟩)])
  else if cls = "decode:dom.DefaultJsonDecoder" then some (.cont [("codec", .leaf ⟨"string", "json"⟩)])
  else if cls = "decode:props.DecoderFn" then some (.cont [("codec", .leaf ⟨"string", "properties"⟩)])
  else none

/-- (i) The mode switch of ParseFileMode.toValue and the default mode of parseFile, as regenerated from
    pipeline/import_op.go and pipeline/utils.go, ARE the model's mode table and default; `toValue` equals
    the lookup in that table; and the model's `toValue`, run on every mode of the regenerated table (and
    on the empty mode), produces what the regenerated class says. -/
theorem import_modes_table_matches_model :
    pairs Generated.importModes = modeTable.map (fun p => (p.1, p.2.goName)) ∧
    Generated.importModesDefault = "error" ∧
    Generated.importDefaultMode = defaultMode ∧
    (∀ cd mode content, toValue cd mode content =
      match modeTable.lookup (if mode = "" then defaultMode else mode) with
      | some c => c.apply cd content
      | none => none) ∧
    (∀ r ∈ Generated.importModes, toValue probeCodecs r.key [104, 105] = importClassResult r.target) ∧
    toValue probeCodecs "" [104, 105] =
      importClassResult (lookupD Generated.importModes Generated.importModesDefault Generated.importDefaultMode) ∧
    toValue probeCodecs "no-such-mode" [104, 105] = none :=
  ⟨by decide +kernel, by decide +kernel, by decide +kernel, toValue_eq_table, by decide +kernel,
   by decide +kernel, by decide +kernel⟩

/-- (ii) import: text mode stores the content as a string leaf, binary mode its standard base64, the
    default mode is text, the structured modes decode with the very decoders the file-suffix provider
    uses for `.yaml` / `.json` / `.properties`, and any other mode is an error. -/
theorem import_modes_table_rule :
    lookupD Generated.importModes Generated.importModesDefault "text" = "leaf:string" ∧
    lookupD Generated.importModes Generated.importModesDefault "binary" = "leaf:base64" ∧
    Generated.importDefaultMode = "text" ∧
    lookupD Generated.importModes Generated.importModesDefault "yaml" =
      "decode:" ++ lookupD Generated.fileDecoders Generated.fileDecodersDefault ".yaml" ∧
    lookupD Generated.importModes Generated.importModesDefault "json" =
      "decode:" ++ lookupD Generated.fileDecoders Generated.fileDecodersDefault ".json" ∧
    lookupD Generated.importModes Generated.importModesDefault "properties" =
      "decode:" ++ lookupD Generated.fileDecoders Generated.fileDecodersDefault ".properties" ∧
    Generated.importModesDefault = "error" ∧
    keys Generated.importModes = ["binary", "json", "properties", "text", "yaml"] ∧
    (∀ r ∈ Generated.importModes, Generated.const? ("pipeline." ++ r.const) = some r.key) := by
  decide +kernel

/-- (i) The format switch of ExportOp.Do as regenerated from pipeline/export_op.go IS the model's format
    table (same format names, the encoder the model's `Format` stands for, error otherwise),
    `Format.ofString` equals the lookup in that table, and the value exported for an unresolved path is
    what the model's `exportDecision` writes for an absent target under every format of the table. -/
theorem export_formats_table_matches_model :
    pairs Generated.exportFormats = formatTable.map (fun p => (p.1, p.2.encoder)) ∧
    Generated.exportFormatsDefault = Format.unknown.encoder ∧
    (∀ s, Format.ofString s = (formatTable.lookup s).getD .unknown) ∧
    (∀ r ∈ Generated.exportDefaults, (exportDecision (Format.ofString r.key) .absent).defaultName = r.target) ∧
    exportDecision (Format.ofString "no-such-format") .absent = .errorBeforeOpen :=
  ⟨by decide +kernel, by decide +kernel, Format.ofString_eq_table, by decide +kernel, by decide +kernel⟩

/-- (ii) export: yaml and json are written with the encoders the file-suffix provider pairs with the
    decoders import uses (so that an exported subtree can be imported back), text prints the leaf with
    `%v`; an unresolved path exports the empty container — the empty string leaf under text —; an
    unknown format is an error. -/
theorem export_formats_table_rule :
    lookupD Generated.exportFormats Generated.exportFormatsDefault "yaml" =
      lookupD Generated.fileEncoders Generated.fileEncodersDefault ".yaml" ∧
    lookupD Generated.exportFormats Generated.exportFormatsDefault "json" =
      lookupD Generated.fileEncoders Generated.fileEncodersDefault ".json" ∧
    lookupD Generated.exportFormats Generated.exportFormatsDefault "properties" =
      lookupD Generated.fileEncoders Generated.fileEncodersDefault ".properties" ∧
    lookupD Generated.exportFormats Generated.exportFormatsDefault "text" = "fmt.Fprintf:%v" ∧
    Generated.exportFormatsDefault = "error" ∧
    pairs Generated.exportDefaults =
      [("json", "container"), ("properties", "container"), ("text", "leaf:\"\""), ("yaml", "container")] ∧
    keys Generated.exportFormats = keys Generated.exportDefaults ∧
    (∀ r ∈ Generated.exportFormats, Generated.const? ("pipeline." ++ r.const) = some r.key) := by
  decide +kernel

/-- (i) setHandlerFnMap and the default strategy of SetOp.Do as regenerated from pipeline/set_op.go ARE
    the model's strategy table and default, and `setOp` equals the lookup in that table. -/
theorem set_strategies_table_matches_model :
    pairs Generated.setStrategies = strategyTable.map (fun p => (p.1, p.2.goName)) ∧
    Generated.setStrategiesDefault = "error" ∧
    Generated.setDefaultStrategy = defaultStrategy ∧
    (∀ mergeC data payload path strategy, setOp mergeC data payload path strategy =
      match payload with
      | none => .err
      | some other =>
        match strategyTable.lookup (strategy.getD defaultStrategy) with
        | some c => .ok (c.apply mergeC path data other)
        | none => .err) :=
  ⟨by decide +kernel, by decide +kernel, by decide +kernel, setOp_eq_table⟩

/-- (ii) set: the strategies are exactly merge (merges into what is there) and replace (stores the
    payload), an unset strategy means merge, any other strategy is an error. -/
theorem set_strategies_table_rule :
    pairs Generated.setStrategies = [("merge", "merge"), ("replace", "replace")] ∧
    Generated.setDefaultStrategy = "merge" ∧ Generated.setStrategiesDefault = "error" ∧
    (∀ r ∈ Generated.setStrategies, Generated.const? ("pipeline." ++ r.const) = some r.key) := by
  decide +kernel

/-- (i) The parseAs switch of TemplateOp.Do and its default, as regenerated from
    pipeline/template_op.go, ARE the model's table and default, and `templateOp` equals the table-driven
    `templateOpT`. -/
theorem template_parseas_table_matches_model :
    pairs Generated.templateParseAs = parseAsTable.map (fun p => (p.1, p.2.goName)) ∧
    Generated.templateParseAsDefault = "error" ∧
    Generated.templateDefaultParseAs = defaultParseAs ∧
    (∀ render lenient trimFn yamlParse t data,
      templateOp render lenient trimFn yamlParse t data = templateOpT render lenient trimFn yamlParse t data) :=
  ⟨by decide +kernel, by decide +kernel, by decide +kernel, templateOp_eq_table⟩

/-- (ii) template: `none` stores the rendered text as a string leaf, `yaml` its YAML parse, an unset
    parseAs means `none`, anything else is an error. -/
theorem template_parseas_table_rule :
    pairs Generated.templateParseAs = [("none", "leaf:string"), ("yaml", "yaml")] ∧
    Generated.templateDefaultParseAs = "none" ∧ Generated.templateParseAsDefault = "error" ∧
    (∀ r ∈ Generated.templateParseAs, Generated.const? ("pipeline." ++ r.const) = some r.key) := by
  decide +kernel

/-- (iii) the tables are not empty and their keys are distinct -/
theorem nonvacuous_pipeline_tables :
    Generated.importModes.length = 5 ∧ (keys Generated.importModes).Nodup ∧
    Generated.exportFormats.length = 4 ∧ (keys Generated.exportFormats).Nodup ∧
    Generated.setStrategies.length = 2 ∧ (keys Generated.setStrategies).Nodup ∧
    Generated.templateParseAs.length = 2 ∧ (keys Generated.templateParseAs).Nodup ∧
    Generated.importDefaultMode ∈ keys Generated.importModes ∧
    Generated.setDefaultStrategy ∈ keys Generated.setStrategies ∧
    Generated.templateDefaultParseAs ∈ keys Generated.templateParseAs := by
  decide +kernel

end DecisionTables

variable (mergeC : AMap Node → AMap Node → AMap Node)

/-! ## SetOp -/

/-- nil data is an error (and, by the type of `setOp`, changes nothing). -/
theorem set_nil_data_err (data : AMap Node) (path : String) (s : Option String) :
    setOp mergeC data none path s = .err := rfl

/-- a strategy other than merge / replace is an error. -/
theorem set_unknown_strategy_err (data payload : AMap Node) (path s : String)
    (h1 : s ≠ "merge") (h2 : s ≠ "replace") :
    setOp mergeC data (some payload) path (some s) = .err := by
  simp [setOp, h1, h2]

/-- the unset strategy is merge -/
theorem set_default_is_merge (data : AMap Node) (payload : Option (AMap Node)) (path : String) :
    setOp mergeC data payload path none = setOp mergeC data payload path (some "merge") := by
  cases payload <;> simp [setOp]

/-- replace places the payload at the path, whatever was there — for every non-empty path,
    list-item components (`a.l[1]`) included. -/
theorem set_replace_lookup (data payload : AMap Node) (path : String) (h : path ≠ "") :
    ∃ d', setOp mergeC data (some payload) path (some "replace") = .ok d' ∧
      lookup d' path = some (.cont payload) := by
  refine ⟨addValueAt data path (.cont payload), ?_, lookup_addValueAt_self' _ _ h⟩
  simp [setOp, setReplace, h]

/-- merge at a path: an existing container there is merged with the payload (`mergeC`),
    anything else (absent, leaf, list) is replaced — as a closed form of the result … -/
theorem set_merge_spec (data payload : AMap Node) (path : String) (hp : path ≠ "") :
    setOp mergeC data (some payload) path (some "merge") =
      .ok (match lookup data path with
        | some (.cont dest) => addValueAt data path (.cont (mergeC dest payload))
        | _ => addValueAt data path (.cont payload)) := by
  simp only [setOp, Option.getD_some, if_true, setMerge, if_pos hp]
  split <;> simp_all

/-- … and as what Lookup finds afterwards (every non-empty path). -/
theorem set_merge_lookup (data payload : AMap Node) (path : String) (h : path ≠ "") :
    ∃ d', setOp mergeC data (some payload) path (some "merge") = .ok d' ∧
      lookup d' path = some (.cont (match lookup data path with
        | some (.cont dest) => mergeC dest payload
        | _ => payload)) := by
  rw [set_merge_spec mergeC data payload path h]
  cases hl : lookup data path with
  | none => exact ⟨_, rfl, lookup_addValueAt_self' _ _ h⟩
  | some n =>
    cases n with
    | cont dest => exact ⟨_, rfl, lookup_addValueAt_self' _ _ h⟩
    | leaf v => exact ⟨_, rfl, lookup_addValueAt_self' _ _ h⟩
    | list xs => exact ⟨_, rfl, lookup_addValueAt_self' _ _ h⟩

/-- empty path: the per-key rule at the root (closed form: `setMergeRoot` / `setReplaceRoot`
    visit the payload's entries; one step of each is the documented rule). -/
theorem set_root_merge (data payload : AMap Node) :
    setOp mergeC data (some payload) "" (some "merge") = .ok (setMergeRoot mergeC data payload) := by
  simp [setOp, setMerge]

theorem set_root_merge_step (orig : AMap Node) (k : String) (v : Node) (rest : List (String × Node)) :
    setMergeRoot mergeC orig ((k, v) :: rest) =
      setMergeRoot mergeC (add orig k (mergeOrReplace mergeC (child orig k) v)) rest := rfl

theorem set_root_replace (data payload : AMap Node) :
    setOp mergeC data (some payload) "" (some "replace") = .ok (setReplaceRoot data payload) := by
  simp [setOp, setReplace]

/-- empty path, merge: the per-key rule at the root as what is found afterwards — every key of
    the payload holds the merge (both containers) or the payload's value, every other key of the
    document is untouched.  (Payload keys: distinct, no trailing index group — a Go map built by
    FromMap from path-safe keys.) -/
theorem set_root_merge_lookup (data payload d' : AMap Node)
    (hk : ∀ p ∈ payload, hasIdxSuffix p.1 = false) (hd : payload.Pairwise (fun p p' => p.1 ≠ p'.1))
    (h : setOp mergeC data (some payload) "" (some "merge") = .ok d') :
    (∀ p ∈ payload, AMap.get? d' p.1 = some (mergeOrReplace mergeC (AMap.get? data p.1) p.2)) ∧
    (∀ k, (∀ p ∈ payload, p.1 ≠ k) → AMap.get? d' k = AMap.get? data k) := by
  rw [set_root_merge] at h
  cases h
  exact setMergeRoot_spec mergeC payload data hk hd

/-- empty path, replace: every key of the payload holds the payload's value, the rest is untouched -/
theorem set_root_replace_lookup (data payload d' : AMap Node)
    (hk : ∀ p ∈ payload, KeyPlain p.1) (hd : payload.Pairwise (fun p p' => p.1 ≠ p'.1))
    (h : setOp mergeC data (some payload) "" (some "replace") = .ok d') :
    (∀ p ∈ payload, AMap.get? d' p.1 = some p.2) ∧
    (∀ k, (∀ p ∈ payload, p.1 ≠ k) → AMap.get? d' k = AMap.get? data k) := by
  rw [set_root_replace] at h
  cases h
  exact setReplaceRoot_spec payload data hk hd

/- Key-only version of `set_frame` below (kept; for key-only `q` no `Fits` hypothesis is needed). -/
/-- Frame: a key-only path that diverges from the target (neither a dotted prefix of the other)
    resolves to the same node before and after SetOp, for both strategies. -/
theorem set_frame_partial (data payload : AMap Node) (path q : String) (s : String)
    (h : PathOk path) (hq : PathOk q)
    (h1 : ¬ splitPath path <+: splitPath q) (h2 : ¬ splitPath q <+: splitPath path)
    (d' : AMap Node) (hd : setOp mergeC data (some payload) path (some s) = .ok d') :
    lookup d' q = lookup data q := by
  by_cases hm : s = "merge"
  · subst hm
    rw [set_merge_spec mergeC data payload path h.1] at hd
    split at hd <;> (cases hd; exact lookup_addValueAt_frame _ _ h hq h1 h2)
  · by_cases hr : s = "replace"
    · subst hr
      simp only [setOp, Option.getD_some, setReplace, if_pos h.1] at hd
      simp at hd
      subst hd
      exact lookup_addValueAt_frame _ _ h hq h1 h2
    · rw [set_unknown_strategy_err mergeC data payload path s hm hr] at hd
      cases hd

/-- Frame, full strength: after a successful SetOp (either strategy, or unset) at a non-empty
    target that fits the document, every path `q` — list-item components included — that is not
    under the target and not on the way to it (step sequences not prefix-related) finds the same
    node as before; the only exception are slots freshly created by padding a list up to the
    written index: absent before, `null` afterwards. -/
theorem set_frame (data payload : AMap Node) (path q : String) (s : Option String)
    (hp : path ≠ "") (hf : Fits data (splitPath path))
    (h1 : ¬ pathSteps (splitPath path) <+: pathSteps (splitPath q))
    (h2 : ¬ pathSteps (splitPath q) <+: pathSteps (splitPath path))
    (d' : AMap Node) (hd : setOp mergeC data (some payload) path s = .ok d') :
    lookup d' q = lookup data q ∨ (lookup data q = none ∧ lookup d' q = some Node.null) := by
  obtain ⟨v, rfl⟩ := setOp_ok_addValueAt mergeC data payload path s hp d' hd
  exact frameAt_addValueAt_steps data path q v hf h1 h2

/-- the same without `Fits`, when target and `q` part at two different keys or two different
    indices (after a common prefix of components) -/
theorem set_frame_diverge (data payload : AMap Node) (path q : String) (s : Option String)
    (hp : path ≠ "") (h : DivergeIdx (splitPath path) (splitPath q))
    (d' : AMap Node) (hd : setOp mergeC data (some payload) path s = .ok d') :
    lookup d' q = lookup data q ∨ (lookup data q = none ∧ lookup d' q = some Node.null) := by
  obtain ⟨v, rfl⟩ := setOp_ok_addValueAt mergeC data payload path s hp d' hd
  exact frameAt_addValueAt_diverge data path q v h

/-- in particular: whatever was found at such a path before is still found there -/
theorem set_frame_keeps (data payload : AMap Node) (path q : String) (s : Option String)
    (hp : path ≠ "") (hf : Fits data (splitPath path))
    (h1 : ¬ pathSteps (splitPath path) <+: pathSteps (splitPath q))
    (h2 : ¬ pathSteps (splitPath q) <+: pathSteps (splitPath path))
    (d' : AMap Node) (hd : setOp mergeC data (some payload) path s = .ok d')
    (n : Node) (hn : lookup data q = some n) : lookup d' q = some n :=
  FrameAt.of_some (set_frame mergeC data payload path q s hp hf h1 h2 d' hd) hn

/-- an error leaves the document unchanged: `setOp` returns no document in that case, the
    caller keeps `data` (driver: `| o => … data`).  Stated as: ok-results only from merge/replace. -/
theorem set_ok_iff (data : AMap Node) (payload : Option (AMap Node)) (path : String) (s : Option String) :
    (setOp mergeC data payload path s).isOk = true ↔
      payload.isSome = true ∧ (s = none ∨ s = some "merge" ∨ s = some "replace") := by
  cases payload with
  | none => simp [setOp, Outcome.isOk]
  | some p =>
    cases s with
    | none => simp [setOp, Outcome.isOk]
    | some s =>
      by_cases hm : s = "merge"
      · simp [setOp, Outcome.isOk, hm]
      · by_cases hr : s = "replace"
        · simp [setOp, Outcome.isOk, hr]
        · simp [setOp, Outcome.isOk, hm, hr]

/-! ## TemplateOp -/

/-- the rendered text (trimmed when asked) is stored as a string leaf at the path -/
theorem template_stores_text (render : String → Option String) (lenient trimFn : String → String)
    (yp : String → Option (Option YNode)) (t : TemplateSpec) (data : AMap Node) (text : String)
    (ht : t.template ≠ "") (hp : t.path ≠ "") (hmode : t.parseAs = none ∨ t.parseAs = some "none")
    (hr : render t.template = some text) (hpath : lenient t.path ≠ "") :
    let val := if t.trim then trimFn text else text
    (templateOp render lenient trimFn yp t data).2 = false ∧
      lookup (templateOp render lenient trimFn yp t data).1 (lenient t.path) = some (.leaf ⟨"string", val⟩) := by
  rcases hmode with hm | hm <;>
    simp [templateOp, ht, hp, hm, hr, lookup_addValueAt_self' _ _ hpath]

/-- parseAs yaml: the YAML parse of the text (every scalar a string leaf; the empty document a
    null leaf) is stored at the path -/
theorem template_stores_yaml (render : String → Option String) (lenient trimFn : String → String)
    (yp : String → Option (Option YNode)) (t : TemplateSpec) (data : AMap Node) (yn : Option YNode)
    (ht : t.template ≠ "") (hp : t.path ≠ "") (hmode : t.parseAs = some "yaml")
    (hy : yp (if t.trim then trimFn ((render t.template).getD "") else (render t.template).getD "") = some yn)
    (hpath : lenient t.path ≠ "") :
    (templateOp render lenient trimFn yp t data).2 = false ∧
      lookup (templateOp render lenient trimFn yp t data).1 (lenient t.path) =
        some (yamlResult yn) := by
  simp only [templateOp, if_neg ht, if_neg hp, hmode, Option.getD_some, if_true, hy]
  refine ⟨?_, ?_⟩
  · first | rfl | trivial
  · exact lookup_addValueAt_self' _ _ hpath

/-- TemplateOp never stores anything but a proper node: in particular the empty YAML document
    becomes the null leaf (D27) -/
theorem template_empty_yaml_is_null_leaf : yamlResult (some (.scalar "x")) = .leaf ⟨"string", "x"⟩ ∧
    yamlResult none = Node.null :=
  ⟨rfl, rfl⟩

/-- unknown parseAs / empty template / empty path: error, document unchanged -/
theorem template_arg_errors (render : String → Option String) (lenient trimFn : String → String)
    (yp : String → Option (Option YNode)) (t : TemplateSpec) (data : AMap Node)
    (h : t.template = "" ∨ t.path = "" ∨ (∃ m, t.parseAs = some m ∧ m ≠ "yaml" ∧ m ≠ "none")) :
    templateOp render lenient trimFn yp t data = (data, true) := by
  rcases h with h | h | ⟨m, hm, h1, h2⟩
  · simp [templateOp, h]
  · simp [templateOp, h]
  · simp only [templateOp, hm, Option.getD_some, if_neg h1, if_neg h2]
    split
    · rfl
    · split <;> rfl

/-! ## PatchOp -/

/-- the patch operation has exactly the effect of patch.Do on the operation object built from
    the (leniently rendered) path, the value — the immediate one, else the node at valueFrom —
    and the parsed `from` -/
theorem patchOp_eq_patch {P : Type} (parsePath : String → Option P) (lenient : String → String)
    (patchDo : PatchCall P → AMap Node → AMap Node × Bool) (ps : PatchSpec) (data : AMap Node)
    (call : PatchCall P) (h : patchArgs parsePath lenient ps data = some call) :
    patchOp parsePath lenient patchDo ps data = patchDo call data := by
  simp [patchOp, h]

/-- a path that does not parse: error, document unchanged -/
theorem patchOp_bad_path {P : Type} (parsePath : String → Option P) (lenient : String → String)
    (patchDo : PatchCall P → AMap Node → AMap Node × Bool) (ps : PatchSpec) (data : AMap Node)
    (h : patchArgs parsePath lenient ps data = none) :
    patchOp parsePath lenient patchDo ps data = (data, true) := by
  simp [patchOp, h]

/-- the immediate value takes precedence over valueFrom -/
theorem patchArgs_value {P : Type} (parsePath : String → Option P) (lenient : String → String)
    (ps : PatchSpec) (data : AMap Node) (v : Node) (call : PatchCall P) (hv : ps.value = some v)
    (h : patchArgs parsePath lenient ps data = some call) : call.value = some v := by
  simp only [patchArgs] at h
  split at h
  · cases h
  · split at h
    · split at h
      · cases h
      · cases h; simp [hv]
    · cases h; simp [hv]

/-! ## ImportOp -/

/-- text mode (also the default, empty, mode) stores exactly the file content -/
theorem import_text_exact (cd : Codecs) (lenient : String → String) (bytes : List Nat)
    (mode path : String) (data : AMap Node) (hm : mode = "" ∨ mode = "text") (hp : lenient path ≠ "") :
    (importOp cd lenient (some bytes) mode path data).2 = false ∧
      lookup (importOp cd lenient (some bytes) mode path data).1 (lenient path) =
        some (.leaf ⟨"string", cd.text bytes⟩) := by
  rcases hm with hm | hm <;>
    simp [importOp, toValue, hm, hp, lookup_addValueAt_self' _ _ hp]

/-- binary mode stores the standard base64 of the content -/
theorem import_binary_b64 (cd : Codecs) (lenient : String → String) (bytes : List Nat)
    (path : String) (data : AMap Node) (hp : lenient path ≠ "") :
    (importOp cd lenient (some bytes) "binary" path data).2 = false ∧
      lookup (importOp cd lenient (some bytes) "binary" path data).1 (lenient path) =
        some (.leaf ⟨"string", String.ofList (b64Encode bytes)⟩) := by
  simp [importOp, toValue, hp, lookup_addValueAt_self' _ _ hp]

/-- `b64Encode` on the RFC 4648 section 10 test vectors -/
theorem b64_rfc4648_vectors :
    String.ofList (b64Encode []) = "" ∧
    String.ofList (b64Encode [102]) = "Zg==" ∧
    String.ofList (b64Encode [102, 111]) = "Zm8=" ∧
    String.ofList (b64Encode [102, 111, 111]) = "Zm9v" ∧
    String.ofList (b64Encode [102, 111, 111, 98]) = "Zm9vYg==" ∧
    String.ofList (b64Encode [102, 111, 111, 98, 97]) = "Zm9vYmE=" ∧
    String.ofList (b64Encode [102, 111, 111, 98, 97, 114]) = "Zm9vYmFy" := by decide

/-- a missing file, an unknown mode, or a non-container at the root: error, nothing changes -/
theorem import_errors (cd : Codecs) (lenient : String → String) (mode path : String) (data : AMap Node) :
    importOp cd lenient none mode path data = (data, true) ∧
    (∀ bytes, toValue cd mode bytes = none → importOp cd lenient (some bytes) mode path data = (data, true)) ∧
    (∀ bytes v, toValue cd mode bytes = some (.leaf v) → lenient path = "" →
        importOp cd lenient (some bytes) mode path data = (data, true)) := by
  refine ⟨rfl, ?_, ?_⟩
  · intro bytes h; simp [importOp, h]
  · intro bytes v h hp; simp [importOp, h, hp]

/-- TemplateOp and ImportOp change only their target: a key-only path that diverges from the
    (key-only) target resolves to the same node afterwards, whatever the outcome. -/
theorem template_frame_partial (render : String → Option String) (lenient trimFn : String → String)
    (yp : String → Option (Option YNode)) (t : TemplateSpec) (data : AMap Node) (q : String)
    (h : PathOk (lenient t.path)) (hq : PathOk q)
    (h1 : ¬ splitPath (lenient t.path) <+: splitPath q) (h2 : ¬ splitPath q <+: splitPath (lenient t.path)) :
    lookup (templateOp render lenient trimFn yp t data).1 q = lookup data q := by
  simp only [templateOp]
  split
  · rfl
  · split
    · rfl
    · split
      · split
        · rfl
        · exact lookup_addValueAt_frame _ _ h hq h1 h2
      · split
        · exact lookup_addValueAt_frame _ _ h hq h1 h2
        · rfl

theorem import_frame_partial (cd : Codecs) (lenient : String → String) (content : Option (List Nat))
    (mode path : String) (data : AMap Node) (q : String)
    (h : PathOk (lenient path)) (hq : PathOk q)
    (h1 : ¬ splitPath (lenient path) <+: splitPath q) (h2 : ¬ splitPath q <+: splitPath (lenient path)) :
    lookup (importOp cd lenient content mode path data).1 q = lookup data q := by
  simp only [importOp]
  split
  · rfl
  · split
    · rfl
    · simp only [if_pos h.1]
      exact lookup_addValueAt_frame _ _ h hq h1 h2

/-- TemplateOp, full strength: whatever the outcome, every path that is not under the (rendered)
    target and not on the way to it finds the same node — or is a freshly padded slot (absent
    before, `null` now). -/
theorem template_frame (render : String → Option String) (lenient trimFn : String → String)
    (yp : String → Option (Option YNode)) (t : TemplateSpec) (data : AMap Node) (q : String)
    (hf : Fits data (splitPath (lenient t.path)))
    (h1 : ¬ pathSteps (splitPath (lenient t.path)) <+: pathSteps (splitPath q))
    (h2 : ¬ pathSteps (splitPath q) <+: pathSteps (splitPath (lenient t.path))) :
    lookup (templateOp render lenient trimFn yp t data).1 q = lookup data q ∨
      (lookup data q = none ∧ lookup (templateOp render lenient trimFn yp t data).1 q = some Node.null) := by
  rcases templateOp_fst render lenient trimFn yp t data with e | ⟨v, e⟩
  · rw [e]; exact Or.inl rfl
  · rw [e]; exact frameAt_addValueAt_steps data _ q v hf h1 h2

theorem template_frame_diverge (render : String → Option String) (lenient trimFn : String → String)
    (yp : String → Option (Option YNode)) (t : TemplateSpec) (data : AMap Node) (q : String)
    (h : DivergeIdx (splitPath (lenient t.path)) (splitPath q)) :
    lookup (templateOp render lenient trimFn yp t data).1 q = lookup data q ∨
      (lookup data q = none ∧ lookup (templateOp render lenient trimFn yp t data).1 q = some Node.null) := by
  rcases templateOp_fst render lenient trimFn yp t data with e | ⟨v, e⟩
  · rw [e]; exact Or.inl rfl
  · rw [e]; exact frameAt_addValueAt_diverge data _ q v h

/-- ImportOp with a non-empty (rendered) path, full strength -/
theorem import_frame (cd : Codecs) (lenient : String → String) (content : Option (List Nat))
    (mode path : String) (data : AMap Node) (q : String)
    (hp : lenient path ≠ "") (hf : Fits data (splitPath (lenient path)))
    (h1 : ¬ pathSteps (splitPath (lenient path)) <+: pathSteps (splitPath q))
    (h2 : ¬ pathSteps (splitPath q) <+: pathSteps (splitPath (lenient path))) :
    lookup (importOp cd lenient content mode path data).1 q = lookup data q ∨
      (lookup data q = none ∧ lookup (importOp cd lenient content mode path data).1 q = some Node.null) := by
  rcases importOp_fst cd lenient content mode path data hp with e | ⟨v, e⟩
  · rw [e]; exact Or.inl rfl
  · rw [e]; exact frameAt_addValueAt_steps data _ q v hf h1 h2

theorem import_frame_diverge (cd : Codecs) (lenient : String → String) (content : Option (List Nat))
    (mode path : String) (data : AMap Node) (q : String)
    (hp : lenient path ≠ "") (h : DivergeIdx (splitPath (lenient path)) (splitPath q)) :
    lookup (importOp cd lenient content mode path data).1 q = lookup data q ∨
      (lookup data q = none ∧ lookup (importOp cd lenient content mode path data).1 q = some Node.null) := by
  rcases importOp_fst cd lenient content mode path data hp with e | ⟨v, e⟩
  · rw [e]; exact Or.inl rfl
  · rw [e]; exact frameAt_addValueAt_diverge data _ q v h

/-! ## EnvOp -/

/-- env stores exactly the variables matching include and not exclude under `<path>.Env`:
    for an environment of distinct names (no `=`, `.`, trailing index group) EnvOp succeeds and
    afterwards `<path>.Env.<name>` holds the value as a string leaf iff `incl name ∧ ¬ excl name`
    (otherwise what was there before), and every key-only path that diverges from the stored
    keys is unchanged.  `envEntries env` are the `name=value` strings of os.Environ(). -/
theorem env_exact (incl excl : String → Bool) (path : String) (hp : path = "" ∨ PathOk path)
    (env : List (String × String)) (data : AMap Node)
    (hok : ∀ p ∈ env, NameOk p.1) (hd : env.Pairwise (fun p p' => p.1 ≠ p'.1)) :
    ∃ d', envOp incl excl path (envEntries env) data = .ok d' ∧
      (∀ p ∈ env, lookup d' (envKey path p.1) =
        if sel incl excl p.1 then some (.leaf ⟨"string", p.2⟩) else lookup data (envKey path p.1)) ∧
      (∀ q, PathOk q →
        (∀ p ∈ env, sel incl excl p.1 = true →
          ¬ splitPath (envKey path p.1) <+: splitPath q ∧ ¬ splitPath q <+: splitPath (envKey path p.1)) →
        lookup d' q = lookup data q) :=
  envOp_spec incl excl path hp env data hok hd

/-- EnvOp, frame at full strength.  For an environment of well-formed names EnvOp succeeds, and if the
    target `<path>.Env.<name>` of every selected variable fits the document (`path` may itself carry
    list-item components), then every path `q` — list-item components included — that is not under any
    of these targets and not on the way to one (step sequences not prefix-related) finds the same node as
    before; the only exception are slots freshly created by padding a list up to a written index: absent
    before, `null` afterwards.  (`Fits` is asked of the ORIGINAL document only: one EnvOp write keeps it
    for the sibling targets, `fits_envKey_step`.) -/
theorem env_frame (incl excl : String → Bool) (path : String) (env : List (String × String)) (data : AMap Node)
    (hok : ∀ p ∈ env, NameOk p.1)
    (hf : ∀ p ∈ env, sel incl excl p.1 = true → Fits data (splitPath (envKey path p.1)))
    (q : String)
    (hq : ∀ p ∈ env, sel incl excl p.1 = true →
      ¬ pathSteps (splitPath (envKey path p.1)) <+: pathSteps (splitPath q) ∧
      ¬ pathSteps (splitPath q) <+: pathSteps (splitPath (envKey path p.1))) :
    ∃ d', envOp incl excl path (envEntries env) data = .ok d' ∧
      (lookup d' q = lookup data q ∨ (lookup data q = none ∧ lookup d' q = some Node.null)) := by
  obtain ⟨d', hd⟩ := envOp_ok incl excl path env data hok
  exact ⟨d', hd, envOp_frame incl excl path q env data d' hok hf hq hd⟩

/-- the same without `Fits`, when every selected target and `q` part at two different keys or two
    different indices (after a common prefix of components) -/
theorem env_frame_diverge (incl excl : String → Bool) (path : String) (env : List (String × String))
    (data : AMap Node) (hok : ∀ p ∈ env, NameOk p.1) (q : String)
    (hq : ∀ p ∈ env, sel incl excl p.1 = true → DivergeIdx (splitPath (envKey path p.1)) (splitPath q)) :
    ∃ d', envOp incl excl path (envEntries env) data = .ok d' ∧
      (lookup d' q = lookup data q ∨ (lookup data q = none ∧ lookup d' q = some Node.null)) := by
  obtain ⟨d', hd⟩ := envOp_ok incl excl path env data hok
  exact ⟨d', hd, envOp_frame_diverge incl excl path q env data d' hok hq hd⟩

/-- in particular: whatever was found at such a path before EnvOp is still found there -/
theorem env_frame_keeps (incl excl : String → Bool) (path : String) (env : List (String × String)) (data : AMap Node)
    (hok : ∀ p ∈ env, NameOk p.1)
    (hf : ∀ p ∈ env, sel incl excl p.1 = true → Fits data (splitPath (envKey path p.1)))
    (q : String)
    (hq : ∀ p ∈ env, sel incl excl p.1 = true →
      ¬ pathSteps (splitPath (envKey path p.1)) <+: pathSteps (splitPath q) ∧
      ¬ pathSteps (splitPath q) <+: pathSteps (splitPath (envKey path p.1)))
    (n : Node) (hn : lookup data q = some n) :
    ∃ d', envOp incl excl path (envEntries env) data = .ok d' ∧ lookup d' q = some n := by
  obtain ⟨d', hd, h⟩ := env_frame incl excl path env data hok hf q hq
  exact ⟨d', hd, FrameAt.of_some h hn⟩

/-- `sel` is "matches include and not exclude"; `envKey` is `<path>.Env.<name>` -/
theorem env_sel_key (incl excl : String → Bool) (path n : String) :
    (sel incl excl n = true ↔ incl n = true ∧ excl n = false) ∧
    envKey "" n = "Env." ++ n ∧ (path ≠ "" → envKey path n = path ++ "." ++ ("Env." ++ n)) := by
  refine ⟨by simp [sel], by simp [envKey, toPath], fun h => by simp [envKey, toPath, h]⟩

/-- an included entry without `=` is the index-out-of-range panic of `parts[1]` (os.Environ()
    never yields one) -/
theorem env_no_equals_panics (incl excl : String → Bool) (path e : String) (rest : List String)
    (data : AMap Node) (h : splitEnv e.toList = none) (hs : (incl e && !excl e) = true) :
    envOp incl excl path (e :: rest) data = .panic := by
  simp [envOp, h, hs]

/-! ## every data operation keeps the document a tree of maps

  `Node.WF (.cont d)`: every container of the document, at every depth, has strictly sorted — hence
  unique — keys.  It is preserved by every data operation, whatever the outcome, provided what comes in
  from outside is well formed as well: the payload of SetOp (a Go map), the result of dom's Merge
  (`MergeWF`; holds for the modelled dom merge with either list strategy and for the local copy), the
  containers the file decoders return (`CodecsWF`), the document patch.Do returns.  (C14 `run_wf` is the
  same invariant for the interpreter.) -/

theorem set_wf (hm : MergeWF mergeC) (data payload d' : AMap Node) (path : String) (s : Option String)
    (h : Node.WF (.cont data)) (hp : Node.WF (.cont payload))
    (hd : setOp mergeC data (some payload) path s = .ok d') : Node.WF (.cont d') :=
  wf_setOp hm h hp hd

/-- dom's Merge — the model of C04 with either list strategy, and the local copy the driver uses — keeps
    well-formedness -/
theorem merge_wf : (∀ o, MergeWF (Ytk.mergeC o)) ∧ MergeWF mergeContainers :=
  ⟨fun o _ _ ha hb => Ytk.wf_mergeC o ha hb, fun _ _ ha hb => wf_mergeContainers ha hb⟩

/-- TemplateOp, both parse modes (`decodeYamlNode` builds maps with AddValue) -/
theorem template_wf (render : String → Option String) (lenient trimFn : String → String)
    (yp : String → Option (Option YNode)) (t : TemplateSpec) (data : AMap Node) (h : Node.WF (.cont data)) :
    Node.WF (.cont (templateOp render lenient trimFn yp t data).1) :=
  wf_templateOp render lenient trimFn yp t h

theorem import_wf (cd : Codecs) (hc : CodecsWF cd) (lenient : String → String) (content : Option (List Nat))
    (mode path : String) (data : AMap Node) (h : Node.WF (.cont data)) :
    Node.WF (.cont (importOp cd lenient content mode path data).1) :=
  wf_importOp hc lenient content mode path h

theorem env_wf (incl excl : String → Bool) (path : String) (es : List String) (data d' : AMap Node)
    (h : Node.WF (.cont data)) (hd : envOp incl excl path es data = .ok d') : Node.WF (.cont d') :=
  wf_envOp incl excl path es data d' h hd

theorem patch_wf {P : Type} (parsePath : String → Option P) (lenient : String → String)
    (patchDo : PatchCall P → AMap Node → AMap Node × Bool)
    (hpd : ∀ c d, Node.WF (.cont d) → Node.WF (.cont (patchDo c d).1))
    (ps : PatchSpec) (data : AMap Node) (h : Node.WF (.cont data)) :
    Node.WF (.cont (patchOp parsePath lenient patchDo ps data).1) :=
  wf_patchOp parsePath lenient patchDo hpd ps h

/-! ## ExportOp -/

/-- export never panics, for any format and any kind of target … -/
theorem export_total (f : Format) (t : Target) : exportDecision f t ≠ .panic := by
  cases f <;> cases t <;> decide

/-- … and follows the field documentation: unknown format → error before any file is opened;
    text → the leaf's `%v`, the empty text when the path does not resolve, an error for a list
    or container; yaml / json / properties → the container, and the empty document ("as if the
    path does not resolve") for absent / leaf / list. -/
theorem export_decision_table :
    (∀ t, exportDecision .unknown t = .errorBeforeOpen) ∧
    exportDecision .text .absent = .writeEmptyText ∧
    exportDecision .text .leaf = .writeLeafText ∧
    exportDecision .text .list = .errorAfterOpen ∧
    exportDecision .text .cont = .errorAfterOpen ∧
    (∀ f, f = Format.yaml ∨ f = Format.json ∨ f = Format.properties →
      exportDecision f .cont = .writeNode ∧
      exportDecision f .absent = .writeEmptyDoc ∧
      exportDecision f .leaf = .writeEmptyDoc ∧
      exportDecision f .list = .writeEmptyDoc) := by
  refine ⟨by intro t; cases t <;> decide, by decide, by decide, by decide, by decide, ?_⟩
  intro f hf
  rcases hf with rfl | rfl | rfl <;> decide

/-- the operation itself: an unknown format returns an error without opening the file -/
theorem export_unknown_format (r : String → Option String) (format : String) (path : Option ValOrRef)
    (canOpen : Bool) (data : AMap Node) (h : Format.ofString format = .unknown) :
    exportOp r format path canOpen data = (true, false, none) := by
  simp [exportOp, h, exportDecision]

/-- the operation never reports the impossible `panic` row -/
theorem export_written_of_ok (r : String → Option String) (format : String) (path : Option ValOrRef)
    (canOpen : Bool) (data : AMap Node) (h : (exportOp r format path canOpen data).1 = false) :
    (exportOp r format path canOpen data).2.1 = true ∧ (exportOp r format path canOpen data).2.2.isSome = true := by
  revert h
  simp only [exportOp]
  split
  · simp
  · simp
  · split
    · simp
    · split <;> simp

/-! ## ValOrRef: a reference is resolved on the data of the moment

  `ValOrRef.resolve` and `exportOp` are functions of the configuration and of the data document
  they are given — there is no other input, so in the model an earlier execution of the same
  operation cannot show in a later one.  The harness executes ONE `ExportOp` object several times
  while the data changes and compares every execution with these functions on the data of that
  moment (case kind `rerun`). -/

/-- "If Path references non-existent node, or node pointed to is not a dom.Leaf, empty value is
    returned" (pipeline/types.go) -/
theorem resolve_ref_unresolved (r : String → Option String) (data : AMap Node) (pv : ValOrRef)
    (h : pv.isRef = true) (hn : ∀ v, lookup data pv.ref ≠ some (.leaf v)) :
    pv.resolve r data = "" := by
  unfold ValOrRef.resolve
  rw [if_pos h]
  split
  · rename_i v hv
    exact absurd hv (hn v)
  · rfl

/-- a reference that resolves to a leaf yields the (leniently rendered) `%v` text of that leaf -/
theorem resolve_ref_leaf (r : String → Option String) (data : AMap Node) (pv : ValOrRef) (v : Scalar)
    (h : pv.isRef = true) (hv : lookup data pv.ref = some (.leaf v)) :
    pv.resolve r data = renderLenient r v.text := by
  simp [ValOrRef.resolve, h, hv]

/-- an export whose path reference does not — or no longer — resolve to a leaf "is considered as if
    path does not resolve at all": the empty document for yaml / json / properties, the empty text
    for text — whatever the reference resolved to in an earlier execution -/
theorem export_ref_unresolved_default (r : String → Option String) (format : String) (pv : ValOrRef)
    (data : AMap Node) (h : pv.isRef = true) (hn : ∀ v, lookup data pv.ref ≠ some (.leaf v)) :
    exportOp r format (some pv) true data =
      match Format.ofString format with
      | .unknown => (true, false, none)
      | .text => (false, true, some (.text ""))
      | f => (false, true, some (.doc f [])) := by
  have hr := resolve_ref_unresolved r data pv h hn
  have hl : lookup data "" = none := by simp [lookup]
  simp only [exportOp, hr, hl, Target.of]
  cases Format.ofString format <;> simp [exportDecision]

/-! ## Import ∘ Export -/

/-- Contract on the codec pair of one format: decoding what the encoder wrote for a container
    yields its normal form (`norm` = the codec's own number normalisation). -/
def CodecRoundTrips (enc : AMap Node → List Nat) (dec : List Nat → Option (AMap Node))
    (norm : AMap Node → AMap Node) : Prop := ∀ kvs, dec (enc kvs) = some (norm kvs)

/-- Exporting the container at `p` as YAML and importing the written bytes at `q` yields the
    subtree up to the codec's normalisation (same for JSON, by symmetry of `Codecs`). -/
theorem import_export_roundtrip (r : String → Option String) (lenient : String → String)
    (cd : Codecs) (enc : AMap Node → List Nat) (norm : AMap Node → AMap Node)
    (hc : CodecRoundTrips enc cd.yaml norm)
    (data sub : AMap Node) (p : ValOrRef) (q : String)
    (hsub : lookup data (p.resolve r data) = some (.cont sub)) (hq : lenient q ≠ "") :
    exportOp r "yaml" (some p) true data = (false, true, some (.doc .yaml sub)) ∧
    lookup (importOp cd lenient (some (enc sub)) "yaml" q data).1 (lenient q) = some (.cont (norm sub)) := by
  constructor
  · simp [exportOp, hsub, Format.ofString, Target.of, exportDecision]
  · simp [importOp, toValue, hc sub, hq, lookup_addValueAt_self' _ _ hq]

theorem import_export_roundtrip_json (r : String → Option String) (lenient : String → String)
    (cd : Codecs) (enc : AMap Node → List Nat) (norm : AMap Node → AMap Node)
    (hc : CodecRoundTrips enc cd.json norm)
    (data sub : AMap Node) (p : ValOrRef) (q : String)
    (hsub : lookup data (p.resolve r data) = some (.cont sub)) (hq : lenient q ≠ "") :
    exportOp r "json" (some p) true data = (false, true, some (.doc .json sub)) ∧
    lookup (importOp cd lenient (some (enc sub)) "json" q data).1 (lenient q) = some (.cont (norm sub)) := by
  constructor
  · simp [exportOp, hsub, Format.ofString, Target.of, exportDecision]
  · simp [importOp, toValue, hc sub, hq, lookup_addValueAt_self' _ _ hq]

/-! ## lenient rendering -/

/-- a string without `{{` is returned unchanged -/
theorem lenient_noTemplate (r : String → Option String) (s : String)
    (h : indexOf2 '{' '{' s.toList = none) : renderLenient r s = s := by
  simp [renderLenient, possiblyTemplate, h]

/-- `indexOf2 a b l = none` says exactly that `l` has no two adjacent characters `a b` -/
theorem indexOf2_none_iff (a b : Char) : ∀ l : List Char,
    indexOf2 a b l = none ↔ ¬ [a, b] <:+: l
  | [] => by simp [indexOf2]
  | [x] => by
    simp only [indexOf2, true_iff]
    intro h
    have := h.length_le
    simp at this
  | x :: y :: rest => by
    have ih := indexOf2_none_iff a b (y :: rest)
    simp only [indexOf2]
    split
    · rename_i hxy
      simp only [reduceCtorEq, false_iff]
      intro hn
      exact hn ⟨[], rest, by simp [hxy.1, hxy.2]⟩
    · rename_i hxy
      have key : [a, b] <:+: x :: y :: rest ↔ [a, b] <:+: y :: rest := by
        rw [List.infix_cons_iff]
        constructor
        · rintro (h | h)
          · exfalso; apply hxy
            obtain ⟨t, ht⟩ := h
            simp at ht
            exact ⟨ht.1.symm, ht.2.1.symm⟩
          · exact h
        · exact Or.inr
      rw [key, ← ih]
      split <;> simp_all

/-- the guard: a `{{` and, somewhere after it, a `}}` (the `closeIdx > 0` test of the code is
    the same as `closeIdx != -1`, because the text searched starts with `{{`) -/
theorem lenient_guard_iff (s : String) :
    possiblyTemplate s = true ↔
      ∃ i, indexOf2 '{' '{' s.toList = some i ∧ (indexOf2 '}' '}' (s.toList.drop i)).isSome = true :=
  possiblyTemplate_iff s

/-- a string whose rendering fails is returned unchanged -/
theorem lenient_failing (r : String → Option String) (s : String) (h : r s = none) :
    renderLenient r s = s := by
  simp only [renderLenient, h]
  split <;> rfl

/-- otherwise it is the rendering (when the guard lets it through) -/
theorem lenient_renders (r : String → Option String) (s v : String) (hp : possiblyTemplate s = true)
    (h : r s = some v) : renderLenient r s = v := by
  simp [renderLenient, hp, h]

/-! ## non-vacuity -/

def exData : AMap Node :=
  [("a", .cont [("b", .leaf ⟨"int", "1"⟩), ("c", .cont [("d", .leaf ⟨"string", "x"⟩)])]),
   ("k", .leaf ⟨"bool", "true"⟩)]
def exPayload : AMap Node := [("c", .cont [("e", .leaf ⟨"int", "2"⟩)]), ("n", .leaf Scalar.null)]

theorem nonvacuous_pathOk : PathOk "a.c" ∧ PathOk "a.b" ∧ PathOk "k" ∧
    ¬ splitPath "a.c" <+: splitPath "a.b" ∧ ¬ splitPath "a.b" <+: splitPath "a.c" := by
  refine ⟨⟨by decide, ?_⟩, ⟨by decide, ?_⟩, ⟨by decide, ?_⟩, by decide, by decide⟩ <;>
    (intro s hs; revert s hs; decide)

/-- merge into the existing container `a.c` with the local copy of dom's merge: `d` is kept,
    `e` arrives; the sibling `a.b` and `k` are untouched; replace drops `d`. -/
theorem nonvacuous_set :
    setOp mergeContainers exData (some exPayload) "a" (some "merge") =
      .ok [("a", .cont [("b", .leaf ⟨"int", "1"⟩),
              ("c", .cont [("d", .leaf ⟨"string", "x"⟩), ("e", .leaf ⟨"int", "2"⟩)]),
              ("n", .leaf Scalar.null)]),
           ("k", .leaf ⟨"bool", "true"⟩)] ∧
    setOp mergeContainers exData (some exPayload) "a" (some "replace") =
      .ok [("a", .cont exPayload), ("k", .leaf ⟨"bool", "true"⟩)] := by
  decide

def exList : AMap Node :=
  [("a", .cont [("l", .list [.leaf ⟨"int", "1"⟩])]), ("k", .leaf ⟨"bool", "true"⟩)]

/-- the hypotheses of `set_frame` hold for the list-item target `a.l[3].b` in a document whose list
    `a.l` has one item, against `q = a.l[1]` and `q = a.l[0]`; the write pads: `a.l[1]` was absent
    and is `null` afterwards (the second disjunct occurs), `a.l[0]` keeps its value. -/
theorem nonvacuous_frame_idx :
    Fits exList (splitPath "a.l[3].b") ∧
    ¬ pathSteps (splitPath "a.l[3].b") <+: pathSteps (splitPath "a.l[1]") ∧
    ¬ pathSteps (splitPath "a.l[1]") <+: pathSteps (splitPath "a.l[3].b") ∧
    DivergeIdx (splitPath "a.l[3].b") (splitPath "a.l[0]") ∧
    (∃ d', setOp mergeContainers exList (some exPayload) "a.l[3].b" (some "replace") = .ok d' ∧
      lookup exList "a.l[1]" = none ∧ lookup d' "a.l[1]" = some Node.null ∧
      lookup d' "a.l[0]" = lookup exList "a.l[0]" ∧ lookup exList "a.l[0]" = some (.leaf ⟨"int", "1"⟩)) := by
  refine ⟨fitsB_sound _ _ (by decide +kernel), by decide +kernel, by decide +kernel, ?_, ?_⟩
  · have e1 : splitPath "a.l[3].b" = ["a", "l[3]", "b"] := by decide +kernel
    have e2 : splitPath "a.l[0]" = ["a", "l[0]"] := by decide +kernel
    rw [e1, e2]
    refine .tail rfl (by simp) (by simp) (.idx (by decide +kernel) ⟨[], 3, 0, [], [], ?_, ?_, by decide⟩)
    · decide +kernel
    · decide +kernel
  · exact ⟨_, rfl, by decide +kernel, by decide +kernel, by decide +kernel, by decide +kernel⟩

/-- `Fits` cannot be dropped: the target `a.l.c` takes a key step into the existing list `a.l`;
    the write replaces the list by a container, and `a.l[0]` — not under the target, not on the
    way to it — loses its value. -/
theorem frame_needs_fits :
    ¬ pathSteps (splitPath "a.l.c") <+: pathSteps (splitPath "a.l[0]") ∧
    ¬ pathSteps (splitPath "a.l[0]") <+: pathSteps (splitPath "a.l.c") ∧
    fitsB exList (splitPath "a.l.c") = false ∧
    (∃ d', setOp mergeContainers exList (some exPayload) "a.l.c" (some "replace") = .ok d' ∧
      lookup exList "a.l[0]" = some (.leaf ⟨"int", "1"⟩) ∧ lookup d' "a.l[0]" = none) := by
  refine ⟨by decide +kernel, by decide +kernel, by decide +kernel, _, rfl, by decide +kernel, by decide +kernel⟩

theorem nonvacuous_env :
    envOp (fun n => n == "A" || n == "B") (fun n => n == "B") "p" (envEntries [("A", "1"), ("B", "2"), ("C", "x=y")]) [] =
      .ok [("p", .cont [("Env", .cont [("A", .leaf ⟨"string", "1"⟩)])])] ∧
    NameOk "A" ∧ PathOk "p" := by
  refine ⟨by decide +kernel, ⟨by decide, by decide, by decide⟩, ⟨by decide, ?_⟩⟩
  intro s hs; revert s hs; decide

/-- `env_frame` with a list-item target: `<path> = a.l[2]` in a document whose list `a.l` has one item;
    two variables are selected (A, C — the second write happens in the document the first one left),
    the hypotheses hold for `q = a.l[1]` and `q = a.l[0].z`-like paths; the first write pads: `a.l[1]`
    was absent and is `null` afterwards, `a.l[0]` and `k` keep their values. -/
theorem nonvacuous_env_frame :
    let incl : String → Bool := fun n => n == "A" || n == "B" || n == "C"
    let excl : String → Bool := fun n => n == "B"
    (∀ p ∈ [("A", "1"), ("B", "2"), ("C", "3")], NameOk p.1) ∧
    Fits exList (splitPath (envKey "a.l[2]" "A")) ∧ Fits exList (splitPath (envKey "a.l[2]" "C")) ∧
    (¬ pathSteps (splitPath (envKey "a.l[2]" "A")) <+: pathSteps (splitPath "a.l[1]") ∧
     ¬ pathSteps (splitPath "a.l[1]") <+: pathSteps (splitPath (envKey "a.l[2]" "A"))) ∧
    (¬ pathSteps (splitPath (envKey "a.l[2]" "C")) <+: pathSteps (splitPath "a.l[1]") ∧
     ¬ pathSteps (splitPath "a.l[1]") <+: pathSteps (splitPath (envKey "a.l[2]" "C"))) ∧
    (∃ d', envOp incl excl "a.l[2]" (envEntries [("A", "1"), ("B", "2"), ("C", "3")]) exList = .ok d' ∧
      lookup d' "a.l[2].Env" = some (.cont [("A", .leaf ⟨"string", "1"⟩), ("C", .leaf ⟨"string", "3"⟩)]) ∧
      lookup exList "a.l[1]" = none ∧ lookup d' "a.l[1]" = some Node.null ∧
      lookup d' "a.l[0]" = some (.leaf ⟨"int", "1"⟩) ∧ lookup d' "k" = lookup exList "k") := by
  refine ⟨?_, fitsB_sound _ _ (by decide +kernel), fitsB_sound _ _ (by decide +kernel),
    ⟨by decide +kernel, by decide +kernel⟩, ⟨by decide +kernel, by decide +kernel⟩,
    ⟨_, rfl, by decide +kernel, by decide +kernel, by decide +kernel, by decide +kernel, by decide +kernel⟩⟩
  intro p hp
  simp only [List.mem_cons, List.mem_nil_iff, or_false] at hp
  rcases hp with rfl | rfl | rfl <;> exact ⟨by decide, by decide, by decide⟩

def exRef : AMap Node :=
  [("a", .cont [("b", .leaf ⟨"int", "1"⟩)]), ("pref", .leaf ⟨"string", "a"⟩)]

/-- the history the harness replays: the reference `pref` resolves to the leaf "a" (the container
    `a` is exported); after the leaf is removed, or replaced by a container, the hypotheses of
    `resolve_ref_unresolved` / `export_ref_unresolved_default` hold and the empty document is
    written by the very same configuration -/
theorem nonvacuous_ref :
    ValOrRef.resolve (fun _ => none) exRef ⟨true, "pref", ""⟩ = "a" ∧
    (exportOp (fun _ => none) "yaml" (some ⟨true, "pref", ""⟩) true exRef).2.1 = true ∧
    lookup exRef "a" = some (.cont [("b", .leaf ⟨"int", "1"⟩)]) ∧
    (∀ v, lookup (removeAt exRef "pref") "pref" ≠ some (.leaf v)) ∧
    (∀ v, lookup (addValueAt exRef "pref" (.cont [])) "pref" ≠ some (.leaf v)) ∧
    ValOrRef.resolve (fun _ => none) (removeAt exRef "pref") ⟨true, "pref", ""⟩ = "" := by
  have h1 : lookup (removeAt exRef "pref") "pref" = none := by decide +kernel
  have h2 : lookup (addValueAt exRef "pref" (.cont [])) "pref" = some (.cont []) := by decide +kernel
  refine ⟨by decide +kernel, by decide +kernel, by decide +kernel, ?_, ?_, by decide +kernel⟩
  · intro v; rw [h1]; simp
  · intro v; rw [h2]; simp

theorem nonvacuous_lenient : possiblyTemplate "x {{ .a }}" = true ∧ possiblyTemplate "{{ open" = false ∧
    possiblyTemplate "}} {{" = false ∧ indexOf2 '{' '{' "a { b } c".toList = none := by decide

/-! ## Pointer level: pipeline.PatchOp on the heap model (YtkModel/HeapPatch.lean)

  `PatchOp.Do` builds the `patch.OpObj` value from the op's own `Value` node (immediate value) or
  from `Data().Lookup(valueFrom)` — and, since the D30 resp. D28 fixes, CLONES it first.  patch add /
  replace attach the value node itself (`C09.heap_add_stores_value_node`), so without the clone the
  op's own node, resp. a node of the data tree, ends up (again) in the data tree.  The positive
  theorems are about `patchOpDoH` (what the driver runs); the negative ones about the pre-fix
  shape `patchOpDoNoClone`, which the driver never runs. -/

section heap
open Ytk.Heap
open Ytk.Ptr (Path parent lastSegment)

/-- THE PLACED VALUE IS INDEPENDENT of its source.  After a successful add / replace through
    PatchOp with a value source `n` (`srcNode`: the op's own value node, or the node valueFrom
    resolves to): the node attached at `path` is the root `c` of a Clone made by this execution;
    EVERY cell reachable from it was allocated by this execution; nothing is written except the one
    (old) parent cell `par` of `path`; and unless the destination lies inside the source itself
    (`Reach h n par` — only possible for valueFrom), everything the source reaches afterwards is an
    OLD cell, reached already before: the op's own value node (resp. the source location) and the
    placed value have NO cell in common, and the source is cell-for-cell what it was. -/
theorem heap_patchOp_value_independent (op : String) (frm : Option Path) (path : Path) (src : ValueSrc)
    (h h' : Heap) (root n : Addr) (hop : op = "add" ∨ op = "replace") (hcl : h.Closed)
    (hroot : root < h.size) (hsrc : srcNode h root src = some n) (hn : n < h.size)
    (he : patchOpDoH op frm (some path) src h root = (h', .ok ())) :
    ∃ (h1 : Heap) (c par : Addr), cloneF h.size h n = some (h1, c) ∧ h'.size = h1.size ∧
      evalH h root (parent path) = some par ∧ stepH h' par (lastSegment path) = some c ∧
      (∀ b, b < h.size → b ≠ par → h'.get? b = h.get? b) ∧
      (∀ b, Reach h' c b → h.size ≤ b ∧ b < h1.size) ∧
      (¬ Reach h n par →
        (∀ b, Reach h' n b → Reach h n b ∧ b < h.size) ∧
        (∀ b, Reach h' c b → ¬ Reach h' n b) ∧
        ∀ (g : Nat) (x : Node), absH g h n = some x → absH g h' n = some x) := by
  obtain ⟨h1, c, par, cell', hc, hp, hpar, hh, hstep⟩ := patchOp_attach_shape hop hcl hroot hsrc he
  have hl := (cloneF_spec h.size h n h1 c hc).1
  have hfresh := copy_fresh hc hpar hh
  refine ⟨h1, c, par, hc, by rw [hh]; exact Heap.size_write _ _ _, hp, hstep, ?_, hfresh, ?_⟩
  · intro b hb hne
    rw [hh, Heap.get?_write_ne h1 cell' hne, Heap.get?_eq_of_le hl hb]
  · intro hnr
    have hold : ∀ b, Reach h' n b → Reach h n b ∧ b < h.size := by
      intro b hb
      rw [hh] at hb
      exact reach_old_of_write hl hcl hn hnr hb
    refine ⟨hold, fun b hb hnb => ?_, fun g x hx => ?_⟩
    · exact absurd (hold b hnb).2 (Nat.not_lt.mpr (hfresh b hb).1)
    · rw [← hx]
      refine absH_agree g n ?_
      intro b hb
      have hlt := reach_lt_of_absH g n x hx b hb
      have hbp : b ≠ par := fun e => hnr (e ▸ hb)
      rw [hh, Heap.get?_write_ne h1 cell' hbp, Heap.get?_eq_of_le hl hlt]

/-- for an IMMEDIATE value whose node shares no cell with the data document (the op object was
    decoded on its own) the side condition holds: the parent of `path` is a cell of the document -/
theorem heap_patchOp_imm_disjoint (path : Path) (h : Heap) (root v par : Addr)
    (hdis : ∀ b, Reach h root b → ¬ Reach h v b) (hp : evalH h root (parent path) = some par) :
    ¬ Reach h v par :=
  fun hr => hdis par (evalH_reach _ _ _ hp) hr

/-- RE-EXECUTION YIELDS INDEPENDENT SUBTREES.  Run the same op (same value source) twice, at `path1`
    and then at `path2` (forEach-style clones share the op's `Value`): the second execution attaches a
    clone root `c2` all of whose cells were allocated by the SECOND execution, while everything the
    first placed value `c1` reached after the first execution existed before the second — the two
    placed subtrees have no cell in common at the time the second is attached; and if the second
    destination is not inside the first placed subtree, the first placed subtree is cell-for-cell
    untouched by the second execution, so the two stay disjoint afterwards.  By induction the same
    holds for every pair of n executions. -/
theorem heap_patchOp_rerun_independent (op : String) (frm : Option Path) (path1 path2 : Path)
    (src : ValueSrc) (h h' h'' : Heap) (root n1 n2 : Addr) (hop : op = "add" ∨ op = "replace")
    (hcl : h.Closed) (hcl' : h'.Closed) (hroot : root < h.size)
    (hsrc1 : srcNode h root src = some n1) (hsrc2 : srcNode h' root src = some n2)
    (he1 : patchOpDoH op frm (some path1) src h root = (h', .ok ()))
    (he2 : patchOpDoH op frm (some path2) src h' root = (h'', .ok ())) :
    ∃ (c1 c2 par1 par2 : Addr),
      stepH h' par1 (lastSegment path1) = some c1 ∧ stepH h'' par2 (lastSegment path2) = some c2 ∧
      evalH h' root (parent path2) = some par2 ∧
      (∀ b, Reach h' c1 b → h.size ≤ b ∧ b < h'.size) ∧
      (∀ b, Reach h'' c2 b → h'.size ≤ b) ∧
      (∀ b, Reach h' c1 b → ¬ Reach h'' c2 b) ∧
      (¬ Reach h' c1 par2 → ∀ b, Reach h'' c1 b → Reach h' c1 b ∧ ¬ Reach h'' c2 b) := by
  obtain ⟨h1, c1, par1, cell1, hc1, hp1, hpar1, hh1, hstep1⟩ := patchOp_attach_shape hop hcl hroot hsrc1 he1
  have hsz : h.size ≤ h'.size := by
    rw [hh1, Heap.size_write]; exact Heap.size_le_of_le (cloneF_spec h.size h n1 h1 c1 hc1).1
  have hroot' : root < h'.size := Nat.lt_of_lt_of_le hroot hsz
  obtain ⟨h2, c2, par2, cell2, hc2, hp2, hpar2, hh2, hstep2⟩ := patchOp_attach_shape hop hcl' hroot' hsrc2 he2
  have hl2 := (cloneF_spec h'.size h' n2 h2 c2 hc2).1
  have hf1 := copy_fresh hc1 hpar1 hh1
  have hf2 := copy_fresh hc2 hpar2 hh2
  have hsz1 : h'.size = h1.size := by rw [hh1]; exact Heap.size_write _ _ _
  have hc1lt : c1 < h'.size := by
    have := (hf1 c1 (.refl _)).2; rw [hsz1]; exact this
  refine ⟨c1, c2, par1, par2, hstep1, hstep2, hp2, ?_, fun b hb => (hf2 b hb).1, ?_, ?_⟩
  · intro b hb; exact ⟨(hf1 b hb).1, by rw [hsz1]; exact (hf1 b hb).2⟩
  · intro b hb hb2
    have h1' := (hf1 b hb).2
    rw [← hsz1] at h1'
    exact absurd h1' (Nat.not_lt.mpr (hf2 b hb2).1)
  · intro hnr b hb
    rw [hh2] at hb
    have := reach_old_of_write hl2 hcl' hc1lt hnr hb
    exact ⟨this.1, fun hb2 => absurd this.2 (Nat.not_lt.mpr (hf2 b hb2).1)⟩

/-- … FOR ANY NUMBER OF EXECUTIONS.  No execution of a PatchOp (whatever its outcome) shrinks the heap
    (`heap_patchOp_size_mono`), and a successful add / replace places a value all of whose cells lie
    in the address interval `[size before the execution, size after it)`
    (`heap_patchOp_value_independent`).  So for executions i < j of any history — with arbitrary
    other pipeline PatchOps in between — every cell of what execution i placed (at its attach time)
    is BELOW every cell of what execution j placed: the n placed subtrees are pairwise disjoint. -/
theorem heap_patchOp_size_mono (op : String) (frm path : Option Path) (src : ValueSrc) (h : Heap) (root : Addr) :
    h.size ≤ (patchOpDoH op frm path src h root).1.size :=
  patchOpDoH_size_le op frm path src h root

/-- the interval statement used above, in one piece: two executions anywhere in a history whose
    heaps are ordered (`hmid`: the heap the later one starts from is at least as large as the heap
    the earlier one ended with — by `heap_patchOp_size_mono` for every step in between) -/
theorem heap_patchOp_runs_disjoint (op : String) (frm : Option Path) (p1 p2 : Path) (src : ValueSrc)
    (ha ha' hb hb' : Heap) (root n1 n2 : Addr) (hop : op = "add" ∨ op = "replace")
    (hcla : ha.Closed) (hclb : hb.Closed) (hroota : root < ha.size) (hrootb : root < hb.size)
    (hs1 : srcNode ha root src = some n1) (hs2 : srcNode hb root src = some n2)
    (he1 : patchOpDoH op frm (some p1) src ha root = (ha', .ok ()))
    (he2 : patchOpDoH op frm (some p2) src hb root = (hb', .ok ()))
    (hmid : ha'.size ≤ hb.size) :
    ∃ (c1 c2 par1 par2 : Addr),
      stepH ha' par1 (lastSegment p1) = some c1 ∧ stepH hb' par2 (lastSegment p2) = some c2 ∧
      ∀ b b', Reach ha' c1 b → Reach hb' c2 b' → b < b' := by
  obtain ⟨h1, c1, par1, cell1, hc1, _, hpar1, hh1, hstep1⟩ := patchOp_attach_shape hop hcla hroota hs1 he1
  obtain ⟨h2, c2, par2, cell2, hc2, _, hpar2, hh2, hstep2⟩ := patchOp_attach_shape hop hclb hrootb hs2 he2
  have hf1 := copy_fresh hc1 hpar1 hh1
  have hf2 := copy_fresh hc2 hpar2 hh2
  have hsz1 : ha'.size = h1.size := by rw [hh1]; exact Heap.size_write _ _ _
  refine ⟨c1, c2, par1, par2, hstep1, hstep2, ?_⟩
  intro b b' hb1 hb2
  have k1 : b < h1.size := (hf1 b hb1).2
  have k2 : hb.size ≤ b' := (hf2 b' hb2).1
  have k3 : h1.size ≤ hb.size := hsz1 ▸ hmid
  exact Nat.lt_of_lt_of_le (Nat.lt_of_lt_of_le k1 k3) k2

/-! ### The pre-fix shapes alias (negative results, proved on a concrete heap)

  `qHeap`: 0 nilLeaf · 1 leaf "s" · 2 {k: #1} — the op's own value node · 3 {} · 4 {t: #3} — the
  data document (root 4). -/
def qHeap : Heap := ⟨[.leaf Scalar.null, .leaf ⟨"string", "s"⟩, .cont [("k", 1)], .cont [],
  .cont [("t", 3)]]⟩

/-- the fixed code: two executions of the same op (value node #2) at /t/e1 and /t/e2 attach two
    DIFFERENT new nodes, and the op's node is not in the document -/
theorem nonvacuous_heap_patchOp_rerun :
    let r1 := patchOpDoH "add" none (some ["t", "e1"]) (.imm 2) qHeap 4
    let r2 := patchOpDoH "add" none (some ["t", "e2"]) (.imm 2) r1.1 4
    r1.2 = .ok () ∧ r2.2 = .ok () ∧
    evalH r2.1 4 ["t", "e1"] = some 6 ∧ evalH r2.1 4 ["t", "e2"] = some 8 ∧ r2.1.size = 9 := by
  decide +kernel

/-- NEGATIVE (D30, pre-fix shape): without the clone the op's OWN node #2 is attached at both
    locations — the per-item clones of a forEach body alias each other and the op object, so an
    edit below /t/e1 shows below /t/e2 and in the op's value. -/
theorem heap_patchOp_nofix_aliases :
    let r1 := patchOpDoNoClone "add" none (some ["t", "e1"]) (.imm 2) qHeap 4
    let r2 := patchOpDoNoClone "add" none (some ["t", "e2"]) (.imm 2) r1.1 4
    r1.2 = .ok () ∧ r2.2 = .ok () ∧
    evalH r2.1 4 ["t", "e1"] = some 2 ∧ evalH r2.1 4 ["t", "e2"] = some 2 ∧ r2.1.size = qHeap.size := by
  decide +kernel

/-- NEGATIVE (D28, pre-fix shape): valueFrom without the clone attaches the looked-up node itself;
    adding the node at /t below itself (/t/self) makes the document CYCLIC — its abstraction is
    undefined (every tree walk diverges) — whereas the fixed code attaches a clone and the document
    stays a finite tree. -/
theorem heap_patchOp_nofix_valueFrom_cyclic :
    (patchOpDoNoClone "add" none (some ["t", "self"]) (.from ["t"]) qHeap 4).2 = .ok () ∧
    evalH (patchOpDoNoClone "add" none (some ["t", "self"]) (.from ["t"]) qHeap 4).1 4 ["t", "self"] = some 3 ∧
    evalH (patchOpDoNoClone "add" none (some ["t", "self"]) (.from ["t"]) qHeap 4).1 4 ["t"] = some 3 ∧
    abs (patchOpDoNoClone "add" none (some ["t", "self"]) (.from ["t"]) qHeap 4).1 4 = none ∧
    (patchOpDoH "add" none (some ["t", "self"]) (.from ["t"]) qHeap 4).2 = .ok () ∧
    abs (patchOpDoH "add" none (some ["t", "self"]) (.from ["t"]) qHeap 4).1 4 =
      some (.cont [("t", .cont [("self", .cont [])])]) := by
  decide +kernel

/-! ### SetOp: the payload is decoded anew on every execution -/

/-- THE SET PAYLOAD IS FRESH.  `SetOp.Do` converts its `Data` map with `FromMap` on EVERY execution
    (`decodeNode`): for any strategy and path, a successful execution has built a payload container
    `c` — a cell allocated by this execution — such that EVERY cell reachable from it was allocated
    by this execution, except nulls (the shared nil leaf, immutable); no existing cell was written
    while building it.  With the replace strategy and a non-empty path that very container is what
    `AddValueAt` attaches.  Hence running the same op object — or its forEach clones, which share the
    `Data` MAP, never a node — n times places n payload graphs without a common container or list
    object: unlike PatchOp before the D30 fix, SetOp never aliased its executions. -/
theorem heap_setOp_payload_fresh (merge : Bool) (comps : List String) (data : List (String × Node))
    (h h' : Heap) (root c : Addr) (hnil : h.NilOk)
    (he : setOpH merge comps data h root = some (h', c)) :
    ∃ h1, Ytk.Heap.decodeNode h (.cont data) = (h1, c) ∧ h ≤ h1 ∧ h.size ≤ c ∧
      (∀ b, Reach h1 c b → h.size ≤ b ∨ b = nilAddr) ∧
      (merge = false → comps ≠ [] → setAddValueAtH h1 root comps c = some h') := by
  obtain ⟨hl, hfresh⟩ := Ytk.Heap.decodeNode_fresh (.cont data) h hnil
  unfold setOpH at he
  generalize hdec : Ytk.Heap.decodeNode h (.cont data) = r at he hl hfresh
  obtain ⟨h1, c1⟩ := r
  simp only at he hl hfresh
  have hc1 : h.size ≤ c1 := by
    -- the root of a decoded MAP is a new container cell (never the nil leaf)
    have : c1 = (Ytk.Heap.decodeKvs h data).1.size := by
      simp only [Ytk.Heap.decodeNode] at hdec
      generalize Ytk.Heap.decodeKvs h data = q at hdec
      obtain ⟨g, m⟩ := q
      simp only [Heap.alloc, Prod.mk.injEq] at hdec
      exact hdec.2.symm
    rw [this]
    exact Heap.size_le_of_le (Ytk.Heap.decodeKvs_le data h)
  cases hg : h1.get? c1 with
  | none => simp [hg] at he
  | some cell =>
    cases cell with
    | leaf s => simp [hg] at he
    | list xs => simp [hg] at he
    | cont ckvs =>
      simp only [hg] at he
      have hcc : c = c1 := by
        split at he
        · simp only [Option.map_eq_some_iff] at he
          obtain ⟨_, _, he⟩ := he
          exact (congrArg Prod.snd he).symm
        · split at he
          · split at he
            · split at he
              · split at he
                · simp only [Option.map_eq_some_iff] at he
                  obtain ⟨_, _, he⟩ := he
                  exact (congrArg Prod.snd he).symm
                · cases he
              · simp only [Option.map_eq_some_iff] at he
                obtain ⟨_, _, he⟩ := he
                exact (congrArg Prod.snd he).symm
            · simp only [Option.map_eq_some_iff] at he
              obtain ⟨_, _, he⟩ := he
              exact (congrArg Prod.snd he).symm
          · simp only [Option.map_eq_some_iff] at he
            obtain ⟨_, _, he⟩ := he
            exact (congrArg Prod.snd he).symm
      subst hcc
      refine ⟨h1, rfl, hl, hc1, hfresh, ?_⟩
      intro hm hne
      subst hm
      simp only [if_neg hne, Bool.false_eq_true, if_false, Option.map_eq_some_iff] at he
      obtain ⟨h2, he2, he3⟩ := he
      rw [he2]
      exact congrArg some (congrArg Prod.fst he3)

/-- non-vacuity: the same payload set twice (replace, two paths) on `qHeap`: both succeed, the two
    placed containers are different new cells -/
theorem nonvacuous_heap_setOp :
    let d : List (String × Node) := [("k", .leaf ⟨"int", "1"⟩), ("n", .leaf Scalar.null)]
    let r1 := setOpH false ["t", "e1"] d qHeap 4
    let r2 := r1.bind fun p => setOpH false ["t", "e2"] d p.1 4
    r1.map (·.2) = some 6 ∧ r2.map (·.2) = some 8 ∧
    (r2.bind fun p => evalH p.1 4 ["t", "e1"]) = some 6 ∧
    (r2.bind fun p => evalH p.1 4 ["t", "e2"]) = some 8 := by
  decide +kernel

/-! ### n executions of one PatchOp, as a fold

  `patchOpRuns op frm src root h ps` (YtkProofs/HeapPatchFold.lean) folds `patchOpDoH` over the
  destination paths `ps` — the executions of ONE op object (or of its forEach clones: same op name,
  `from`, value source), each starting from the heap the previous one left, whatever its outcome —
  and records for each the heap `before`, the `path` and the result `res` (`after` = `res.1`). -/

/-- THE n PLACED SUBTREES ARE PAIRWISE DISJOINT.  For ANY two executions i < j of the fold that both
    succeeded (the ones in between, and all others, may fail or succeed), each started from a closed
    heap with a resolvable value source: both attached a clone root (`ci` under the parent of the i-th
    path, `cj` under the parent of the j-th), and EVERY cell of the subtree execution i placed (at its
    attach time) is strictly BELOW every cell of the subtree execution j placed — no cell in common.
    From `heap_patchOp_size_mono` (folded: `patchOpRuns_ordered`) and `heap_patchOp_runs_disjoint`. -/
theorem heap_patchOp_runs_disjoint_fold (op : String) (frm : Option Path) (src : ValueSrc) (root : Addr)
    (h0 : Heap) (ps : List Path) (hop : op = "add" ∨ op = "replace") (i j : Nat) (ei ej : PatchRun)
    (ni nj : Addr) (hij : i < j) (hi : (patchOpRuns op frm src root h0 ps)[i]? = some ei)
    (hj : (patchOpRuns op frm src root h0 ps)[j]? = some ej)
    (hcli : ei.before.Closed) (hclj : ej.before.Closed) (hroot : root < ei.before.size)
    (hsi : srcNode ei.before root src = some ni) (hsj : srcNode ej.before root src = some nj)
    (hoki : ei.res.2 = .ok ()) (hokj : ej.res.2 = .ok ()) :
    ∃ (ci cj pari parj : Addr),
      stepH ei.after pari (lastSegment ei.path) = some ci ∧
      stepH ej.after parj (lastSegment ej.path) = some cj ∧
      ∀ b b', Reach ei.after ci b → Reach ej.after cj b' → b < b' := by
  have hri := patchOpRuns_res op frm src root ps h0 ei (List.mem_of_getElem? hi)
  have hrj := patchOpRuns_res op frm src root ps h0 ej (List.mem_of_getElem? hj)
  have he1 : patchOpDoH op frm (some ei.path) src ei.before root = (ei.after, .ok ()) := by
    rw [← hri]; exact Prod.ext rfl hoki
  have he2 : patchOpDoH op frm (some ej.path) src ej.before root = (ej.after, .ok ()) := by
    rw [← hrj]; exact Prod.ext rfl hokj
  have hmid : ei.after.size ≤ ej.before.size := patchOpRuns_ordered op frm src root ps h0 i j ei ej hij hi hj
  have hgrow : ei.before.size ≤ ei.after.size := by
    have := heap_patchOp_size_mono op frm (some ei.path) src ei.before root
    rw [he1] at this; exact this
  exact heap_patchOp_runs_disjoint op frm ei.path ej.path src ei.before ei.after ej.before ej.after root ni nj hop
    hcli hclj hroot (Nat.lt_of_lt_of_le hroot (Nat.le_trans hgrow hmid)) hsi hsj he1 he2 hmid

/-- non-vacuity: THREE executions of the op with value node #2 on `qHeap`, at /t/e1, /t/e2, /t/e3: all
    succeed, every start heap is closed, the source resolves, and the three placed subtrees are the
    cell sets {6,5} · {8,7} · {10,9} -/
theorem nonvacuous_heap_patchOp_runs_fold :
    let runs := patchOpRuns "add" none (.imm 2) 4 qHeap [["t", "e1"], ["t", "e2"], ["t", "e3"]]
    runs.length = 3 ∧
    (∀ e ∈ runs, e.res.2 = .ok () ∧ srcNode e.before 4 (.imm 2) = some 2 ∧ 4 < e.before.size ∧
      (e.before.cells.all fun c => c.kids.all fun k => decide (k < e.before.size)) = true) ∧
    (runs.map fun e => (evalH e.after 4 e.path).map (reach e.after)) =
      [some [6, 5], some [8, 7], some [10, 9]] := by
  decide +kernel

end heap

/-! ## round 7 (clause audit): import at the root, the export table of `exportOp` itself, the two base64 models -/

/-- ImportOp's loop over the decoded document's children (empty path) is literally SetOp's replace loop -/
theorem importRoot_eq_setReplaceRoot (data : AMap Node) (kvs : List (String × Node)) :
    importRoot data kvs = setReplaceRoot data kvs :=
  PD.importRoot_eq_setReplaceRoot kvs data

/-- the structured modes hand the decoder's container to the operation -/
theorem import_root_structured (cd : Codecs) (bytes : List Nat) :
    toValue cd "yaml" bytes = (cd.yaml bytes).map .cont ∧
    toValue cd "json" bytes = (cd.json bytes).map .cont ∧
    toValue cd "properties" bytes = (cd.props bytes).map .cont := by
  simp [toValue]

/-- Import with an EMPTY (rendered) path and a mode whose decoder returns the container `kvs` merges per key
    at the root and changes nothing else: no error, every key of the decoded document holds the decoded
    value afterwards, and every other top-level key of the data is untouched.  (Decoded keys: plain child
    names, pairwise different — the children of a container built by FromReader from path-safe keys.) -/
theorem import_root_lookup (cd : Codecs) (lenient : String → String) (bytes : List Nat) (mode path : String)
    (data kvs : AMap Node) (hp : lenient path = "") (hv : toValue cd mode bytes = some (.cont kvs))
    (hk : ∀ p ∈ kvs, KeyPlain p.1) (hd : kvs.Pairwise (fun p p' => p.1 ≠ p'.1)) :
    (importOp cd lenient (some bytes) mode path data).2 = false ∧
    (∀ p ∈ kvs, AMap.get? (importOp cd lenient (some bytes) mode path data).1 p.1 = some p.2) ∧
    (∀ k, (∀ p ∈ kvs, p.1 ≠ k) →
      AMap.get? (importOp cd lenient (some bytes) mode path data).1 k = AMap.get? data k) := by
  have h : importOp cd lenient (some bytes) mode path data = (setReplaceRoot data kvs, false) := by
    simp [importOp, hv, hp, PD.importRoot_eq_setReplaceRoot]
  rw [h]
  exact ⟨rfl, setReplaceRoot_spec kvs data hk hd⟩

/-- … it is the very document SetOp (strategy replace, empty path) produces for the decoded payload, for
    ALL decoded key sets (dotted keys and index groups included) -/
theorem import_root_eq_set_replace (cd : Codecs) (lenient : String → String) (bytes : List Nat)
    (mode path : String) (data kvs : AMap Node) (hp : lenient path = "")
    (hv : toValue cd mode bytes = some (.cont kvs)) :
    Outcome.ok (importOp cd lenient (some bytes) mode path data).1 =
      setOp mergeC data (some kvs) "" (some "replace") := by
  simp [importOp, hv, hp, PD.importRoot_eq_setReplaceRoot, setOp, setReplace]

/-- non-vacuity: yaml mode at the root of `exData` with the probe codecs: the key `codec` arrives between
    the untouched `a` and `k` -/
theorem nonvacuous_import_root :
    toValue probeCodecs "yaml" [104, 105] = some (.cont [("codec", .leaf ⟨"string", "yaml"⟩)]) ∧
    (∀ p ∈ ([("codec", .leaf ⟨"string", "yaml"⟩)] : AMap Node), KeyPlain p.1) ∧
    importOp probeCodecs id (some [104, 105]) "yaml" "" exData =
      ([("a", .cont [("b", .leaf ⟨"int", "1"⟩), ("c", .cont [("d", .leaf ⟨"string", "x"⟩)])]),
        ("codec", .leaf ⟨"string", "yaml"⟩), ("k", .leaf ⟨"bool", "true"⟩)], false) := by
  refine ⟨by decide, ?_, by decide⟩
  intro p hp
  simp only [List.mem_singleton] at hp
  subst hp
  exact ⟨by decide, by decide⟩

/-- what ExportOp.Do resolves: a nil Path is the whole document, otherwise Lookup of the resolved path -/
def exportTarget (r : String → Option String) (path : Option ValOrRef) (data : AMap Node) : Option Node :=
  match path with
  | none => some (.cont data)
  | some p => lookup data (p.resolve r data)

/-- `exportOp` is a function of the format, `canOpen` and `exportTarget` -/
theorem exportOp_eq (r : String → Option String) (format : String) (path : Option ValOrRef) (canOpen : Bool)
    (data : AMap Node) :
    exportOp r format path canOpen data =
      match exportDecision (Format.ofString format) (Target.of (exportTarget r path data)) with
      | .errorBeforeOpen => (true, false, none)
      | .panic => (true, false, none)
      | dec =>
        if !canOpen then (true, false, none)
        else match dec, exportTarget r path data with
          | .errorAfterOpen, _ => (true, true, none)
          | .writeNode, some (.cont kvs) => (false, true, some (.doc (Format.ofString format) kvs))
          | .writeEmptyDoc, _ => (false, true, some (.doc (Format.ofString format) []))
          | .writeLeafText, some (.leaf v) => (false, true, some (.text v.text))
          | .writeEmptyText, _ => (false, true, some (.text ""))
          | _, _ => (true, true, none) := by
  cases path <;> rfl

/-- The result (error flag, file opened, what was handed to the encoder) of `exportOp` ITSELF — the function
    the driver runs — for every format × kind of target × canOpen, for an arbitrary path:
    * unknown format: error, file not opened, whatever else;
    * the file cannot be opened: error, nothing written, whatever the format;
    * text: absent → the empty text; leaf → its `%v`; list / container → error AFTER the file was opened
      (created / truncated);
    * yaml / json / properties: container → that container; absent / leaf / list → the empty document. -/
theorem exportOp_table (r : String → Option String) (format : String) (path : Option ValOrRef) (canOpen : Bool)
    (data : AMap Node) :
    (Format.ofString format = .unknown → exportOp r format path canOpen data = (true, false, none)) ∧
    (canOpen = false → exportOp r format path canOpen data = (true, false, none)) ∧
    (canOpen = true →
      (Format.ofString format = .text →
        (exportTarget r path data = none →
          exportOp r format path canOpen data = (false, true, some (.text ""))) ∧
        (∀ v, exportTarget r path data = some (.leaf v) →
          exportOp r format path canOpen data = (false, true, some (.text v.text))) ∧
        (∀ xs, exportTarget r path data = some (.list xs) →
          exportOp r format path canOpen data = (true, true, none)) ∧
        (∀ kvs, exportTarget r path data = some (.cont kvs) →
          exportOp r format path canOpen data = (true, true, none))) ∧
      (∀ f, Format.ofString format = f → f = .yaml ∨ f = .json ∨ f = .properties →
        (∀ kvs, exportTarget r path data = some (.cont kvs) →
          exportOp r format path canOpen data = (false, true, some (.doc f kvs))) ∧
        (exportTarget r path data = none →
          exportOp r format path canOpen data = (false, true, some (.doc f []))) ∧
        (∀ v, exportTarget r path data = some (.leaf v) →
          exportOp r format path canOpen data = (false, true, some (.doc f []))) ∧
        (∀ xs, exportTarget r path data = some (.list xs) →
          exportOp r format path canOpen data = (false, true, some (.doc f []))))) := by
  rw [exportOp_eq]
  refine ⟨?_, ?_, ?_⟩
  · intro h; simp [h, exportDecision]
  · intro h; subst h
    cases Format.ofString format <;> cases hd : exportTarget r path data with
    | none => simp [exportDecision, Target.of]
    | some n => cases n <;> simp [exportDecision, Target.of]
  · intro h; subst h
    refine ⟨?_, ?_⟩
    · intro hf
      refine ⟨?_, ?_, ?_, ?_⟩ <;> intros <;> simp_all [exportDecision, Target.of]
    · intro f hf hk
      subst hf
      refine ⟨?_, ?_, ?_, ?_⟩ <;> intros <;> rcases hk with hk | hk | hk <;>
        simp_all [exportDecision, Target.of]

/-- non-vacuity: every row of the table occurs on `exData` (whole document, the container `a`, the leaf `k`,
    the missing `zz`; `exList` for a list target) -/
theorem nonvacuous_exportOp_table :
    exportOp (fun _ => none) "toml" none true exData = (true, false, none) ∧
    exportOp (fun _ => none) "yaml" none false exData = (true, false, none) ∧
    (exportOp (fun _ => none) "text" (some ⟨false, "", "zz"⟩) true exData).2.1 = true ∧
    (exportOp (fun _ => none) "text" (some ⟨false, "", "k"⟩) true exData).1 = false ∧
    exportOp (fun _ => none) "text" (some ⟨false, "", "a"⟩) true exData = (true, true, none) ∧
    (exportOp (fun _ => none) "json" (some ⟨false, "", "a"⟩) true exData).1 = false ∧
    (exportOp (fun _ => none) "properties" (some ⟨false, "", "k"⟩) true exData).1 = false ∧
    exportTarget (fun _ => none) (some ⟨false, "", "k"⟩) exData = some (.leaf ⟨"bool", "true"⟩) ∧
    exportTarget (fun _ => none) (some ⟨false, "", "zz"⟩) exData = none ∧
    exportTarget (fun _ => none) none exData = some (.cont exData) := by
  refine ⟨rfl, rfl, by decide, by decide, rfl, by decide, by decide, by decide, by decide, rfl⟩

/-- C13 ↔ C17: the pipeline's base64 model and the k8s one (`K8s.b64encL`, which has the proved decoding
    round trip) produce the same characters on EVERY byte list -/
theorem b64Encode_eq_k8s (bs : List UInt8) : b64Encode (bs.map UInt8.toNat) = K8s.b64encL bs :=
  PD.b64Encode_eq_k8s bs

/-- … so the leaf stored by binary-mode import is the standard base64 text of the content, and it
    base64-DEcodes (with C17's decoder) to exactly the imported bytes -/
theorem import_binary_decodes (cd : Codecs) (lenient : String → String) (bs : List UInt8)
    (path : String) (data : AMap Node) (hp : lenient path ≠ "") :
    ∃ s : String,
      lookup (importOp cd lenient (some (bs.map UInt8.toNat)) "binary" path data).1 (lenient path) =
        some (.leaf ⟨"string", s⟩) ∧
      s = K8s.b64enc bs ∧ K8s.b64dec s = some bs := by
  refine ⟨K8s.b64enc bs, ?_, rfl, K8s.b64dec_b64enc bs⟩
  rw [(import_binary_b64 cd lenient _ path data hp).2, PD.b64Encode_eq_k8s]
  rfl

/-- non-vacuity: the bytes `68 69 00 ff` imported in binary mode at `a.bin` are stored as `aGkA/w==`,
    which decodes to them -/
theorem nonvacuous_import_binary_decodes :
    lookup (importOp probeCodecs id (some ([104, 105, 0, 255].map UInt8.toNat)) "binary" "a.bin" exData).1 "a.bin" =
      some (.leaf ⟨"string", "aGkA/w=="⟩) ∧
    K8s.b64dec "aGkA/w==" = some [104, 105, 0, 255] := by
  decide +kernel

/-! ## round 7: PatchOp over the patch package's model (C13 ↔ C09)

  `patchOp_eq_patch` above holds for an ARBITRARY function `patchDo`.  Here the parameters are C09's model
  (YtkModel/GapPipelinePatch.lean): `parsePath := Ptr.parseS` (patch.ParsePath), `patchDo := c09PatchDo`, i.e.
  `Patch.patchDo` (patch.Do) run on the operation object `c09Obj call` and the root container `.cont data`;
  `patchOpC09` is `patchOp` with these.  (The driver's `patchargs` op only runs `patchArgs`, with a parser
  that checks the leading '/'; the patch.Do part is C09's driver.) -/

/-- PatchOp.Do is C09's interpreter on the operation object built from the rendered path (parsed as a JSON
    pointer), the op name, the parsed `from` (absent when empty) and the value — the immediate one, else the
    node found at the rendered valueFrom -/
theorem patchOpC09_eq (lenient : String → String) (ps : PatchSpec) (data : AMap Node)
    (call : PatchCall Ptr.Path) (h : patchArgs Ptr.parseS lenient ps data = some call) :
    patchOpC09 lenient ps data = c09PatchDo call data ∧
    (c09Obj call).op = ps.op ∧
    Ptr.parseS (lenient ps.path) = (c09Obj call).path ∧
    (c09Obj call).frm = (if ps.from_ = "" then none else Ptr.parseS ps.from_) ∧
    (c09Obj call).value = (match ps.value with
      | some v => some v
      | none => match ps.valueFrom with
        | some vf => lookup data (lenient vf)
        | none => none) := by
  obtain ⟨h1, h2, h3, h4⟩ := patchArgs_fields _ _ _ _ _ h
  exact ⟨patchOp_eq_patch _ _ _ _ _ _ h, h1, h2, h3, h4⟩

/-- In C09's domain (in-scope non-root pointers, valid value, valid document) the conversion between the root
    container and its children loses nothing: C09's interpreter returns exactly the container of the
    pipeline op's new data, with `err` / `ok` as the op's error flag; and the pipeline op IS the RFC 6902
    reference on that operation object — the reference's document on success, the old data and the error flag
    on failure. -/
theorem patchOp_refines_C09 (lenient : String → String) (ps : PatchSpec) (data : AMap Node)
    (call : PatchCall Ptr.Path) (h : patchArgs Ptr.parseS lenient ps data = some call)
    (ho : Patch.OpOk (c09Obj call)) (hd : (Node.cont data).Valid) :
    Patch.patchDo (c09Obj call) (.cont data) =
      (.cont (patchOpC09 lenient ps data).1, if (patchOpC09 lenient ps data).2 then .err else .ok ()) ∧
    patchOpC09 lenient ps data = (match Patch.rfc6902 (c09Obj call) (.cont data) with
      | some (.cont d') => (d', false)
      | _ => (data, true)) := by
  have e : patchOpC09 lenient ps data = c09PatchDo call data := patchOp_eq_patch _ _ _ _ _ _ h
  rw [e]
  exact ⟨patchDo_eq_c09PatchDo call data ho hd, c09PatchDo_eq_rfc call data ho hd⟩

/-- C09's no-panic theorem transferred: the patch.Do call made by the pipeline op never panics, so the
    error flag of the pipeline op (which cannot tell `err` from `panic`) is exactly "patch.Do returned an
    error" -/
theorem patchOp_C09_no_panic (lenient : String → String) (ps : PatchSpec) (data : AMap Node)
    (call : PatchCall Ptr.Path) (h : patchArgs Ptr.parseS lenient ps data = some call)
    (ho : Patch.OpOk (c09Obj call)) (hd : (Node.cont data).Valid) :
    (Patch.patchDo (c09Obj call) (.cont data)).2 ≠ .panic ∧
    ((patchOpC09 lenient ps data).2 = true ↔ (Patch.patchDo (c09Obj call) (.cont data)).2 = .err) := by
  rw [(patchOp_refines_C09 lenient ps data call h ho hd).1]
  cases (patchOpC09 lenient ps data).2 <;> simp

/-- C09's "failure leaves the document unchanged" transferred to the WHOLE pipeline op (unparsable paths
    included): whenever PatchOp.Do returns an error the data is exactly what it was -/
theorem patchOp_C09_error_unchanged (lenient : String → String) (ps : PatchSpec) (data : AMap Node)
    (ho : ∀ call, patchArgs Ptr.parseS lenient ps data = some call → Patch.OpOk (c09Obj call))
    (hd : (Node.cont data).Valid) (he : (patchOpC09 lenient ps data).2 = true) :
    (patchOpC09 lenient ps data).1 = data := by
  cases h : patchArgs Ptr.parseS lenient ps data with
  | none => simp [patchOpC09, patchOp, h]
  | some call =>
    have e : patchOpC09 lenient ps data = c09PatchDo call data := patchOp_eq_patch _ _ _ _ _ _ h
    rw [e] at he ⊢
    exact c09PatchDo_error_unchanged call data (ho call h) hd he

/-- … and the data stays a valid document (sorted unique keys without index groups), error or not -/
theorem patchOp_C09_valid (lenient : String → String) (ps : PatchSpec) (data : AMap Node)
    (ho : ∀ call, patchArgs Ptr.parseS lenient ps data = some call → Patch.OpOk (c09Obj call))
    (hd : (Node.cont data).Valid) : (Node.cont (patchOpC09 lenient ps data).1).Valid := by
  cases h : patchArgs Ptr.parseS lenient ps data with
  | none => simpa [patchOpC09, patchOp, h] using hd
  | some call =>
    have e : patchOpC09 lenient ps data = c09PatchDo call data := patchOp_eq_patch _ _ _ _ _ _ h
    rw [e]
    exact c09PatchDo_valid call data (ho call h) hd

def exPatchData : AMap Node :=
  [("a", .list [.leaf ⟨"int", "1"⟩, .leaf ⟨"int", "2"⟩]), ("b", .cont [("x", .leaf ⟨"int", "1"⟩)])]

/-- non-vacuity: an insert into a list (the call that is built is in C09's scope), a move out of a container
    into a list, `copy` without `from` (error, data unchanged), `add` of the node found at valueFrom `a[1]`,
    a remove beyond the list (error), a path without leading '/' (error before patch.Do) -/
theorem nonvacuous_patchOp_C09 :
    (patchArgs Ptr.parseS id ⟨"add", "", "/a/1", some (.leaf ⟨"int", "9"⟩), none⟩ exPatchData).map
        (fun c => (c.op, c.from_, c.path, c.value)) =
      some ("add", none, ["a", "1"], some (.leaf ⟨"int", "9"⟩)) ∧
    Patch.inScope (c09Obj ⟨"add", none, ["a", "1"], some (.leaf ⟨"int", "9"⟩)⟩) = true ∧
    patchOpC09 id ⟨"add", "", "/a/1", some (.leaf ⟨"int", "9"⟩), none⟩ exPatchData =
      ([("a", .list [.leaf ⟨"int", "1"⟩, .leaf ⟨"int", "9"⟩, .leaf ⟨"int", "2"⟩]),
        ("b", .cont [("x", .leaf ⟨"int", "1"⟩)])], false) ∧
    patchOpC09 id ⟨"move", "/b/x", "/a/0", none, none⟩ exPatchData =
      ([("a", .list [.leaf ⟨"int", "1"⟩, .leaf ⟨"int", "1"⟩, .leaf ⟨"int", "2"⟩]), ("b", .cont [])], false) ∧
    patchOpC09 id ⟨"copy", "", "/b/y", none, some "a[1]"⟩ exPatchData = (exPatchData, true) ∧
    patchOpC09 id ⟨"add", "", "/b/y", none, some "a[1]"⟩ exPatchData =
      ([("a", .list [.leaf ⟨"int", "1"⟩, .leaf ⟨"int", "2"⟩]),
        ("b", .cont [("x", .leaf ⟨"int", "1"⟩), ("y", .leaf ⟨"int", "2"⟩)])], false) ∧
    patchOpC09 id ⟨"remove", "", "/a/7", none, none⟩ exPatchData = (exPatchData, true) ∧
    patchOpC09 id ⟨"remove", "", "a/0", none, none⟩ exPatchData = (exPatchData, true) := by
  decide +kernel

/-- … and the hypotheses of the transfer theorems hold for the first of these: the document is valid and
    the operation object is in C09's domain -/
theorem nonvacuous_patchOp_C09_hyps :
    (Node.cont exPatchData).Valid ∧
    Patch.OpOk (c09Obj ⟨"add", none, ["a", "1"], some (.leaf ⟨"int", "9"⟩)⟩) := by
  refine ⟨?_, ⟨by decide, ?_⟩⟩
  · have h0 : (Node.cont []).Valid := ⟨.cont .nil (by simp), .cont (by simp) (by simp)⟩
    have ha : (Node.list [.leaf ⟨"int", "1"⟩, .leaf ⟨"int", "2"⟩]).Valid :=
      Patch.valid_list (by simp [Node.Valid.leaf])
    have hb := Patch.valid_insert h0 (Node.Valid.leaf ⟨"int", "1"⟩) (k := "x") (by decide)
    have h1 := Patch.valid_insert h0 ha (k := "a") (by decide)
    exact Patch.valid_insert h1 hb (k := "b") (by decide)
  · intro v hv; cases hv; exact Node.Valid.leaf _

/-! ### round 8, cross-property C12 / C14 ↔ C13: the interpreter executes THESE data operations

  `Ytk.Pipeline.run` (YtkModel/Pipeline.lean — the interpreter of C12 and C14, which the harness compares
  with whole pipeline executions) has its own transcription of SetOp.Do and TemplateOp.Do; the theorems of
  this file are about `Ytk.PD` (YtkModel/PipelineData.lean — compared with single operations).  The two
  transcriptions are the same functions, so every law above holds for the operations as they occur INSIDE a
  pipeline run (in an action tree, a forEach body, a loop, a callable). -/

/-- SetOp.Do inside the interpreter IS `setOp` of this file with the interpreter's merge for `mergeC` -/
theorem interp_set_is_setOp (data : Option Node) (path : String) (s : Option String) (d : AMap Node) :
    Pipeline.setOp data path s d =
      match setOp Pipeline.mergeKvs d (data.map Pipeline.contOf) path s with
      | .ok d' => .ok d'
      | _ => .error (if data.isNone then .noData else .badStrategy) :=
  Pipeline.setOp_eq_pd data path s d

/-- TemplateOp.Do inside the interpreter IS `templateOp` of this file with the interpreter's renderer
    (outside `parseAs: yaml`, which the interpreter model does not own) -/
theorem interp_template_is_templateOp (yp : String → Option (Option YNode)) (t p : String) (tr : Bool)
    (pa : Option String) (d : AMap Node) (hy : pa ≠ some "yaml") :
    (Pipeline.templateOp t p tr pa d).1 =
      (templateOp (fun x => Pipeline.render x d) (fun x => Pipeline.renderLenient x d) Pipeline.trim yp
        ⟨t, p, pa, tr⟩ d).1 ∧
    (Pipeline.templateOp t p tr pa d).2.isSome =
      (templateOp (fun x => Pipeline.render x d) (fun x => Pipeline.renderLenient x d) Pipeline.trim yp
        ⟨t, p, pa, tr⟩ d).2 :=
  Pipeline.templateOp_eq_pd yp t p tr pa d hy

/-- one `Execute(SetOp)` of the interpreter, any fuel ≥ 1: it succeeds exactly when `setOp` does, the data
    afterwards is `setOp`'s document (the callable registry is untouched); otherwise the state is unchanged -/
theorem interp_set_run (n : Nat) (data : Option Node) (path : String) (s : Option String) (st : Pipeline.St) :
    (∀ d', setOp Pipeline.mergeKvs st.data (data.map Pipeline.contOf) path s = .ok d' →
      (Pipeline.run (n + 1) (.op (.set data path s)) st).err = none ∧
      (Pipeline.run (n + 1) (.op (.set data path s)) st).st.data = d' ∧
      (Pipeline.run (n + 1) (.op (.set data path s)) st).st.defs = st.defs) ∧
    ((∀ d', setOp Pipeline.mergeKvs st.data (data.map Pipeline.contOf) path s ≠ .ok d') →
      (Pipeline.run (n + 1) (.op (.set data path s)) st).err ≠ none ∧
      (Pipeline.run (n + 1) (.op (.set data path s)) st).st = st) := by
  simp only [Pipeline.run, Pipeline.wrap, interp_set_is_setOp]
  cases setOp Pipeline.mergeKvs st.data (data.map Pipeline.contOf) path s with
  | ok d0 =>
    refine ⟨fun d' h => ?_, fun h => absurd rfl (h d0)⟩
    cases h
    exact ⟨rfl, rfl, rfl⟩
  | err =>
    refine ⟨fun d' h => ?_, fun _ => ⟨?_, rfl⟩⟩
    · cases h
    · simp [Pipeline.Res.fail]
  | panic =>
    refine ⟨fun d' h => ?_, fun _ => ⟨?_, rfl⟩⟩
    · cases h
    · simp [Pipeline.Res.fail]

/-- `set_frame` for the operation INSIDE a run: after a successful `Execute(SetOp)` of the interpreter (a
    container payload, a non-empty target that fits the data of the moment) every path that is not under
    the target and not on the way to it finds the same node as before — or is a freshly padded slot. -/
theorem interp_set_frame (n : Nat) (payload : AMap Node) (path q : String) (s : Option String) (st : Pipeline.St)
    (hp : path ≠ "") (hf : Fits st.data (splitPath path))
    (h1 : ¬ pathSteps (splitPath path) <+: pathSteps (splitPath q))
    (h2 : ¬ pathSteps (splitPath q) <+: pathSteps (splitPath path))
    (hok : (Pipeline.run (n + 1) (.op (.set (some (.cont payload)) path s)) st).err = none) :
    let d' := (Pipeline.run (n + 1) (.op (.set (some (.cont payload)) path s)) st).st.data
    lookup d' q = lookup st.data q ∨ (lookup st.data q = none ∧ lookup d' q = some Node.null) := by
  intro d'
  have hr := interp_set_run n (some (.cont payload)) path s st
  simp only [Option.map_some, Pipeline.contOf] at hr
  cases hs : setOp Pipeline.mergeKvs st.data (some payload) path s with
  | ok d0 =>
    have hd : d' = d0 := (hr.1 d0 hs).2.1
    rw [hd]
    exact set_frame Pipeline.mergeKvs st.data payload path q s hp hf h1 h2 d0 hs
  | err => exact absurd hok (hr.2 (fun d' h => by rw [hs] at h; cases h)).1
  | panic => exact absurd hok (hr.2 (fun d' h => by rw [hs] at h; cases h)).1

/-- non-vacuity: `set_frame`'s list-item instance (`nonvacuous_frame_idx`), executed by the interpreter -/
theorem nonvacuous_interp_set_frame :
    (Pipeline.run 1 (.op (.set (some (.cont exPayload)) "a.l[3].b" (some "replace"))) ⟨exList, []⟩).err = none ∧
    lookup (Pipeline.run 1 (.op (.set (some (.cont exPayload)) "a.l[3].b" (some "replace"))) ⟨exList, []⟩).st.data
      "a.l[1]" = some Node.null ∧
    lookup (Pipeline.run 1 (.op (.set (some (.cont exPayload)) "a.l[3].b" (some "replace"))) ⟨exList, []⟩).st.data
      "a.l[0]" = some (.leaf ⟨"int", "1"⟩) := by
  decide +kernel

/-! ### round 8, cross-property C13 ↔ C01: the codec contract of `import_export_roundtrip`, factored

  `CodecRoundTrips enc dec norm` bundles two things: the TEXT codec (yaml.v3 / encoding/json: plain value
  ⇄ bytes — external) and the DOM ⇄ plain-value conversion (`Serialize` = encoder ∘ AsMap,
  `FromReader` = FromMap ∘ decoder — dom/codec.go, modelled and proved in C01).  Here the contract is asked
  of the text codec alone, on plain values; the DOM half is C01's theorem `decode_encode`. -/

/-- the text codec of one format on plain values: decoding what was encoded gives the value back up to
    the codec's own normalisation `normV` (external; e.g. numbers) -/
def TextCodecRoundTrips (encT : List (String × Val) → List Nat) (decT : List Nat → Option (List (String × Val)))
    (normV : List (String × Val) → List (String × Val)) : Prop := ∀ m, decT (encT m) = some (normV m)

/-- C01 gives the DOM half: the file decoder `FromMap ∘ decT` undoes the file encoder `encT ∘ AsMap` on
    every VALID container, up to the text codec's normalisation carried through FromMap / AsMap -/
theorem codecRoundTrips_of_text (encT : List (String × Val) → List Nat)
    (decT : List Nat → Option (List (String × Val))) (normV : List (String × Val) → List (String × Val))
    (ht : TextCodecRoundTrips encT decT normV) :
    CodecRoundTrips (fun kvs => encT (asMap kvs)) (fun bs => (decT bs).map fromMap)
      (fun kvs => fromMap (normV (asMap kvs))) := by
  intro kvs
  simp [ht (asMap kvs)]

/-- FromMap ∘ AsMap is the identity on valid containers (C01 `decode_encode` at the root) -/
theorem fromMap_asMap (kvs : AMap Node) (h : (Node.cont kvs).Valid) : fromMap (asMap kvs) = kvs := by
  have := decode_encode_aux (.cont kvs) h
  simp only [encodeNode, decodeNode, Node.cont.injEq] at this
  exact this

/-- Export ∘ Import is the IDENTITY on the subtree: a valid container exported as YAML (resp. JSON) and
    imported at another path yields the very same subtree, when the text codec returns the plain value it
    was given (`normV = id`: no number normalisation, e.g. string / bool / null leaves).  Only the text
    codec is assumed; the DOM conversion is C01's theorem. -/
theorem import_export_identity (r : String → Option String) (lenient : String → String) (cd : Codecs)
    (encT : List (String × Val) → List Nat) (decT : List Nat → Option (List (String × Val)))
    (ht : TextCodecRoundTrips encT decT id) (hcd : cd.yaml = fun bs => (decT bs).map fromMap)
    (data sub : AMap Node) (p : ValOrRef) (q : String) (hv : (Node.cont sub).Valid)
    (hsub : lookup data (p.resolve r data) = some (.cont sub)) (hq : lenient q ≠ "") :
    exportOp r "yaml" (some p) true data = (false, true, some (.doc .yaml sub)) ∧
    lookup (importOp cd lenient (some (encT (asMap sub))) "yaml" q data).1 (lenient q) = some (.cont sub) := by
  have hc := codecRoundTrips_of_text encT decT id ht
  rw [← hcd] at hc
  have := import_export_roundtrip r lenient cd _ _ hc data sub p q hsub hq
  simpa [fromMap_asMap sub hv] using this

/-- non-vacuity: a text codec that is the identity on a one-entry "file system" (the bytes are a tag, the
    decoder returns the stored value): the contract holds, `exData`'s container `a` is valid -/
theorem nonvacuous_import_export_identity :
    (Node.cont [("b", .leaf ⟨"int", "1"⟩), ("c", .cont [("d", .leaf ⟨"string", "x"⟩)])]).Valid ∧
    lookup exData "a" = some (.cont [("b", .leaf ⟨"int", "1"⟩), ("c", .cont [("d", .leaf ⟨"string", "x"⟩)])]) ∧
    fromMap (asMap [("b", .leaf ⟨"int", "1"⟩), ("c", .cont [("d", .leaf ⟨"string", "x"⟩)])]) =
      [("b", .leaf ⟨"int", "1"⟩), ("c", .cont [("d", .leaf ⟨"string", "x"⟩)])] := by
  refine ⟨Node.validB_sound _ (by decide +kernel), by decide +kernel, by decide +kernel⟩

/-! ### round 8: the frame law of PatchOp (clause C13.7, the part that was open) -/

/-- PatchOp changes only its target location.  For add / remove / replace / copy / test over C09's
    interpreter (hypotheses of `patchOp_refines_C09`): if the (parsed, rendered) target pointer
    `pre ++ t :: tail` and another pointer `pre ++ u :: qs` part at two different member names `t ≠ u` of
    the object at `pre`, then what the other pointer resolves to (RFC 6901 evaluation `getTok`) is the same
    before and after the operation — whether it succeeds or fails.  (Under an ARRAY parent, add / remove
    shift the later elements by the RFC's own semantics; `move` touches two locations.  Neither is
    claimed.)  From the frame law of the RFC 6902 reference, `Patch.rfc6902_frame_key`
    (YtkProofs/GapPatchFrame.lean). -/
theorem patch_frame (lenient : String → String) (ps : PatchSpec) (data : AMap Node)
    (call : PatchCall Ptr.Path) (h : patchArgs Ptr.parseS lenient ps data = some call)
    (ho : Patch.OpOk (c09Obj call)) (hd : (Node.cont data).Valid)
    (hop : call.op = "add" ∨ call.op = "remove" ∨ call.op = "replace" ∨ call.op = "copy" ∨ call.op = "test")
    (pre : Ptr.Path) (t u : String) (tail qs : Ptr.Path) (hp : call.path = pre ++ t :: tail) (htu : t ≠ u)
    (hk : ∃ kvs, Ptr.getTok (.cont data) pre = some (.cont kvs)) :
    Ptr.getTok (.cont (patchOpC09 lenient ps data).1) (pre ++ u :: qs) =
      Ptr.getTok (.cont data) (pre ++ u :: qs) := by
  rw [(patchOp_refines_C09 lenient ps data call h ho hd).2]
  cases hr : Patch.rfc6902 (c09Obj call) (.cont data) with
  | none => rfl
  | some n =>
    cases n with
    | cont d' =>
      exact Patch.rfc6902_frame_key (c09Obj call) (.cont data) (.cont d') pre t u tail qs hop
        (by simp [c09Obj, hp]) htu hk hr
    | leaf v => rfl
    | list xs => rfl

/-- non-vacuity on `exPatchData` = `{a: [1, 2], b: {x: 1}}`: `add /b/y 9` (target under the object `b`)
    leaves `/b/x` and `/a/1` alone — the hypotheses hold with `pre = [b]`, `t = y`, `u = x` resp.
    `pre = []`, `t = b`, `u = a` — and the new member is there -/
theorem nonvacuous_patch_frame :
    let ps : PatchSpec := ⟨"add", "", "/b/y", some (.leaf ⟨"int", "9"⟩), none⟩
    (patchArgs Ptr.parseS id ps exPatchData).map (fun c => (c.op, c.from_, c.path, c.value)) =
      some ("add", none, ["b", "y"], some (.leaf ⟨"int", "9"⟩)) ∧
    Patch.OpOk (c09Obj ⟨"add", none, ["b", "y"], some (.leaf ⟨"int", "9"⟩)⟩) ∧
    (∃ kvs, Ptr.getTok (.cont exPatchData) ["b"] = some (.cont kvs)) ∧
    Ptr.getTok (.cont (patchOpC09 id ps exPatchData).1) ["b", "x"] = some (.leaf ⟨"int", "1"⟩) ∧
    Ptr.getTok (.cont (patchOpC09 id ps exPatchData).1) ["a", "1"] = some (.leaf ⟨"int", "2"⟩) ∧
    Ptr.getTok (.cont (patchOpC09 id ps exPatchData).1) ["b", "y"] = some (.leaf ⟨"int", "9"⟩) := by
  intro ps
  refine ⟨by decide +kernel, ⟨by decide, ?_⟩, ⟨_, rfl⟩, by decide +kernel, by decide +kernel, by decide +kernel⟩
  intro v hv; cases hv; exact Node.Valid.leaf _

end Ytk.C13

/-! ## Translated functions (YtkModel/Generated/Funcs.lean, regenerated from the Go source on every
    run by extract/translate.go): the nil-safe helpers of pipeline/utils.go.  The hand-written
    pipeline model has no separate function for them (it works on `Option` values directly), so
    their meaning is stated over core functions (`Option.getD`, `List.take`); `Go.Res.ok` = the
    Go function does not panic.  An edit of the Go function changes the regenerated definition
    and these stop checking. -/
namespace Ytk.C13
open Ytk.Generated

theorem strTruncIfNeeded_generated_eq_model (s : String) (size : Nat) :
    Funcs.strTruncIfNeeded s (size : Int)
      = .ok (if s.toList.length ≤ size then s else String.ofList (s.toList.take size)) := by
  unfold Funcs.strTruncIfNeeded
  by_cases h : s.toList.length ≤ size
  · have : Go.len s ≤ (size : Int) := by simp only [Go.len_eq]; omega
    simp [h, this]
  · have h1 : ¬ Go.len s ≤ (size : Int) := by simp only [Go.len_eq]; omega
    have hs := Go.slice_nat s 0 size (by omega) (by omega)
    simp only [Int.natCast_zero, List.drop_zero, Nat.sub_zero] at hs
    simp [h, h1, hs]

theorem strTruncIfNeeded_negative_size_panics : Funcs.strTruncIfNeeded "ab" (-1) = .panic := by decide

theorem safeStrDeref_generated_eq_model (p : Option String) : Funcs.safeStrDeref p = .ok (p.getD "") := by
  cases p <;> simp [Funcs.safeStrDeref, Go.deref]

theorem safeBoolDeref_generated_eq_model (p : Option Bool) : Funcs.safeBoolDeref p = .ok (p.getD false) := by
  cases p <;> simp [Funcs.safeBoolDeref, Go.deref]

theorem safeStrListSize_generated_eq_model (p : Option (List String)) :
    Funcs.safeStrListSize p = .ok (((p.getD []).length : Nat) : Int) := by
  cases p <;> simp [Funcs.safeStrListSize, Go.deref, Go.lenL]

theorem nonEmpty_generated_eq_model (p : Option String) :
    Funcs.nonEmpty p = .ok (match p with | some s => decide (s ≠ "") | none => false) := by
  cases p with
  | none => simp [Funcs.nonEmpty]
  | some s =>
    have : (Go.len s > 0) ↔ s ≠ "" := by
      have h := @String.length_eq_zero_iff s
      simp only [Go.len]; constructor
      · intro h1 e; subst e; simp at h1
      · intro h1; have : s.length ≠ 0 := fun e => h1 (h.mp e)
        omega
    simp [Funcs.nonEmpty, Go.deref, this]

end Ytk.C13

/-! ## the template functions (pipeline/template_engine_funcs.go; model YtkModel/TplFuncs.lean) -/
namespace Ytk.C13
section tplfuncs
open Ytk.TplFuncs

/-- isEmpty by kind of value: true exactly for the untyped nil (a missing key), a stored nil and the empty
    string — false for every other scalar (0, false, " " included), every list and every map, empty or not. -/
theorem tf_isEmpty_by_kind (v : Option Val) :
    TplFuncs.isEmpty v = true ↔
      v = none ∨ ∃ s, v = some (.sc s) ∧ (s.ty = "nil" ∨ (s.ty = "string" ∧ s.text = "")) :=
  isEmpty_iff v

theorem nonvacuous_tf_isEmpty :
    TplFuncs.isEmpty none = true ∧ TplFuncs.isEmpty (some Val.null) = true ∧
    TplFuncs.isEmpty (some (.sc ⟨"string", ""⟩)) = true ∧ TplFuncs.isEmpty (some (.sc ⟨"string", " "⟩)) = false ∧
    TplFuncs.isEmpty (some (.sc ⟨"int", "0"⟩)) = false ∧ TplFuncs.isEmpty (some (.sc ⟨"bool", "false"⟩)) = false ∧
    TplFuncs.isEmpty (some (.arr [])) = false ∧ TplFuncs.isEmpty (some (.obj [])) = false := by decide

/-- unflatten IS utils.Unflatten as modelled for C16, so C16's theorem applies: flattening the result of a
    prefix-free flat map of scalars gives the flat map back. -/
theorem tf_unflatten_c16 (kv : AMap Scalar) (hs : AMap.Sorted kv) (hpf : Props.PrefixFree kv)
    (hne : Props.SegsNonempty kv) :
    unflattenFn = Props.unflatten ∧ Props.flattenPlainMap (unflattenFn (Props.toV kv)) = kv :=
  ⟨rfl, Props.flattenPlainMap_unflatten hs hpf hne⟩

/-- mergeFiles of distinct files that all load = the LEFT FOLD of Merge with appended lists over the loaded
    documents, in the order given (so C04's laws hold per step: a later file wins unless its value is null). -/
theorem tf_mergeFiles_fold {Γ : Type} (fl : Files Γ) (fds : List (String × AMap Node))
    (hnd : (fds.map (·.1)).Nodup) (hload : ∀ p ∈ fds, loadFile fl p.1 = .ok p.2) :
    mergeFiles fl (fds.map (·.1)) = .ok ((fds.map (·.2)).foldl (mergeC .append) []) :=
  mergeFiles_fold fl fds hnd hload

/-- mergeFiles [f] is the parsed file; mergeFiles [] the empty document -/
theorem tf_mergeFiles_single {Γ : Type} (fl : Files Γ) (f : String) (d : AMap Node) (h : loadFile fl f = .ok d) :
    mergeFiles fl [f] = .ok d ∧ mergeFiles fl [] = .ok [] := by
  have := mergeFiles_fold fl [(f, d)] (by simp) (by simpa using h)
  refine ⟨?_, rfl⟩
  rw [show [f] = [(f, d)].map (·.1) from rfl, this]
  simp only [List.map_cons, List.map_nil, List.foldl_cons, List.foldl_nil]
  exact congrArg _ (mergeKvs_nil_left .append (loadFile_valid fl f d h).1.sorted)

/-- a file that cannot be opened or decoded makes the whole call fail (no partial result); an unrecognised suffix
    on a readable file is the call of a nil decoder — a panic, which text/template reports as an error -/
theorem tf_mergeFiles_first_failure {Γ : Type} (fl : Files Γ) (f : String) (rest : List String) :
    (loadFile fl f = .err → mergeFiles fl (f :: rest) = .err) ∧
    (loadFile fl f = .panic → mergeFiles fl (f :: rest) = .panic) ∧
    (∀ c, fl.open_ f = some c → FileCodec.ofSuffix (fl.ext f) = none → loadFile fl f = .panic) := by
  refine ⟨fun h => by simp [mergeFiles, addFiles, h], fun h => by simp [mergeFiles, addFiles, h], ?_⟩
  intro c ho hs
  simp [loadFile, ho, hs]

/-- domdiff x x = [] (C07's `diff_self`), and anything but two containers gives the empty list -/
theorem tf_domDiff_self (l : AMap Node) (hl : (Node.cont l).Valid) :
    domDiff (some (.cont l)) (some (.cont l)) = [] := by
  simp only [domDiff, diff, emit, emitNode_self _ "" hl]; rfl

theorem tf_domDiff_spec (l r : Option Node) :
    domDiff l r = match l, r with
      | some (.cont a), some (.cont b) => diff a b
      | _, _ => [] := by
  unfold domDiff; split <;> simp_all

theorem tf_domDiff_non_container (l r : Option Node)
    (h : (∀ a, l ≠ some (.cont a)) ∨ (∀ b, r ≠ some (.cont b))) : domDiff l r = [] := by
  unfold domDiff
  split
  · rename_i a b
    rcases h with h | h
    · exact absurd rfl (h a)
    · exact absurd rfl (h b)
  · rfl

/-- dom2yaml / dom2json / dom2properties hand AsMap of the container to the format's encoder (C01's Serialize);
    under the codec contract (the decoder inverts the encoder on every value) parsing the text gives the document back. -/
theorem tf_dom2_parse_identity (e : Encoders) (dec : String → Option (List (String × Val)))
    (c : AMap Node) (hv : (Node.cont c).Valid) :
    dom2yaml e c = e.yaml (asMap c) ∧ dom2json e c = e.json (asMap c) ∧ dom2properties e c = e.props (asMap c) ∧
    ((∀ v, (e.json v).2 = false ∧ dec (e.json v).1 = some v) →
      (dom2json e c).2 = false ∧ (dec (dom2json e c).1).map fromMap = some c) ∧
    ((∀ v, (e.yaml v).2 = false ∧ dec (e.yaml v).1 = some v) →
      (dom2yaml e c).2 = false ∧ (dec (dom2yaml e c).1).map fromMap = some c) :=
  ⟨rfl, rfl, rfl, fun h => dom2str_parse e.json dec h c hv, fun h => dom2str_parse e.yaml dec h c hv⟩

/-- fileExists / isDir: every error of os.Stat means false; a directory exists -/
theorem tf_stat_spec (os : OS) (f : String) :
    (os.stat f = none → fileExists os f = false ∧ isDir os f = false) ∧
    (∀ d, os.stat f = some d → fileExists os f = true ∧ isDir os f = d) ∧
    (isDir os f = true → fileExists os f = true) := by
  refine ⟨fun h => by simp [fileExists, isDir, h], fun d h => by simp [fileExists, isDir, h], ?_⟩
  unfold isDir fileExists
  cases os.stat f <;> simp

/-- toYaml returns the encoder's text without its final newline, and the encoder's error -/
theorem tf_toYaml_trim {α : Type} (enc : α → String × Bool) (v : α) (s : String) (e : Bool)
    (h : enc v = (s ++ "\n", e)) : toYaml enc v = (s, e) := by
  simp only [toYaml, h, trimSuffixNl, String.toList_append, List.reverse_append]
  simp [String.ofList_toList]

/-- TemplateOp over an action calling the functions: the action's text is stored as a string leaf at the path
    (`template_stores_text` with the functions' renderer); an action that fails makes the operation fail. -/
theorem tf_templateOp_stores {Γ : Type} (env : Env Γ) (c : Call) (tmpl path : String) (trimFn : String → String)
    (yp : String → Option (Option PD.YNode)) (data : AMap Node) (text : String)
    (ht : tmpl ≠ "") (hp : path ≠ "") (hr : render env (asMap data) c = some text) :
    (templateOpCall env c tmpl path none false trimFn yp data).2 = false ∧
    lookup (templateOpCall env c tmpl path none false trimFn yp data).1 path = some (.leaf ⟨"string", text⟩) := by
  have := template_stores_text (fun _ => render env (asMap data) c) id trimFn yp ⟨tmpl, path, none, false⟩ data text
    ht hp (Or.inl rfl) hr hp
  simpa [templateOpCall] using this

theorem tf_templateOp_fails {Γ : Type} (env : Env Γ) (c : Call) (tmpl path : String) (trimFn : String → String)
    (yp : String → Option (Option PD.YNode)) (data : AMap Node)
    (ht : tmpl ≠ "") (hp : path ≠ "") (hr : render env (asMap data) c = none) :
    (templateOpCall env c tmpl path none false trimFn yp data).2 = true := by
  simp [templateOpCall, PD.templateOp, ht, hp, hr]

/-- the isEmpty action renders `true` / `false` by the kind table above -/
theorem tf_render_isEmpty {Γ : Type} (env : Env Γ) (snap : AMap Val) (k : String) :
    render env snap (.isEmpty k) = some (if TplFuncs.isEmpty (AMap.get? snap k) then "true" else "false") := rfl

def exFiles : Files String :=
  { ext := fun f => if f = "a.yaml" then ".yaml" else if f = "b.json" then ".json" else ".txt"
    open_ := fun f => if f = "gone.yaml" then none else some f
    decode := fun _ c =>
      if c = "a.yaml" then some [("l", .arr [.sc ⟨"int", "1"⟩]), ("x", .sc ⟨"int", "1"⟩), ("y", .sc ⟨"string", "keep"⟩)]
      else if c = "b.json" then some [("l", .arr [.sc ⟨"int", "2"⟩]), ("x", .sc ⟨"int", "2"⟩), ("y", Val.null)]
      else none }

/-- concrete: two files (lists appended, later scalar wins, null keeps the earlier value); a file named twice is
    merged ONCE, at its first position (the document set keys documents by file name); failures -/
theorem nonvacuous_tf_mergeFiles :
    mergeFiles exFiles ["a.yaml", "b.json"] =
      .ok [("l", .list [.leaf ⟨"int", "1"⟩, .leaf ⟨"int", "2"⟩]), ("x", .leaf ⟨"int", "2"⟩), ("y", .leaf ⟨"string", "keep"⟩)] ∧
    mergeFiles exFiles ["a.yaml", "b.json", "a.yaml"] = mergeFiles exFiles ["a.yaml", "b.json"] ∧
    mergeFiles exFiles ["a.yaml", "gone.yaml"] = .err ∧ mergeFiles exFiles ["a.yaml", "c.txt"] = .panic ∧
    domDiff (some (.cont [("x", .leaf ⟨"int", "1"⟩)])) (some (.cont [("x", .leaf ⟨"int", "2"⟩)])) =
      [Mod.mkChange "x" ⟨"int", "2"⟩ ⟨"int", "1"⟩] := by decide +kernel

end tplfuncs
end Ytk.C13

/-! ## Operations with an environment: ExecOp, TemplateFileOp, Html2DomOp, ValOrRef decoding

  Definitions: `YtkModel/OpsExt.lean` (namespace `Ytk.OpsExt`), the functions the driver op
  `opsExt` executes.  The operating system (`ExecOS`: opening the output files, running the
  process), the template engine (`TplEngine`), the file system (`TplFS`), the HTML library
  (`HtmlLib`) and `RenderLenient` (`lenient`) are parameters: every theorem holds for ALL of them.
  Each docstring names the Go operation the theorem is about. -/

namespace Ytk.C13
open Ytk.PD Ytk.OpsExt

section opsExt

/-! ### (*ExecOp).Do — pipeline/exec_op.go -/

/-- ExecOp.Do — "SaveExitCodeTo: path within the global data where to set exit code": when the
    output files open and the process ends with an exit error, what Lookup finds at the path
    afterwards is the exit code as an int leaf — whether or not that code is valid (the code is
    stored BEFORE the validity check). -/
theorem exec_stores_exit_code (lenient : String → String) (os : ExecOS) (e : ExecSpec) (data : AMap Node)
    (p : String) (code : Int) (out err : List Nat) (ho : execOpens lenient os e)
    (hr : execCall lenient os e = .exitError code out err) (hs : e.saveExitCodeTo = some p) (hp : p ≠ "") :
    (execOp lenient os e data).data = addValueAt data p (exitCodeLeaf code) ∧
      lookup (execOp lenient os e data).data p = some (.leaf ⟨"int", toString code⟩) ∧
      (execOp lenient os e data).ran = true := by
  have hd : (execOp lenient os e data).data = addValueAt data p (exitCodeLeaf code) := by
    rw [execOp_of_opens lenient os e data ho, hr]
    simp only [hs]
  refine ⟨hd, ?_, ?_⟩
  · rw [hd]; exact lookup_addValueAt_self' _ _ hp
  · rw [execOp_of_opens lenient os e data ho, hr]

/-- ExecOp.Do — "ValidExitCodes: list of exit codes that are assumed to be valid": an exit error
    is an error of the operation exactly when its code is not in the list; a nil list is the
    empty list (no non-zero exit code is valid). -/
theorem exec_exit_code_validity (lenient : String → String) (os : ExecOS) (e : ExecSpec) (data : AMap Node)
    (code : Int) (out err : List Nat) (ho : execOpens lenient os e)
    (hr : execCall lenient os e = .exitError code out err) :
    (execOp lenient os e data).err = !((e.validExitCodes.getD []).contains code) := by
  rw [execOp_of_opens lenient os e data ho, hr]

/-- ExecOp.Do: an exit code outside a non-empty valid list is an error (and still stored, see
    `exec_stores_exit_code`). -/
theorem exec_invalid_exit_code_is_error (lenient : String → String) (os : ExecOS) (e : ExecSpec) (data : AMap Node)
    (valid : List Int) (code : Int) (out err : List Nat) (ho : execOpens lenient os e)
    (hv : e.validExitCodes = some valid) (hn : code ∉ valid)
    (hr : execCall lenient os e = .exitError code out err) :
    (execOp lenient os e data).err = true := by
  rw [exec_exit_code_validity lenient os e data code out err ho hr, hv]
  simp [hn]

/-- ExecOp.Do: nil and empty ValidExitCodes are the same operation. -/
theorem exec_nil_valid_is_empty (lenient : String → String) (os : ExecOS) (e : ExecSpec) (data : AMap Node) :
    execOp lenient os { e with validExitCodes := none } data =
      execOp lenient os { e with validExitCodes := some [] } data := rfl

/-- ExecOp.Do: a process that exits with status 0 is never an error, whatever ValidExitCodes
    holds, and its exit code is NOT stored: the data is untouched. -/
theorem exec_status_zero (lenient : String → String) (os : ExecOS) (e : ExecSpec) (data : AMap Node)
    (out err : List Nat) (ho : execOpens lenient os e) (hr : execCall lenient os e = .success out err) :
    (execOp lenient os e data).err = false ∧ (execOp lenient os e data).data = data ∧
      (execOp lenient os e data).files = execFiles (e.stdout.map lenient) (e.stderr.map lenient) out err := by
  rw [execOp_of_opens lenient os e data ho, hr]
  exact ⟨rfl, rfl, rfl⟩

/-- ExecOp.Do: a program that cannot be started is an error; the data is untouched and the
    output files stay behind empty. -/
theorem exec_start_failure (lenient : String → String) (os : ExecOS) (e : ExecSpec) (data : AMap Node)
    (ho : execOpens lenient os e) (hr : execCall lenient os e = .startFail) :
    (execOp lenient os e data).err = true ∧ (execOp lenient os e data).data = data ∧
      (execOp lenient os e data).ran = false ∧
      ∀ f ∈ (execOp lenient os e data).files, f.2 = [] := by
  rw [execOp_of_opens lenient os e data ho, hr]
  refine ⟨rfl, rfl, rfl, ?_⟩
  intro f hf
  simp only [execFiles, List.mem_append, List.mem_map] at hf
  rcases hf with ⟨_, _, rfl⟩ | ⟨_, _, rfl⟩ <;> rfl

/-- ExecOp.Do: an output file that cannot be opened is an ERROR (not a panic): the process is
    not run, nothing is logged, the data is untouched. -/
theorem exec_open_failure (lenient : String → String) (os : ExecOS) (e : ExecSpec) (data : AMap Node)
    (h : (∃ p, e.stdout = some p ∧ os.canOpen (lenient p) = false) ∨
         (∃ p, e.stderr = some p ∧ os.canOpen (lenient p) = false)) :
    (execOp lenient os e data).err = true ∧ (execOp lenient os e data).data = data ∧
      (execOp lenient os e data).ran = false ∧ (execOp lenient os e data).log = [] :=
  execOp_of_not_opens lenient os e data h

/-- ExecOp.Do: the files hold what the process wrote, stdout's first. -/
theorem exec_files_hold_output (lenient : String → String) (os : ExecOS) (e : ExecSpec) (data : AMap Node)
    (code : Int) (out err : List Nat) (ho : execOpens lenient os e)
    (hr : execCall lenient os e = .exitError code out err) :
    (execOp lenient os e data).files =
      (e.stdout.toList.map fun p => (lenient p, out)) ++ (e.stderr.toList.map fun p => (lenient p, err)) := by
  rw [execOp_of_opens lenient os e data ho, hr]
  simp only [execFiles]
  cases e.stdout <;> cases e.stderr <;> rfl

/-- ExecOp.Do: an unset SaveExitCodeTo leaves the data unchanged — for every operating system
    and every outcome. -/
theorem exec_unset_save_unchanged (lenient : String → String) (os : ExecOS) (e : ExecSpec) (data : AMap Node)
    (hs : e.saveExitCodeTo = none) : (execOp lenient os e data).data = data := by
  rcases execOp_data lenient os e data with h | ⟨p, _, hp, _⟩
  · exact h
  · rw [hs] at hp; cases hp

/-- ExecOp.Do, frame at full strength: for every operating system and every outcome, the data
    afterwards differs from the data before at most at SaveExitCodeTo — every path that is not
    under it and not on the way to it finds the same node (or a freshly padded `null` slot). -/
theorem exec_frame (lenient : String → String) (os : ExecOS) (e : ExecSpec) (data : AMap Node) (p q : String)
    (hs : e.saveExitCodeTo = some p) (hf : Fits data (splitPath p))
    (h1 : ¬ pathSteps (splitPath p) <+: pathSteps (splitPath q))
    (h2 : ¬ pathSteps (splitPath q) <+: pathSteps (splitPath p)) :
    FrameAt data (execOp lenient os e data).data q := by
  rcases execOp_data lenient os e data with h | ⟨p', code, hp, h⟩
  · rw [h]; exact FrameAt.refl _ _
  · rw [hs] at hp; cases hp
    rw [h]; exact frameAt_addValueAt_steps data _ q _ hf h1 h2

/-- ExecOp.Do, frame without `Fits`, for paths that part at two different keys or indices. -/
theorem exec_frame_diverge (lenient : String → String) (os : ExecOS) (e : ExecSpec) (data : AMap Node)
    (p q : String) (hs : e.saveExitCodeTo = some p) (h : DivergeIdx (splitPath p) (splitPath q)) :
    FrameAt data (execOp lenient os e data).data q := by
  rcases execOp_data lenient os e data with h' | ⟨p', code, hp, h'⟩
  · rw [h']; exact FrameAt.refl _ _
  · rw [hs] at hp; cases hp
    rw [h']; exact frameAt_addValueAt_diverge data _ q _ h

/-- non-vacuity (ExecOp.Do): `sh -c "exit 3"` with ValidExitCodes [3], stdout into a file and
    SaveExitCodeTo `res.rc` on `{a: 1}` — no error, the code is stored, `a` is untouched; with
    ValidExitCodes [4] the same run is an error and the code is stored all the same; exit status 0
    stores nothing. -/
theorem nonvacuous_exec :
    let os3 : ExecOS := ⟨fun _ => true, fun _ _ _ => .exitError 3 [111] []⟩
    let os0 : ExecOS := ⟨fun _ => true, fun _ _ _ => .success [111] []⟩
    let e : ExecSpec := ⟨"sh", some ["-c", "exit 3"], "", some [3], some "/t/out", none, some "res.rc"⟩
    let data : AMap Node := [("a", .leaf ⟨"int", "1"⟩)]
    (execOp id os3 e data).err = false ∧
    lookup (execOp id os3 e data).data "res.rc" = some (.leaf ⟨"int", "3"⟩) ∧
    lookup (execOp id os3 e data).data "a" = some (.leaf ⟨"int", "1"⟩) ∧
    (execOp id os3 e data).files = [("/t/out", [111])] ∧
    (execOp id os3 e data).log = [["prog=sh,dir=,args=[-c exit 3]"]] ∧
    (execOp id os3 { e with validExitCodes := some [4] } data).err = true ∧
    lookup (execOp id os3 { e with validExitCodes := some [4] } data).data "res.rc" = some (.leaf ⟨"int", "3"⟩) ∧
    (execOp id os0 e data).data = data ∧ (execOp id os0 e data).err = false := by
  decide

/-! ### (*TemplateFileOp).Do — pipeline/template_file_op.go -/

/-- TemplateFileOp.Do never changes the data document — for every engine, file system and
    configuration. -/
theorem templateFile_data_unchanged (te : TplEngine) (fs : TplFS) (t : TemplateFileSpec) (data : AMap Node) :
    (templateFileOp te fs t data).data = data := templateFileOp_data te fs t data

/-- TemplateFileOp.Do — "Output is path to output file": success means exactly that the scope
    (the root, or the container at Path) exists, the template file was read, its content rendered
    against the scope, and the file named by the rendered Output holds that rendering. -/
theorem templateFile_written_is_rendering (te : TplEngine) (fs : TplFS) (t : TemplateFileSpec) (data : AMap Node) :
    (templateFileOp te fs t data).err = false ↔
      t.file ≠ "" ∧ t.output ≠ "" ∧ ∃ sc tmpl val, tplScope t data = some sc ∧
        fs.readFile (te.lenient sc t.file) = some tmpl ∧ te.render sc tmpl = some val ∧
        fs.canWrite (te.lenient sc t.output) = true ∧
        (templateFileOp te fs t data).written = some (te.lenient sc t.output, val) := by
  by_cases hf : t.file = ""
  · simp [templateFileOp, hf]
  by_cases ho : t.output = ""
  · simp [templateFileOp, hf, ho]
  rw [templateFileOp_eq te fs t data hf ho]
  cases hsc : tplScope t data with
  | none => simp [hf, ho]
  | some sc =>
    cases hr : fs.readFile (te.lenient sc t.file) with
    | none => simp [hf, ho, hr]
    | some tmpl =>
      cases hv : te.render sc tmpl with
      | none => simp [hf, ho, hr, hv]
      | some val =>
        by_cases hw : fs.canWrite (te.lenient sc t.output) = true
        · simp [hf, ho, hr, hv, hw]
        · simp [hf, ho, hr, hv, hw]

/-- TemplateFileOp.Do: an error writes nothing (in particular a template that fails to render
    returns before the output file is touched), success writes exactly one file. -/
theorem templateFile_err_iff_nothing_written (te : TplEngine) (fs : TplFS) (t : TemplateFileSpec) (data : AMap Node) :
    (templateFileOp te fs t data).err = (templateFileOp te fs t data).written.isNone := by
  simp only [templateFileOp]
  split
  · rfl
  · split
    · rfl
    · split
      · rfl
      · split
        · rfl
        · split
          · rfl
          · split <;> rfl

/-- TemplateFileOp.Do: a template that fails to render is an error and nothing is written. -/
theorem templateFile_render_error (te : TplEngine) (fs : TplFS) (t : TemplateFileSpec) (data sc : AMap Node)
    (tmpl : String) (hf : t.file ≠ "") (ho : t.output ≠ "") (hsc : tplScope t data = some sc)
    (hr : fs.readFile (te.lenient sc t.file) = some tmpl) (hv : te.render sc tmpl = none) :
    (templateFileOp te fs t data).err = true ∧ (templateFileOp te fs t data).written = none := by
  rw [templateFileOp_eq te fs t data hf ho, hsc]
  simp [hr, hv]

/-- TemplateFileOp.Do — "Path … (must be container). When omitted, then root of global data is
    assumed": the scope is the root without a Path, the container found at Path otherwise, and
    anything else there (nothing, a leaf, a list) is an error before any file is touched. -/
theorem templateFile_scope (te : TplEngine) (fs : TplFS) (t : TemplateFileSpec) (data : AMap Node) :
    (t.path = none → tplScope t data = some data) ∧
    (∀ p c, t.path = some p → lookup data p = some (.cont c) → tplScope t data = some c) ∧
    (tplScope t data = none →
      (templateFileOp te fs t data).err = true ∧ (templateFileOp te fs t data).log = []) := by
  refine ⟨?_, ?_, ?_⟩
  · intro h; simp [tplScope, h]
  · intro p c h hl; simp [tplScope, h, hl]
  · intro h
    by_cases hf : t.file = ""
    · simp [templateFileOp, hf]
    by_cases ho : t.output = ""
    · simp [templateFileOp, hf, ho]
    rw [templateFileOp_eq te fs t data hf ho, h]
    exact ⟨rfl, rfl⟩

/-- TemplateFileOp.Do: an empty File or Output is an error; nothing is read, written or logged. -/
theorem templateFile_arg_errors (te : TplEngine) (fs : TplFS) (t : TemplateFileSpec) (data : AMap Node)
    (h : t.file = "" ∨ t.output = "") :
    templateFileOp te fs t data = ⟨true, data, none, []⟩ := by
  rcases h with h | h
  · simp [templateFileOp, h]
  · by_cases hf : t.file = ""
    · simp [templateFileOp, hf]
    · simp [templateFileOp, hf, h]

/-- non-vacuity (TemplateFileOp.Do): the template file `/t/in` holds `T`, the engine renders `T`
    against the container at `sub` to `R`; the output `/t/out` then holds `R` and the data is as
    before; the same operation with a Path to a leaf is an error. -/
theorem nonvacuous_templateFile :
    let data : AMap Node := [("sub", .cont [("x", .leaf ⟨"int", "1"⟩)]), ("z", .leaf ⟨"string", "s"⟩)]
    let te : TplEngine := ⟨fun sc s => if sc = [("x", .leaf ⟨"int", "1"⟩)] ∧ s = "T" then some "R" else none, fun _ s => s⟩
    let fs : TplFS := ⟨fun f => if f = "/t/in" then some "T" else none, fun _ => true⟩
    (templateFileOp te fs ⟨"/t/in", "/t/out", some "sub"⟩ data).err = false ∧
    (templateFileOp te fs ⟨"/t/in", "/t/out", some "sub"⟩ data).data = data ∧
    (templateFileOp te fs ⟨"/t/in", "/t/out", some "sub"⟩ data).written = some ("/t/out", "R") ∧
    (templateFileOp te fs ⟨"/t/in", "/t/out", some "sub"⟩ data).log =
      [["reading template file", "/t/in"], ["writing rendered template", "/t/out"]] ∧
    (templateFileOp te fs ⟨"/t/in", "/t/out", some "z"⟩ data).err = true ∧
    (templateFileOp te fs ⟨"/t/in", "/t/out", none⟩ data).written = none := by
  decide

/-! ### convertHtmlNode2Dom and (*Html2DomOp).Do — pipeline/html2dom.go -/

/-- convertHtmlNode2Dom: only element and text nodes do anything — a document node (what
    `htmlquery.Parse` returns), comments, doctypes and blank text leave the container as it is. -/
theorem html_ignored_nodes (cb : AMap Node) (cs : List HtmlNode) (d : String) (hb : isBlank d = true) :
    convert cb (.document cs) = cb ∧ convert cb .other = cb ∧ convert cb (.text d) = cb := by
  refine ⟨by simp [convert], by simp [convert], ?_⟩
  simp [convert, hb]

/-- convertHtmlNode2Dom — "Value leaf for every text node": a text node that is not blank is
    stored under `Value` UNTRIMMED (the trimmed text only decides whether it is stored). -/
theorem html_text_stored_untrimmed (cb : AMap Node) (d : String) (hb : isBlank d = false) :
    AMap.get? (convert cb (.text d)) "Value" = some (.leaf ⟨"string", d⟩) := by
  rw [convert_text]; simp [hb, AMap.get?_insert_self]

/-- convertHtmlNode2Dom: with several text nodes below one element, `Value` is the LAST one that
    is not blank (each overwrites the one before). -/
theorem html_value_is_last_text (attrs : List (String × String)) (cs : List HtmlNode)
    (hp : PlainKids cs) (hn : NoKidNamed "Value" cs) :
    AMap.get? (elemBody attrs cs) "Value" = (lastText cs).map fun d => .leaf ⟨"string", d⟩ := by
  unfold elemBody
  rw [get?_convertChildren_Value cs _ hp hn]
  cases lastText cs with
  | some d => rfl
  | none =>
    cases attrs with
    | nil => rfl
    | cons a as =>
      simp only [elemStart, add_of_noSuffix _ _ noSuffix_Attrs, Option.map_none]
      rw [AMap.get?_insert_ne _ _ (by decide)]
      rfl

/-- convertHtmlNode2Dom — "Child elements are collected into the list, if their name appears
    multiple times within the parent, otherwise they are regular child node": under a name `t`
    the element finds nothing when no child element is named `t`, the child's own container when
    there is exactly one, and otherwise a list with ONE ITEM PER CHILD ELEMENT named `t`, IN
    DOCUMENT ORDER (`bodiesOf`: the containers built for those children, recursively). -/
theorem html_children_by_name (attrs : List (String × String)) (cs : List HtmlNode) (t : String)
    (hp : PlainKids cs) (ht : t ≠ "Value") (ha : t ≠ "Attrs") :
    AMap.get? (elemBody attrs cs) t =
      match bodiesOf t cs with
      | [] => none
      | [b] => some b
      | b1 :: b2 :: rest => some (.list (b1 :: b2 :: rest)) := by
  unfold elemBody
  rw [get?_convertChildren t ht cs _ hp]
  have hstart : AMap.get? (elemStart attrs) t = none := by
    cases attrs with
    | nil => rfl
    | cons a as =>
      simp only [elemStart, add_of_noSuffix _ _ noSuffix_Attrs]
      rw [AMap.get?_insert_ne _ _ ha]
      rfl
  rw [hstart]
  exact collect_none _ (bodiesOf_cont t cs)

/-- convertHtmlNode2Dom: the list under a repeated name has as many items as there are child
    elements of that name. -/
theorem html_one_item_per_child (attrs : List (String × String)) (cs : List HtmlNode) (t : String)
    (hp : PlainKids cs) (ht : t ≠ "Value") (ha : t ≠ "Attrs") (h2 : 2 ≤ (bodiesOf t cs).length) :
    AMap.get? (elemBody attrs cs) t = some (.list (bodiesOf t cs)) := by
  rw [html_children_by_name attrs cs t hp ht ha]
  match hb : bodiesOf t cs, h2 with
  | b1 :: b2 :: rest, _ => rfl

/-- convertHtmlNode2Dom — "Attributes of element are put into container node Attrs": the
    element's container holds `Attrs` exactly when it has attributes, and `Attrs` read by name
    gives the value of the last attribute of that name as a string leaf (nothing for other names). -/
theorem html_attrs_preserved (attrs : List (String × String)) (cs : List HtmlNode)
    (hp : PlainKids cs) (hn : NoKidNamed "Attrs" cs) (hk : ∀ p ∈ attrs, hasIdxSuffix p.1 = false) :
    AMap.get? (elemBody attrs cs) "Attrs" =
      (if attrs = [] then none else some (.cont (attrsCont [] attrs))) ∧
    ∀ k, AMap.get? (attrsCont [] attrs) k = (lastAttr k attrs).map fun v => .leaf ⟨"string", v⟩ := by
  constructor
  · unfold elemBody
    rw [get?_convertChildren "Attrs" (by decide) cs _ hp, bodiesOf_nil_of_noKid "Attrs" cs hn]
    cases attrs with
    | nil => rfl
    | cons a as =>
      simp only [collect, elemStart, add_of_noSuffix _ _ noSuffix_Attrs, AMap.get?_insert_self]
      simp
  · intro k
    rw [get?_attrsCont k attrs [] hk]
    cases lastAttr k attrs <;> rfl

/-- convertHtmlNode2Dom: with distinct attribute names every attribute is found with its value,
    and no other name is. -/
theorem html_attrs_distinct (attrs : List (String × String))
    (hk : ∀ p ∈ attrs, hasIdxSuffix p.1 = false) (hd : (attrs.map (·.1)).Nodup) :
    (∀ k v, (k, v) ∈ attrs → AMap.get? (attrsCont [] attrs) k = some (.leaf ⟨"string", v⟩)) ∧
    (∀ k, k ∉ attrs.map (·.1) → AMap.get? (attrsCont [] attrs) k = none) := by
  constructor
  · intro k v hm
    rw [get?_attrsCont k attrs [] hk, lastAttr_of_mem_nodup attrs hd hm]
  · intro k hm
    rw [get?_attrsCont k attrs [] hk, lastAttr_none_of_not_mem attrs hm]
    rfl

/-- convertHtmlNode2Dom: whatever the tree (tags and attribute names with index groups
    included), every container it builds is constructible through the API: keys sorted and
    unique, none ending in an index group. -/
theorem html_convert_valid (n : HtmlNode) (cb : AMap Node) (h : (Node.cont cb).Valid) :
    (Node.cont (convert cb n)).Valid := convert_valid n cb h

/-- Html2DomOp.Do: success is ONE AddValueAt, at the rendered To, of a container converted from
    an HTML node; From and To were non-empty. -/
theorem html2dom_ok_addValueAt (lenient : String → String) (lib : HtmlLib) (x : Html2DomSpec) (data d : AMap Node)
    (h : html2domOp lenient lib x data = .ok d) :
    lenient x.from_ ≠ "" ∧ lenient x.to ≠ "" ∧
      ∃ n, d = addValueAt data (lenient x.to) (.cont (convert [] n)) ∧
        lookup d (lenient x.to) = some (.cont (convert [] n)) := by
  obtain ⟨hf, ht, n, hd⟩ := html2domOp_ok lenient lib x data d h
  exact ⟨hf, ht, n, hd, by rw [hd]; exact lookup_addValueAt_self' _ _ ht⟩

/-- Html2DomOp.Do, frame: every path not under the rendered To and not on the way to it finds
    the same node afterwards (or a freshly padded `null` slot). -/
theorem html2dom_frame (lenient : String → String) (lib : HtmlLib) (x : Html2DomSpec) (data d : AMap Node)
    (q : String) (h : html2domOp lenient lib x data = .ok d) (hf : Fits data (splitPath (lenient x.to)))
    (h1 : ¬ pathSteps (splitPath (lenient x.to)) <+: pathSteps (splitPath q))
    (h2 : ¬ pathSteps (splitPath q) <+: pathSteps (splitPath (lenient x.to))) :
    FrameAt data d q := by
  obtain ⟨_, _, n, hd⟩ := html2domOp_ok lenient lib x data d h
  rw [hd]; exact frameAt_addValueAt_steps data _ q _ hf h1 h2

theorem html2dom_frame_diverge (lenient : String → String) (lib : HtmlLib) (x : Html2DomSpec) (data d : AMap Node)
    (q : String) (h : html2domOp lenient lib x data = .ok d)
    (hdv : DivergeIdx (splitPath (lenient x.to)) (splitPath q)) : FrameAt data d q := by
  obtain ⟨_, _, n, hd⟩ := html2domOp_ok lenient lib x data d h
  rw [hd]; exact frameAt_addValueAt_diverge data _ q _ hdv

/-- Html2DomOp.Do as the code is: WITHOUT a Query the node handed to the layout function is the
    document node `htmlquery.Parse` returns, for which convertHtmlNode2Dom does nothing — an EMPTY
    container is stored at To, whatever the HTML source is.  (The field documentation says "when
    omitted, then whole document is used".) -/
theorem html2dom_without_query_stores_empty (lenient : String → String) (lib : HtmlLib) (x : Html2DomSpec)
    (data d : AMap Node) (hq : x.query = none) (hdoc : ∀ s, ∃ cs, lib.parse s = .document cs)
    (h : html2domOp lenient lib x data = .ok d) :
    d = addValueAt data (lenient x.to) (.cont []) := by
  simp only [html2domOp, hq] at h
  split at h
  · cases h
  · split at h
    · cases h
    · split at h
      · rename_i v _
        split at h
        · cases h
        · split at h
          · cases h
          · obtain ⟨cs, hcs⟩ := hdoc v.text
            simp only [hcs, convert] at h
            cases h
            rfl
      · cases h

/-- Html2DomOp.Do: argument errors — an empty (rendered) From or To, nothing or a non-leaf at
    From, an unknown layout — are errors; a leaf at From that does not hold a string is a PANIC
    (`Value().(string)`). -/
theorem html2dom_argument_outcomes (lenient : String → String) (lib : HtmlLib) (x : Html2DomSpec) (data : AMap Node) :
    (lenient x.from_ = "" ∨ lenient x.to = "" → html2domOp lenient lib x data = .err) ∧
    (lenient x.from_ ≠ "" → lenient x.to ≠ "" →
      (∀ v, lookup data (lenient x.from_) = some (.leaf v) → v.ty ≠ "string" →
        html2domOp lenient lib x data = .panic) ∧
      ((∀ v, lookup data (lenient x.from_) ≠ some (.leaf v)) → html2domOp lenient lib x data = .err) ∧
      (∀ v l, lookup data (lenient x.from_) = some (.leaf v) → v.ty = "string" → x.layout = some l →
        l ≠ "default" → html2domOp lenient lib x data = .err)) := by
  refine ⟨?_, ?_⟩
  · rintro (h | h)
    · simp [html2domOp, h]
    · by_cases hf : lenient x.from_ = ""
      · simp [html2domOp, hf]
      · simp [html2domOp, hf, h]
  · intro hf ht
    refine ⟨?_, ?_, ?_⟩
    · intro v hl hty
      simp [html2domOp, hf, ht, hl, hty]
    · intro hno
      simp only [html2domOp, if_neg hf, if_neg ht]
    · intro v l hl hty hlay hne
      simp [html2domOp, hf, ht, hl, hty, hlay, hne]

/-- non-vacuity (convertHtmlNode2Dom): `<div id="x">hi<p>a</p><!-- c --><p class="k"> </p><b>t</b> bye </div>`
    gives Attrs {id: x}, Value " bye " (the last text, untrimmed), `p` a list of two containers in
    document order, `b` a regular child. -/
theorem nonvacuous_html :
    convert [] (.elem "div" [("id", "x")]
      [.text "hi", .elem "p" [] [.text "a"], .other, .elem "p" [("class", "k")] [.text " "],
       .elem "b" [] [.text "t"], .text " bye "]) =
    [("div", .cont [
      ("Attrs", .cont [("id", .leaf ⟨"string", "x"⟩)]),
      ("Value", .leaf ⟨"string", " bye "⟩),
      ("b", .cont [("Value", .leaf ⟨"string", "t"⟩)]),
      ("p", .list [.cont [("Value", .leaf ⟨"string", "a"⟩)],
                   .cont [("Attrs", .cont [("class", .leaf ⟨"string", "k"⟩)])]])])] := by
  decide

/-- the names the layout writes are the package constants of pipeline/html2dom.go (regenerated
    from the source on every run) -/
theorem html_constants_match_source :
    Generated.consts.lookup "pipeline.AttributeNode" = some "Attrs" ∧
    Generated.consts.lookup "pipeline.ValueNode" = some "Value" ∧
    Generated.consts.lookup "pipeline.Html2DomLayoutDefault" = some "default" := by
  decide

/-! ### (*ValOrRef).UnmarshalYAML, (*AnyVal).UnmarshalYAML — pipeline/types.go -/

/-- ValOrRef.UnmarshalYAML on a fresh value: the result is exactly one of the two — a reference
    (from a mapping whose `ref` is a string; no value) or an immediate value (from a scalar: its
    text; no reference). -/
theorem valOrRef_decodes_to_exactly_one (y : YIn) (v : ValOrRef) (h : vorUnmarshal vorZero y = .ok v) :
    (v.isRef = true ∧ v.val = "" ∧ y = .mapping (.str v.ref)) ∨
    (v.isRef = false ∧ v.ref = "" ∧ y = .scalar v.val) := by
  cases y with
  | scalar t => simp only [vorUnmarshal] at h; cases h; exact Or.inr ⟨rfl, rfl, rfl⟩
  | mapping r =>
    cases r with
    | absent => cases h
    | str s => simp only [vorUnmarshal] at h; cases h; exact Or.inl ⟨rfl, rfl, rfl⟩
    | nonString => cases h
  | otherKind => cases h

/-- ValOrRef.UnmarshalYAML, outcome by node kind: a mapping without `ref`, a sequence or any
    other kind is an error; a mapping whose `ref` is not a string PANICS (`x.(string)`); a scalar
    and a mapping with a string `ref` succeed — whatever state the receiver is in. -/
theorem valOrRef_outcomes (pv : ValOrRef) :
    vorUnmarshal pv (.mapping .absent) = .err ∧ vorUnmarshal pv .otherKind = .err ∧
    vorUnmarshal pv (.mapping .nonString) = .panic ∧
    (∀ s, vorUnmarshal pv (.mapping (.str s)) = .ok ⟨true, s, pv.val⟩) ∧
    (∀ t, vorUnmarshal pv (.scalar t) = .ok ⟨pv.isRef, pv.ref, t⟩) :=
  ⟨rfl, rfl, rfl, fun _ => rfl, fun _ => rfl⟩

/-- ValOrRef.UnmarshalYAML on a used receiver: once a reference, always a reference (a scalar
    decoded afterwards sets Val and leaves isRef and Ref alone). -/
theorem valOrRef_reference_is_sticky (pv v : ValOrRef) (y : YIn) (h : vorUnmarshal pv y = .ok v)
    (hr : pv.isRef = true) : v.isRef = true := by
  cases y with
  | scalar t => simp only [vorUnmarshal] at h; cases h; exact hr
  | mapping r =>
    cases r with
    | absent => cases h
    | str s => simp only [vorUnmarshal] at h; cases h; rfl
    | nonString => cases h
  | otherKind => cases h

/-- ValOrRef has no MarshalYAML; what yaml.v3 writes through reflection (the exported fields
    `ref` and `val`) decodes back to the same value exactly for references without a value: an
    immediate value comes back as a reference to its (empty) Ref. -/
theorem valOrRef_default_marshal_roundtrip_iff (v : ValOrRef) :
    vorUnmarshal vorZero (vorMarshalDefault v) = .ok v ↔ v.isRef = true ∧ v.val = "" := by
  obtain ⟨r, f, s⟩ := v
  simp only [vorMarshalDefault, vorUnmarshal, vorZero]
  constructor
  · intro h; cases h; exact ⟨rfl, rfl⟩
  · rintro ⟨h1, h2⟩
    change r = true at h1
    change s = "" at h2
    subst h1; subst h2; rfl

/-- AnyVal.UnmarshalYAML: the value has the kind of the YAML node — a scalar gives a string
    leaf holding its text, a sequence a list of the same length, a mapping a container. -/
theorem anyVal_kind (n : YNode) :
    (∀ s, n = .scalar s → anyValUnmarshal n = .leaf ⟨"string", s⟩) ∧
    (∀ xs, n = .seq xs → ∃ ys, anyValUnmarshal n = .list ys ∧ ys.length = xs.length) ∧
    (∀ kvs, n = .map kvs → ∃ c, anyValUnmarshal n = .cont c) := by
  refine ⟨?_, ?_, ?_⟩
  · rintro s rfl; simp [anyValUnmarshal, decodeYamlNode]
  · rintro xs rfl
    refine ⟨decodeYamlSeq xs, by simp [anyValUnmarshal, decodeYamlNode], ?_⟩
    induction xs with
    | nil => simp [decodeYamlSeq]
    | cons x xs ih => simp [decodeYamlSeq, ih]
  · rintro kvs rfl; exact ⟨decodeYamlMap kvs [], by simp [anyValUnmarshal, decodeYamlNode]⟩

end opsExt

end Ytk.C13
