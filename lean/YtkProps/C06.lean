/-
  C06 — Overlay layers: ordered, isolated, first-hit lookup, last-wins merged view.

  State `Overlay` = the layers in creation order; a history is a list of `Op`s
  (`put` / `add` / `populate`), `run s ops` executes it and is `.ok` exactly when no step
  panics (the property's domain: no write descends through an existing scalar, nor by a key
  step through an existing list).  "Layer snapshots are deep copies that later writes do not
  affect" has no counterpart in the value model (`layers` returns values); it is carried by
  the harness, which re-reads every `Layers()` snapshot at the end of the history.
-/
import YtkProofs.Overlay

namespace Ytk.C06
open Ytk.Overlay

/-! ### layer names: order of first write -/

/-- After any history the layer names are the layers written to, in order of first write
    (`writesLayer` is `none` exactly for a Put of a leafless container, which writes nothing). -/
theorem layerNames_run (ops : List Op) (s : Overlay) (h : run [] ops = .ok s) :
    layerNames s = (ops.filterMap writesLayer).eraseDups := by
  rw [run_names ops h, foldl_ensureName_eq]
  have hf : ∀ (xs : List String), xs.filter (fun _ => true) = xs := fun xs => List.filter_eq_self.mpr (by simp)
  simp [layerNames, hf]

/-- invariant: layer names are duplicate-free after every history -/
theorem layerNames_nodup (ops : List Op) (s : Overlay) (h : run [] ops = .ok s) : (layerNames s).Nodup := by
  rw [run_names ops h]
  exact nodup_foldl_ensureName _ _ (by simp [layerNames])

/-- a Put of a leafless container changes nothing at all -/
theorem put_leafless (s : Overlay) (l path : String) (kvs : AMap Node) (h : flattenMap kvs = []) :
    put s l path (.cont kvs) = .ok s := by
  simp [put, h, putLeaves]

/-! ### isolation: a write to one layer is invisible in every other layer -/

theorem layer_isolated (s s' : Overlay) (op : Op) (l : String) (hl : l ≠ op.target)
    (h : step s op = .ok s') : layer s' l = layer s l := by
  have := step_effect h
  cases hw : writesLayer op with
  | none => simp only [hw] at this; rw [this]
  | some l' =>
    simp only [hw] at this
    obtain ⟨e, t⟩ := this
    exact t.2 l (by rw [e]; exact hl)

theorem lookup_isolated (s s' : Overlay) (op : Op) (l path : String) (hl : l ≠ op.target)
    (h : step s op = .ok s') : Overlay.lookup s' l path = Overlay.lookup s l path := by
  rw [lookup_eq, lookup_eq, layer_isolated s s' op l hl h]

/-- a per-layer lookup is the document lookup in that layer's content, nothing else -/
theorem lookup_spec (s : Overlay) (l path : String) :
    Overlay.lookup s l path = (layer s l).bind fun c => Ytk.lookup c path := lookup_eq s l path

/-- per-layer refinement: after any history, the content of layer `l` is what a standalone
    document (starting empty) holds after exactly the steps of the history that name `l`
    (`runDoc` / `stepDoc`: the same edits with the layer name ignored) -/
theorem layer_refinement (ops : List Op) (s : Overlay) (l : String) (h : run [] ops = .ok s) :
    runDoc [] (ops.filter fun op => op.target == l) = .ok (layerOrEmpty s l) := by
  have := run_doc l ops h
  simpa [layerOrEmpty, layer] using this

/-! ### LookupAny: the hit from the earliest layer that has one -/

theorem lookupAny_spec (s : Overlay) (path : String) (n : Node) :
    lookupAny s path = some n ↔
      ∃ i, ∃ h : i < (layerNames s).length, Overlay.lookup s (layerNames s)[i] path = some n ∧
        ∀ j, ∀ hj : j < i, Overlay.lookup s ((layerNames s)[j]'(Nat.lt_trans hj h)) path = none := by
  unfold lookupAny
  rw [List.findSome?_eq_some_iff]
  constructor
  · rintro ⟨l₁, a, l₂, e, ha, hnone⟩
    have hlen : l₁.length < (layerNames s).length := by rw [e]; simp
    refine ⟨l₁.length, hlen, ?_, ?_⟩
    · have : (layerNames s)[l₁.length] = a := by simp [e]
      rw [this]; exact ha
    · intro j hj
      have : (layerNames s)[j]'(Nat.lt_trans hj hlen) = l₁[j] := by simp [e, List.getElem_append_left hj]
      rw [this]
      exact hnone _ (List.getElem_mem hj)
  · rintro ⟨i, hi, hhit, hnone⟩
    refine ⟨(layerNames s).take i, (layerNames s)[i], (layerNames s).drop (i + 1), ?_, hhit, ?_⟩
    · simp
    · intro x hx
      obtain ⟨j, hj, rfl⟩ := List.getElem_of_mem hx
      have hji : j < i := by simp at hj; omega
      have := hnone j hji
      simpa using this

theorem lookupAny_none (s : Overlay) (path : String) :
    lookupAny s path = none ↔ ∀ l, Overlay.lookup s l path = none := by
  unfold lookupAny
  rw [List.findSome?_eq_none_iff]
  constructor
  · intro h l
    by_cases hl : l ∈ layerNames s
    · exact h l hl
    · exact lookup_none_of_not_mem s hl path
  · intro h l _
    exact h l

/-! ### Search: per-layer matches, layers in order -/

/-- the matching positions are the concatenation, in layer order, of each layer's own
    `Search` result tagged with the layer name -/
theorem search_spec (f : Scalar → Bool) (s : Overlay) :
    Overlay.search f s = s.flatMap fun q => (Ytk.search f q.2).map fun path => (q.1, path) := rfl

/-- the same by layer names, as the code iterates (`names` is duplicate-free: `layerNames_nodup`) -/
theorem search_by_layer_names (f : Scalar → Bool) (s : Overlay) (h : (layerNames s).Nodup) :
    Overlay.search f s =
      (layerNames s).flatMap fun l => (Ytk.search f (layerOrEmpty s l)).map fun path => (l, path) :=
  search_by_names f s h

/-- …and a layer's own result is exactly the flattened paths whose leaf satisfies `f` -/
theorem search_layer_spec (f : Scalar → Bool) (c : AMap Node) :
    Ytk.search f c = ((flattenMap c).filter fun p => f p.2).map (·.1) := rfl

/-! ### Walk: all (layer, path, leaf) triples in layer order, until the visitor says stop -/

/-- Walk is the early-exit fold of the visitor over the per-layer flattened triples, layers in
    creation order: it visits the longest prefix of `triples s` up to and including the first
    triple on which the visitor returns `false` (within a layer the model lists the triples in
    key order where Go uses map order). -/
theorem walk_spec {σ : Type} (fn : σ → String → String → Scalar → σ × Bool) (s : Overlay) (st : σ) :
    walk fn s st = foldUntil fn (triples s) st := walk_eq fn s st

/-- a visitor that never stops sees every triple exactly once, in that order -/
theorem walk_full {σ : Type} (fn : σ → String → String → Scalar → σ × Bool)
    (h : ∀ st l p v, (fn st l p v).2 = true) (s : Overlay) (st : σ) :
    walk fn s st = ((triples s).foldl (fun st t => (fn st t.1 t.2.1 t.2.2).1) st, true) := by
  rw [walk_eq, foldUntil_all fn h]

/-- the triples are the per-layer flattened views -/
theorem triples_spec (s : Overlay) :
    triples s = s.flatMap fun q => (flatten q.2).map fun pv => (q.1, pv.1, pv.2) := rfl

/- TODO (stated in DESIGN.md section 6 C06, not proved here): the relational variant of
   `walk_spec` / `search_spec` — when every container is traversed in an arbitrary permutation
   of its keys (Go map order) the visited triples of each layer are a permutation of
   `tag l (flatten c)` and layers still come in creation order.  The executable model fixes key
   order; the harness compares per-layer sorted (complete layers) and checks subset / no
   duplicates / count for the layer in which an early stop happened. -/

/-! ### merged view and serialisation -/

/-- the merged view is the fold of merge over the layers in creation order (later layers win) -/
theorem merged_spec (o : ListStrategy) (s : Overlay) :
    merged o s = s.foldl (fun acc p => mergeC o acc p.2) [] := by
  simp [merged, mergeAll, mergeC, List.foldl_map]

/-- serialising the overlay serialises the (default-strategy) merged view -/
theorem serialize_spec {β : Type} (enc : AMap Node → β) (s : Overlay) :
    serialize enc s = enc (merged .meld s) := rfl

/-! ### non-vacuity -/

def i (n : String) : Node := .leaf ⟨"int", n⟩

def exOps : List Op :=
  [.put "top" "a" (.cont [("x", .cont []), ("l", .list [])]),     -- leafless: no layer
   .put "base" "a.b" (i "1"),
   .put "top" "a.b" (i "2"),
   .add "env" [("a", .cont [("b", Node.null)])],
   .populate "base" "a" [("c", i "4")],
   .put "env" "q" (.cont [("r", .cont [("s", i "6")]), ("t", i "5")])]

def exState : Overlay :=
  [("base", [("a", .cont [("b", i "1"), ("c", i "4")])]),
   ("top", [("a", .cont [("b", i "2")])]),
   ("env", [("a", .cont [("b", Node.null)]), ("q", .cont [("r", .cont [("s", i "6")]), ("t", i "5")])])]

theorem nonvacuous_run : run [] exOps = .ok exState := by decide

/-- list items written out of order: the second write goes through the padding slot -/
theorem nonvacuous_padding :
    run [] [.put "base" "l[1].x" (i "1")] = .ok [("base", [("l", .list [Node.null, .cont [("x", i "1")]])])] := by
  decide +kernel

theorem nonvacuous_names : layerNames exState = ["base", "top", "env"] := by decide

/-- first layer wins for LookupAny, last non-null wins in the merged view -/
theorem nonvacuous_precedence :
    lookupAny exState "a.b" = some (i "1") ∧ Ytk.lookup (merged .meld exState) "a.b" = some (i "2") := by
  decide

theorem nonvacuous_panic : (run [] [.put "base" "a" (i "1"), .put "base" "a.b" (i "2")]).isPanic = true := by
  decide

end Ytk.C06
