/-
  C06 — Overlay layers: ordered, isolated, first-hit lookup, last-wins merged view.
-/
import YtkModel.Overlay

namespace Ytk.C06
open Ytk.Overlay

/-- the merged view is the fold of merge over the layers in creation order -/
theorem merged_spec (o : ListStrategy) (s : Overlay) :
    merged o s = s.foldl (fun acc p => mergeC o acc p.2) [] := by
  simp [merged, mergeAll, mergeC, List.foldl_map]

end Ytk.C06
